(* Model of the list bookkeeping behind the editing API (as repaired): Shelxfile._insert_into_reslist (add_line, insert_anis,
   restore_acta_card), Shelxfile._delete_from_reslist (Atoms.__delitem__, Atom.delete, remove_acta_card), in-place changes of an
   object's text (Command.set, LSCycles.number, WGHT attributes, Atom.name / element / to_isotropic, replace_line), and
   Shelxfile.index_of (search for the very object).  The state is the stored list plus the set of absolute positions that are
   skipped on writing (delete_on_write). *)
From SX Require Import Base.Prelude Base.Str Model.Wrap Model.Writer.
Local Open Scope nat_scope.

Record est := { e_items : list item; e_del : list nat }.

Definition insert_at {A} (k : nat) (x : A) (l : list A) : list A := firstn k l ++ x :: skipn k l.
Definition remove_at {A} (k : nat) (l : list A) : list A := firstn k l ++ skipn (S k) l.
Definition replace_at {A} (k : nat) (x : A) (l : list A) : list A := firstn k l ++ x :: skipn (S k) l.

Definition shift_up (k i : nat) : nat := if k <=? i then S i else i.
Definition shift_down (k i : nat) : nat := if k <? i then pred i else i.

Definition ins (k : nat) (it : item) (s : est) : est :=
  {| e_items := insert_at k it (e_items s); e_del := map (shift_up k) (e_del s) |}.
Definition del (k : nat) (s : est) : est :=
  {| e_items := remove_at k (e_items s); e_del := map (shift_down k) (filter (fun i => negb (i =? k)) (e_del s)) |}.
Definition upd (k : nat) (it : item) (s : est) : est :=
  {| e_items := replace_at k it (e_items s); e_del := e_del s |}.

Inductive op := OIns (k : nat) (it : item) | ODel (k : nat) | OUpd (k : nat) (it : item).
Definition apply (s : est) (o : op) : est :=
  match o with OIns k it => ins k it s | ODel k => del k s | OUpd k it => upd k it s end.
Definition op_valid (n : nat) (o : op) : bool :=
  match o with OIns k _ => k <=? n | ODel k => k <? n | OUpd k _ => k <? n end.
Definition written (s : est) : list str := write_file (e_del s) (e_items s).

(* objects carry an identity; index_of looks for that identity *)
Fixpoint index_of_id (x : nat) (ids : list nat) : option nat :=
  match ids with
  | [] => None
  | y :: r => if x =? y then Some 0 else option_map S (index_of_id x r)
  end.
