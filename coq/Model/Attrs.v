(* Model of the positional unpacking of numeric parameters into named attributes in the instruction classes of
   shelxfile/shelx/cards.py (as repaired), of the DEFS-dependent restraint defaults, and of the L.S./CGLS setter. *)
From SX Require Import Base.Str.
From Coq Require Import QArith.

(* the common pattern "if len(p) > i: self.attr_i = p[i]" over a list of defaults (None = no value / not given) *)
Fixpoint unpack (defaults : list (option Q)) (p : list Q) : list (option Q) :=
  match defaults with
  | [] => []
  | d :: ds => match p with
               | [] => d :: unpack ds []
               | x :: r => Some x :: unpack ds r
               end
  end.

(* Command.set(text) runs __init__ again ON THE SAME OBJECT.  A constructor that only assigns the parameters that are given
   ("if len(p) > i: self.attr_i = p[i]", no defaults in front) leaves the attributes of the OLD instruction where the new one gives
   none - the defect of ABIN, GRID, ANIS, MPLA and PRIG before acab8f4 / 1f47983: *)
Fixpoint assign_given (old : list (option Q)) (p : list Q) : list (option Q) :=
  match old with
  | [] => []
  | o :: os => match p with
               | [] => o :: assign_given os []
               | x :: r => Some x :: assign_given os r
               end
  end.
(* as repaired: the attributes are first set to their defaults ("not given" = None), then the given ones assigned *)
Definition set_again (defaults old : list (option Q)) (p : list Q) : list (option Q) := assign_given defaults p.

(* HKLF N[0] S[1] r11..r33[1 0 0 0 1 0 0 0 1] sm[1] m[0] :
   n = p[0], s = p[1], matrix = p[2:11] if len(p) > 10, sm = p[11] if len(p) > 11, m = p[12] if len(p) > 12 *)
Definition slice (l : list Q) (a b : nat) : list Q := firstn (b - a) (skipn a l).
Record hklf_attrs := { hk_n : Q; hk_s : Q; hk_matrix : list Q; hk_sm : Q; hk_m : Q }.
Definition hklf (p : list Q) : hklf_attrs :=
  {| hk_n := nth 0 p 0; hk_s := if (1 <? length p)%nat then nth 1 p 0 else 1;
     hk_matrix := if (10 <? length p)%nat then slice p 2 11 else [1; 0; 0; 0; 1; 0; 0; 0; 1];
     hk_sm := if (11 <? length p)%nat then nth 11 p 0 else 1;
     hk_m := if (12 <? length p)%nat then nth 12 p 0 else 0 |}.

(* TWIN 3x3 matrix [-1 0 0 0 -1 0 0 0 -1] N[2] *)
Definition twin (p : list Q) : list Q * Q :=
  if Nat.eqb (length p) 9 then (p, 2)
  else if Nat.eqb (length p) 10 then (firstn 9 p, nth 9 p 0)
  else ([-1; 0; 0; 0; -1; 0; 0; 0; -1], 2).

(* ZERR Z esd(a) esd(b) esd(c) esd(al) esd(be) esd(ga) *)
Definition zerr (p : list Q) : Q * list Q := (nth 0 p 1, if (6 <? length p)%nat then slice p 1 7 else []).

(* restraint defaults under DEFS sd sf su ss (Restraint._set_defs_values): returns the default standard deviations *)
Record defs := { sd : Q; sf : Q; su : Q; ss : Q }.
Definition defs0 : defs := {| sd := 2 # 100; sf := 1 # 10; su := 1 # 100; ss := 4 # 100 |}.
Definition restraint_defaults (kw : string) (d : option defs) : list (option Q) :=
  match kw, d with
  | "DFIX", Some d => [None; Some (sd d)]
  | "DFIX", None => [None; Some (2 # 100)]
  | "DANG", _ => [None; Some (4 # 100)]
  | "SADI", Some d => [Some (sd d)]
  | "SADI", None => [Some (2 # 100)]
  | "SAME", Some d => [Some (sd d); Some (sd d * 2)]
  | "SAME", None => [Some (2 # 100); Some (4 # 100)]
  | "CHIV", Some d => [Some 0; Some (sf d)]
  | "CHIV", None => [Some 0; Some (1 # 10)]
  | "FLAT", Some d => [Some (sf d)]
  | "FLAT", None => [Some (1 # 10)]
  | "DELU", Some d => [Some (su d); Some (su d)]
  | "DELU", None => [Some (1 # 100); Some (1 # 100)]
  | "SIMU", Some d => [Some (ss d); Some (ss d * 2); Some 2]
  | "SIMU", None => [Some (4 # 100); Some (8 # 100); Some 2]
  | "ISOR", _ => [Some (1 # 10); Some (2 # 10)]
  | "RIGU", _ => [Some (4 # 1000); Some (4 # 1000)]
  | "NCSY", _ => [None; Some (1 # 10); Some (5 # 100)]
  | _, _ => []
  end%string.

(* L.S. / CGLS : fields nls, nrf, nextra ('' when not given = None); _as_str and re-initialisation *)
Record ls := { ls_n : Z; ls_nrf : option Z; ls_nextra : option Z }.
Definition ls_parse (p : list Z) : ls :=
  {| ls_n := nth 0 p 0%Z; ls_nrf := nth_error p 1; ls_nextra := nth_error p 2 |}.
(* _as_str prints nrf when it is non-zero or when nextra follows, nextra when given *)
Definition ls_tokens (l : ls) : list Z :=
  ls_n l :: match ls_nrf l, ls_nextra l with
            | _, Some e => match ls_nrf l with Some r => r | None => 0%Z end :: [e]
            | Some r, None => if Z.eqb r 0 then [] else [r]
            | None, None => []
            end.
Definition ls_set_number (l : ls) (n : Z) : ls :=
  ls_parse (ls_tokens {| ls_n := n; ls_nrf := ls_nrf l; ls_nextra := ls_nextra l |}).
(* what the instruction denotes: omitted fields are their documented default 0 *)
Definition ls_denote (l : ls) : Z * Z * Z :=
  (ls_n l, match ls_nrf l with Some r => r | None => 0%Z end, match ls_nextra l with Some e => e | None => 0%Z end).
