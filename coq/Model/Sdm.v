(* Model of shelxfile/shelx/sdm.py: SDM.calc_sdm (per-pair minimum search over the operator list, bond rule),
   calc_molindex, collect_needed_symmetry, packer (grow).  Generic over the numeric interface Ops:
   instantiated with reals for the theorems (Proofs/SdmProofs.v) and with primitive floats for mirrored
   execution against the implementation (harness/props/c13.py, c14.py).  The metric constants
   (a^2, b^2, c^2, ab cos(gamma), ac cos(beta), bc cos(alpha)) are inputs: the formula that produces the
   length from them is the traced kernel k_vector_length (Tie A). *)
From Coq Require Import ZArith List Bool.
From SX Require Import Base.Num.
Import ListNotations.

Section Sdm.
  Context {T : Type} (O : Ops T).
  Notation "x + y" := (o_add O x y). Notation "x - y" := (o_sub O x y). Notation "x * y" := (o_mul O x y).
  Definition cst (n : Z) (d : positive) : T := o_const O n d.
  Definition ltb (x y : T) : bool := o_ltb O x y.

  Record metric := { m_asq : T; m_bsq : T; m_csq : T; m_aga : T; m_bbe : T; m_cal : T }.
  Record satom := { sa_x : T; sa_y : T; sa_z : T; sa_h : bool; sa_part : Z; sa_radius : T; sa_qpeak : bool; sa_an : Z }.
  (* operator: rows l_i = coefficients of x y z in component i, and translation *)
  Record sop := { l00 : T; l01 : T; l02 : T; l10 : T; l11 : T; l12 : T; l20 : T; l21 : T; l22 : T; t0 : T; t1 : T; t2 : T }.

  (* SDM.vector_length *)
  Definition vlen (m : metric) (x y z : T) : T :=
    let A := cst 2 1 * (x * y * m_aga m + x * z * m_bbe m + y * z * m_cal m) in
    o_sqrt O (x * x * m_asq m + y * y * m_bsq m + z * z * m_csq m + A).

  (* Array(frac) * symop.matrix + symop.trans *)
  Definition apply (s : sop) (x y z : T) : T * T * T :=
    (x * l00 s + y * l01 s + z * l02 s + t0 s, x * l10 s + y * l11 s + z * l12 s + t1 s, x * l20 s + y * l21 s + z * l22 s + t2 s).

  Definition half := cst 1 2.
  (* D = prime - x2 + 0.5 ; floor ; dp = D - floor(D) - 0.5 *)
  Definition wrap1 (d : T) : T * T := let D := d + half in let f := o_floor O D in (f, D - f - half).

  (* one candidate: (floor vector, wrapped difference vector length) *)
  Definition candidate (m : metric) (s : sop) (a1 a2 : satom) : (T * T * T) * T :=
    let '(px, py, pz) := apply s (sa_x a1) (sa_y a1) (sa_z a1) in
    let '(fx, wx) := wrap1 (px - sa_x a2) in
    let '(fy, wy) := wrap1 (py - sa_y a2) in
    let '(fz, wz) := wrap1 (pz - sa_z a2) in
    ((fx, fy, fz), vlen m wx wy wz).

  (* the loop over operators of calc_sdm for one ordered pair: state = (mind, best (dist, n)) *)
  (* same = "a1 and a2 are the same atom of the list" (i == j in calc_sdm): only then a distance of (nearly) zero is the atom's own
     image and is skipped; two different atoms on one site (a shared site) are a contact of length zero (as repaired) *)
  Definition sdm_step (m : metric) (same : bool) (a1 a2 : satom) (st : T * option (T * nat)) (ns : nat * sop) : T * option (T * nat) :=
    let '(mind, best) := st in
    let '(n, s) := ns in
    let dk := snd (candidate m s a1 a2) in
    if ltb (cst 53 10) dk then st
    else let dk' := match n with 0%nat => dk | _ => dk + cst 1 10000 end in
         if (ltb (cst 1 100) dk' || negb same) && negb (ltb mind dk') then (dk', Some (dk', n)) else st.

  Fixpoint number_from {A} (i : nat) (l : list A) : list (nat * A) :=
    match l with [] => [] | x :: r => (i, x) :: number_from (S i) r end.

  Definition pair_min (m : metric) (ops : list sop) (same : bool) (a1 a2 : satom) : option (T * nat) :=
    snd (fold_left (sdm_step m same a1 a2) (number_from 0 ops) (cst 1000000 1, None)).

  (* bond criterion of calc_sdm *)
  Definition bond_limit (a1 a2 : satom) : T :=
    if (negb (sa_h a1) && negb (sa_h a2) && Z.eqb (sa_part a1 * sa_part a2) 0) || Z.eqb (sa_part a1) (sa_part a2)
    then (sa_radius a1 + sa_radius a2) * cst 12 10 else cst 0 1.

  Record sitem := { it_a1 : nat; it_a2 : nat; it_dist : T; it_n : nat; it_cov : bool }.

  Definition pair_item (m : metric) (ops : list sop) (i j : nat) (a1 a2 : satom) : option sitem :=
    match pair_min m ops (Nat.eqb i j) a1 a2 with
    | None => None
    | Some (d, n) => Some {| it_a1 := i; it_a2 := j; it_dist := d; it_n := n; it_cov := ltb d (bond_limit a1 a2) |}
    end.

  Fixpoint omap {A B} (f : A -> option B) (l : list A) : list B :=
    match l with [] => [] | x :: r => match f x with Some y => y :: omap f r | None => omap f r end end.

  (* the unsorted item list (the implementation sorts it by distance afterwards) *)
  Definition sdm_items (m : metric) (ops : list sop) (atoms : list satom) : list sitem :=
    flat_map (fun ia => omap (fun ja => pair_item m ops (fst ia) (fst ja) (snd ia) (snd ja)) (number_from 0 atoms))
             (number_from 0 atoms).

  (* self.sdm_list.sort(): stable, by distance (SDMItem.__lt__) *)
  Fixpoint insert_item (it : sitem) (l : list sitem) : list sitem :=
    match l with
    | [] => [it]
    | x :: r => if ltb (it_dist it) (it_dist x) then it :: x :: r else x :: insert_item it r
    end.
  Definition sort_items (l : list sitem) : list sitem := fold_left (fun acc it => insert_item it acc) l [].
  Definition sdm_list (m : metric) (ops : list sop) (atoms : list satom) : list sitem := sort_items (sdm_items m ops atoms).

  (* ---- calc_molindex ---- *)
  Definition get_idx (idx : list Z) (i : nat) : Z := nth i idx (-1)%Z.
  Fixpoint set_idx (idx : list Z) (i : nat) (v : Z) : list Z :=
    match idx, i with
    | [], _ => []
    | _ :: r, 0%nat => v :: r
    | x :: r, S k => x :: set_idx r k v
    end.

  Definition mol_pass (items : list sitem) (maxmol : Z) (idx : list Z) : list Z * bool :=
    fold_left (fun st it =>
                 let '(idx, ch) := st in
                 if it_cov it && Z.ltb (get_idx idx (it_a1 it) * get_idx idx (it_a2 it)) 0
                 then (set_idx (set_idx idx (it_a1 it) maxmol) (it_a2 it) maxmol, true) else st)
              items (idx, false).

  Fixpoint mol_spread (fuel : nat) (items : list sitem) (maxmol : Z) (idx : list Z) : list Z :=
    match fuel with
    | 0%nat => idx
    | S f => let '(idx', ch) := mol_pass items maxmol idx in if ch then mol_spread f items maxmol idx' else idx'
    end.

  Fixpoint first_free (atoms : list satom) (idx : list Z) (i : nat) : option nat :=
    match atoms, idx with
    | a :: ra, x :: rx => if Z.ltb x 0 then Some i else first_free ra rx (S i)
    | _, _ => None
    end.

  Fixpoint mol_outer (fuel : nat) (items : list sitem) (atoms : list satom) (maxmol : Z) (idx : list Z) : list Z * Z :=
    match fuel with
    | 0%nat => (idx, maxmol)
    | S f =>
      let idx1 := mol_spread (S (length atoms)) items maxmol idx in
      match first_free atoms idx1 0 with
      | Some (S k) => mol_outer f items atoms (maxmol + 1) (set_idx idx1 (S k) (maxmol + 1))
      | _ => (idx1, maxmol)
      end
    end.

  Definition molindex (items : list sitem) (atoms : list satom) : list Z :=
    match atoms with
    | [] => []
    | _ => fst (mol_outer (S (length atoms)) items atoms 1 (set_idx (map (fun _ => (-1)%Z) atoms) 0 1))
    end.

  (* ---- collect_needed_symmetry ---- *)
  Definition eq0 (x : T) : bool := o_eqb O x (cst 0 1).
  Record need := { nd_n : nat; nd_fx : T; nd_fy : T; nd_fz : T; nd_mol : Z }.
  Definition need_eqb (a b : need) : bool :=
    Nat.eqb (nd_n a) (nd_n b) && o_eqb O (nd_fx a) (nd_fx b) && o_eqb O (nd_fy a) (nd_fy b) && o_eqb O (nd_fz a) (nd_fz b)
    && Z.eqb (nd_mol a) (nd_mol b).

  Definition need_of_item (m : metric) (ops : list sop) (atoms : list satom) (idx : list Z)
             (acc : list need) (it : sitem) : list need :=
    if negb (it_cov it) then acc else
    let mi := get_idx idx (it_a1 it) in
    if Z.ltb mi 1 then acc else
    match nth_error atoms (it_a1 it), nth_error atoms (it_a2 it) with
    | Some a1, Some a2 =>
      fold_left (fun acc ns =>
        let '(n, s) := ns in
        if negb (Z.eqb (sa_part a1) 0) && negb (Z.eqb (sa_part a2) 0) && negb (Z.eqb (sa_part a1) (sa_part a2)) then acc
        else if Z.eqb (sa_an a1) (sa_an a2) && sa_h a1 then acc
        else
          let '((fx, fy, fz), dk) := candidate m s a1 a2 in
          if Nat.eqb n 0 && eq0 fx && eq0 fy && eq0 fz then acc
          else
            let dddd := if sa_h a1 && sa_h a2 then cst 18 10 else bond_limit a1 a2 in
            if ltb (cst 1 1000) dk && negb (ltb dddd dk) then
              let bs := {| nd_n := n; nd_fx := fx; nd_fy := fy; nd_fz := fz; nd_mol := mi |} in
              if existsb (need_eqb bs) acc then acc else acc ++ [bs]
            else acc) (number_from 0 ops) acc
    | _, _ => acc
    end.

  Definition needed_symmetry (m : metric) (ops : list sop) (atoms : list satom) (items : list sitem) (idx : list Z) : list need :=
    fold_left (need_of_item m ops atoms idx) items [].

  (* ---- packer: returns the appended atoms as (source atom index, operator number, x, y, z) ---- *)
  Record grown := { g_src : nat; g_n : nat; g_x : T; g_y : T; g_z : T; g_part : Z }.

  Definition pack_one (m : metric) (ops : list sop) (with_q : bool) (idx : list Z) (nd : need)
             (st : list (Z * (T * T * T)) * list grown) (ia : nat * satom) : list (Z * (T * T * T)) * list grown :=
    let '(shown, out) := st in
    let '(i, a) := ia in
    if (negb with_q && sa_qpeak a) || negb (Z.eqb (get_idx idx i) (nd_mol nd)) || sa_qpeak a then st else
    match nth_error ops (nd_n nd) with
    | None => st
    | Some s =>
      let '(px, py, pz) := apply s (sa_x a) (sa_y a) (sa_z a) in
      (* h = (5 - floor) - 5 *)
      let h := cst 5 1 - nd_fx nd - cst 5 1 in let k := cst 5 1 - nd_fy nd - cst 5 1 in let l := cst 5 1 - nd_fz nd - cst 5 1 in
      let nx := px + h in let ny := py + k in let nz := pz + l in
      let there := Z.leb 0 (sa_part a) &&
                   existsb (fun sh => Z.eqb (fst sh) (sa_part a) &&
                                      let '(x, y, z) := snd sh in ltb (vlen m (nx - x) (ny - y) (nz - z)) (cst 2 10)) shown in
      if there then st
      else (shown ++ [(sa_part a, (nx, ny, nz))], out ++ [{| g_src := i; g_n := nd_n nd; g_x := nx; g_y := ny; g_z := nz; g_part := sa_part a |}])
    end.

  Definition packer (m : metric) (ops : list sop) (atoms : list satom) (idx : list Z) (needs : list need) (with_q : bool) : list grown :=
    let shown0 := omap (fun a => if sa_qpeak a then None else Some (sa_part a, (sa_x a, sa_y a, sa_z a))) atoms in
    snd (fold_left (fun st nd => fold_left (pack_one m ops with_q idx nd) (number_from 0 atoms) st) needs (shown0, [])).

  (* Shelxfile.grow() *)
  Definition grow (m : metric) (ops : list sop) (atoms : list satom) (with_q : bool) : list grown :=
    let items := sdm_list m ops atoms in
    let idx := molindex items atoms in
    packer m ops atoms idx (needed_symmetry m ops atoms items idx) with_q.
End Sdm.
