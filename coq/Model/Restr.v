(* Model of the restraint diagnostics (Shelxfile._assign_atoms_to_restraints, does_atom_exist,
   Residue.residue_number, Atoms.get_atom_by_name) as repaired.  Names and classes are upper-case strings. *)
From SX Require Import Base.Str.

Definition str_eqb (a b : str) : bool := if list_eq_dec Ascii.ascii_dec a b then true else false.

(* what the keyword carries after '_' *)
Inductive suffix := SNone | SNum (n : Z) | SClass (c : str) | SStar.
(* one item of the atom list of a restraint *)
Inductive ratom :=
| ARange                                  (* '<' or '>' *)
| AElem (e : str)                         (* $C : all atoms of an element *)
| AName (name : str) (own : option Z)     (* name, optionally name_n; a symmetry suffix _$k has been stripped *)
| AStar (name : str).                     (* name_* : the atom in every residue of the file (does_atom_exist, wildcard branch) *)

Record file_index := { fi_atoms : list (str * Z) (* (name, residue number) *); fi_residues : list (Z * str) (* RESI number, class *) }.

Definition has_atom (fi : file_index) (name : str) (num : Z) : bool :=
  existsb (fun a => str_eqb (fst a) name && Z.eqb (snd a) num) (fi_atoms fi).

(* Residue.residue_number *)
Definition residue_numbers (fi : file_index) (s : suffix) : list Z :=
  match s with
  | SNum n => [n]
  | SClass c => match map fst (filter (fun r => str_eqb (snd r) c) (fi_residues fi)) with [] => [0%Z] | l => l end
  | SStar => map fst (fi_residues fi)      (* as repaired: _* on the keyword addresses every residue of the file *)
  | SNone => [0%Z]
  end.
Definition has_class (s : suffix) : bool := match s with SClass _ => true | _ => false end.
Definition zsum (l : list Z) : Z := fold_left Z.add l 0%Z.

(* names reported for one atom item: (name, Some n) stands for the text name_n, (name, None) for the bare name *)
Definition report_atom (fi : file_index) (s : suffix) (a : ratom) : list (str * option Z) :=
  match a with
  | ARange | AElem _ => []
  | AName name (Some n) => if has_atom fi name n then [] else [(name, Some n)]
  | AName name None =>
    let nums := residue_numbers fi s in
    if has_class s || Z.ltb 0 (zsum nums)
    then map (fun n => (name, Some n)) (filter (fun n => negb (has_atom fi name n)) nums)
    else if has_atom fi name 0 then [] else [(name, None)]
  | AStar name => map (fun n => (name, Some n)) (filter (fun n => negb (has_atom fi name n)) (map fst (fi_residues fi)))
  end.

Definition reported (fi : file_index) (s : suffix) (atoms : list ratom) : list (str * option Z) :=
  flat_map (report_atom fi s) atoms.
