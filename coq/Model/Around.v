(* Model of Atom.find_atoms_around (atoms/atom.py:441-451): a filter over the atom list.
   The distance test, the identity test (Atom.__eq__) and the attributes are parameters. *)
From Coq Require Import List Bool ZArith.
Import ListNotations.

Section Around.
  Variable A : Type.
  Variables (close same qpeak : A -> bool) (part : A -> Z).
  Definition find_around (only_part : Z) (atoms : list A) : list A :=
    filter (fun y => close y && negb (same y) && Z.eqb (part y) only_part && negb (qpeak y)) atoms.

  Lemma find_around_spec only_part atoms x :
    In x (find_around only_part atoms) <->
    In x atoms /\ close x = true /\ same x = false /\ part x = only_part /\ qpeak x = false.
  Proof.
    unfold find_around. rewrite filter_In. rewrite !andb_true_iff, !negb_true_iff, Z.eqb_eq. tauto.
  Qed.

  Lemma find_around_nodup only_part atoms : NoDup atoms -> NoDup (find_around only_part atoms).
  Proof. apply NoDup_filter. Qed.
End Around.
