(* Model of dsrmath.SymmetryElement (_parse_line, _partition, _float, to_shelxl, __eq__, apply_latt_symm,
   inverted) — shelxfile/misc/dsrmath.py:413-575 — character by character; numbers are exact rationals.
   float() is modelled on the grammar [sign] digits [ '.' digits ] | [sign] '.' digits ; the eval() fall-back on
   [sign] digits '/' digits.  Any other translation text yields None ("outside the modelled grammar":
   the implementation raises or stores None there). *)
From SX Require Import Base.Str.
From Coq Require Import QArith Qabs Qround.

Definition ch (s : string) : ascii := match s with String c _ => c | EmptyString => " "%char end.
Definition cX := ch "X". Definition cY := ch "Y". Definition cZ := ch "Z".
Definition cPlus := ch "+". Definition cMinus := ch "-". Definition cDot := ch ".". Definition cSlash := ch "/".

(* symm.upper().replace(' ', '') *)
Definition normalize (s : str) : str := filter (fun c => negb (is_blank c)) (upper s).
Definition strip_plus (s : str) : str := filter (fun c => negb (Ascii.eqb c cPlus)) s.

(* SymmetryElement._partition *)
Definition sym_partition (s : str) (c : ascii) : Z * str :=
  let '(b, f, a) := partition c s in
  if f then
    match last_char b with
    | Some l => if Ascii.eqb l cMinus then ((-1)%Z, removelast b ++ a) else (1%Z, strip_plus (b ++ a))
    | None => (1%Z, strip_plus (b ++ a))
    end
  else (0%Z, s).

(* number denoted by digits ip '.' fp *)
Definition pow10 (n : nat) : positive := Nat.iter n (fun p => (p * 10)%positive) 1%positive.
Definition dec_value (ip fp : str) : Q :=
  (Z.of_N (digits_val ip * Npos (pow10 (length fp)) + digits_val fp) # pow10 (length fp)).

Definition split_sign (s : str) : bool * str :=
  match s with
  | c :: r => if Ascii.eqb c cMinus then (true, r) else if Ascii.eqb c cPlus then (false, r) else (false, s)
  | [] => (false, [])
  end.

(* float(string) on the modelled grammar *)
Definition py_float (s : str) : option Q :=
  let '(neg, body) := split_sign s in
  let '(ip, dot, fp) := partition cDot body in
  if all_digits ip && all_digits fp && negb (Nat.eqb (length ip + length fp) 0) then
    Some (if neg then - dec_value ip fp else dec_value ip fp)
  else None.

(* SymmetryElement._float *)
Definition sym_float (s : str) : option Q :=
  match py_float s with
  | Some q => Some q
  | None =>
    let '(neg, body) := split_sign s in
    let '(n, f, d) := partition cSlash body in
    if f && all_digits n && all_digits d && negb (Nat.eqb (length n) 0) && negb (Nat.eqb (length d) 0)
         && negb (N.eqb (digits_val d) 0) then
      let v := (Z.of_N (digits_val n) # 1) / (Z.of_N (digits_val d) # 1) in Some (if neg then - v else v)
    else None
  end.

(* SymmetryElement._parse_line: one component -> (coefficients of X Y Z, translation) *)
Definition parse_component (s : str) : option (Z * Z * Z * Q) :=
  let s0 := normalize s in
  let '(ex, s1) := sym_partition s0 cX in
  let '(ey, s2) := sym_partition s1 cY in
  let '(ez, s3) := sym_partition s2 cZ in
  match s3 with
  | [] => Some (ex, ey, ez, 0)
  | _ => match sym_float s3 with Some t => Some (ex, ey, ez, t) | None => None end
  end.

(* an operator: three components (row i = coefficients of X Y Z in component i) and translations *)
Record symop := { so_rows : list (Z * Z * Z); so_trans : list Q }.

Fixpoint opt_map {A B} (f : A -> option B) (l : list A) : option (list B) :=
  match l with
  | [] => Some []
  | x :: r => match f x, opt_map f r with Some y, Some ys => Some (y :: ys) | _, _ => None end
  end.

Definition neg_row (r : Z * Z * Z) : Z * Z * Z := let '(a, b, c) := r in ((- a)%Z, (- b)%Z, (- c)%Z).

(* SymmetryElement(symms, centric) *)
Definition parse_op (comps : list str) (centric : bool) : option symop :=
  match opt_map parse_component comps with
  | None => None
  | Some l =>
    let rows := map (fun x => fst x) l in
    let tr := map (fun x => snd x) l in
    Some (if centric then {| so_rows := map neg_row rows; so_trans := map Qopp tr |}
          else {| so_rows := rows; so_trans := tr |})
  end.

(* __eq__ after the repair: rotation parts equal entry by entry, translations equal modulo 1 within 1e-6 *)
Definition row_eqb (a b : Z * Z * Z) : bool :=
  let '(a1, a2, a3) := a in let '(b1, b2, b3) := b in Z.eqb a1 b1 && Z.eqb a2 b2 && Z.eqb a3 b3.
Definition qmod1 (x : Q) : Q := x - inject_Z (Qfloor x).
Definition tol : Q := 1 # 1000000.
Definition trans_close (a b : Q) : bool :=
  negb (Qle_bool tol (Qabs (qmod1 (a - b + (1 # 2)) - (1 # 2)))).
Fixpoint all2 {A} (f : A -> A -> bool) (l1 l2 : list A) : bool :=
  match l1, l2 with
  | x :: r1, y :: r2 => f x y && all2 f r1 r2
  | _, _ => true           (* zip stops at the shorter list *)
  end.
Definition op_eqb (a b : symop) : bool := all2 row_eqb (so_rows a) (so_rows b) && all2 trans_close (so_trans a) (so_trans b).

(* apply_latt_symm: same rotation, translations added (the centring operator is a pure translation) *)
Definition add_latt (s l : symop) : symop :=
  {| so_rows := so_rows s; so_trans := map (fun p => fst p + snd p) (combine (so_trans s) (so_trans l)) |}.
Definition inverted (s : symop) : symop := {| so_rows := map neg_row (so_rows s); so_trans := map Qopp (so_trans s) |}.
