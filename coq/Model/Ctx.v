(* Model of the running PART / AFIX / RESI context in Shelxfile._parse_cards and of the attributes an atom receives
   (Atom.parse_line, _get_part_and_occupation), as repaired.  Lines are given as classified events; numbers are
   exact rationals.  The card loop keeps three "current objects" (with their own default objects), replaces them at
   PART / AFIX / RESI instructions and, at HKLF / END, replaces them by defaults when they are "open". *)
From SX Require Import Base.Str.
From Coq Require Import QArith.

Record resi := { r_num : Z; r_class : str }.
Record part := { p_n : Z; p_sof : option Q }.     (* sof = None: the default 11.0, "PART gives no sof" *)

Inductive event :=
| EResi (r : resi)
| EPart (p : part)
| EAfix (mn : Z)
| EAtom (name : str) (sfac : Z) (own_sof : option Q) (u2_nonzero u3_zero : bool)   (* columns 6.. : sof, U values *)
| EHklf | EEnd | EFrag | EFend | EOther.

Record ctx := { c_resi : resi; c_part : part; c_afix : option Z; c_hklf : bool; c_end : bool; c_frag : bool }.
Definition resi0 : resi := {| r_num := 0; r_class := [] |}.
Definition part0 : part := {| p_n := 0; p_sof := None |}.
Definition ctx0 : ctx := {| c_resi := resi0; c_part := part0; c_afix := None; c_hklf := false; c_end := false; c_frag := false |}.

Record atom_attr := { a_name : str; a_sfac : Z; a_part : Z; a_afix : Z; a_resinum : Z; a_resiclass : str; a_sof : Q; a_qpeak : bool }.

Definition resi_open (r : resi) : bool := negb (Z.eqb (r_num r) 0) || negb (Nat.eqb (length (r_class r)) 0).
Definition afix_true (a : option Z) : bool := match a with Some mn => Z.ltb 0 mn | None => false end.

(* the three "if line.startswith(('END', 'HKLF')) and ..." resets *)
Definition reset_ctx (c : ctx) : ctx :=
  {| c_resi := if resi_open (c_resi c) then resi0 else c_resi c;
     c_part := if negb (Z.eqb (p_n (c_part c)) 0) then part0 else c_part c;
     c_afix := if afix_true (c_afix c) then None else c_afix c;
     c_hklf := c_hklf c; c_end := c_end c; c_frag := c_frag c |}.

Definition atom_of (c : ctx) (name : str) (sfac : Z) (own : option Q) (u2nz u3z : bool) : atom_attr :=
  {| a_name := name; a_sfac := sfac; a_part := p_n (c_part c);
     a_afix := match c_afix c with Some mn => mn | None => 0 end;
     a_resinum := r_num (c_resi c); a_resiclass := r_class (c_resi c);
     a_sof := match p_sof (c_part c) with Some s => s | None => match own with Some s => s | None => 11 end end;
     a_qpeak := (u2nz && u3z && c_hklf c) || c_end c |}.

Definition step (st : ctx * list atom_attr) (e : event) : ctx * list atom_attr :=
  let '(c, out) := st in
  match e with
  | EResi r => ({| c_resi := r; c_part := c_part c; c_afix := c_afix c; c_hklf := c_hklf c; c_end := c_end c; c_frag := c_frag c |}, out)
  | EPart p => ({| c_resi := c_resi c; c_part := p; c_afix := c_afix c; c_hklf := c_hklf c; c_end := c_end c; c_frag := c_frag c |}, out)
  | EAfix mn => ({| c_resi := c_resi c; c_part := c_part c; c_afix := Some mn; c_hklf := c_hklf c; c_end := c_end c; c_frag := c_frag c |}, out)
  | EAtom n s own u2 u3 => if c_frag c then (c, out) else (c, out ++ [atom_of c n s own u2 u3])
  | EHklf => let c' := reset_ctx c in
             ({| c_resi := c_resi c'; c_part := c_part c'; c_afix := c_afix c'; c_hklf := true; c_end := c_end c'; c_frag := c_frag c' |}, out)
  | EEnd => let c' := reset_ctx c in
            ({| c_resi := c_resi c'; c_part := c_part c'; c_afix := c_afix c'; c_hklf := c_hklf c'; c_end := true; c_frag := c_frag c' |}, out)
  | EFrag => ({| c_resi := c_resi c; c_part := c_part c; c_afix := c_afix c; c_hklf := c_hklf c; c_end := c_end c; c_frag := true |}, out)
  | EFend => ({| c_resi := c_resi c; c_part := c_part c; c_afix := c_afix c; c_hklf := c_hklf c; c_end := c_end c; c_frag := false |}, out)
  | EOther => st
  end.

Definition atoms_of (events : list event) : list atom_attr := snd (fold_left step events (ctx0, [])).
