(* Model of the line handling at the top of Shelxfile._parse_cards (shelx.py) and misc.multiline_test, as repaired:
   - lines that are empty or start with a blank are skipped;
   - a line continues when the text before its first '!' contains '=' (REM / TITL lines never continue);
   - the logical line is the text before that '=' glued to the next physical line, repeatedly;
   - the comment (from the first '!') is removed and the rest split at blanks.
   Characters: printable ASCII and blank (no tabs).  The result is the list of token lists the card dispatch sees
   (original case); the dispatch word is the upper-cased first four characters. *)
From SX Require Import Base.Str.

Definition cBang : ascii := "!"%char.
Definition cEq : ascii := "="%char.

(* str.split(): maximal runs of non-blank characters *)
Fixpoint split_aux (cur : str) (s : str) : list str :=
  match s with
  | [] => match cur with [] => [] | _ => [rev cur] end
  | c :: r => if is_blank c then match cur with [] => split_aux [] r | _ => rev cur :: split_aux [] r end
              else split_aux (c :: cur) r
  end.
Definition split_ws (s : str) : list str := split_aux [] s.

Definition before (c : ascii) (s : str) : str := fst (fst (partition c s)).
Definition body (l : str) : str := before cBang l.                      (* line.split('!')[0] *)
Definition has_eq (l : str) : bool := existsb (Ascii.eqb cEq) (body l).

Definition starts_with (p s : str) : bool :=
  (fix go (p s : str) := match p, s with [] , _ => true | a :: p', b :: s' => Ascii.eqb a b && go p' s' | _, [] => false end) p s.
Definition is_free_text (l : str) : bool :=
  let u := upper l in starts_with (lit "REM") u || starts_with (lit "TITL") u.
(* multiline_test *)
Definition continues (l : str) : bool := negb (is_free_text l) && has_eq l.

(* glue: acc is the logical text so far (without the part from '='), cont says whether the last physical
   line continues; consumes continuation lines from rest *)
Fixpoint glue (acc : str) (cont : bool) (rest : list str) : str * list str :=
  match cont, rest with
  | true, nxt :: r => glue (acc ++ before cEq (body nxt)) (has_eq nxt) r
  | _, _ => (acc, rest)
  end.

Fixpoint lex_fuel (fuel : nat) (lines : list str) : list (list str) :=
  match fuel, lines with
  | S f, l :: r =>
    match l with
    | [] => lex_fuel f r
    | c :: _ =>
      if is_blank c then lex_fuel f r
      else if continues l then
             let '(txt, rest) := glue (before cEq (body l)) true r in split_ws txt :: lex_fuel f rest
           else split_ws (body l) :: lex_fuel f r
    end
  | _, _ => []
  end.
Definition lex (lines : list str) : list (list str) := lex_fuel (length lines) lines.

(* the dispatch word: first four characters of the upper-cased, comment-stripped line *)
Definition dispatch_word (tokens : list str) : str :=
  match tokens with t :: _ => firstn 4 (upper t) | [] => [] end.
