(* Model of LATT decoding and SymmCards (shelxfile/shelx/cards.py:1491-1519, 1545-1610; shelx.py LATT branch):
   the operator list derived from LATT N and the SYMM operators, as the repaired code builds it.
   Operators are Model/Symm.v symops with exact rational translations. *)
From SX Require Import Base.Str Model.Symm.
From Coq Require Import QArith.

(* LATT.lattdict: centring translations of lattice type |N| (pure translations: rotation part all zero) *)
Definition latt_vectors (n : Z) : list (list Q) :=
  match Z.abs n with
  | 2%Z => [[1#2; 1#2; 1#2]]
  | 3%Z => [[1#3; 2#3; 2#3]; [2#3; 1#3; 1#3]]
  | 4%Z => [[0; 1#2; 1#2]; [1#2; 0; 1#2]; [1#2; 1#2; 0]]
  | 5%Z => [[0; 1#2; 1#2]]
  | 6%Z => [[1#2; 0; 1#2]]
  | 7%Z => [[1#2; 1#2; 0]]
  | _ => []
  end.
Definition latt_valid (n : Z) : bool := (1 <=? Z.abs n)%Z && (Z.abs n <=? 7)%Z.

Definition identity : symop := {| so_rows := [(1, 0, 0); (0, 1, 0); (0, 0, 1)]%Z; so_trans := [0; 0; 0] |}.

(* apply_latt_symm with a pure translation *)
Definition shift (s : symop) (v : list Q) : symop :=
  {| so_rows := so_rows s; so_trans := map (fun p => fst p + snd p) (combine (so_trans s) v) |}.

(* "if symm not in self._symmcards: self._symmcards.append(symm)" *)
Definition insert_op (acc : list symop) (o : symop) : list symop :=
  if existsb (fun x => op_eqb x o) acc then acc else acc ++ [o].

(* SymmCards._append_with_lattice *)
Definition block (latt : list (list Q)) (centric : bool) (s : symop) : list symop :=
  let centred := s :: map (shift s) latt in
  if centric then centred ++ map inverted centred else centred.
Definition append_with_lattice (latt : list (list Q)) (centric : bool) (acc : list symop) (s : symop) : list symop :=
  fold_left insert_op (block latt centric s) acc.

(* the whole list: constructor [identity]; LATT: set_centric appends -identity, add_lattice_operators;
   then one append per SYMM line *)
Definition symmcards (n : Z) (symms : list symop) : list symop :=
  let latt := latt_vectors n in
  let centric := (0 <? n)%Z in
  let c0 := if centric then [identity; inverted identity] else [identity] in
  fold_left (append_with_lattice latt centric) (identity :: symms) c0.
