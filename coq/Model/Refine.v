(* Model of the refinement protocol (Shelxfile.refine, ShelxlRefine.run_shelxl / backup_shx_file / restore_shx_file /
   remove_acta_card / restore_acta_card, as repaired).  Files are byte strings (None = file does not exist); the model in
   memory is a list of instruction texts.  SHELXL is an arbitrary function of the files it sees (a Section variable): it
   returns an exit status and the new state of every file.  The only assumption on it is the one the protocol itself relies
   on: it does not touch the backup file. *)
From SX Require Import Base.Prelude Base.Str.

Inductive fname := FRes | FIns | FBak | FSave | FOther (n : nat).
Definition fname_eqb (a b : fname) : bool :=
  match a, b with
  | FRes, FRes | FIns, FIns | FBak, FBak | FSave, FSave => true
  | FOther x, FOther y => Nat.eqb x y
  | _, _ => false
  end.
Definition fs := fname -> option str.
Definition upd_fs (f : fs) (n : fname) (v : option str) : fs := fun m => if fname_eqb m n then v else f m.

(* the model in memory: the instruction texts in order; ACTA and the cycles instruction are recognised by the parser *)
Record model := { m_lines : list str; m_acta : option str (* text of the ACTA card, kept aside during the run *) }.

Section Protocol.
  Variable shelxl : fs -> Z * fs.                       (* exit status, files afterwards *)
  Variable parse : str -> list str.                      (* reading a result file *)
  Variable render : list str -> str.                     (* writing a model *)
  Variable is_acta : str -> bool.
  Variable is_unit : str -> bool.
  Variable set_cycles : nat -> list str -> list str.     (* LSCycles.number = n *)

  Definition without_acta (l : list str) : list str := filter (fun x => negb (is_acta x)) l.
  Definition find_acta (l : list str) : option str := find is_acta l.
  Fixpoint insert_after_unit (a : str) (l : list str) : list str :=
    match l with
    | [] => []
    | x :: r => if is_unit x then x :: a :: r else x :: insert_after_unit a r
    end.

  Inductive outcome := Refined (m : list str) | Failed.

  Definition result_ok (code : Z) (f : fs) : bool :=
    Z.eqb code 0 && match f FRes with Some s => (10 <=? length s)%nat | None => false end.

  Definition refine (cycles : option nat) (lines : list str) (f : fs) : outcome * fs * str :=
    let lines1 := match cycles with Some n => set_cycles n lines | None => lines end in
    let acta := find_acta lines1 in
    let ins := render (without_acta lines1) in
    let f1 := upd_fs f FIns (Some ins) in
    let f2 := upd_fs (upd_fs f1 FBak (f1 FRes)) FSave (f1 FRes) in          (* backup_shx_file *)
    let '(code, f3) := shelxl f2 in
    if result_ok code f3
    then let new := match f3 FRes with Some s => parse s | None => [] end in
         (Refined (match acta with Some a => insert_after_unit a new | None => new end), f3, ins)
    else (Failed, upd_fs (upd_fs f3 FRes (f3 FBak)) FBak None, ins).          (* restore_shx_file *)

  (* refine(cycles, backup_before) as repaired (ab4702f, and the ACTA repair): with backup_before=False no backup is taken and - after a
     failed run - none is restored, also not one that an earlier run left behind; the model in memory after the call is the result (success)
     or the model the run started from, with its ACTA instruction put back behind UNIT (failure) *)
  Definition memory_after_failure (lines1 : list str) : list str :=
    match find_acta lines1 with
    | Some a => insert_after_unit a (without_acta lines1)
    | None => lines1
    end.

  Definition refine_b (backup : bool) (cycles : option nat) (lines : list str) (f : fs) : outcome * fs * str * list str :=
    let lines1 := match cycles with Some n => set_cycles n lines | None => lines end in
    let acta := find_acta lines1 in
    let ins := render (without_acta lines1) in
    let f1 := upd_fs f FIns (Some ins) in
    let f2 := if backup then upd_fs (upd_fs f1 FBak (f1 FRes)) FSave (f1 FRes) else f1 in
    let '(code, f3) := shelxl f2 in
    if result_ok code f3
    then let new := match f3 FRes with Some s => parse s | None => [] end in
         let m := match acta with Some a => insert_after_unit a new | None => new end in
         (Refined m, f3, ins, m)
    else (Failed, (if backup then upd_fs (upd_fs f3 FRes (f3 FBak)) FBak None else f3), ins, memory_after_failure lines1).
End Protocol.

(* ---- crash points: every state the file system passes through during refine() ----
   The steps are the file operations of the protocol in program order: write the .ins, copy the .res to the backup file, copy it
   to shxsaves, the SHELXL run (with every intermediate state of the file system while it runs: `during`), and - after a failed
   run - copy the backup over the .res, remove the backup.  A crash (of Python, of SHELXL, of the machine) leaves the file system
   in one of these states.  Not modelled: a copy that is interrupted half-way (copyfile is taken as atomic). *)
Section Trace.
  Variable shelxl : fs -> Z * fs.
  Variable during : fs -> list fs.
  Variable render : list str -> str.
  Variable is_acta : str -> bool.
  Variable set_cycles : nat -> list str -> list str.

  Definition refine_trace (cycles : option nat) (lines : list str) (f : fs) : list fs :=
    let lines1 := match cycles with Some n => set_cycles n lines | None => lines end in
    let ins := render (without_acta is_acta lines1) in
    let f1 := upd_fs f FIns (Some ins) in
    let f2a := upd_fs f1 FBak (f1 FRes) in
    let f2 := upd_fs f2a FSave (f1 FRes) in
    let '(code, f3) := shelxl f2 in
    [f; f1; f2a; f2] ++ during f2 ++ [f3] ++
    (if result_ok code f3 then [] else [upd_fs f3 FRes (f3 FBak); upd_fs (upd_fs f3 FRes (f3 FBak)) FBak None]).
End Trace.
