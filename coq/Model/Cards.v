(* Model of the parameter handling of instruction objects (shelxfile/shelx/cards.py): Command._parse_line and
   Restraint._parse_line (which tokens are numbers, when conversion raises), and for every keyword the condition
   under which its constructor / its branch of Shelxfile._parse_cards raises, as repaired.  An instruction is
   "accepted" when nothing raises, so that the card loop goes on to the next line; in quiet mode a raise ends the
   parsing silently, in debug mode it propagates. *)
From SX Require Import Base.Str Model.Symm.
From Coq Require Import QArith.

(* Command._parse_line: a token is numeric when its first character is a digit, a sign or a point; float() may raise *)
Definition numlike_cmd (t : str) : bool :=
  match t with c :: _ => is_digit c || Ascii.eqb c cPlus || Ascii.eqb c cMinus || Ascii.eqb c cDot | [] => false end.

Fixpoint cmd_params (toks : list str) : option (list Q * list str) :=
  match toks with
  | [] => Some ([], [])
  | t :: r =>
    match cmd_params r with
    | None => None
    | Some (ns, ws) =>
      if numlike_cmd t then match py_float t with Some q => Some (q :: ns, ws) | None => None end
      else Some (ns, t :: ws)
    end
  end.

(* Restraint._parse_line: a token is numeric exactly when float() succeeds *)
Fixpoint rst_params (toks : list str) : list Q * list str :=
  match toks with
  | [] => ([], [])
  | t :: r => let '(ns, ws) := rst_params r in
              match py_float t with Some q => (q :: ns, ws) | None => (ns, t :: ws) end
  end.

Definition is_restraint_kw (kw : string) : bool :=
  existsb (String.eqb kw) ["SADI"; "DFIX"; "SIMU"; "DELU"; "RIGU"; "DANG"; "EADP"; "CHIV"; "EXYZ"; "FLAT"; "ISOR"; "NCSY"; "SAME";
                           "DEFS"; "BUMP"]%string.

Definition qnz (q : Q) : bool := negb (Qeq_bool q 0).
Definition nth_q (l : list Q) (i : nat) : Q := nth i l 0.

(* does the constructor / dispatch branch of keyword kw go through with these numeric parameters and words? *)
Definition accepts (kw : string) (ns : list Q) (ws : list str) : bool :=
  let n := length ns in let w := length ws in
  match kw with
  | "CELL" => (7 <=? n)%nat
  | "SUMP" => (2 <=? n)%nat
  | "TWIN" => Nat.eqb (n + w) 0 || Nat.eqb n 9 || Nat.eqb n 10
  | "DFIX" => (1 <=? n)%nat && qnz (nth_q ns 0)
  | "DANG" => (1 <=? n)%nat && qnz (nth_q ns 0) &&
              negb (negb (Qle_bool (nth_q ns 0) (1 # 10000)) && Qle_bool (nth_q ns 0) (if (2 <=? n)%nat then nth_q ns 1 else 4 # 100))
  | "NCSY" => (1 <=? n)%nat && qnz (nth_q ns 0)
  | "FREE" => (2 <=? w)%nat
  | "BUMP" | "DEFS" => Nat.eqb w 0
  | "DAMP" => (n <=? 2)%nat
  | "PART" => (1 <=? n)%nat
  | "RTAB" => (1 <=? n + w)%nat
  | _ => true
  end%string.

Definition handle (kw : string) (params : list str) : bool :=
  if is_restraint_kw kw then let '(ns, ws) := rst_params params in accepts kw ns ws
  else match cmd_params params with Some (ns, ws) => accepts kw ns ws | None => false end.
