(* Model of Python's fixed-precision formatting '{:.kf}' as the library uses it for atoms (atom.py: coordinates with 6,
   occupation code and displacement parameters with 5 decimals): the exact value of the float is rounded to the nearest
   multiple of 10^-k, ties to even; the printed numeral denotes scaled / 10^k.  Values are exact rationals (the
   implementation's doubles are passed in exactly by the correspondence check). *)
From SX Require Import Base.Prelude.
Open Scope Q_scope.

Definition pow10Z (k : nat) : Z := Z.pow 10 (Z.of_nat k).
Definition scaled (k : nat) (q : Q) : Z :=
  let x := q * inject_Z (pow10Z k) in
  let f := Qfloor x in
  let r := x - inject_Z f in
  match Qcompare r (1 # 2) with
  | Lt => f
  | Gt => (f + 1)%Z
  | Eq => if Z.even f then f else (f + 1)%Z
  end.
Definition denote (k : nat) (n : Z) : Q := inject_Z n / inject_Z (pow10Z k).

(* the numeric fields of a written atom line *)
Record atom_num := { an_xyz : list Q; an_sof : Q; an_u : list Q }.
Definition atom_scaled (a : atom_num) : list Z * Z * list Z := (map (scaled 6) (an_xyz a), scaled 5 (an_sof a), map (scaled 5) (an_u a)).

(* Atom.__str__ (atom.py, as repaired by fc4c2ac / 6588dd5): the kind of line is decided on the values as they are written -
   anisotropic (all six U values) exactly when one of U33, U23, U13, U12 is not written as 0.00000, otherwise isotropic (U11 only).
   Atom.parse_line / set_atom_parameters: the values of a written line, missing ones are zero. *)
Definition aniso_line (u : list Q) : bool := existsb (fun x => negb (Z.eqb (scaled 5 x) 0)) (skipn 2 u).
Definition u_written (u : list Q) : list Z := if aniso_line u then map (scaled 5) u else map (scaled 5) (firstn 1 u).
Definition u_read (w : list Z) : list Q := map (denote 5) w ++ repeat 0 (6 - length w).
Definition atom_written (a : atom_num) : list Z * Z * list Z := (map (scaled 6) (an_xyz a), scaled 5 (an_sof a), u_written (an_u a)).
(* the decision of the pinned code after fc4c2ac and before 6588dd5: the rounded values had to sum to MORE than 0.00001 *)
Definition aniso_line_old (u : list Q) : bool := Z.ltb 1 (fold_right Z.add 0%Z (map (fun x => Z.abs (scaled 5 x)) (skipn 2 u))).

(* WGHT._as_string (as repaired): short form exactly when c, d, e, f have their defaults *)
Definition wght_defaults : list Q := [1 # 10; 0; 0; 0; 0; 33333 # 100000].
Definition wght_written (v : list Q) : list Q :=
  match v with
  | [a; b; c; d; e; f] => if Qeq_bool c 0 && Qeq_bool d 0 && Qeq_bool e 0 && Qeq_bool f (33333 # 100000) then [a; b] else v
  | _ => v
  end.
Definition pad_defaults (dfl v : list Q) : list Q := v ++ skipn (length v) dfl.
