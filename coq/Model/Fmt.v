(* Model of Python's fixed-precision formatting '{:.kf}' as the library uses it for atoms (atom.py: coordinates with 6,
   occupation code and displacement parameters with 5 decimals): the exact value of the float is rounded to the nearest
   multiple of 10^-k, ties to even; the printed numeral denotes scaled / 10^k.  Values are exact rationals (the
   implementation's doubles are passed in exactly by the correspondence check). *)
From SX Require Import Base.Prelude.
Open Scope Q_scope.

Definition pow10Z (k : nat) : Z := Z.pow 10 (Z.of_nat k).
Definition scaled (k : nat) (q : Q) : Z :=
  let x := q * inject_Z (pow10Z k) in
  let f := Qfloor x in
  let r := x - inject_Z f in
  match Qcompare r (1 # 2) with
  | Lt => f
  | Gt => (f + 1)%Z
  | Eq => if Z.even f then f else (f + 1)%Z
  end.
Definition denote (k : nat) (n : Z) : Q := inject_Z n / inject_Z (pow10Z k).

(* the numeric fields of a written atom line *)
Record atom_num := { an_xyz : list Q; an_sof : Q; an_u : list Q }.
Definition atom_scaled (a : atom_num) : list Z * Z * list Z := (map (scaled 6) (an_xyz a), scaled 5 (an_sof a), map (scaled 5) (an_u a)).

(* WGHT._as_string (as repaired): short form exactly when c, d, e, f have their defaults *)
Definition wght_defaults : list Q := [1 # 10; 0; 0; 0; 0; 33333 # 100000].
Definition wght_written (v : list Q) : list Q :=
  match v with
  | [a; b; c; d; e; f] => if Qeq_bool c 0 && Qeq_bool d 0 && Qeq_bool e 0 && Qeq_bool f (33333 # 100000) then [a; b] else v
  | _ => v
  end.
Definition pad_defaults (dfl v : list Q) : list Q := v ++ skipn (length v) dfl.
