(* Model of misc.split_fvar_and_parameter, Atom.fvar, Atom.occupancy, FVARs.__getitem__,
   Shelxfile.sum_formula_exact_as_dict (shelxfile/misc/misc.py:129-152, atoms/atom.py:97-137,
   shelx/cards.py:961-964, shelx/shelx.py:1001-1026) in exact rational arithmetic.
   round(value, 8) and float rounding are not modelled (correspondence tolerance 2e-8). *)
From SX Require Import Base.Prelude.
#[local] Open Scope Q_scope.

(* int(str(x).split('.')[0]): integer part, truncated towards zero *)
Definition Qtrunc (q : Q) : Z := Z.quot (Qnum q) (Zpos (Qden q)).

(* abs(x) % 10 for a non-negative float *)
Definition Qmod10 (a : Q) : Q := a - inject_Z (10 * (Qfloor a / 10)).

Definition split_fvar (q : Q) : Z * Q :=
  let m := (Z.abs (Qtrunc q) / 10)%Z in
  let v := Qmod10 (Qabs q) in
  if Qle_bool 0 q then (m, v) else ((- m)%Z, - v).

(* FVARs.__getitem__: item = abs(item) - 1; self.fvars[item] *)
Definition fvars_get (fvs : list Q) (m : Z) : option Q := py_index fvs (Z.abs m - 1).

(* Atom.occupancy (after the fix: branch on the sign of the free-variable number,
   |m| <= 1 means "no free variable") ; IndexError -> 1.0 *)
Definition occupancy (sof : Q) (fvs : list Q) : Q :=
  let '(m, p) := split_fvar sof in
  if (Z.abs m <=? 1)%Z then p
  else match fvars_get fvs m with
       | None => 1
       | Some fv => if (0 <? m)%Z then fv * p else (fv - 1) * p
       end.

(* sum_formula_exact_as_dict: for every element of the SFAC list, the sum of occupancies of the
   non-Q-peak atoms whose element equals it (case-insensitively; elements are given here as
   their index in the upper-cased element list). *)
Record atom_occ := { ao_elem : nat; ao_sof : Q; ao_qpeak : bool }.

Definition sum_for (fvs : list Q) (atoms : list atom_occ) (el : nat) : Q :=
  fold_left (fun acc a => if Nat.eqb (ao_elem a) el && negb (ao_qpeak a) then acc + occupancy (ao_sof a) fvs else acc)
            atoms 0.

Definition sum_formula_exact (fvs : list Q) (nelem : nat) (atoms : list atom_occ) : list Q :=
  map (sum_for fvs atoms) (seq 0 nelem).

(* sum_formula: UNIT / Z in SFAC order (only when the two lists have the same length, Z <> 0) *)
Definition unit_formula (unit : list Q) (z : Q) : list Q := map (fun u => u / z) unit.
