(* Model of misc.wrap_line (as repaired) and of the writer loop of Shelxfile.write_shelx_file.
   wrap_line(line): lines of at most 80 characters are returned unchanged; otherwise
     textwrap.wrap(line, 77, subsequent_indent='  ', drop_whitespace=False, replace_whitespace=False,
                   break_long_words=False, break_on_hyphens=False, expand_tabs=False)
   cuts the text into maximal runs of blank / non-blank characters (regex (\s+) split), fills lines greedily
   (first line width 77, later lines width 75 after the indentation of two blanks, a run that fits on no line gets a
   line of its own), then ' =\n' is appended to all parts but the last and the parts are joined with ' '.
   Characters: printable ASCII and blank (no tabs, so that \s = blank). *)
From SX Require Import Base.Prelude Base.Str.

(* maximal runs of blank / non-blank characters (re.split(r'(\s+)') without the empty strings), built from the right *)
Fixpoint chunks (s : str) : list str :=
  match s with
  | [] => []
  | c :: r => match chunks r with
              | (d :: q) :: rest => if Bool.eqb (is_blank c) (is_blank d) then (c :: d :: q) :: rest else [c] :: (d :: q) :: rest
              | [] :: rest => [c] :: rest                       (* unreachable: runs are never empty *)
              | [] => [[c]]
              end
  end.

(* TextWrapper._wrap_chunks: cur = chunks of the current line (reversed), len = their total length, w = width of the
   current line, w' = width of all later lines *)
Fixpoint fill (w w' : nat) (cur : list str) (len : nat) (cs : list str) : list (list str) :=
  match cs with
  | [] => match cur with [] => [] | _ => [rev cur] end
  | c :: r =>
    if (len + length c <=? w)%nat then fill w w' (c :: cur) (len + length c)%nat r
    else match cur with
         | [] => [c] :: fill w' w' [] 0%nat r                    (* fits on no line: a line of its own *)
         | _ => rev cur :: (if (length c <=? w')%nat then fill w' w' [c] (length c) r
                            else [c] :: fill w' w' [] 0%nat r)
         end
  end.

Definition width : nat := 77.
Definition indent : str := lit "  ".
Definition pieces (s : str) : list (list str) := fill width (width - length indent) [] 0%nat (chunks s).

(* physical lines of wrap_line(s) *)
Definition cont_mark : str := lit " =".
Fixpoint mark_lines (first : bool) (ps : list (list str)) : list str :=
  match ps with
  | [] => []
  | [p] => [(if first then [] else " "%char :: indent) ++ concat p]
  | p :: r => ((if first then [] else " "%char :: indent) ++ concat p ++ cont_mark) :: mark_lines false r
  end.
Definition wrap_lines (s : str) : list str :=
  if (length s <? 81)%nat then [s]
  else match pieces s with
       | [] => [[]]                       (* unreachable for non-empty s; textwrap returns [] only for '' *)
       | ps => mark_lines true ps
       end.

(* the writer: every stored item that is not skipped contributes the wrapped parts of its text *)
Definition write_item (parts : list str) : list str := flat_map wrap_lines parts.
Definition write_lines (items : list (list str)) : list str := flat_map write_item items.

(* FVARs.__str__ : groups of seven *)
Fixpoint groups_fuel {A} (fuel n : nat) (l : list A) : list (list A) :=
  match fuel, l with
  | _, [] => []
  | O, _ => []
  | S f, _ => firstn n l :: groups_fuel f n (skipn n l)
  end.
Definition groups {A} (n : nat) (l : list A) : list (list A) := groups_fuel (length l) n l.
Fixpoint join (sep : str) (l : list str) : str :=
  match l with [] => [] | [x] => x | x :: r => x ++ sep ++ join sep r end.
Definition fvar_lines (vals : list str) : list str :=
  map (fun g => lit "FVAR   " ++ join (lit "   ") g) (groups 7 vals).

(* FVARs.__str__ (as repaired by 6dfd5f8): free variables that were defined in a '+filename' include file are left out BEFORE the
   values are cut into lines of seven *)
Definition fvars_written (fv : list (str * bool)) : list str :=
  fvar_lines (map fst (filter (fun x => negb (snd x)) fv)).

(* SFACTable.__repr__ (as repaired): runs of plain elements share a line, an explicit entry has its own *)
Inductive sfac_entry := SPlain (e : str) | SExp (vals : list str) (* element and 14 numbers *).
Fixpoint sfac_lines_aux (cur : list str) (l : list sfac_entry) : list str :=
  match l with
  | [] => match cur with [] => [] | _ => [lit "SFAC " ++ join (lit "  ") (rev cur)] end
  | SPlain e :: r => sfac_lines_aux (e :: cur) r
  | SExp vals :: r => (match cur with [] => [] | _ => [lit "SFAC " ++ join (lit "  ") (rev cur)] end)
                      ++ (lit "SFAC " ++ join (lit "  ") vals) :: sfac_lines_aux [] r
  end.
Definition sfac_lines (l : list sfac_entry) : list str := sfac_lines_aux [] l.
