(* Model of the CIF export (cif_write.py, SymmetryElement.to_cif as repaired).
   - an operator component is the SHELXL text of the component (translation first, then the signed axes) with the
     translation written as a fraction, in lower case;
   - the atom loop has one row per atom that is not a Q-peak, in file order; the ADP loop one row per such atom that is not
     isotropic; numbers are written with repr(), i.e. exactly. *)
From SX Require Import Base.Prelude Base.Str Model.Symm Spec.SymmSpec Proofs.SymmProofs.

Definition lower (s : str) : str := map lower_c s.
Definition cif_comp (c : Z * Z * Z) (t : option (option sgn * numeral)) : str := lower (to_shelxl_comp c t).

Record catom := { ca_label : str; ca_element : str; ca_xyz : list Q; ca_occ : Q; ca_part : Z; ca_u : list Q; ca_qpeak : bool; ca_iso : bool }.
Definition atom_row (a : catom) : str * str * list Q * bool * Q * Z := (ca_label a, ca_element a, ca_xyz a, ca_iso a, ca_occ a, ca_part a).
Definition aniso_row (a : catom) : str * list Q := (ca_label a, ca_u a).
Definition atom_loop (l : list catom) := map atom_row (filter (fun a => negb (ca_qpeak a)) l).
Definition aniso_loop (l : list catom) := map aniso_row (filter (fun a => negb (ca_qpeak a) && negb (ca_iso a)) l).

(* optional values *)
Definition opt_field (v : option Q) : option Q := match v with Some x => if Qeq_bool x 0 then None else Some x | None => None end.
