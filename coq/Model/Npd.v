(* Hand-written reading of Atom.is_npd() (atom.py) over the numeric interface: 1 = reported non-positive-definite.
   Proofs/NpdKernel.v shows by conversion that the kernel traced from the source (Gen/K_adp.v, k_npd) IS this function
   applied to the traced Cartesian tensor, for every interpretation of the operations. *)
From Coq Require Import ZArith List Bool.
From SX Require Import Base.Num.
Open Scope bool_scope.

Section Npd.
Context {T : Type} (O : Ops T).
Definition zero := o_const O 0%Z 1%positive.
Definition one := o_const O 1%Z 1%positive.
(* not (minor1 > 0 and minor2 > 0 and minor3 > 0) on u = u_cart.values *)
Definition npd_minors (c00 c01 c02 c10 c11 c12 c20 c21 c22 : T) : T :=
  if o_ltb O zero c00 then
    if o_ltb O zero (o_sub O (o_mul O c00 c11) (o_mul O c01 c10)) then
      if o_ltb O zero (o_add O (o_sub O (o_mul O c00 (o_sub O (o_mul O c11 c22) (o_mul O c12 c21)))
                                          (o_mul O c01 (o_sub O (o_mul O c10 c22) (o_mul O c12 c20))))
                                (o_mul O c02 (o_sub O (o_mul O c10 c21) (o_mul O c11 c20)))) then zero else one
    else one
  else one.
(* isotropic atom: -0.5 < U <= 0 *)
Definition npd_iso (u11 : T) : T :=
  if o_ltb O (o_const O (-1)%Z 2%positive) u11 then (if negb (o_ltb O zero u11) then one else zero) else zero.
Definition nz (x : T) : bool := negb (o_eqb O x zero).
Definition npd_model (u11 u22 u33 u23 u13 u12 c00 c01 c02 c10 c11 c12 c20 c21 c22 : T) : T :=
  if nz u33 || nz u23 || nz u13 || nz u12 then npd_minors c00 c01 c02 c10 c11 c12 c20 c21 c22 else npd_iso u11.
End Npd.
