(* Model of the item loop of Shelxfile.write_shelx_file and of Shelxfile._find_included_files (as repaired).
   The stored list holds, per position, either raw text (a line the parser did not turn into an object) or an object
   whose text may have several parts (str(obj).split('\n')).  Positions in delete_on_write and empty strings are skipped;
   every other item contributes wrap_line of each of its parts, in order.
   Include files: the list is scanned once from the top; at a line '+name' whose file can be read, the lines of the file
   are inserted behind it and marked as not to be written; the scan continues into the inserted lines (nested includes). *)
From SX Require Import Base.Prelude Base.Str Model.Wrap.

Inductive item := IRaw (s : str) | IObj (parts : list str).

Definition item_lines (it : item) : list str :=
  match it with
  | IRaw [] => []
  | IRaw s => wrap_lines s
  | IObj parts => flat_map wrap_lines parts
  end.

Fixpoint write_from (i : nat) (del : list nat) (items : list item) : list str :=
  match items with
  | [] => []
  | it :: r => (if existsb (Nat.eqb i) del then [] else item_lines it) ++ write_from (S i) del r
  end.
Definition write_file (del : list nat) (items : list item) : list str := write_from 0 del items.

(* ---- include files: lines carry a mark "came from an include file" *)
Definition cPlusChar : ascii := "+"%char.
(* str.isspace() on ASCII *)
Definition is_py_space (c : ascii) : bool := let n := nat_of_ascii c in Nat.eqb n 32 || ((9 <=? n)%nat && (n <=? 13)%nat) || ((28 <=? n)%nat && (n <=? 31)%nat).
Fixpoint lstrip_with (p : ascii -> bool) (s : str) : str := match s with c :: r => if p c then lstrip_with p r else s | [] => [] end.
Definition strip_ws (s : str) : str := rev (lstrip_with is_py_space (rev (lstrip_with is_py_space s))).
(* _read_included_file (as repaired): line.lstrip('+').strip() is the file name - '++name' reads the same file as '+name', blanks around the
   name do not belong to it *)
Definition include_name (l : str) : option str :=
  match l with c :: _ => if Ascii.eqb c cPlusChar then Some (strip_ws (lstrip_with (fun x => Ascii.eqb x cPlusChar) l)) else None | [] => None end.

(* _read_included_file (as repaired by 93016d2): an END instruction ends the include file - the line itself and everything behind it
   is not part of the model.  included_line[:4].upper().rstrip() == 'END' *)
Definition is_end_line (l : str) : bool :=
  match upper (firstn 4 l) with
  | [e; n; d] => Ascii.eqb e "E"%char && Ascii.eqb n "N"%char && Ascii.eqb d "D"%char
  | [e; n; d; c] => Ascii.eqb e "E"%char && Ascii.eqb n "N"%char && Ascii.eqb d "D"%char && is_py_space c
  | _ => false
  end.
Fixpoint until_end (inc : list str) : list str :=
  match inc with [] => [] | l :: r => if is_end_line l then [] else l :: until_end r end.

Fixpoint expand (fuel : nat) (fs : str -> option (list str)) (lines : list (str * bool)) : list (str * bool) :=
  match fuel with
  | O => lines
  | S f =>
    match lines with
    | [] => []
    | (l, m) :: r =>
      match include_name l with
      | Some name => match fs name with
                     | Some inc => (l, m) :: expand f fs (map (fun x => (x, true)) (until_end inc) ++ r)
                     | None => (l, m) :: expand f fs r
                     end
      | None => (l, m) :: expand f fs r
      end
    end
  end.

Definition own (lines : list (str * bool)) : list str := map fst (filter (fun x => negb (snd x)) lines).
Definition marked_positions (lines : list (str * bool)) : list nat :=
  map fst (filter (fun p => snd (snd p)) (combine (seq 0 (length lines)) lines)).
Definition read_with_includes (fuel : nat) (fs : str -> option (list str)) (main : list str) : list (str * bool) :=
  expand fuel fs (map (fun l => (l, false)) main).

(* file names are compared exactly *)
Definition name_eqb (a b : str) : bool := if list_eq_dec Ascii.ascii_dec a b then true else false.
