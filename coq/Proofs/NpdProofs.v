(* C12 — is_npd() reports an atom exactly when its U tensor is not positive definite. *)
From SX Require Import Base.RTac Gen.K_cell Gen.K_adp Spec.CellSpec Proofs.CellProofs Proofs.AdpProofs Model.Npd Proofs.NpdKernel.
Import ListNotations.
Open Scope R_scope.

Lemma npd_minors_R c00 c01 c02 c10 c11 c12 c20 c21 c22 :
  npd_minors ROps c00 c01 c02 c10 c11 c12 c20 c21 c22 =
  npd_of_minors c00 (c00 * c11 - c01 * c10) (c00 * (c11 * c22 - c12 * c21) - c01 * (c10 * c22 - c12 * c20) + c02 * (c10 * c21 - c11 * c20)).
Proof.
  unfold npd_minors, npd_of_minors, zero, one.
  cbv beta delta [o_add o_sub o_mul o_const o_ltb ROps Rconst] iota.
  destruct (Rlt_dec 0 c00); [|reflexivity].
  destruct (Rlt_dec 0 (c00 * c11 - c01 * c10)); [|reflexivity].
  destruct (Rlt_dec 0 (c00 * (c11 * c22 - c12 * c21) - c01 * (c10 * c22 - c12 * c20) + c02 * (c10 * c21 - c11 * c20))); reflexivity.
Qed.

Lemma nz_R x : nz ROps x = true <-> x <> 0.
Proof.
  unfold nz, zero. cbv beta delta [o_eqb o_const ROps Rconst] iota.
  destruct (Req_EM_T x 0) as [E | E]; cbn [negb]; split; intros H; try discriminate; try reflexivity; try assumption. contradiction.
Qed.

(* anisotropic atoms: the traced is_npd() returns "not npd" exactly when U is positive definite *)
Theorem npd_aniso_correct u11 u22 u33 u23 u13 u12 a b c al be ga : valid_cell a b c al be ga ->
  (u33 <> 0 \/ u23 <> 0 \/ u13 <> 0 \/ u12 <> 0) ->
  (k_npd ROps u11 u22 u33 u23 u13 u12 a b c al be ga = 0 <-> pos_def u11 u22 u33 u23 u13 u12) /\
  (k_npd ROps u11 u22 u33 u23 u13 u12 a b c al be ga = 1 <-> ~ pos_def u11 u22 u33 u23 u13 u12).
Proof.
  intros V A.
  rewrite k_npd_is_model. unfold npd_model.
  assert (B : nz ROps u33 || nz ROps u23 || nz ROps u13 || nz ROps u12 = true).
  { destruct A as [A | [A | [A | A]]]; apply nz_R in A; rewrite A; rewrite ?orb_true_r; reflexivity. }
  rewrite B. rewrite npd_minors_R.
  destruct (ucart_symmetric u11 u22 u33 u23 u13 u12 a b c al be ga) as (S01 & S02 & S12).
  rewrite <- S01, <- S02, <- S12.
  set (c00 := k_ucart_0_0 ROps u11 u22 u33 u23 u13 u12 a b c al be ga).
  set (c11 := k_ucart_1_1 ROps u11 u22 u33 u23 u13 u12 a b c al be ga).
  set (c22 := k_ucart_2_2 ROps u11 u22 u33 u23 u13 u12 a b c al be ga).
  set (c01 := k_ucart_0_1 ROps u11 u22 u33 u23 u13 u12 a b c al be ga).
  set (c02 := k_ucart_0_2 ROps u11 u22 u33 u23 u13 u12 a b c al be ga).
  set (c12 := k_ucart_1_2 ROps u11 u22 u33 u23 u13 u12 a b c al be ga).
  pose proof (pd_congruence u11 u22 u33 u23 u13 u12 a b c al be ga V) as PC.
  fold c00 c11 c22 c01 c02 c12 in PC.
  pose proof (sylvester3 c00 c11 c22 c12 c02 c01) as SY. unfold minor2, minor3 in SY.
  destruct (npd_of_minors_spec c00 (c00 * c11 - c01 * c01)
              (c00 * (c11 * c22 - c12 * c12) - c01 * (c01 * c22 - c12 * c02) + c02 * (c01 * c12 - c11 * c02))) as (N0 & N01).
  split.
  - rewrite N0. rewrite PC. rewrite SY. reflexivity.
  - split.
    + intros E P. apply PC in P. apply SY in P. apply N0 in P. rewrite P in E. lra.
    + intros NP. destruct N01 as [Z | O1]; [|exact O1]. exfalso. apply NP. apply PC. apply SY. apply N0. exact Z.
Qed.

(* isotropic atoms (U22 = ... = U12 = 0): reported exactly for -0.5 < U <= 0 (values below -0.5 tie U to the pivot atom) *)
Theorem npd_iso_correct u11 h a b c al be ga :
  (0 < u11 -> k_npd ROps u11 h 0 0 0 0 a b c al be ga = 0) /\
  (-1 / 2 < u11 <= 0 -> k_npd ROps u11 h 0 0 0 0 a b c al be ga = 1) /\
  (u11 <= -1 / 2 -> k_npd ROps u11 h 0 0 0 0 a b c al be ga = 0).
Proof.
  rewrite k_npd_is_model. unfold npd_model.
  assert (Z : nz ROps 0 = false).
  { unfold nz, zero. cbv beta delta [o_eqb o_const ROps Rconst] iota. destruct (Req_EM_T 0 0) as [E | E]; [reflexivity | exfalso; apply E; reflexivity]. }
  rewrite Z. cbn [orb]. unfold npd_iso, zero, one.
  cbv beta delta [o_ltb o_const ROps Rconst] iota.
  destruct (Rlt_dec (-1 / 2) u11) as [L | L]; destruct (Rlt_dec 0 u11) as [P | P]; cbn [negb]; repeat split; intros; try reflexivity; lra.
Qed.

Example npd_example_pd : pos_def 1 1 1 0 0 0.
Proof. apply sylvester3. unfold minor2, minor3. lra. Qed.
Example npd_example_npd : ~ pos_def 1 1 1 0 0 2.
Proof. intros P. apply sylvester3 in P. unfold minor2, minor3 in P. lra. Qed.
