(* C10 — proofs about the operator-component parser model (Model/Symm.v) against Spec/SymmSpec.v. *)
From SX Require Import Base.Str Model.Symm Spec.SymmSpec.
From Coq Require Import QArith Qabs Qround Lqa.

(* ---------- the alphabet ---------- *)
Definition is_numchar (c : ascii) : bool := is_digit c || Ascii.eqb c cDot || Ascii.eqb c cSlash.
Definition is_axis_char (c : ascii) : bool := Ascii.eqb c cX || Ascii.eqb c cY || Ascii.eqb c cZ.
Definition is_sign_char (c : ascii) : bool := Ascii.eqb c cPlus || Ascii.eqb c cMinus.
Definition canon_char (c : ascii) : bool := is_numchar c || is_axis_char c || is_sign_char c.

Ltac ascii_cases c := destruct c as [[] [] [] [] [] [] [] []]; vm_compute; intros; try discriminate; try tauto; auto.

Lemma canon_char_props c : canon_char c = true ->
  is_blank c = false /\ upper_c c = c /\ upper_c (lower_c c) = c /\ is_blank (lower_c c) = false.
Proof. ascii_cases c. Qed.

Lemma numchar_not_axis c : is_numchar c = true -> is_axis_char c = false /\ is_sign_char c = false.
Proof. ascii_cases c. Qed.
Lemma digit_is_numchar c : is_digit c = true -> is_numchar c = true.
Proof. unfold is_numchar. intros ->. reflexivity. Qed.
Lemma digit_not_dot c : is_digit c = true -> Ascii.eqb c cDot = false /\ Ascii.eqb c cSlash = false.
Proof. ascii_cases c. Qed.

Lemma axis_char_is_axis a : is_axis_char (axis_char a) = true.
Proof. destruct a; reflexivity. Qed.
Lemma axis_char_inj a b : axis_char a = axis_char b -> axis_eqb a b = true.
Proof. destruct a, b; vm_compute; intros; try discriminate; reflexivity. Qed.
Lemma axis_eqb_true a b : axis_eqb a b = true -> a = b.
Proof. destruct a, b; cbn; intros; try discriminate; reflexivity. Qed.
Lemma axis_eqb_refl a : axis_eqb a a = true. Proof. destruct a; reflexivity. Qed.
Lemma axis_not_sign a : is_sign_char (axis_char a) = false /\ Ascii.eqb (axis_char a) cMinus = false /\ Ascii.eqb (axis_char a) cPlus = false.
Proof. destruct a; vm_compute; auto. Qed.

(* ---------- normalisation ---------- *)
Lemma normalize_decorated s s' : decorated s s' -> forallb canon_char s = true -> normalize s' = s.
Proof.
  unfold normalize, upper. induction 1 as [|s s' D IH|c s s' D IH|c s s' D IH]; intros C.
  - reflexivity.
  - cbn [map filter]. change (is_blank (upper_c " ")) with true. cbn [negb]. apply IH. exact C.
  - cbn [forallb] in C. apply andb_true_iff in C. destruct C as [Cc Cs].
    destruct (canon_char_props c Cc) as (B & U & _ & _).
    cbn [map filter]. rewrite U, B. cbn [negb]. f_equal. apply IH. exact Cs.
  - cbn [forallb] in C. apply andb_true_iff in C. destruct C as [Cc Cs].
    destruct (canon_char_props c Cc) as (B & _ & U & _).
    cbn [map filter]. rewrite U, B. cbn [negb]. f_equal. apply IH. exact Cs.
Qed.

(* ---------- characters of rendered items ---------- *)
Lemma num_str_chars n : num_wf n = true -> forallb is_numchar (num_str n) = true.
Proof.
  assert (D : forall s, all_digits s = true -> forallb is_numchar s = true).
  { induction s as [|c r IH]; cbn; [reflexivity|]. intros H. apply andb_true_iff in H. destruct H as [H1 H2].
    rewrite (digit_is_numchar c H1), IH by exact H2. reflexivity. }
  destruct n as [a b | ip fp | ip]; cbn [num_wf num_str]; intros H.
  - repeat (apply andb_true_iff in H; destruct H as [H ?]).
    rewrite forallb_app. cbn [forallb]. rewrite !D by assumption. reflexivity.
  - repeat (apply andb_true_iff in H; destruct H as [H ?]).
    rewrite forallb_app. cbn [forallb]. rewrite !D by assumption. reflexivity.
  - apply andb_true_iff in H. destruct H as [H _]. apply D. exact H.
Qed.

Lemma num_str_nonempty n : num_wf n = true -> num_str n <> [].
Proof.
  destruct n as [a b | ip fp | ip]; cbn [num_wf num_str]; intros H E.
  - destruct a; discriminate.
  - destruct ip; discriminate.
  - subst. cbn in H. discriminate.
Qed.

Lemma sgn_str_canon s : forallb canon_char (sgn_str s) = true.
Proof. destruct s as [[|]|]; reflexivity. Qed.

Lemma item_str_canon i : item_numwf i = true -> forallb canon_char (item_str i) = true.
Proof.
  destruct i as [s a | s n]; cbn [item_str item_numwf]; intros H; rewrite forallb_app, sgn_str_canon; cbn [andb].
  - cbn [forallb]. unfold canon_char. rewrite axis_char_is_axis. rewrite orb_true_r. reflexivity.
  - pose proof (num_str_chars n H) as C. clear H. induction (num_str n) as [|c r IH]; cbn [forallb] in *; [reflexivity|].
    apply andb_true_iff in C. destruct C as [C1 C2]. unfold canon_char at 1. rewrite C1. cbn [orb]. apply IH. exact C2.
Qed.

Lemma rend_canon l : forallb item_numwf l = true -> forallb canon_char (rend l) = true.
Proof.
  unfold rend. induction l as [|i r IH]; cbn [map concat forallb]; [reflexivity|]. intros H.
  apply andb_true_iff in H. destruct H as [H1 H2]. rewrite forallb_app, item_str_canon, IH by assumption. reflexivity.
Qed.

(* the letter of an axis does not occur in items that are not its term *)
Lemma axis_notin_sgn a s : ~ In (axis_char a) (sgn_str s).
Proof.
  destruct s as [[|]|]; destruct a; cbn [sgn_str In]; intros H;
    try (destruct H as [H | H]; [vm_compute in H; discriminate H | exact H]); exact H.
Qed.

Lemma axis_notin_num a n : num_wf n = true -> ~ In (axis_char a) (num_str n).
Proof.
  intros W I. pose proof (num_str_chars n W) as C. rewrite forallb_forall in C.
  specialize (C _ I). destruct (numchar_not_axis _ C) as [N _]. rewrite axis_char_is_axis in N. discriminate.
Qed.

Lemma axis_notin_item a i : item_numwf i = true -> item_axis i <> Some a -> ~ In (axis_char a) (item_str i).
Proof.
  destruct i as [s b | s n]; cbn [item_str item_numwf item_axis]; intros W NA I; apply in_app_or in I; destruct I as [I | I].
  - exact (axis_notin_sgn a s I).
  - destruct I as [I | []]. apply NA. f_equal. symmetry. apply axis_eqb_true. apply axis_char_inj. symmetry. exact I.
  - exact (axis_notin_sgn a s I).
  - exact (axis_notin_num a n W I).
Qed.

Lemma axis_notin_rend a l : forallb item_numwf l = true -> ~ In a (axes_of l) -> ~ In (axis_char a) (rend l).
Proof.
  unfold rend. induction l as [|i r IH]; cbn [map concat forallb]; intros W NA I; [exact I|].
  apply andb_true_iff in W. destruct W as [W1 W2]. apply in_app_or in I. destruct I as [I | I].
  - apply (axis_notin_item a i W1); [|exact I]. intros E. apply NA. destruct i as [s b | s n]; cbn in E; [|discriminate].
    injection E as ->. cbn. left. reflexivity.
  - apply IH; [exact W2 | | exact I]. intros J. apply NA. destruct i; cbn; [right|]; exact J.
Qed.

(* ---------- one partition step ---------- *)
Fixpoint remove_axis (a : axis) (l : list item) : list item :=
  match l with
  | [] => []
  | ITerm s b :: r => if axis_eqb a b then r else ITerm s b :: remove_axis a r
  | i :: r => i :: remove_axis a r
  end.
Fixpoint find_sign (a : axis) (l : list item) : option (option sgn) :=
  match l with
  | [] => None
  | ITerm s b :: r => if axis_eqb a b then Some s else find_sign a r
  | _ :: r => find_sign a r
  end.
Definition unplus_item (i : item) : item :=
  match i with ITerm (Some Plus) a => ITerm None a | ITrans (Some Plus) n => ITrans None n | _ => i end.
Definition step (a : axis) (l : list item) : list item :=
  match find_sign a l with
  | None => l
  | Some (Some Minus) => remove_axis a l
  | Some _ => map unplus_item (remove_axis a l)
  end.

Lemma strip_plus_app s t : strip_plus (s ++ t) = strip_plus s ++ strip_plus t.
Proof. unfold strip_plus. apply filter_app. Qed.

Lemma strip_plus_numstr n : num_wf n = true -> strip_plus (num_str n) = num_str n.
Proof.
  intros W. pose proof (num_str_chars n W) as C. unfold strip_plus. induction (num_str n) as [|c r IH]; [reflexivity|].
  cbn [forallb] in C. apply andb_true_iff in C. destruct C as [C1 C2]. cbn [filter].
  destruct (numchar_not_axis c C1) as [_ S]. unfold is_sign_char in S. apply orb_false_iff in S. destruct S as [S _].
  rewrite S. cbn [negb]. f_equal. apply IH. exact C2.
Qed.

Lemma strip_plus_item i : item_numwf i = true -> strip_plus (item_str i) = item_str (unplus_item i).
Proof.
  destruct i as [s a | s n]; cbn [item_numwf]; intros W.
  - destruct s as [[|]|]; cbn [unplus_item item_str sgn_str app]; unfold strip_plus; cbn [filter];
      destruct (axis_not_sign a) as (_ & _ & P); rewrite ?P; reflexivity.
  - destruct s as [[|]|]; cbn [unplus_item item_str sgn_str app]; rewrite <- (strip_plus_numstr n W) at 2;
      unfold strip_plus; cbn [filter]; reflexivity.
Qed.

Lemma strip_plus_rend l : forallb item_numwf l = true -> strip_plus (rend l) = rend (map unplus_item l).
Proof.
  unfold rend. induction l as [|i r IH]; cbn [map concat forallb]; intros W; [reflexivity|].
  apply andb_true_iff in W. destruct W as [W1 W2]. rewrite strip_plus_app, strip_plus_item, IH by assumption. reflexivity.
Qed.

(* last character of a rendered non-empty list is never '-' *)
Lemma item_last_not_minus i : item_numwf i = true ->
  exists c, last_char (item_str i) = Some c /\ Ascii.eqb c cMinus = false.
Proof.
  destruct i as [s a | s n]; cbn [item_str item_numwf]; intros W.
  - exists (axis_char a). rewrite last_char_app. split; [reflexivity|]. apply (axis_not_sign a).
  - pose proof (num_str_nonempty n W) as NE. pose proof (num_str_chars n W) as C.
    rewrite last_char_app2 by exact NE.
    unfold last_char. destruct (rev (num_str n)) as [|c r] eqn:E.
    + exfalso. apply NE. apply (f_equal (@rev ascii)) in E. rewrite rev_involutive in E. exact E.
    + exists c. split; [reflexivity|]. rewrite forallb_forall in C.
      assert (I : In c (num_str n)) by (apply in_rev; rewrite E; left; reflexivity).
      specialize (C c I). destruct (numchar_not_axis c C) as [_ S]. unfold is_sign_char in S.
      apply orb_false_iff in S. apply S.
Qed.

Lemma rend_last_not_minus l : forallb item_numwf l = true -> l <> [] ->
  exists c, last_char (rend l) = Some c /\ Ascii.eqb c cMinus = false.
Proof.
  unfold rend. induction l as [|i r IH]; intros W NE; [contradiction|].
  cbn [map concat forallb] in *. apply andb_true_iff in W. destruct W as [W1 W2].
  destruct r as [|j r'].
  - cbn [map concat]. rewrite app_nil_r. apply item_last_not_minus. exact W1.
  - destruct (IH W2 ltac:(discriminate)) as (c & L & M). exists c. split; [|exact M].
    rewrite last_char_app2; [exact L|]. intros E. rewrite E in L. discriminate.
Qed.

Lemma rend_app l1 l2 : rend (l1 ++ l2) = rend l1 ++ rend l2.
Proof. unfold rend. rewrite map_app, concat_app. reflexivity. Qed.

(* decomposition of a list at the term of axis a *)
Lemma split_at_axis a l : In a (axes_of l) ->
  exists l1 s l2, l = l1 ++ ITerm s a :: l2 /\ ~ In a (axes_of l1) /\ find_sign a l = Some s /\ remove_axis a l = l1 ++ l2
                  /\ coef a l = sgn_val s.
Proof.
  induction l as [|i r IH]; cbn [axes_of]; intros I; [destruct I|].
  destruct i as [s b | s n].
  - cbn [find_sign remove_axis coef]. destruct (axis_eqb a b) eqn:E.
    + apply axis_eqb_true in E. subst b. exists [], s, r. cbn. repeat split; auto.
    + destruct I as [I | I]; [subst; rewrite axis_eqb_refl in E; discriminate|].
      destruct (IH I) as (l1 & s' & l2 & E1 & N & F & Rm & Cf). exists (ITerm s b :: l1), s', l2.
      cbn [app axes_of]. repeat split; try assumption.
      * rewrite E1. reflexivity.
      * intros [J | J]; [subst; rewrite axis_eqb_refl in E; discriminate | exact (N J)].
      * rewrite Rm. reflexivity.
  - cbn [find_sign remove_axis coef]. destruct (IH I) as (l1 & s' & l2 & E1 & N & F & Rm & Cf).
    exists (ITrans s n :: l1), s', l2. cbn [app axes_of]. repeat split; try assumption.
    + rewrite E1. reflexivity.
    + rewrite Rm. reflexivity.
Qed.

Lemma no_axis a l : ~ In a (axes_of l) -> find_sign a l = None /\ coef a l = 0%Z.
Proof.
  induction l as [|i r IH]; cbn [axes_of find_sign coef]; intros N; [auto|].
  destruct i as [s b | s n]; cbn [axes_of] in N.
  - destruct (axis_eqb a b) eqn:E; [apply axis_eqb_true in E; subst; exfalso; apply N; left; reflexivity|].
    apply IH. intros J. apply N. right. exact J.
  - apply IH. exact N.
Qed.

Lemma forallb_numwf_app l1 l2 : forallb item_numwf (l1 ++ l2) = true -> forallb item_numwf l1 = true /\ forallb item_numwf l2 = true.
Proof. rewrite forallb_app. apply andb_true_iff. Qed.

Lemma axis_eq_dec (x y : axis) : {x = y} + {x <> y}.
Proof. decide equality. Defined.

Lemma sym_partition_rend a l : forallb item_numwf l = true -> nodup_axes (axes_of l) = true ->
  sym_partition (rend l) (axis_char a) = (coef a l, rend (step a l)).
Proof.
  intros W ND. unfold sym_partition, step.
  destruct (in_dec axis_eq_dec a (axes_of l)) as [I | N].
  - destruct (split_at_axis a l I) as (l1 & s & l2 & E & N1 & F & Rm & Cf).
    rewrite F, Rm, Cf. subst l. apply forallb_numwf_app in W. destruct W as [W1 W2].
    cbn [forallb] in W2. apply andb_true_iff in W2. destruct W2 as [_ W2].
    rewrite rend_app. unfold rend at 2. cbn [map concat]. fold (rend l2). cbn [item_str].
    rewrite <- !app_assoc. rewrite app_assoc. cbn [app].
    rewrite partition_found.
    2:{ intros J. apply in_app_or in J. destruct J as [J | J];
        [exact (axis_notin_rend a l1 W1 N1 J) | exact (axis_notin_sgn a s J)]. }
    destruct s as [[|]|]; cbn [sgn_str sgn_val].
    + rewrite last_char_app. change (Ascii.eqb cPlus cMinus) with false. cbv iota.
      f_equal. rewrite !strip_plus_app. change (strip_plus [cPlus]) with (@nil ascii). rewrite app_nil_r.
      rewrite <- strip_plus_app, <- rend_app. apply strip_plus_rend. rewrite forallb_app, W1, W2. reflexivity.
    + rewrite last_char_app. change (Ascii.eqb cMinus cMinus) with true. cbv iota.
      rewrite removelast_app1. rewrite <- rend_app. reflexivity.
    + rewrite app_nil_r.
      assert (R : (1%Z, strip_plus (rend l1 ++ rend l2)) = (1%Z, rend (map unplus_item (l1 ++ l2)))).
      { f_equal. rewrite <- rend_app. apply strip_plus_rend. rewrite forallb_app, W1, W2. reflexivity. }
      destruct l1 as [|i1 r1].
      * cbn [rend map concat last_char rev]. exact R.
      * destruct (rend_last_not_minus (i1 :: r1) W1 ltac:(discriminate)) as (c & L & M). rewrite L, M. exact R.
  - destruct (no_axis a l N) as [F C]. rewrite F, C.
    rewrite partition_absent; [reflexivity|]. apply axis_notin_rend; assumption.
Qed.

(* ---------- invariants preserved by a step ---------- *)
Lemma unplus_numwf l : forallb item_numwf (map unplus_item l) = forallb item_numwf l.
Proof. induction l as [|i r IH]; cbn [map forallb]; [reflexivity|]. rewrite IH. destruct i as [[[|]|] a | [[|]|] n]; reflexivity. Qed.
Lemma unplus_axes l : axes_of (map unplus_item l) = axes_of l.
Proof. induction l as [|i r IH]; cbn [map axes_of]; [reflexivity|]. destruct i as [[[|]|] a | [[|]|] n]; cbn [unplus_item axes_of]; rewrite IH; reflexivity. Qed.
Lemma unplus_coef a l : coef a (map unplus_item l) = coef a l.
Proof. induction l as [|i r IH]; cbn [map coef]; [reflexivity|]. destruct i as [[[|]|] b | [[|]|] n]; cbn [unplus_item coef sgn_val]; rewrite IH; reflexivity. Qed.
Lemma unplus_transl l : transl (map unplus_item l) = transl l.
Proof. induction l as [|i r IH]; cbn [map transl]; [reflexivity|]. destruct i as [[[|]|] b | [[|]|] n]; cbn [unplus_item transl sgn_val]; try rewrite IH; reflexivity. Qed.
Lemma unplus_ntrans l : length (filter is_trans (map unplus_item l)) = length (filter is_trans l).
Proof. induction l as [|i r IH]; cbn [map filter]; [reflexivity|]. destruct i as [[[|]|] b | [[|]|] n]; cbn [unplus_item is_trans length]; rewrite IH; reflexivity. Qed.

Lemma remove_numwf a l : forallb item_numwf l = true -> forallb item_numwf (remove_axis a l) = true.
Proof.
  induction l as [|i r IH]; cbn [remove_axis forallb]; intros W; [reflexivity|].
  apply andb_true_iff in W. destruct W as [W1 W2]. destruct i as [s b | s n].
  - destruct (axis_eqb a b); [exact W2 | cbn [forallb]; rewrite IH by exact W2; reflexivity].
  - cbn [forallb]. rewrite W1, IH by exact W2. reflexivity.
Qed.
Lemma remove_axes_incl a l x : In x (axes_of (remove_axis a l)) -> In x (axes_of l).
Proof.
  induction l as [|i r IH]; cbn [remove_axis axes_of]; intros I; [exact I|]. destruct i as [s b | s n].
  - destruct (axis_eqb a b); cbn [axes_of] in *; [right; exact I | destruct I as [I | I]; [left; exact I | right; apply IH; exact I]].
  - cbn [axes_of] in *. apply IH. exact I.
Qed.
Lemma existsb_axis_false x l : existsb (axis_eqb x) l = false <-> ~ In x l.
Proof.
  split.
  - intros E I. assert (T : existsb (axis_eqb x) l = true) by (apply existsb_exists; exists x; split; [exact I | apply axis_eqb_refl]). congruence.
  - intros N. destruct (existsb (axis_eqb x) l) eqn:E; [|reflexivity]. apply existsb_exists in E. destruct E as (y & I & E).
    apply axis_eqb_true in E. subst. contradiction.
Qed.
Lemma remove_nodup a l : nodup_axes (axes_of l) = true -> nodup_axes (axes_of (remove_axis a l)) = true.
Proof.
  induction l as [|i r IH]; cbn [remove_axis axes_of]; intros ND; [reflexivity|]. destruct i as [s b | s n].
  - cbn [nodup_axes] in ND. apply andb_true_iff in ND. destruct ND as [N1 N2].
    destruct (axis_eqb a b); [exact N2|]. cbn [axes_of nodup_axes]. rewrite IH by exact N2. rewrite andb_true_r.
    apply negb_true_iff. apply existsb_axis_false. apply negb_true_iff in N1. rewrite existsb_axis_false in N1.
    intros J. apply N1. eapply remove_axes_incl. exact J.
  - apply IH. exact ND.
Qed.
Lemma remove_other_coef a b l : axis_eqb b a = false -> coef b (remove_axis a l) = coef b l.
Proof.
  intros NE. induction l as [|i r IH]; cbn [remove_axis coef]; [reflexivity|]. destruct i as [s c | s n].
  - destruct (axis_eqb a c) eqn:E.
    + apply axis_eqb_true in E. subst c. rewrite NE. reflexivity.
    + cbn [coef]. rewrite IH. reflexivity.
  - cbn [coef]. exact IH.
Qed.
Lemma remove_transl a l : transl (remove_axis a l) = transl l.
Proof.
  induction l as [|i r IH]; cbn [remove_axis transl]; [reflexivity|]. destruct i as [s c | s n].
  - destruct (axis_eqb a c); [reflexivity | cbn [transl]; exact IH].
  - reflexivity.
Qed.
Lemma remove_ntrans a l : length (filter is_trans (remove_axis a l)) = length (filter is_trans l).
Proof.
  induction l as [|i r IH]; cbn [remove_axis filter]; [reflexivity|]. destruct i as [s c | s n].
  - cbn [is_trans]. destruct (axis_eqb a c); [reflexivity | cbn [filter is_trans]; exact IH].
  - cbn [filter is_trans length]. rewrite IH. reflexivity.
Qed.
Lemma remove_not_in a l : nodup_axes (axes_of l) = true -> ~ In a (axes_of (remove_axis a l)).
Proof.
  induction l as [|i r IH]; cbn [remove_axis axes_of]; intros ND I; [exact I|]. destruct i as [s b | s n].
  - cbn [nodup_axes] in ND. apply andb_true_iff in ND. destruct ND as [N1 N2].
    destruct (axis_eqb a b) eqn:E.
    + apply axis_eqb_true in E. subst b. apply negb_true_iff in N1. rewrite existsb_axis_false in N1. exact (N1 I).
    + cbn [axes_of] in I. destruct I as [I | I]; [subst; rewrite axis_eqb_refl in E; discriminate | exact (IH N2 I)].
  - exact (IH ND I).
Qed.

Record inv (l : list item) : Prop := { inv_wf : forallb item_numwf l = true; inv_nd : nodup_axes (axes_of l) = true }.

Lemma step_inv a l : inv l -> inv (step a l).
Proof.
  intros [W ND]. unfold step. destruct (find_sign a l) as [[[|]|]|]; constructor;
    rewrite ?unplus_numwf, ?unplus_axes; auto using remove_numwf, remove_nodup.
Qed.
Lemma step_coef_other a b l : axis_eqb b a = false -> coef b (step a l) = coef b l.
Proof. intros NE. unfold step. destruct (find_sign a l) as [[[|]|]|]; rewrite ?unplus_coef, ?remove_other_coef by exact NE; reflexivity. Qed.
Lemma step_transl a l : transl (step a l) = transl l.
Proof. unfold step. destruct (find_sign a l) as [[[|]|]|]; rewrite ?unplus_transl, ?remove_transl; reflexivity. Qed.
Lemma step_ntrans a l : length (filter is_trans (step a l)) = length (filter is_trans l).
Proof. unfold step. destruct (find_sign a l) as [[[|]|]|]; rewrite ?unplus_ntrans, ?remove_ntrans; reflexivity. Qed.
Lemma step_axes a l x : inv l -> In x (axes_of (step a l)) -> In x (axes_of l) /\ x <> a.
Proof.
  intros [W ND] I. unfold step in I. destruct (find_sign a l) as [[[|]|]|] eqn:F.
  - rewrite unplus_axes in I. split; [eapply remove_axes_incl; exact I | intros ->; exact (remove_not_in a l ND I)].
  - split; [eapply remove_axes_incl; exact I | intros ->; exact (remove_not_in a l ND I)].
  - rewrite unplus_axes in I. split; [eapply remove_axes_incl; exact I | intros ->; exact (remove_not_in a l ND I)].
  - split; [exact I|]. intros ->.
    assert (C : forall l, In a (axes_of l) -> find_sign a l <> None).
    { clear. induction l as [|i r IH]; cbn [axes_of find_sign]; intros I; [destruct I|]. destruct i as [s b | s n].
      - destruct (axis_eqb a b) eqn:E; [discriminate|]. destruct I as [I | I]; [subst; rewrite axis_eqb_refl in E; discriminate | exact (IH I)].
      - exact (IH I). }
    exact (C l I F).
Qed.

(* ---------- the translation ---------- *)
Lemma all_digits_no c s : all_digits s = true -> is_digit c = false -> ~ In c s.
Proof.
  intros A N I. unfold all_digits in A. rewrite forallb_forall in A. specialize (A c I). congruence.
Qed.

Lemma split_sign_rend s n : num_wf n = true ->
  split_sign (sgn_str s ++ num_str n) = (match s with Some Minus => true | _ => false end, num_str n).
Proof.
  intros W. destruct s as [[|]|]; cbn [sgn_str app split_sign].
  - change (Ascii.eqb cPlus cMinus) with false. change (Ascii.eqb cPlus cPlus) with true. reflexivity.
  - change (Ascii.eqb cMinus cMinus) with true. reflexivity.
  - pose proof (num_str_nonempty n W) as NE. pose proof (num_str_chars n W) as C.
    destruct (num_str n) as [|c r]; [contradiction|]. cbn [forallb] in C. apply andb_true_iff in C. destruct C as [C _].
    destruct (numchar_not_axis c C) as [_ S]. unfold is_sign_char in S. apply orb_false_iff in S. destruct S as [S1 S2].
    unfold split_sign. rewrite S1, S2. reflexivity.
Qed.

Lemma all_digits_app s t : all_digits (s ++ t) = all_digits s && all_digits t.
Proof. unfold all_digits. apply forallb_app. Qed.

Lemma sym_float_item s n : num_wf n = true ->
  sym_float (sgn_str s ++ num_str n) = Some (if Z.eqb (sgn_val s) 1 then num_val n else - num_val n).
Proof.
  intros W. unfold sym_float, py_float. rewrite (split_sign_rend s n W).
  assert (Sg : (if match s with Some Minus => true | _ => false end then true else false) = negb (Z.eqb (sgn_val s) 1))
    by (destruct s as [[|]|]; reflexivity).
  destruct n as [a b | ip fp | ip]; cbn [num_wf num_str num_val] in *.
  - repeat (apply andb_true_iff in W; destruct W as [W ?]).
    (* no dot: py_float fails on the '/' *)
    rewrite partition_absent.
    2:{ intros I. apply in_app_or in I. destruct I as [I | [I | I]].
        - exact (all_digits_no cDot a W ltac:(reflexivity) I).
        - discriminate I.
        - exact (all_digits_no cDot b H2 ltac:(reflexivity) I). }
    rewrite all_digits_app. cbn [all_digits forallb]. change (is_digit cSlash) with false. rewrite andb_false_r. cbn [andb].
    rewrite partition_found by (exact (all_digits_no cSlash a W ltac:(reflexivity))).
    rewrite W, H2, H1, H0, H. cbn [andb]. destruct s as [[|]|]; reflexivity.
  - repeat (apply andb_true_iff in W; destruct W as [W ?]).
    rewrite partition_found by (exact (all_digits_no cDot ip W ltac:(reflexivity))).
    rewrite W, H0, H. cbn [andb]. destruct s as [[|]|]; reflexivity.
  - apply andb_true_iff in W. destruct W as [W L].
    rewrite partition_absent by (exact (all_digits_no cDot ip W ltac:(reflexivity))).
    rewrite W. cbn [all_digits forallb andb length]. rewrite Nat.add_0_r, L. destruct s as [[|]|]; reflexivity.
Qed.

(* a list without terms and with at most one translation *)
Lemma only_trans l : axes_of l = [] -> (length (filter is_trans l) <= 1)%nat ->
  l = [] \/ exists s n, l = [ITrans s n].
Proof.
  destruct l as [|[s a | s n] r]; cbn [axes_of filter is_trans length]; intros A L; [left; reflexivity | discriminate |].
  right. exists s, n. f_equal. destruct r as [|[s' a' | s' n'] r']; cbn [axes_of filter is_trans length] in *; [reflexivity | discriminate | lia].
Qed.

(* ---------- C10: every spelling of a well-formed component parses to what it denotes ---------- *)
Theorem parse_component_correct l s' : comp_wf l = true -> decorated (rend l) s' ->
  parse_component s' = Some (denote l).
Proof.
  unfold comp_wf. intros W D.
  apply andb_true_iff in W. destruct W as [W Sg]. apply andb_true_iff in W. destruct W as [W NW].
  apply andb_true_iff in W. destruct W as [ND NT]. apply Nat.leb_le in NT.
  assert (I0 : inv l) by (constructor; assumption).
  unfold parse_component. rewrite (normalize_decorated _ _ D (rend_canon l NW)).
  change cX with (axis_char AX). change cY with (axis_char AY). change cZ with (axis_char AZ).
  rewrite (sym_partition_rend AX l NW ND).
  pose proof (step_inv AX l I0) as I1. destruct I1 as [W1 N1].
  rewrite (sym_partition_rend AY _ W1 N1).
  pose proof (step_inv AY _ (Build_inv _ W1 N1)) as I2. destruct I2 as [W2 N2].
  rewrite (sym_partition_rend AZ _ W2 N2).
  pose proof (step_inv AZ _ (Build_inv _ W2 N2)) as I3. destruct I3 as [W3 N3].
  set (l1 := step AX l) in *. set (l2 := step AY l1) in *. set (l3 := step AZ l2) in *.
  assert (CY : coef AY l1 = coef AY l) by (apply step_coef_other; reflexivity).
  assert (CZ : coef AZ l2 = coef AZ l) by (unfold l2, l1; rewrite !step_coef_other by reflexivity; reflexivity).
  assert (TR : transl l3 = transl l) by (unfold l3, l2, l1; rewrite !step_transl; reflexivity).
  assert (NT3 : (length (filter is_trans l3) <= 1)%nat) by (unfold l3, l2, l1; rewrite !step_ntrans; exact NT).
  assert (AX3 : axes_of l3 = []).
  { destruct (axes_of l3) as [|x r] eqn:E; [reflexivity|]. exfalso.
    assert (Ix : In x (axes_of l3)) by (rewrite E; left; reflexivity).
    destruct (step_axes AZ l2 x (Build_inv _ W2 N2) Ix) as [I2 NZ].
    destruct (step_axes AY l1 x (Build_inv _ W1 N1) I2) as [I1 NY].
    destruct (step_axes AX l x I0 I1) as [_ NX]. destruct x; congruence. }
  rewrite CY, CZ. unfold denote.
  destruct (only_trans l3 AX3 NT3) as [E | (s & n & E)]; rewrite E in *.
  - cbn [rend map concat]. cbn [transl] in TR. rewrite <- TR. reflexivity.
  - cbn [forallb item_numwf] in W3. apply andb_true_iff in W3. destruct W3 as [Wn _].
    unfold rend. cbn [map concat item_str]. rewrite app_nil_r.
    pose proof (num_str_nonempty n Wn) as NE.
    destruct (sgn_str s ++ num_str n) as [|c r] eqn:Es.
    + exfalso. apply app_eq_nil in Es. destruct Es as [_ Es]. contradiction.
    + rewrite <- Es. rewrite (sym_float_item s n Wn). cbn [transl] in TR. rewrite TR. reflexivity.
Qed.

(* ---------- operators ---------- *)
Theorem parse_op_correct l1 l2 l3 s1 s2 s3 :
  comp_wf l1 = true -> comp_wf l2 = true -> comp_wf l3 = true ->
  decorated (rend l1) s1 -> decorated (rend l2) s2 -> decorated (rend l3) s3 ->
  parse_op [s1; s2; s3] false =
  Some {| so_rows := [fst (denote l1); fst (denote l2); fst (denote l3)];
          so_trans := [snd (denote l1); snd (denote l2); snd (denote l3)] |}.
Proof.
  intros W1 W2 W3 D1 D2 D3. unfold parse_op. cbn [opt_map].
  rewrite (parse_component_correct l1 s1 W1 D1), (parse_component_correct l2 s2 W2 D2), (parse_component_correct l3 s3 W3 D3).
  reflexivity.
Qed.

Lemma decorated_refl s : decorated s s.
Proof. induction s as [|c r IH]; constructor; exact IH. Qed.

(* to_shelxl: translation text first (if non-zero), then +X/-X, +Y/-Y, +Z/-Z for the non-zero coefficients *)
Definition term_of (c : Z) (a : axis) : list item :=
  if Z.eqb c 0 then [] else [ITerm (Some (if Z.ltb c 0 then Minus else Plus)) a].
Definition print_comp (c : Z * Z * Z) (t : option (option sgn * numeral)) : list item :=
  let '(cx, cy, cz) := c in
  (match t with Some (s, n) => [ITrans s n] | None => [] end) ++ term_of cx AX ++ term_of cy AY ++ term_of cz AZ.
Definition to_shelxl_comp (c : Z * Z * Z) (t : option (option sgn * numeral)) : str := rend (print_comp c t).

Definition unit_coef (c : Z) : bool := Z.eqb c 0 || Z.eqb c 1 || Z.eqb c (-1).
(* Python prints a float translation as [-]digits.digits: never with an explicit '+' *)
Definition printed_trans_wf (t : option (option sgn * numeral)) : bool :=
  match t with None => true | Some (s, n) => num_wf n && match s with Some Plus => false | _ => true end end.
Definition trans_value (t : option (option sgn * numeral)) : Q :=
  match t with None => 0 | Some (s, n) => if Z.eqb (sgn_val s) 1 then num_val n else - num_val n end.

Lemma print_comp_wf cx cy cz t : unit_coef cx = true -> unit_coef cy = true -> unit_coef cz = true ->
  printed_trans_wf t = true -> comp_wf (print_comp (cx, cy, cz) t) = true.
Proof.
  unfold unit_coef, print_comp, term_of. intros Hx Hy Hz Ht.
  destruct t as [[s n]|]; cbn [printed_trans_wf] in Ht;
    [apply andb_true_iff in Ht; destruct Ht as [Wn _]|];
    destruct (Z.eqb cx 0), (Z.eqb cy 0), (Z.eqb cz 0); unfold comp_wf; cbn; rewrite ?Wn; reflexivity.
Qed.

Lemma print_comp_denote cx cy cz t : unit_coef cx = true -> unit_coef cy = true -> unit_coef cz = true ->
  denote (print_comp (cx, cy, cz) t) = (cx, cy, cz, trans_value t).
Proof.
  unfold unit_coef, print_comp, term_of, denote. intros Hx Hy Hz.
  assert (V : forall c, (c =? 0)%Z || (c =? 1)%Z || (c =? -1)%Z = true -> c = 0%Z \/ c = 1%Z \/ c = (-1)%Z) by (intros; lia).
  destruct (V cx Hx) as [-> | [-> | ->]], (V cy Hy) as [-> | [-> | ->]], (V cz Hz) as [-> | [-> | ->]];
    destruct t as [[s n]|]; reflexivity.
Qed.

(* C10: printing a component and parsing the result gives the same coefficients and translation *)
Theorem print_parse_component cx cy cz t :
  unit_coef cx = true -> unit_coef cy = true -> unit_coef cz = true -> printed_trans_wf t = true ->
  parse_component (to_shelxl_comp (cx, cy, cz) t) = Some (cx, cy, cz, trans_value t).
Proof.
  intros Hx Hy Hz Ht. unfold to_shelxl_comp.
  rewrite (parse_component_correct _ _ (print_comp_wf cx cy cz t Hx Hy Hz Ht) (decorated_refl _)).
  rewrite print_comp_denote by assumption. reflexivity.
Qed.

(* ---------- equality modulo lattice translations ---------- *)
Lemma Qfloor_unique (q : Q) (z : Z) : inject_Z z <= q -> q < inject_Z (z + 1) -> Qfloor q = z.
Proof.
  intros H1 H2.
  assert (A : (z <= Qfloor q)%Z).
  { rewrite <- (Qfloor_Z z). apply Qfloor_resp_le. exact H1. }
  assert (B : (Qfloor q < z + 1)%Z).
  { rewrite Zlt_Qlt. eapply Qle_lt_trans; [apply Qfloor_le | exact H2]. }
  lia.
Qed.

Lemma trans_close_iff a b :
  trans_close a b = true <-> Qabs (qmod1 (a - b + (1 # 2)) - (1 # 2)) < tol.
Proof.
  unfold trans_close. rewrite negb_true_iff. split.
  - intros H. apply Qnot_le_lt. intros L. apply Qle_bool_iff in L. congruence.
  - intros H. destruct (Qle_bool tol _) eqn:E; [|reflexivity]. apply Qle_bool_iff in E. apply Qle_not_lt in E. contradiction.
Qed.

(* whole lattice translations compare equal *)
Theorem trans_close_sound a b (k : Z) : a - b == inject_Z k -> trans_close a b = true.
Proof.
  intros E. apply trans_close_iff. unfold qmod1.
  assert (F : Qfloor (a - b + (1 # 2)) = k).
  { apply Qfloor_unique; rewrite E; [|rewrite inject_Z_plus; change (inject_Z 1) with 1]; lra. }
  rewrite F, E. setoid_replace (inject_Z k + (1 # 2) - inject_Z k - (1 # 2)) with 0 by ring. reflexivity.
Qed.

(* operators that compare equal differ by a whole lattice translation up to the tolerance *)
Theorem trans_close_complete a b : trans_close a b = true -> exists k : Z, Qabs (a - b - inject_Z k) < tol.
Proof.
  intros H. apply trans_close_iff in H. exists (Qfloor (a - b + (1 # 2))). unfold qmod1 in H.
  setoid_replace (a - b - inject_Z (Qfloor (a - b + (1 # 2))))
    with (a - b + (1 # 2) - inject_Z (Qfloor (a - b + (1 # 2))) - (1 # 2)) by ring. exact H.
Qed.

(* on the crystallographic grid (multiples of 1/24) the comparison is exact: equal iff the difference is an integer *)
Theorem trans_close_grid a b (m : Z) : a - b == m # 24 -> (trans_close a b = true <-> (24 | m)%Z).
Proof.
  intros E. split.
  - intros H. destruct (trans_close_complete a b H) as (k & K). rewrite E in K.
    assert (Dm : (m # 24) - inject_Z k == (m - 24 * k # 24)).
    { unfold Qeq, Qminus, Qplus, Qopp, inject_Z. cbn [Qnum Qden]. lia. }
    rewrite Dm in K. unfold tol in K.
    assert (Z0 : (m - 24 * k = 0)%Z).
    { destruct (Z.eq_dec (m - 24 * k) 0) as [z | nz]; [exact z|]. exfalso.
      unfold Qabs, Qlt in K. cbn [Qnum Qden] in K. lia. }
    exists k. lia.
  - intros (k & ->). apply (trans_close_sound a b k). rewrite E. unfold inject_Z, Qeq. cbn [Qnum Qden]. lia.
Qed.

(* non-vacuity / regression witnesses *)
Example eq_two_thirds : trans_close (2 # 3) (- (1 # 3)) = true.
Proof. vm_compute. reflexivity. Qed.
Example parse_example : parse_component (lit " 1/2 - x + Y") = Some ((-1)%Z, 1%Z, 0%Z, 1 # 2).
Proof. vm_compute. reflexivity. Qed.
