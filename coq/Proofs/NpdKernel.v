(* C12 — the traced is_npd() kernel is the decision tree of Model/Npd.v over the traced Cartesian tensor.  Proved by
   conversion (the two sides are the same expression DAG), for an arbitrary interpretation O of the operations. *)
From Coq Require Import ZArith List Bool.
From SX Require Import Base.Num Gen.K_adp Model.Npd.
Open Scope bool_scope.

Lemma k_npd_is_model (T : Type) (O : Ops T) u11 u22 u33 u23 u13 u12 a b c al be ga :
  k_npd O u11 u22 u33 u23 u13 u12 a b c al be ga =
  npd_model O u11 u22 u33 u23 u13 u12
    (k_ucart_0_0 O u11 u22 u33 u23 u13 u12 a b c al be ga) (k_ucart_0_1 O u11 u22 u33 u23 u13 u12 a b c al be ga) (k_ucart_0_2 O u11 u22 u33 u23 u13 u12 a b c al be ga)
    (k_ucart_1_0 O u11 u22 u33 u23 u13 u12 a b c al be ga) (k_ucart_1_1 O u11 u22 u33 u23 u13 u12 a b c al be ga) (k_ucart_1_2 O u11 u22 u33 u23 u13 u12 a b c al be ga)
    (k_ucart_2_0 O u11 u22 u33 u23 u13 u12 a b c al be ga) (k_ucart_2_1 O u11 u22 u33 u23 u13 u12 a b c al be ga) (k_ucart_2_2 O u11 u22 u33 u23 u13 u12 a b c al be ga).
Proof.
  unfold npd_model, nz, k_npd.
  destruct (o_eqb O u33 (zero O)) eqn:E3; unfold zero in E3; rewrite E3; cbn [negb orb]; [| reflexivity].
  destruct (o_eqb O u23 (zero O)) eqn:E4; unfold zero in E4; rewrite E4; cbn [negb orb]; [| reflexivity].
  destruct (o_eqb O u13 (zero O)) eqn:E5; unfold zero in E5; rewrite E5; cbn [negb orb]; [| reflexivity].
  destruct (o_eqb O u12 (zero O)) eqn:E6; unfold zero in E6; rewrite E6; cbn [negb orb]; [| reflexivity].
  reflexivity.
Qed.
