(* C01 / C07 — what the writer model emits for an instruction, the reader model reads back as the same tokens. *)
From SX Require Import Base.Prelude Base.Str Model.Lex Model.Wrap Spec.WrapSpec Proofs.WrapProofs.
Local Open Scope nat_scope.

Definition cBangNotIn (s : str) : Prop := ~ In cBang s.

(* a text the writer may be handed for one instruction: a keyword (non-blank characters) followed by nothing or a blank,
   no comment or continuation characters, not free text (REM / TITL) *)
Record instr_text (s : str) : Prop := {
  it_head : exists t y, s = t ++ y /\ t <> [] /\ Forall (fun x => is_blank x = false) t /\ ends_token y;
  it_noeq : ~ In cEq s;
  it_nobang : ~ In cBang s;
  it_notfree : is_free_text s = false }.

Lemma body_nobang l : ~ In cBang l -> body l = l.
Proof. intros H. unfold body. apply before_absent. exact H. Qed.

Lemma has_eq_absent l : ~ In cBang l -> ~ In cEq l -> has_eq l = false.
Proof.
  intros B E. unfold has_eq. rewrite body_nobang by exact B. apply not_true_is_false. intro H.
  apply existsb_exists in H. destruct H as (x & I & X). apply Ascii.eqb_eq in X. subst. exact (E I).
Qed.

Lemma has_eq_present a : ~ In cBang a -> has_eq (a ++ cont_mark) = true.
Proof.
  intros B. unfold has_eq. rewrite body_nobang.
  - apply existsb_exists. exists cEq. split; [|apply Ascii.eqb_refl]. rewrite in_app_iff. right. right. left. reflexivity.
  - rewrite in_app_iff. intros [A|[A|[A|[]]]]; [exact (B A) | discriminate | discriminate].
Qed.

(* ---------- starts_with / is_free_text depend on the keyword only ---------- *)
Lemma upper_app a b : upper (a ++ b) = upper a ++ upper b.
Proof. unfold upper. apply map_app. Qed.

Lemma upper_ends z : ends_token z -> ends_token (upper z).
Proof. intros [-> | [r ->]]; [left; reflexivity | right; eexists; reflexivity]. Qed.

Lemma starts_with_head P : forallb (fun c => negb (is_blank c)) P = true -> forall t z, ends_token z ->
  starts_with P (t ++ z) = starts_with P t.
Proof.
  induction P as [|a P IH]; intros HP t z Hz; [destruct t; reflexivity|].
  cbn [forallb] in HP. apply andb_prop in HP. destruct HP as [Ha HP]. destruct t as [|b t].
  - cbn [app]. destruct Hz as [-> | [r ->]]; [reflexivity|]. cbn. unfold is_blank in Ha.
    destruct (Ascii.eqb a " "%char) eqn:E; [discriminate | reflexivity].
  - cbn [app]. change (starts_with (a :: P) (b :: t ++ z)) with (Ascii.eqb a b && starts_with P (t ++ z)).
    change (starts_with (a :: P) (b :: t)) with (Ascii.eqb a b && starts_with P t). rewrite (IH HP t z Hz). reflexivity.
Qed.

Lemma free_text_head t y z : ends_token y -> ends_token z -> is_free_text (t ++ y) = is_free_text (t ++ z).
Proof.
  intros Hy Hz. unfold is_free_text. rewrite !upper_app.
  rewrite !(starts_with_head (lit "REM")), !(starts_with_head (lit "TITL")); try reflexivity; try apply upper_ends; assumption.
Qed.

(* ---------- the first piece begins with the keyword ---------- *)
Lemma chunks_token_first t : Forall (fun x => is_blank x = false) t -> t <> [] -> forall y, ends_token y ->
  chunks (t ++ y) = t :: chunks y.
Proof.
  intros H. induction H as [|c t Hc Ht IH]; intros Hne y Hy; [exfalso; apply Hne; reflexivity|].
  cbn [app]. rewrite chunks_cons. destruct t as [|d t].
  - cbn [app]. destruct Hy as [-> | [r ->]]; [reflexivity|].
    pose proof (chunks_alt " "%char r) as A. destruct (chunks (" "%char :: r)) as [|ch rest]; [reflexivity|].
    destruct A as [[Hn Hall] _]. destruct ch as [|e q]; [exfalso; apply Hn; reflexivity|].
    inversion Hall as [|? ? He ?]; subst. rewrite Hc, He. reflexivity.
  - rewrite (IH ltac:(discriminate) y Hy). inversion Ht as [|? ? Hd ?]; subst. rewrite Hc, Hd. reflexivity.
Qed.

Lemma fill_head cs : forall w w' cur len, cur <> [] -> exists p' rest, fill w w' cur len cs = (rev cur ++ p') :: rest.
Proof.
  induction cs as [|c r IH]; intros w w' cur len Hne; cbn [fill].
  - destruct cur; [exfalso; apply Hne; reflexivity|]. exists [], []. rewrite app_nil_r. reflexivity.
  - destruct (len + length c <=? w).
    + destruct (IH w w' (c :: cur) (len + length c) ltac:(discriminate)) as (p' & rest & E).
      exists (c :: p'), rest. rewrite E. cbn [rev]. rewrite <- app_assoc. reflexivity.
    + destruct cur as [|d cur]; [exfalso; apply Hne; reflexivity|]. eexists [], _. rewrite app_nil_r. reflexivity.
Qed.

Lemma pieces_first c cs : exists p' rest, fill 77 75 [] 0 (c :: cs) = (c :: p') :: rest.
Proof.
  cbn [fill]. destruct (0 + length c <=? 77).
  - destruct (fill_head cs 77 75 [c] (0 + length c) ltac:(discriminate)) as (p' & rest & E). exists p', rest. exact E.
  - eexists [], _. reflexivity.
Qed.

(* ---------- glue over the continuation lines ---------- *)
Lemma glue_mark ps : forall acc rest, ps <> [] -> ~ In cEq (concat (concat ps)) -> ~ In cBang (concat (concat ps)) ->
  glue acc true (mark_lines false ps ++ rest) = (acc ++ logical (mark_lines false ps), rest).
Proof.
  induction ps as [|p r IH]; intros acc rest Hne HE HB; [exfalso; apply Hne; reflexivity|].
  cbn [concat] in HE, HB. rewrite concat_app, in_app_iff in HE, HB.
  assert (PE : ~ In cEq (pre false ++ concat p)).
  { rewrite in_app_iff. intros [A|A]; [exact (pre_no_eq false A) | apply HE; left; exact A]. }
  assert (PB : ~ In cBang (pre false ++ concat p)).
  { rewrite in_app_iff. intros [A|A]; [|apply HB; left; exact A]. cbn in A. repeat (destruct A as [A|A]; [discriminate|]). exact A. }
  cbn [mark_lines]. destruct r as [|p2 r].
  - cbn [app glue]. fold (pre false). rewrite body_nobang by exact PB. rewrite before_absent by exact PE.
    rewrite has_eq_absent by assumption. unfold logical. cbn [map concat]. rewrite before_absent by exact PE.
    rewrite app_nil_r. destruct rest; reflexivity.
  - change ((((" "%char :: indent) ++ concat p ++ cont_mark) :: mark_lines false (p2 :: r)) ++ rest)
      with (((pre false ++ concat p ++ cont_mark)) :: (mark_lines false (p2 :: r) ++ rest)).
    rewrite (app_assoc (pre false) (concat p) cont_mark).
    assert (HQ : has_eq ((pre false ++ concat p) ++ cont_mark) = true) by (apply has_eq_present; exact PB).
    assert (BD : before cEq (body ((pre false ++ concat p) ++ cont_mark)) = (pre false ++ concat p) ++ [" "%char]).
    { rewrite body_nobang; [apply before_cont; exact PE|].
      rewrite in_app_iff. intros [A|[A|[A|[]]]]; [exact (PB A) | discriminate | discriminate]. }
    cbn [glue]. rewrite HQ, BD.
    rewrite IH; [|discriminate | intro A; apply HE; right; exact A | intro A; apply HB; right; exact A].
    unfold logical. cbn [map concat]. fold (pre false). rewrite (app_assoc (pre false) (concat p) cont_mark). rewrite before_cont by exact PE.
    rewrite <- !app_assoc. reflexivity.
Qed.

(* ---------- one instruction ---------- *)
Theorem lex_wrap s f rest : instr_text s -> lex_fuel (S f) (wrap_lines s ++ rest) = split_ws s :: lex_fuel f rest.
Proof.
  intros [(t & y & -> & Hne & Ht & Hy) HE HB HF].
  assert (Single : lex_fuel (S f) ((t ++ y) :: rest) = split_ws (t ++ y) :: lex_fuel f rest).
  { cbn [lex_fuel]. destruct t as [|c t]; [exfalso; apply Hne; reflexivity|]. cbn [app].
    inversion Ht as [|? ? Hc ?]; subst. rewrite Hc. unfold continues.
    change (c :: t ++ y) with ((c :: t) ++ y). rewrite has_eq_absent by assumption. rewrite andb_false_r.
    rewrite body_nobang by exact HB. reflexivity. }
  unfold wrap_lines. destruct (length (t ++ y) <? 81); [exact Single|].
  destruct (pieces (t ++ y)) as [|p0 ps] eqn:E.
  { assert (Z : chunks (t ++ y) = []) by (rewrite <- pieces_concat, E; reflexivity). apply chunks_nil in Z.
    destruct t; [exfalso; apply Hne; reflexivity | discriminate]. }
  pose proof (pieces_concat (t ++ y)) as PC. rewrite E in PC.
  assert (CC : concat (concat (p0 :: ps)) = t ++ y) by (rewrite PC; apply chunks_concat).
  destruct ps as [|p1 ps].
  - cbn [mark_lines app]. cbn [concat] in CC. rewrite !app_nil_r in CC. rewrite CC. exact Single.
  - (* the first piece starts with the keyword *)
    assert (P0 : exists p', p0 = t :: p').
    { change (pieces (t ++ y)) with (fill 77 75 [] 0 (chunks (t ++ y))) in E.
      rewrite (chunks_token_first t Ht Hne y Hy) in E.
      destruct (pieces_first t (chunks y)) as (p' & rest' & E2).
      assert (E3 : p0 :: p1 :: ps = (t :: p') :: rest') by (etransitivity; [symmetry; exact E | exact E2]).
      injection E3 as E0 E1. exists p'. exact E0. }
    destruct P0 as [p' ->].
    (* the text after the keyword on the first line is empty or begins with a blank *)
    assert (X : ends_token (concat p')).
    { destruct (chunks_alt_ex (t ++ y)) as [k K]. rewrite <- PC in K. cbn [concat app] in K.
      destruct K as [[_ Kt] K']. destruct t as [|c t]; [exfalso; apply Hne; reflexivity|].
      pose proof (Forall_inv Ht) as Hc. pose proof (Forall_inv Kt) as Kc. cbv beta in Hc, Kc. rewrite Hc in Kc. subst k.
      destruct (alt_app _ _ _ K') as [A _]. apply alt_true_ends. exact A. }
    assert (HE' : ~ In cEq (concat (concat ((t :: p') :: p1 :: ps)))) by (intro A; apply HE; rewrite <- CC; exact A).
    assert (HB' : ~ In cBang (concat (concat ((t :: p') :: p1 :: ps)))) by (intro A; apply HB; rewrite <- CC; exact A).
    cbn [concat] in HE', HB'. rewrite concat_app, in_app_iff in HE', HB'.
    assert (L0B : ~ In cBang (concat (t :: p'))) by (intro A; apply HB'; left; exact A).
    assert (L0E : ~ In cEq (concat (t :: p'))) by (intro A; apply HE'; left; exact A).
    rewrite <- (mark_tokens (t ++ y) HE), E.
    change (mark_lines true ((t :: p') :: p1 :: ps) ++ rest)
      with ((concat (t :: p') ++ cont_mark) :: (mark_lines false (p1 :: ps) ++ rest)).
    change (mark_lines true ((t :: p') :: p1 :: ps))
      with ((concat (t :: p') ++ cont_mark) :: mark_lines false (p1 :: ps)).
    assert (NB : exists c r, concat (t :: p') ++ cont_mark = c :: r /\ is_blank c = false).
    { destruct t as [|c t]; [exfalso; apply Hne; reflexivity|]. inversion Ht as [|? ? Hc ?]; subst.
      exists c, (t ++ concat p' ++ cont_mark). split; [cbn [concat app]; rewrite <- app_assoc; reflexivity | exact Hc]. }
    destruct NB as (c & r & NB1 & NB2).
    assert (FT : is_free_text (concat (t :: p') ++ cont_mark) = false).
    { rewrite <- HF. cbn [concat]. rewrite <- app_assoc. apply free_text_head; [|exact Hy].
      destruct X as [-> | [r' ->]]; right; eexists; reflexivity. }
    assert (CT : continues (concat (t :: p') ++ cont_mark) = true).
    { unfold continues. rewrite FT, has_eq_present by exact L0B. reflexivity. }
    assert (BD : before cEq (body (concat (t :: p') ++ cont_mark)) = concat (t :: p') ++ [" "%char]).
    { rewrite body_nobang; [apply before_cont; exact L0E|].
      rewrite in_app_iff. intros [A|[A|[A|[]]]]; [exact (L0B A) | discriminate | discriminate]. }
    cbn [lex_fuel]. revert CT BD. rewrite NB1. intros CT BD. rewrite NB2, CT, BD.
    rewrite glue_mark; [|discriminate | intro A; apply HE'; right; exact A | intro A; apply HB'; right; exact A].
    f_equal. unfold logical. cbn [map concat]. rewrite <- NB1, before_cont by exact L0E. reflexivity.
Qed.

(* ---------- whole files of instructions ---------- *)
Definition echo_file (items : list str) : list str := flat_map wrap_lines items.

Lemma wrap_lines_nonempty s : 1 <= length (wrap_lines s).
Proof.
  unfold wrap_lines. destruct (length s <? 81); [cbn; lia|]. destruct (pieces s) as [|p ps]; [cbn; lia|].
  cbn [mark_lines]. destruct ps; cbn [length]; lia.
Qed.

Theorem echo_lex_fuel items : Forall instr_text items -> forall fuel, length (echo_file items) <= fuel ->
  lex_fuel fuel (echo_file items) = map split_ws items.
Proof.
  intros H. induction H as [|s items Hs _ IH]; intros fuel Hf.
  - destruct fuel; reflexivity.
  - cbn [echo_file flat_map map] in *. rewrite app_length in Hf. pose proof (wrap_lines_nonempty s) as N.
    destruct fuel as [|f]; [lia|]. rewrite (lex_wrap s f _ Hs). f_equal. apply IH. unfold echo_file. lia.
Qed.

Theorem echo_lex items : Forall instr_text items -> lex (echo_file items) = map split_ws items.
Proof. intros H. unfold lex. apply echo_lex_fuel; [exact H | lia]. Qed.

(* pass-through instructions: the stored text is the tokens joined by single blanks *)
Definition tok_plain (t : str) : Prop := t <> [] /\ Forall (fun x => is_blank x = false) t /\ ~ In cEq t /\ ~ In cBang t.
Definition join_sp (toks : list str) : str := join (lit " ") toks.

Lemma join_cons t r : r <> [] -> join_sp (t :: r) = t ++ " "%char :: join_sp r.
Proof. destruct r; [intros H; exfalso; apply H; reflexivity | reflexivity]. Qed.

Lemma join_tokens toks : Forall tok_plain toks -> split_ws (join_sp toks) = toks.
Proof.
  intros H. induction H as [|t r (Hne & Hnb & _ & _) Hr IH]; [reflexivity|].
  destruct r as [|t2 r].
  - unfold join_sp. cbn [join]. unfold split_ws. rewrite <- (app_nil_r t) at 1. rewrite split_token_run; [reflexivity | exact Hnb | exact Hne | left; reflexivity].
  - rewrite join_cons by discriminate. unfold split_ws in *. rewrite split_token_run; [|exact Hnb | exact Hne | right; eexists; reflexivity].
    f_equal. cbn [split_aux]. change (is_blank " "%char) with true. cbv iota. exact IH.
Qed.

Lemma join_notin c toks : c <> " "%char -> Forall (fun t => ~ In c t) toks -> ~ In c (join_sp toks).
Proof.
  intros Hc H. induction H as [|t r Ht Hr IH]; [intros []|]. destruct r as [|t2 r]; [exact Ht|].
  rewrite join_cons by discriminate. rewrite in_app_iff. intros [A|[A|A]]; [exact (Ht A) | exact (Hc (eq_sym A)) | exact (IH A)].
Qed.

Lemma join_instr_text t r : Forall tok_plain (t :: r) -> is_free_text t = false -> instr_text (join_sp (t :: r)).
Proof.
  intros H HF. pose proof (Forall_inv H) as (Hne & Hnb & _ & _).
  assert (Y : exists y, join_sp (t :: r) = t ++ y /\ ends_token y).
  { destruct r as [|t2 r]; [exists []; split; [unfold join_sp; cbn [join]; rewrite app_nil_r; reflexivity | left; reflexivity]|].
    exists (" "%char :: join_sp (t2 :: r)). split; [apply join_cons; discriminate | right; eexists; reflexivity]. }
  destruct Y as (y & Ey & Hy). constructor.
  - exists t, y. repeat split; assumption.
  - apply join_notin; [discriminate|]. eapply Forall_impl; [|exact H]. intros a (_ & _ & A & _). exact A.
  - apply join_notin; [discriminate|]. eapply Forall_impl; [|exact H]. intros a (_ & _ & _ & A). exact A.
  - rewrite Ey. rewrite <- HF. rewrite <- (app_nil_r t) at 2. apply free_text_head; [exact Hy | left; reflexivity].
Qed.

Definition instr_tokens_ok (toks : list str) : Prop :=
  match toks with [] => False | t :: _ => Forall tok_plain toks /\ is_free_text t = false end.

(* C01 / C07 at token level: writing the stored token lists and reading the result gives the same token lists *)
Theorem passthrough_roundtrip items : Forall instr_tokens_ok items -> lex (echo_file (map join_sp items)) = items.
Proof.
  intros H. rewrite echo_lex.
  - rewrite map_map. rewrite <- (map_id items) at 2. apply map_ext_in. intros toks I.
    rewrite Forall_forall in H. specialize (H toks I). destruct toks as [|t r]; [destruct H|]. apply join_tokens. exact (proj1 H).
  - rewrite Forall_forall. intros s I. apply in_map_iff in I. destruct I as (toks & <- & I).
    rewrite Forall_forall in H. specialize (H toks I). destruct toks as [|t r]; [destruct H|]. destruct H. apply join_instr_text; assumption.
Qed.

(* a second write of what was read is the same text: the fixed point at the level of the modelled pass-through items *)
Theorem passthrough_fixpoint items : Forall instr_tokens_ok items ->
  echo_file (map join_sp (lex (echo_file (map join_sp items)))) = echo_file (map join_sp items).
Proof. intros H. rewrite passthrough_roundtrip by exact H. reflexivity. Qed.

Example roundtrip_example :
  let items := [[lit "SADI"; lit "0.02"; lit "C1"; lit "C2"]; map lit ["FLAT"; "C1_$1"; "C2"; "C3"; "C4"; "C5"; "C6"; "C7"; "C8"; "C9"; "C10"; "C11"; "C12";
                 "C13"; "C14"; "C15"; "C16"; "C17"; "C18"; "C19"; "C20"; "C21"; "C22"]%string] in
  length (echo_file (map join_sp items)) = 3%nat /\ lex (echo_file (map join_sp items)) = items.
Proof. cbv zeta. split; vm_compute; reflexivity. Qed.
