(* C14 — proofs about the real-number instance of the grow() model (Model/Sdm.v: needed_symmetry, packer). *)
From SX Require Import Base.RTac Model.Sdm Proofs.SdmProofs.
Import ListNotations.
Open Scope R_scope.

Lemma fold_left_inv {A B} (f : A -> B -> A) (P : A -> Prop) (l : list B) :
  (forall a b, In b l -> P a -> P (f a b)) -> forall a, P a -> P (fold_left f l a).
Proof.
  induction l as [|b r IH]; intros H a Pa; cbn [fold_left]; [exact Pa|].
  apply IH; [intros; apply H; [right|]; assumption | apply H; [left; reflexivity | exact Pa]].
Qed.

(* ---------- every needed-symmetry entry: integral shifts, from a bonded item of a numbered molecule ---------- *)
Definition need_good (ops : list (sop (T:=R))) (items : list (sitem (T:=R))) (idx : list Z) (nd : need (T:=R)) : Prop :=
  (exists kx ky kz : Z, nd_fx nd = IZR kx /\ nd_fy nd = IZR ky /\ nd_fz nd = IZR kz) /\
  (nd_n nd < length ops)%nat /\
  exists it, In it items /\ it_cov it = true /\ nd_mol nd = get_idx idx (it_a1 it) /\ (1 <= nd_mol nd)%Z.

Lemma candidate_floor_integral m s a1 a2 :
  let f := fst (candidate ROps m s a1 a2) in
  exists kx ky kz : Z, fst (fst f) = IZR kx /\ snd (fst f) = IZR ky /\ snd f = IZR kz.
Proof.
  unfold candidate. destruct (apply ROps s (sa_x a1) (sa_y a1) (sa_z a1)) as [[px py] pz].
  unfold wrap1. cbn [fst snd o_floor ROps]. unfold Rfloor. cbn [fst snd]. do 3 eexists. repeat split; reflexivity.
Qed.

Lemma number_from_lt {A} (l : list A) : forall i n x, In (n, x) (number_from i l) -> (n < i + length l)%nat.
Proof.
  induction l as [|y r IH]; intros i n x; cbn [number_from length]; [intros []|].
  intros [E | I]; [injection E as <- <-; lia | specialize (IH _ _ _ I); lia].
Qed.

Lemma need_of_item_good m ops atoms idx items acc it :
  In it items -> Forall (need_good ops items idx) acc ->
  Forall (need_good ops items idx) (need_of_item ROps m ops atoms idx acc it).
Proof.
  intros Iit Hacc. unfold need_of_item.
  destruct (it_cov it) eqn:Cov; cbn [negb]; [|exact Hacc].
  destruct (Z.ltb (get_idx idx (it_a1 it)) 1) eqn:Lt; [exact Hacc|]. apply Z.ltb_ge in Lt.
  destruct (nth_error atoms (it_a1 it)) as [a1|]; [|exact Hacc].
  destruct (nth_error atoms (it_a2 it)) as [a2|]; [|exact Hacc].
  apply fold_left_inv; [|exact Hacc].
  intros acc' [n s] In_ns H.
  destruct (negb (Z.eqb (sa_part a1) 0) && negb (Z.eqb (sa_part a2) 0) && negb (Z.eqb (sa_part a1) (sa_part a2))); [exact H|].
  destruct (Z.eqb (sa_an a1) (sa_an a2) && sa_h a1); [exact H|].
  pose proof (candidate_floor_integral m s a1 a2) as Fi. cbv zeta in Fi.
  destruct (candidate ROps m s a1 a2) as [[[fx fy] fz] dk]. cbn [fst snd] in Fi.
  destruct (Nat.eqb n 0 && eq0 ROps fx && eq0 ROps fy && eq0 ROps fz); [exact H|].
  match goal with |- Forall _ (if ?c then _ else _) => destruct c end; [|exact H].
  match goal with |- Forall _ (if ?c then _ else _) => destruct c end; [exact H|].
  apply Forall_app. split; [exact H|]. constructor; [|constructor].
  unfold need_good. cbn [nd_fx nd_fy nd_fz nd_n nd_mol]. split; [exact Fi|]. split.
  - pose proof (number_from_lt _ _ _ _ In_ns). lia.
  - exists it. repeat split; try assumption; lia.
Qed.

Theorem needed_symmetry_good m ops atoms items idx :
  Forall (need_good ops items idx) (needed_symmetry ROps m ops atoms items idx).
Proof.
  unfold needed_symmetry. apply fold_left_inv; [|constructor].
  intros acc it I H. apply need_of_item_good; assumption.
Qed.

(* ---------- every atom the packer appends is the image of an original atom ---------- *)
Definition grown_good (ops : list (sop (T:=R))) (atoms : list (satom (T:=R))) (idx : list Z) (needs : list (need (T:=R))) (g : grown (T:=R)) : Prop :=
  exists nd s a, In nd needs /\ nth_error ops (g_n g) = Some s /\ nth_error atoms (g_src g) = Some a /\
    g_n g = nd_n nd /\ get_idx idx (g_src g) = nd_mol nd /\ sa_qpeak a = false /\ g_part g = sa_part a /\
    let p := apply ROps s (sa_x a) (sa_y a) (sa_z a) in
    g_x g = fst (fst p) + (5 - nd_fx nd - 5) /\ g_y g = snd (fst p) + (5 - nd_fy nd - 5) /\ g_z g = snd p + (5 - nd_fz nd - 5).

Lemma pack_one_good m ops atoms wq idx needs nd st i a :
  In nd needs -> nth_error atoms i = Some a -> Forall (grown_good ops atoms idx needs) (snd st) ->
  Forall (grown_good ops atoms idx needs) (snd (pack_one ROps m ops wq idx nd st (i, a))).
Proof.
  intros Ind Ha H. destruct st as [shown out]. unfold pack_one. cbn [snd] in H.
  destruct (sa_qpeak a) eqn:Q.
  - rewrite orb_true_r. exact H.
  - rewrite orb_false_r, andb_false_r, orb_false_l.
    destruct (Z.eqb (get_idx idx i) (nd_mol nd)) eqn:E; cbn [negb]; [|exact H]. apply Z.eqb_eq in E.
    destruct (nth_error ops (nd_n nd)) as [s|] eqn:Es; [|exact H].
    destruct (apply ROps s (sa_x a) (sa_y a) (sa_z a)) as [[px py] pz] eqn:Ap.
    match goal with |- Forall _ (snd (if ?c then _ else _)) => destruct c end; [exact H|].
    cbn [snd]. apply Forall_app. split; [exact H|]. constructor; [|constructor].
    exists nd, s, a. cbn [g_n g_src g_part g_x g_y g_z]. rewrite Ap. cbn [fst snd].
    change (cst ROps 5 1) with 5.
    repeat split; try assumption; reflexivity.
Qed.

Lemma number_from_nth {A} (l : list A) : forall i n x, In (n, x) (number_from i l) -> nth_error l (n - i) = Some x /\ (i <= n)%nat.
Proof.
  induction l as [|y r IH]; intros i n x; cbn [number_from]; [intros []|].
  intros [E | I].
  - injection E as <- <-. rewrite Nat.sub_diag. split; [reflexivity | lia].
  - destruct (IH _ _ _ I) as [N L]. split; [|lia]. replace (n - i)%nat with (S (n - S i)) by lia. exact N.
Qed.

Theorem packer_good m ops atoms idx needs wq :
  Forall (grown_good ops atoms idx needs) (packer ROps m ops atoms idx needs wq).
Proof.
  unfold packer.
  set (P := fun st : list (Z * (R * R * R)) * list (grown (T:=R)) => Forall (grown_good ops atoms idx needs) (snd st)).
  change (P (fold_left (fun st nd => fold_left (pack_one ROps m ops wq idx nd) (number_from 0 atoms) st) needs
                       (omap (fun a => if negb wq && sa_qpeak a then None else Some (sa_part a, (sa_x a, sa_y a, sa_z a))) atoms, []))).
  apply fold_left_inv; [|constructor].
  intros st nd Ind Pst. apply fold_left_inv; [|exact Pst].
  intros st' [i a] Iia Pst'. unfold P in *.
  destruct (number_from_nth _ _ _ _ Iia) as [N _]. rewrite Nat.sub_0_r in N.
  apply pack_one_good; assumption.
Qed.

(* C14: every atom that grow() adds is the exact image of an original, non-Q-peak atom of a bonded, numbered
   fragment under an operator of the list plus an integral lattice translation, in the same PART *)
Theorem grow_images_exact m ops atoms wq g :
  In g (grow ROps m ops atoms wq) ->
  exists s a (kx ky kz : Z),
    nth_error ops (g_n g) = Some s /\ nth_error atoms (g_src g) = Some a /\ sa_qpeak a = false /\ g_part g = sa_part a /\
    let p := apply ROps s (sa_x a) (sa_y a) (sa_z a) in
    g_x g = fst (fst p) + IZR kx /\ g_y g = snd (fst p) + IZR ky /\ g_z g = snd p + IZR kz /\
    exists it, In it (sdm_list ROps m ops atoms) /\ it_cov it = true /\
               get_idx (molindex (sdm_list ROps m ops atoms) atoms) (g_src g) =
               get_idx (molindex (sdm_list ROps m ops atoms) atoms) (it_a1 it).
Proof.
  unfold grow. intros I.
  pose proof (packer_good m ops atoms (molindex (sdm_list ROps m ops atoms) atoms)
                          (needed_symmetry ROps m ops atoms (sdm_list ROps m ops atoms) (molindex (sdm_list ROps m ops atoms) atoms)) wq) as PG.
  rewrite Forall_forall in PG. destruct (PG g I) as (nd & s & a & Ind & Es & Ea & En & Em & Q & Pt & Cx & Cy & Cz).
  pose proof (needed_symmetry_good m ops atoms (sdm_list ROps m ops atoms) (molindex (sdm_list ROps m ops atoms) atoms)) as NG.
  rewrite Forall_forall in NG. destruct (NG nd Ind) as ((kx & ky & kz & Fx & Fy & Fz) & _ & it & Iit & Cov & Mol & _).
  exists s, a, (- kx)%Z, (- ky)%Z, (- kz)%Z. repeat split; try assumption.
  - rewrite Cx, Fx, opp_IZR. ring.
  - rewrite Cy, Fy, opp_IZR. ring.
  - rewrite Cz, Fz, opp_IZR. ring.
  - exists it. repeat split; try assumption. rewrite Em, Mol. reflexivity.
Qed.

(* ---------- no grown atom coincides (0.2 A) with an atom of the same non-negative PART placed before it ---------- *)
Definition far (m : metric (T:=R)) (p q : Z * (R * R * R)) : Prop :=
  fst p = fst q -> (0 <= fst q)%Z ->
  let '(x, y, z) := snd p in let '(x', y', z') := snd q in ~ vlen ROps m (x' - x) (y' - y) (z' - z) < 2 / 10.

(* shown = initial ++ placed, every placed atom is far from everything before it *)
Inductive placed_ok (m : metric (T:=R)) : list (Z * (R * R * R)) -> list (Z * (R * R * R)) -> Prop :=
| po_nil init : placed_ok m init []
| po_snoc init pl q : placed_ok m init pl -> (forall p, In p (init ++ pl) -> far m p q) -> placed_ok m init (pl ++ [q]).

Lemma pack_one_placed m ops wq idx nd init pl out i a :
  placed_ok m init pl ->
  exists pl', fst (pack_one ROps m ops wq idx nd (init ++ pl, out) (i, a)) = init ++ pl' /\ placed_ok m init pl'.
Proof.
  intros H. unfold pack_one.
  destruct ((negb wq && sa_qpeak a) || negb (Z.eqb (get_idx idx i) (nd_mol nd)) || sa_qpeak a); [exists pl; split; [reflexivity | exact H]|].
  destruct (nth_error ops (nd_n nd)) as [s|]; [|exists pl; split; [reflexivity | exact H]].
  destruct (apply ROps s (sa_x a) (sa_y a) (sa_z a)) as [[px py] pz].
  match goal with |- context [if ?c then _ else _] => destruct c eqn:C end; [exists pl; split; [reflexivity | exact H]|].
  cbn [fst]. eexists. split; [rewrite <- app_assoc; reflexivity|]. constructor; [exact H|].
  intros p Ip. unfold far. cbn [fst snd]. intros Ep Pos. destruct p as [pp [[x y] z]]. cbn [fst snd] in *.
  apply andb_false_iff in C. destruct C as [C | C]; [apply Z.leb_gt in C; lia|].
  intros Lt. assert (T : existsb (fun sh => Z.eqb (fst sh) (sa_part a) &&
            (let '(x0, y0, z0) := snd sh in ltb ROps (vlen ROps m (o_sub ROps (o_add ROps px (o_sub ROps (o_sub ROps (cst ROps 5 1) (nd_fx nd)) (cst ROps 5 1))) x0)
                                                        (o_sub ROps (o_add ROps py (o_sub ROps (o_sub ROps (cst ROps 5 1) (nd_fy nd)) (cst ROps 5 1))) y0)
                                                        (o_sub ROps (o_add ROps pz (o_sub ROps (o_sub ROps (cst ROps 5 1) (nd_fz nd)) (cst ROps 5 1))) z0)) (cst ROps 2 10)))
            (init ++ pl) = true).
  { apply existsb_exists. exists (pp, (x, y, z)). split; [exact Ip|]. cbn [fst snd]. rewrite Ep, Z.eqb_refl. cbn [andb].
    apply ltb_true. exact Lt. }
  congruence.
Qed.

Theorem packer_no_coincide m ops atoms idx needs wq :
  let init := omap (fun a => if negb wq && sa_qpeak a then None else Some (sa_part a, (sa_x a, sa_y a, sa_z a))) atoms in
  exists pl, fst (fold_left (fun st nd => fold_left (pack_one ROps m ops wq idx nd) (number_from 0 atoms) st) needs (init, [])) = init ++ pl
             /\ placed_ok m init pl.
Proof.
  cbv zeta. set (init := omap _ atoms).
  set (P := fun st : list (Z * (R * R * R)) * list (grown (T:=R)) => exists pl, fst st = init ++ pl /\ placed_ok m init pl).
  change (P (fold_left (fun st nd => fold_left (pack_one ROps m ops wq idx nd) (number_from 0 atoms) st) needs (init, []))).
  apply fold_left_inv.
  - intros st nd _ Pst. apply fold_left_inv; [|exact Pst].
    intros [sh out] [i a] _ (pl & E & H). cbn [fst] in E. subst sh.
    destruct (pack_one_placed m ops wq idx nd init pl out i a H) as (pl' & E' & H'). exists pl'. split; assumption.
  - exists []. split; [cbn [fst]; rewrite app_nil_r; reflexivity | constructor].
Qed.
