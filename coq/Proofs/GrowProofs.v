(* C14 — proofs about the real-number instance of the grow() model (Model/Sdm.v: needed_symmetry, packer). *)
From SX Require Import Base.RTac Model.Sdm Proofs.SdmProofs.
Import ListNotations.
Open Scope R_scope.

Lemma fold_left_inv {A B} (f : A -> B -> A) (P : A -> Prop) (l : list B) :
  (forall a b, In b l -> P a -> P (f a b)) -> forall a, P a -> P (fold_left f l a).
Proof.
  induction l as [|b r IH]; intros H a Pa; cbn [fold_left]; [exact Pa|].
  apply IH; [intros; apply H; [right|]; assumption | apply H; [left; reflexivity | exact Pa]].
Qed.

(* ---------- every needed-symmetry entry: integral shifts, from a bonded item of a numbered molecule ---------- *)
Definition need_good (ops : list (sop (T:=R))) (items : list (sitem (T:=R))) (idx : list Z) (nd : need (T:=R)) : Prop :=
  (exists kx ky kz : Z, nd_fx nd = IZR kx /\ nd_fy nd = IZR ky /\ nd_fz nd = IZR kz) /\
  (nd_n nd < length ops)%nat /\
  exists it, In it items /\ it_cov it = true /\ nd_mol nd = get_idx idx (it_a1 it) /\ (1 <= nd_mol nd)%Z.

Lemma candidate_floor_integral m s a1 a2 :
  let f := fst (candidate ROps m s a1 a2) in
  exists kx ky kz : Z, fst (fst f) = IZR kx /\ snd (fst f) = IZR ky /\ snd f = IZR kz.
Proof.
  unfold candidate. destruct (apply ROps s (sa_x a1) (sa_y a1) (sa_z a1)) as [[px py] pz].
  unfold wrap1. cbn [fst snd o_floor ROps]. unfold Rfloor. cbn [fst snd]. do 3 eexists. repeat split; reflexivity.
Qed.

Lemma number_from_lt {A} (l : list A) : forall i n x, In (n, x) (number_from i l) -> (n < i + length l)%nat.
Proof.
  induction l as [|y r IH]; intros i n x; cbn [number_from length]; [intros []|].
  intros [E | I]; [injection E as <- <-; lia | specialize (IH _ _ _ I); lia].
Qed.

Lemma need_of_item_good m ops atoms idx items acc it :
  In it items -> Forall (need_good ops items idx) acc ->
  Forall (need_good ops items idx) (need_of_item ROps m ops atoms idx acc it).
Proof.
  intros Iit Hacc. unfold need_of_item.
  destruct (it_cov it) eqn:Cov; cbn [negb]; [|exact Hacc].
  destruct (Z.ltb (get_idx idx (it_a1 it)) 1) eqn:Lt; [exact Hacc|]. apply Z.ltb_ge in Lt.
  destruct (nth_error atoms (it_a1 it)) as [a1|]; [|exact Hacc].
  destruct (nth_error atoms (it_a2 it)) as [a2|]; [|exact Hacc].
  apply fold_left_inv; [|exact Hacc].
  intros acc' [n s] In_ns H.
  destruct (negb (Z.eqb (sa_part a1) 0) && negb (Z.eqb (sa_part a2) 0) && negb (Z.eqb (sa_part a1) (sa_part a2))); [exact H|].
  destruct (Z.eqb (sa_an a1) (sa_an a2) && sa_h a1); [exact H|].
  pose proof (candidate_floor_integral m s a1 a2) as Fi. cbv zeta in Fi.
  destruct (candidate ROps m s a1 a2) as [[[fx fy] fz] dk]. cbn [fst snd] in Fi.
  destruct (Nat.eqb n 0 && eq0 ROps fx && eq0 ROps fy && eq0 ROps fz); [exact H|].
  match goal with |- Forall _ (if ?c then _ else _) => destruct c end; [|exact H].
  match goal with |- Forall _ (if ?c then _ else _) => destruct c end; [exact H|].
  apply Forall_app. split; [exact H|]. constructor; [|constructor].
  unfold need_good. cbn [nd_fx nd_fy nd_fz nd_n nd_mol]. split; [exact Fi|]. split.
  - pose proof (number_from_lt _ _ _ _ In_ns). lia.
  - exists it. repeat split; try assumption; lia.
Qed.

Theorem needed_symmetry_good m ops atoms items idx :
  Forall (need_good ops items idx) (needed_symmetry ROps m ops atoms items idx).
Proof.
  unfold needed_symmetry. apply fold_left_inv; [|constructor].
  intros acc it I H. apply need_of_item_good; assumption.
Qed.

(* ---------- every atom the packer appends is the image of an original atom ---------- *)
Definition grown_good (ops : list (sop (T:=R))) (atoms : list (satom (T:=R))) (idx : list Z) (needs : list (need (T:=R))) (g : grown (T:=R)) : Prop :=
  exists nd s a, In nd needs /\ nth_error ops (g_n g) = Some s /\ nth_error atoms (g_src g) = Some a /\
    g_n g = nd_n nd /\ get_idx idx (g_src g) = nd_mol nd /\ sa_qpeak a = false /\ g_part g = sa_part a /\
    let p := apply ROps s (sa_x a) (sa_y a) (sa_z a) in
    g_x g = fst (fst p) + (5 - nd_fx nd - 5) /\ g_y g = snd (fst p) + (5 - nd_fy nd - 5) /\ g_z g = snd p + (5 - nd_fz nd - 5).

Lemma pack_one_good m ops atoms wq idx needs nd st i a :
  In nd needs -> nth_error atoms i = Some a -> Forall (grown_good ops atoms idx needs) (snd st) ->
  Forall (grown_good ops atoms idx needs) (snd (pack_one ROps m ops wq idx nd st (i, a))).
Proof.
  intros Ind Ha H. destruct st as [shown out]. unfold pack_one. cbn [snd] in H.
  destruct (sa_qpeak a) eqn:Q.
  - rewrite orb_true_r. exact H.
  - rewrite orb_false_r, andb_false_r, orb_false_l.
    destruct (Z.eqb (get_idx idx i) (nd_mol nd)) eqn:E; cbn [negb]; [|exact H]. apply Z.eqb_eq in E.
    destruct (nth_error ops (nd_n nd)) as [s|] eqn:Es; [|exact H].
    destruct (apply ROps s (sa_x a) (sa_y a) (sa_z a)) as [[px py] pz] eqn:Ap.
    match goal with |- Forall _ (snd (if ?c then _ else _)) => destruct c end; [exact H|].
    cbn [snd]. apply Forall_app. split; [exact H|]. constructor; [|constructor].
    exists nd, s, a. cbn [g_n g_src g_part g_x g_y g_z]. rewrite Ap. cbn [fst snd].
    change (cst ROps 5 1) with 5.
    repeat split; try assumption; reflexivity.
Qed.

Lemma number_from_nth {A} (l : list A) : forall i n x, In (n, x) (number_from i l) -> nth_error l (n - i) = Some x /\ (i <= n)%nat.
Proof.
  induction l as [|y r IH]; intros i n x; cbn [number_from]; [intros []|].
  intros [E | I].
  - injection E as <- <-. rewrite Nat.sub_diag. split; [reflexivity | lia].
  - destruct (IH _ _ _ I) as [N L]. split; [|lia]. replace (n - i)%nat with (S (n - S i)) by lia. exact N.
Qed.

Theorem packer_good m ops atoms idx needs wq :
  Forall (grown_good ops atoms idx needs) (packer ROps m ops atoms idx needs wq).
Proof.
  unfold packer.
  set (P := fun st : list (Z * (R * R * R)) * list (grown (T:=R)) => Forall (grown_good ops atoms idx needs) (snd st)).
  change (P (fold_left (fun st nd => fold_left (pack_one ROps m ops wq idx nd) (number_from 0 atoms) st) needs
                       (omap (fun a => if sa_qpeak a then None else Some (sa_part a, (sa_x a, sa_y a, sa_z a))) atoms, []))).
  apply fold_left_inv; [|constructor].
  intros st nd Ind Pst. apply fold_left_inv; [|exact Pst].
  intros st' [i a] Iia Pst'. unfold P in *.
  destruct (number_from_nth _ _ _ _ Iia) as [N _]. rewrite Nat.sub_0_r in N.
  apply pack_one_good; assumption.
Qed.

(* C14: every atom that grow() adds is the exact image of an original, non-Q-peak atom of a bonded, numbered
   fragment under an operator of the list plus an integral lattice translation, in the same PART *)
Theorem grow_images_exact m ops atoms wq g :
  In g (grow ROps m ops atoms wq) ->
  exists s a (kx ky kz : Z),
    nth_error ops (g_n g) = Some s /\ nth_error atoms (g_src g) = Some a /\ sa_qpeak a = false /\ g_part g = sa_part a /\
    let p := apply ROps s (sa_x a) (sa_y a) (sa_z a) in
    g_x g = fst (fst p) + IZR kx /\ g_y g = snd (fst p) + IZR ky /\ g_z g = snd p + IZR kz /\
    exists it, In it (sdm_list ROps m ops atoms) /\ it_cov it = true /\
               get_idx (molindex (sdm_list ROps m ops atoms) atoms) (g_src g) =
               get_idx (molindex (sdm_list ROps m ops atoms) atoms) (it_a1 it).
Proof.
  unfold grow. intros I.
  pose proof (packer_good m ops atoms (molindex (sdm_list ROps m ops atoms) atoms)
                          (needed_symmetry ROps m ops atoms (sdm_list ROps m ops atoms) (molindex (sdm_list ROps m ops atoms) atoms)) wq) as PG.
  rewrite Forall_forall in PG. destruct (PG g I) as (nd & s & a & Ind & Es & Ea & En & Em & Q & Pt & Cx & Cy & Cz).
  pose proof (needed_symmetry_good m ops atoms (sdm_list ROps m ops atoms) (molindex (sdm_list ROps m ops atoms) atoms)) as NG.
  rewrite Forall_forall in NG. destruct (NG nd Ind) as ((kx & ky & kz & Fx & Fy & Fz) & _ & it & Iit & Cov & Mol & _).
  exists s, a, (- kx)%Z, (- ky)%Z, (- kz)%Z. repeat split; try assumption.
  - rewrite Cx, Fx, opp_IZR. ring.
  - rewrite Cy, Fy, opp_IZR. ring.
  - rewrite Cz, Fz, opp_IZR. ring.
  - exists it. repeat split; try assumption. rewrite Em, Mol. reflexivity.
Qed.

(* ---------- no grown atom coincides (0.2 A) with an atom of the same non-negative PART placed before it ---------- *)
Definition far (m : metric (T:=R)) (p q : Z * (R * R * R)) : Prop :=
  fst p = fst q -> (0 <= fst q)%Z ->
  let '(x, y, z) := snd p in let '(x', y', z') := snd q in ~ vlen ROps m (x' - x) (y' - y) (z' - z) < 2 / 10.

(* shown = initial ++ placed, every placed atom is far from everything before it *)
Inductive placed_ok (m : metric (T:=R)) : list (Z * (R * R * R)) -> list (Z * (R * R * R)) -> Prop :=
| po_nil init : placed_ok m init []
| po_snoc init pl q : placed_ok m init pl -> (forall p, In p (init ++ pl) -> far m p q) -> placed_ok m init (pl ++ [q]).

Lemma pack_one_placed m ops wq idx nd init pl out i a :
  placed_ok m init pl ->
  exists pl', fst (pack_one ROps m ops wq idx nd (init ++ pl, out) (i, a)) = init ++ pl' /\ placed_ok m init pl'.
Proof.
  intros H. unfold pack_one.
  destruct ((negb wq && sa_qpeak a) || negb (Z.eqb (get_idx idx i) (nd_mol nd)) || sa_qpeak a); [exists pl; split; [reflexivity | exact H]|].
  destruct (nth_error ops (nd_n nd)) as [s|]; [|exists pl; split; [reflexivity | exact H]].
  destruct (apply ROps s (sa_x a) (sa_y a) (sa_z a)) as [[px py] pz].
  match goal with |- context [if ?c then _ else _] => destruct c eqn:C end; [exists pl; split; [reflexivity | exact H]|].
  cbn [fst]. eexists. split; [rewrite <- app_assoc; reflexivity|]. constructor; [exact H|].
  intros p Ip. unfold far. cbn [fst snd]. intros Ep Pos. destruct p as [pp [[x y] z]]. cbn [fst snd] in *.
  apply andb_false_iff in C. destruct C as [C | C]; [apply Z.leb_gt in C; lia|].
  intros Lt. assert (T : existsb (fun sh => Z.eqb (fst sh) (sa_part a) &&
            (let '(x0, y0, z0) := snd sh in ltb ROps (vlen ROps m (o_sub ROps (o_add ROps px (o_sub ROps (o_sub ROps (cst ROps 5 1) (nd_fx nd)) (cst ROps 5 1))) x0)
                                                        (o_sub ROps (o_add ROps py (o_sub ROps (o_sub ROps (cst ROps 5 1) (nd_fy nd)) (cst ROps 5 1))) y0)
                                                        (o_sub ROps (o_add ROps pz (o_sub ROps (o_sub ROps (cst ROps 5 1) (nd_fz nd)) (cst ROps 5 1))) z0)) (cst ROps 2 10)))
            (init ++ pl) = true).
  { apply existsb_exists. exists (pp, (x, y, z)). split; [exact Ip|]. cbn [fst snd]. rewrite Ep, Z.eqb_refl. cbn [andb].
    apply ltb_true. exact Lt. }
  congruence.
Qed.

Theorem packer_no_coincide m ops atoms idx needs wq :
  let init := omap (fun a => if sa_qpeak a then None else Some (sa_part a, (sa_x a, sa_y a, sa_z a))) atoms in
  exists pl, fst (fold_left (fun st nd => fold_left (pack_one ROps m ops wq idx nd) (number_from 0 atoms) st) needs (init, [])) = init ++ pl
             /\ placed_ok m init pl.
Proof.
  cbv zeta. set (init := omap _ atoms).
  set (P := fun st : list (Z * (R * R * R)) * list (grown (T:=R)) => exists pl, fst st = init ++ pl /\ placed_ok m init pl).
  change (P (fold_left (fun st nd => fold_left (pack_one ROps m ops wq idx nd) (number_from 0 atoms) st) needs (init, []))).
  apply fold_left_inv.
  - intros st nd _ Pst. apply fold_left_inv; [|exact Pst].
    intros [sh out] [i a] _ (pl & E & H). cbn [fst] in E. subst sh.
    destruct (pack_one_placed m ops wq idx nd init pl out i a H) as (pl' & E' & H'). exists pl'. split; assumption.
  - exists []. split; [cbn [fst]; rewrite app_nil_r; reflexivity | constructor].
Qed.

(* ---------- completeness of the needed-symmetry list: every bonded image of a numbered fragment is asked for ---------- *)

Definition has (bs : need (T:=R)) (acc : list (need (T:=R))) : Prop := existsb (need_eqb ROps bs) acc = true.

Lemma need_eqb_refl (bs : need (T:=R)) : need_eqb ROps bs bs = true.
Proof.
  unfold need_eqb. cbn [o_eqb ROps]. rewrite Nat.eqb_refl, Z.eqb_refl.
  repeat match goal with |- context [Req_EM_T ?x ?x] => destruct (Req_EM_T x x) as [_ | N]; [|exfalso; apply N; reflexivity] end.
  reflexivity.
Qed.

Lemma need_eqb_eq (a b : need (T:=R)) : need_eqb ROps a b = true ->
  nd_n b = nd_n a /\ nd_fx b = nd_fx a /\ nd_fy b = nd_fy a /\ nd_fz b = nd_fz a /\ nd_mol b = nd_mol a.
Proof.
  unfold need_eqb. cbn [o_eqb ROps]. intros H.
  apply andb_true_iff in H. destruct H as [H Hm]. apply andb_true_iff in H. destruct H as [H Hz].
  apply andb_true_iff in H. destruct H as [H Hy]. apply andb_true_iff in H. destruct H as [Hn Hx].
  apply Nat.eqb_eq in Hn. apply Z.eqb_eq in Hm.
  destruct (Req_EM_T (nd_fx a) (nd_fx b)); [|discriminate].
  destruct (Req_EM_T (nd_fy a) (nd_fy b)); [|discriminate].
  destruct (Req_EM_T (nd_fz a) (nd_fz b)); [|discriminate].
  repeat split; congruence.
Qed.

Lemma has_app bs acc x : has bs acc -> has bs (acc ++ x).
Proof. unfold has. intros H. rewrite existsb_app, H. reflexivity. Qed.

(* the body of the loop over the operators in collect_needed_symmetry *)
Definition need_step (m : metric (T:=R)) (a1 a2 : satom (T:=R)) (mi : Z) (acc : list (need (T:=R))) (ns : nat * sop (T:=R)) : list (need (T:=R)) :=
  let '(n, s) := ns in
  if negb (Z.eqb (sa_part a1) 0) && negb (Z.eqb (sa_part a2) 0) && negb (Z.eqb (sa_part a1) (sa_part a2)) then acc
  else if Z.eqb (sa_an a1) (sa_an a2) && sa_h a1 then acc
  else
    let '((fx, fy, fz), dk) := candidate ROps m s a1 a2 in
    if Nat.eqb n 0 && eq0 ROps fx && eq0 ROps fy && eq0 ROps fz then acc
    else
      let dddd := if sa_h a1 && sa_h a2 then cst ROps 18 10 else bond_limit ROps a1 a2 in
      if ltb ROps (cst ROps 1 1000) dk && negb (ltb ROps dddd dk) then
        let bs := {| nd_n := n; nd_fx := fx; nd_fy := fy; nd_fz := fz; nd_mol := mi |} in
        if existsb (need_eqb ROps bs) acc then acc else acc ++ [bs]
      else acc.

Lemma need_step_mono m a1 a2 mi bs acc ns : has bs acc -> has bs (need_step m a1 a2 mi acc ns).
Proof.
  intros H. unfold need_step. destruct ns as [n s].
  destruct (negb (Z.eqb (sa_part a1) 0) && negb (Z.eqb (sa_part a2) 0) && negb (Z.eqb (sa_part a1) (sa_part a2))); [exact H|].
  destruct (Z.eqb (sa_an a1) (sa_an a2) && sa_h a1); [exact H|].
  destruct (candidate ROps m s a1 a2) as [[[fx fy] fz] dk].
  destruct (Nat.eqb n 0 && eq0 ROps fx && eq0 ROps fy && eq0 ROps fz); [exact H|].
  match goal with |- has _ (if ?c then _ else _) => destruct c end; [|exact H].
  match goal with |- has _ (if ?c then _ else _) => destruct c end; [exact H | apply has_app; exact H].
Qed.

Lemma need_of_item_unfold m ops atoms idx acc it a1 a2 :
  it_cov it = true -> (1 <= get_idx idx (it_a1 it))%Z -> nth_error atoms (it_a1 it) = Some a1 -> nth_error atoms (it_a2 it) = Some a2 ->
  need_of_item ROps m ops atoms idx acc it = fold_left (need_step m a1 a2 (get_idx idx (it_a1 it))) (number_from 0 ops) acc.
Proof.
  intros Cov Mi A1 A2. unfold need_of_item. rewrite Cov. cbn [negb].
  destruct (Z.ltb_spec (get_idx idx (it_a1 it)) 1) as [L | _]; [lia|]. rewrite A1, A2. reflexivity.
Qed.

Lemma need_of_item_mono m ops atoms idx bs acc it : has bs acc -> has bs (need_of_item ROps m ops atoms idx acc it).
Proof.
  intros H. unfold need_of_item.
  destruct (negb (it_cov it)); [exact H|].
  destruct (Z.ltb (get_idx idx (it_a1 it)) 1); [exact H|].
  destruct (nth_error atoms (it_a1 it)) as [a1|]; [|exact H].
  destruct (nth_error atoms (it_a2 it)) as [a2|]; [|exact H].
  apply (fold_left_inv (need_step m a1 a2 (get_idx idx (it_a1 it))) (has bs)); [|exact H].
  intros acc' ns _ H'. apply need_step_mono. exact H'.
Qed.

Lemma fold_left_reaches {A B} (f : A -> B -> A) (P : A -> Prop) (x : B) :
  (forall a, P (f a x)) -> (forall a y, P a -> P (f a y)) -> forall l a, In x l -> P (fold_left f l a).
Proof.
  intros Hx Hm. induction l as [|y r IH]; intros a I; [destruct I|]. cbn [fold_left].
  destruct I as [-> | I]; [|apply IH; exact I].
  apply fold_left_inv; [intros; apply Hm; assumption | apply Hx].
Qed.

Lemma number_from_In {A} (l : list A) : forall i k x, nth_error l k = Some x -> In ((i + k)%nat, x) (number_from i l).
Proof.
  induction l as [|y r IH]; intros i [|k] x H; cbn [nth_error] in H; try discriminate; cbn [number_from].
  - injection H as ->. left. f_equal. lia.
  - right. replace (i + S k)%nat with (S i + k)%nat by lia. apply IH. exact H.
Qed.

Theorem needed_symmetry_complete m ops atoms items idx it a1 a2 n s fx fy fz dk :
  In it items -> it_cov it = true -> (1 <= get_idx idx (it_a1 it))%Z ->
  nth_error atoms (it_a1 it) = Some a1 -> nth_error atoms (it_a2 it) = Some a2 -> nth_error ops n = Some s ->
  (sa_part a1 = 0 \/ sa_part a2 = 0 \/ sa_part a1 = sa_part a2)%Z ->        (* not in two different non-zero PARTs *)
  ~ (sa_an a1 = sa_an a2 /\ sa_h a1 = true) ->                               (* not a hydrogen - hydrogen contact *)
  candidate ROps m s a1 a2 = ((fx, fy, fz), dk) ->
  ~ (n = 0%nat /\ fx = 0 /\ fy = 0 /\ fz = 0) ->                              (* not the atom itself *)
  1 / 1000 < dk -> dk <= (if sa_h a1 && sa_h a2 then 18 / 10 else bond_limit ROps a1 a2) ->
  exists nd, In nd (needed_symmetry ROps m ops atoms items idx) /\
             nd_n nd = n /\ nd_fx nd = fx /\ nd_fy nd = fy /\ nd_fz nd = fz /\ nd_mol nd = get_idx idx (it_a1 it).
Proof.
  intros Iit Cov Mi A1 A2 Sn Parts NotHH Cand NotSelf Lo Hi.
  set (bs := {| nd_n := n; nd_fx := fx; nd_fy := fy; nd_fz := fz; nd_mol := get_idx idx (it_a1 it) |}).
  assert (H : has bs (needed_symmetry ROps m ops atoms items idx)).
  { unfold needed_symmetry.
    apply (fold_left_reaches (need_of_item ROps m ops atoms idx) (has bs) it); [| intros; apply need_of_item_mono; assumption | exact Iit].
    intros acc. rewrite (need_of_item_unfold m ops atoms idx acc it a1 a2 Cov Mi A1 A2).
    apply (fold_left_reaches (need_step m a1 a2 (get_idx idx (it_a1 it))) (has bs) (n, s));
      [| intros; apply need_step_mono; assumption | apply (number_from_In ops 0 n s Sn)].
    intros acc'. unfold need_step.
    assert (P : negb (Z.eqb (sa_part a1) 0) && negb (Z.eqb (sa_part a2) 0) && negb (Z.eqb (sa_part a1) (sa_part a2)) = false).
    { destruct (Z.eqb_spec (sa_part a1) 0); destruct (Z.eqb_spec (sa_part a2) 0); destruct (Z.eqb_spec (sa_part a1) (sa_part a2)); cbn [negb andb];
        try reflexivity. exfalso. destruct Parts as [E | [E | E]]; contradiction. }
    rewrite P.
    assert (Q : Z.eqb (sa_an a1) (sa_an a2) && sa_h a1 = false).
    { destruct (Z.eqb_spec (sa_an a1) (sa_an a2)) as [E | E]; [|reflexivity]. destruct (sa_h a1) eqn:Hh; [|reflexivity].
      exfalso. apply NotHH. split; [exact E | reflexivity]. }
    rewrite Q. rewrite Cand.
    assert (S0 : Nat.eqb n 0 && eq0 ROps fx && eq0 ROps fy && eq0 ROps fz = false).
    { unfold eq0. cbn [o_eqb ROps cst o_const Rconst].
      destruct (Nat.eqb_spec n 0) as [En | En]; [|reflexivity]. cbn [andb].
      destruct (Req_EM_T fx 0) as [Ex | Ex]; [|reflexivity]. cbn [andb].
      destruct (Req_EM_T fy 0) as [Ey | Ey]; [|reflexivity]. cbn [andb].
      destruct (Req_EM_T fz 0) as [Ez | Ez]; [|reflexivity].
      exfalso. apply NotSelf. repeat split; assumption. }
    rewrite S0.
    assert (W : ltb ROps (cst ROps 1 1000) dk && negb (ltb ROps (if sa_h a1 && sa_h a2 then cst ROps 18 10 else bond_limit ROps a1 a2) dk) = true).
    { unfold ltb. cbn [o_ltb ROps cst o_const Rconst].
      destruct (Rlt_dec (1 / 1000) dk) as [_ | N]; [|contradiction]. cbn [andb].
      destruct (sa_h a1 && sa_h a2).
      - destruct (Rlt_dec (18 / 10) dk) as [L | _]; [lra | reflexivity].
      - destruct (Rlt_dec (bond_limit ROps a1 a2) dk) as [L | _]; [lra | reflexivity]. }
    rewrite W. fold bs.
    destruct (existsb (need_eqb ROps bs) acc') eqn:Ex; [exact Ex|].
    unfold has. rewrite existsb_app. cbn [existsb]. rewrite need_eqb_refl. rewrite orb_true_r. reflexivity. }
  unfold has in H. apply existsb_exists in H. destruct H as (nd & Ind & E).
  exists nd. split; [exact Ind|]. apply need_eqb_eq in E. cbn [nd_n nd_fx nd_fy nd_fz nd_mol bs] in E. exact E.
Qed.

(* ---------- completeness of the packer: every atom of a needed fragment image is appended, unless an atom of the same
   (non-negative) PART already lies within 0.2 A of that place ---------- *)
Definition placed_or_there (m : metric (T:=R)) (i : nat) (n : nat) (part : Z) (nx ny nz : R)
           (st : list (Z * (R * R * R)) * list (grown (T:=R))) : Prop :=
  (exists g, In g (snd st) /\ g_src g = i /\ g_n g = n /\ g_x g = nx /\ g_y g = ny /\ g_z g = nz /\ g_part g = part) \/
  ((0 <= part)%Z /\ exists x y z, In (part, (x, y, z)) (fst st) /\ vlen ROps m (nx - x) (ny - y) (nz - z) < 2 / 10).

Lemma pack_one_shape m ops wq idx nd st ia :
  exists sh out, pack_one ROps m ops wq idx nd st ia = (fst st ++ sh, snd st ++ out).
Proof.
  destruct st as [shown outl]. destruct ia as [i a]. unfold pack_one. cbn [fst snd].
  destruct ((negb wq && sa_qpeak a) || negb (Z.eqb (get_idx idx i) (nd_mol nd)) || sa_qpeak a);
    [exists [], []; rewrite !app_nil_r; reflexivity|].
  destruct (nth_error ops (nd_n nd)) as [s|]; [|exists [], []; rewrite !app_nil_r; reflexivity].
  destruct (apply ROps s (sa_x a) (sa_y a) (sa_z a)) as [[px py] pz].
  match goal with |- exists _ _, (if ?c then _ else _) = _ => destruct c end;
    [exists [], []; rewrite !app_nil_r; reflexivity | eexists; eexists; reflexivity].
Qed.

Lemma placed_or_there_mono m ops wq idx nd i n part nx ny nz st ia :
  placed_or_there m i n part nx ny nz st -> placed_or_there m i n part nx ny nz (pack_one ROps m ops wq idx nd st ia).
Proof.
  intros H. destruct (pack_one_shape m ops wq idx nd st ia) as (sh & out & ->). unfold placed_or_there in *. cbn [fst snd].
  destruct H as [(g & Ig & R) | (Pp & x & y & z & Is & L)].
  - left. exists g. split; [apply in_or_app; left; exact Ig | exact R].
  - right. split; [exact Pp|]. exists x, y, z. split; [apply in_or_app; left; exact Is | exact L].
Qed.

Lemma pack_one_does m ops wq idx nd st i a s px py pz :
  sa_qpeak a = false -> get_idx idx i = nd_mol nd -> nth_error ops (nd_n nd) = Some s ->
  apply ROps s (sa_x a) (sa_y a) (sa_z a) = (px, py, pz) ->
  placed_or_there m i (nd_n nd) (sa_part a) (px + (5 - nd_fx nd - 5)) (py + (5 - nd_fy nd - 5)) (pz + (5 - nd_fz nd - 5))
                  (pack_one ROps m ops wq idx nd st (i, a)).
Proof.
  intros Q E Es Ap. destruct st as [shown out]. unfold pack_one.
  rewrite Q, andb_false_r, orb_false_r, orb_false_l. rewrite E, Z.eqb_refl. cbn [negb]. rewrite Es, Ap.
  change (cst ROps 5 1) with 5.
  set (nx := px + (5 - nd_fx nd - 5)). set (ny := py + (5 - nd_fy nd - 5)). set (nz := pz + (5 - nd_fz nd - 5)).
  match goal with |- placed_or_there _ _ _ _ _ _ _ (if ?c then _ else _) => destruct c eqn:There end.
  - right. apply andb_true_iff in There. destruct There as [Pp Ex]. apply Z.leb_le in Pp. split; [exact Pp|].
    apply existsb_exists in Ex. destruct Ex as ([pp [[x y] z]] & Is & C). cbn [fst snd] in C.
    apply andb_true_iff in C. destruct C as [Ep L]. apply Z.eqb_eq in Ep. subst pp.
    exists x, y, z. split; [exact Is|].
    unfold ltb in L. cbn [o_ltb ROps cst o_const Rconst] in L.
    match type of L with (if ?d then _ else _) = true => destruct d as [L' | _]; [exact L' | discriminate] end.
  - left. cbn [snd]. eexists. split; [apply in_or_app; right; left; reflexivity|]. cbn [g_src g_n g_x g_y g_z g_part]. repeat split; reflexivity.
Qed.

Theorem packer_complete m ops atoms idx needs wq nd i a s px py pz :
  In nd needs -> nth_error atoms i = Some a -> sa_qpeak a = false -> get_idx idx i = nd_mol nd ->
  nth_error ops (nd_n nd) = Some s -> apply ROps s (sa_x a) (sa_y a) (sa_z a) = (px, py, pz) ->
  placed_or_there m i (nd_n nd) (sa_part a) (px + (5 - nd_fx nd - 5)) (py + (5 - nd_fy nd - 5)) (pz + (5 - nd_fz nd - 5))
    (fold_left (fun st nd => fold_left (pack_one ROps m ops wq idx nd) (number_from 0 atoms) st) needs
               (omap (fun a => if sa_qpeak a then None else Some (sa_part a, (sa_x a, sa_y a, sa_z a))) atoms, [])).
Proof.
  intros Ind Ha Q E Es Ap.
  set (P := placed_or_there m i (nd_n nd) (sa_part a) (px + (5 - nd_fx nd - 5)) (py + (5 - nd_fy nd - 5)) (pz + (5 - nd_fz nd - 5))).
  apply (fold_left_reaches (fun st nd => fold_left (pack_one ROps m ops wq idx nd) (number_from 0 atoms) st) P nd); [| | exact Ind].
  - intros st. apply (fold_left_reaches (pack_one ROps m ops wq idx nd) P (i, a)).
    + intros st'. apply (pack_one_does m ops wq idx nd st' i a s px py pz); assumption.
    + intros st' ia H. apply placed_or_there_mono. exact H.
    + apply (number_from_In atoms 0 i a Ha).
  - intros st nd' H. apply fold_left_inv; [|exact H]. intros st' ia _ H'. apply placed_or_there_mono. exact H'.
Qed.

(* ---------- what the coincidence test compares with: never a Q-peak.  Every entry of the list the test runs over is the
   site of an original atom that is not a Q-peak, or the place of an atom the packer appended (repaired 2026-10: a Q-peak
   within 0.2 A of an image position made packer() drop the image atom when with_qpeaks was set) ---------- *)
Definition real_site (atoms : list (satom (T:=R))) (p : Z * (R * R * R)) : Prop :=
  exists a, In a atoms /\ sa_qpeak a = false /\ p = (sa_part a, (sa_x a, sa_y a, sa_z a)).

Definition grown_site (out : list (grown (T:=R))) (p : Z * (R * R * R)) : Prop :=
  exists g, In g out /\ p = (g_part g, (g_x g, g_y g, g_z g)).

Lemma init_real_site (atoms : list (satom (T:=R))) p :
  In p (omap (fun a => if sa_qpeak a then None else Some (sa_part a, (sa_x a, sa_y a, sa_z a))) atoms) -> real_site atoms p.
Proof.
  induction atoms as [|a atoms IH]; cbn [omap]; intros H; [destruct H|].
  destruct (sa_qpeak a) eqn:Q.
  - destruct (IH H) as (b & Ib & Qb & E). exists b. split; [right; exact Ib | split; assumption].
  - destruct H as [H | H].
    + exists a. split; [left; reflexivity | split; [exact Q | symmetry; exact H]].
    + destruct (IH H) as (b & Ib & Qb & E). exists b. split; [right; exact Ib | split; assumption].
Qed.

Lemma pack_one_sites m ops wq idx nd atoms st ia :
  (forall p, In p (fst st) -> real_site atoms p \/ grown_site (snd st) p) ->
  forall p, In p (fst (pack_one ROps m ops wq idx nd st ia)) ->
            real_site atoms p \/ grown_site (snd (pack_one ROps m ops wq idx nd st ia)) p.
Proof.
  intros H. destruct st as [shown out]. destruct ia as [i a]. unfold pack_one. cbn [fst snd] in H.
  destruct ((negb wq && sa_qpeak a) || negb (Z.eqb (get_idx idx i) (nd_mol nd)) || sa_qpeak a); [exact H|].
  destruct (nth_error ops (nd_n nd)) as [s|]; [|exact H].
  destruct (apply ROps s (sa_x a) (sa_y a) (sa_z a)) as [[px py] pz].
  match goal with |- forall p, In p (fst (if ?c then _ else _)) -> _ => destruct c end; [exact H|].
  cbn [fst snd]. intros p Ip. apply in_app_or in Ip. destruct Ip as [Ip | [Ip | []]].
  - destruct (H p Ip) as [Rs | (g & Ig & E)]; [left; exact Rs|].
    right. exists g. split; [apply in_or_app; left; exact Ig | exact E].
  - right. eexists. split; [apply in_or_app; right; left; reflexivity|]. cbn [g_part g_x g_y g_z]. symmetry. exact Ip.
Qed.

Theorem packer_compares_with_atoms_only m ops atoms idx needs wq :
  let final := fold_left (fun st nd => fold_left (pack_one ROps m ops wq idx nd) (number_from 0 atoms) st) needs
                 (omap (fun a => if sa_qpeak a then None else Some (sa_part a, (sa_x a, sa_y a, sa_z a))) atoms, []) in
  forall p, In p (fst final) -> real_site atoms p \/ grown_site (snd final) p.
Proof.
  cbv zeta.
  set (P := fun st : list (Z * (R * R * R)) * list (grown (T:=R)) => forall p, In p (fst st) -> real_site atoms p \/ grown_site (snd st) p).
  change (P (fold_left (fun st nd => fold_left (pack_one ROps m ops wq idx nd) (number_from 0 atoms) st) needs
               (omap (fun a => if sa_qpeak a then None else Some (sa_part a, (sa_x a, sa_y a, sa_z a))) atoms, []))).
  apply fold_left_inv.
  - intros st nd _ Pst. apply fold_left_inv; [|exact Pst].
    intros st' ia _ H. unfold P. apply pack_one_sites. exact H.
  - unfold P. cbn [fst snd]. intros p Ip. left. apply init_real_site. exact Ip.
Qed.
