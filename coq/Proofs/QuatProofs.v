(* C20 — proofs about the traced quaternion-fit kernels (coq/Gen/K_quat.v, regenerated from /repo). *)
From SX Require Import Base.RTac Gen.K_quat Spec.GeomSpec Spec.QuatSpec.
Import ListNotations.
Open Scope R_scope.

Ltac vunfold := cbv beta iota zeta delta [det3 dot cross vsub vadd vneg move mv mrow1 mrow2 mrow3 mcol1 mcol2 mcol3
                                          vx vy vz fst snd qf4 sym4_add sym4_zero qnorm2 orthogonal mdet] in *.

Lemma vec_eq3 (a b c a' b' c' : R) : a = a' -> b = b' -> c = c' -> (a, b, c) = (a', b', c').
Proof. intros; subst; reflexivity. Qed.

(* the rotation matrix of q2mat as a Spec.GeomSpec.mat (rows of the list-of-lists the code returns) *)
Definition Qmat (q0 q1 q2 q3 : R) : mat :=
  ((k_q2mat_0_0 ROps q0 q1 q2 q3, k_q2mat_0_1 ROps q0 q1 q2 q3, k_q2mat_0_2 ROps q0 q1 q2 q3),
   (k_q2mat_1_0 ROps q0 q1 q2 q3, k_q2mat_1_1 ROps q0 q1 q2 q3, k_q2mat_1_2 ROps q0 q1 q2 q3),
   (k_q2mat_2_0 ROps q0 q1 q2 q3, k_q2mat_2_1 ROps q0 q1 q2 q3, k_q2mat_2_2 ROps q0 q1 q2 q3)).

(* what qtrfit + rotmol do to a point: rotmol(x, transpose(q2mat(q))) *)
Definition rot_code (q0 q1 q2 q3 : R) (x : vec) : vec :=
  let u := Qmat q0 q1 q2 q3 in
  (k_rotmol1_0 ROps (vx x) (vy x) (vz x) (vx (mrow1 u)) (vx (mrow2 u)) (vx (mrow3 u)) (vy (mrow1 u)) (vy (mrow2 u)) (vy (mrow3 u)) (vz (mrow1 u)) (vz (mrow2 u)) (vz (mrow3 u)),
   k_rotmol1_1 ROps (vx x) (vy x) (vz x) (vx (mrow1 u)) (vx (mrow2 u)) (vx (mrow3 u)) (vy (mrow1 u)) (vy (mrow2 u)) (vy (mrow3 u)) (vz (mrow1 u)) (vz (mrow2 u)) (vz (mrow3 u)),
   k_rotmol1_2 ROps (vx x) (vy x) (vz x) (vx (mrow1 u)) (vx (mrow2 u)) (vx (mrow3 u)) (vy (mrow1 u)) (vy (mrow2 u)) (vy (mrow3 u)) (vz (mrow1 u)) (vz (mrow2 u)) (vz (mrow3 u))).

Lemma rot_code_is_mv q0 q1 q2 q3 x : rot_code q0 q1 q2 q3 x = mv (Qmat q0 q1 q2 q3) x.
Proof. destruct x as [[x y] z]. unfold rot_code, Qmat. vunfold. kunfold. reflexivity. Qed.

(* 1. the matrix of a unit quaternion is a proper rotation *)
Lemma q2mat_proper q0 q1 q2 q3 : qnorm2 q0 q1 q2 q3 = 1 ->
  orthogonal (Qmat q0 q1 q2 q3) /\ mdet (Qmat q0 q1 q2 q3) = 1.
Proof.
  unfold Qmat. vunfold. kunfold. intros H.
  assert (H2 : forall e, e = e * (q0 * q0 + q1 * q1 + q2 * q2 + q3 * q3)) by (intros; rewrite H; ring).
  repeat split.
  all: try (match goal with |- ?l = 1 => replace l with ((q0 * q0 + q1 * q1 + q2 * q2 + q3 * q3) * (q0 * q0 + q1 * q1 + q2 * q2 + q3 * q3)) by ring; rewrite H; ring end).
  all: try ring.
  replace 1 with ((q0 * q0 + q1 * q1 + q2 * q2 + q3 * q3) * (q0 * q0 + q1 * q1 + q2 * q2 + q3 * q3) * (q0 * q0 + q1 * q1 + q2 * q2 + q3 * q3)) by (rewrite H; ring).
  ring.
Qed.

(* the 4x4 form the code builds for one (source, target) pair *)
Definition form1 (s t : vec) : sym4 :=
  (k_form1_0 ROps (vx s) (vy s) (vz s) (vx t) (vy t) (vz t), k_form1_1 ROps (vx s) (vy s) (vz s) (vx t) (vy t) (vz t),
   k_form1_2 ROps (vx s) (vy s) (vz s) (vx t) (vy t) (vz t), k_form1_3 ROps (vx s) (vy s) (vz s) (vx t) (vy t) (vz t),
   k_form1_4 ROps (vx s) (vy s) (vz s) (vx t) (vy t) (vz t), k_form1_5 ROps (vx s) (vy s) (vz s) (vx t) (vy t) (vz t),
   k_form1_6 ROps (vx s) (vy s) (vz s) (vx t) (vy t) (vz t), k_form1_7 ROps (vx s) (vy s) (vz s) (vx t) (vy t) (vz t),
   k_form1_8 ROps (vx s) (vy s) (vz s) (vx t) (vy t) (vz t), k_form1_9 ROps (vx s) (vy s) (vz s) (vx t) (vy t) (vz t)).

(* 2. Horn's identity for one pair: t . (Q(q) s) = q^T N q *)
Lemma form1_identity q0 q1 q2 q3 s t :
  dot t (mv (Qmat q0 q1 q2 q3) s) = qf4 (form1 s t) q0 q1 q2 q3.
Proof.
  destruct s as [[sx sy] sz], t as [[tx ty] tz]. unfold form1, Qmat. vunfold. kunfold. ring.
Qed.

Lemma rot_norm q0 q1 q2 q3 s :
  dot (mv (Qmat q0 q1 q2 q3) s) (mv (Qmat q0 q1 q2 q3) s) = qnorm2 q0 q1 q2 q3 * qnorm2 q0 q1 q2 q3 * dot s s.
Proof. destruct s as [[sx sy] sz]. unfold Qmat. vunfold. kunfold. ring. Qed.

(* 3. the accumulation loop of qtrfit is additive: the forms traced for 2 and 3 pairs are sums of one-pair forms *)
Definition form2 (s0 t0 s1 t1 : vec) : sym4 :=
  let f := fun k => k ROps (vx s0) (vy s0) (vz s0) (vx t0) (vy t0) (vz t0) (vx s1) (vy s1) (vz s1) (vx t1) (vy t1) (vz t1) in
  (f (@k_form2_0 R), f (@k_form2_1 R), f (@k_form2_2 R), f (@k_form2_3 R), f (@k_form2_4 R), f (@k_form2_5 R), f (@k_form2_6 R),
   f (@k_form2_7 R), f (@k_form2_8 R), f (@k_form2_9 R)).
Definition form3 (s0 t0 s1 t1 s2 t2 : vec) : sym4 :=
  let f := fun k => k ROps (vx s0) (vy s0) (vz s0) (vx t0) (vy t0) (vz t0) (vx s1) (vy s1) (vz s1) (vx t1) (vy t1) (vz t1)
                           (vx s2) (vy s2) (vz s2) (vx t2) (vy t2) (vz t2) in
  (f (@k_form3_0 R), f (@k_form3_1 R), f (@k_form3_2 R), f (@k_form3_3 R), f (@k_form3_4 R), f (@k_form3_5 R), f (@k_form3_6 R),
   f (@k_form3_7 R), f (@k_form3_8 R), f (@k_form3_9 R)).

Lemma sym4_eq (a0 a1 a2 a3 a4 a5 a6 a7 a8 a9 b0 b1 b2 b3 b4 b5 b6 b7 b8 b9 : R) :
  a0 = b0 -> a1 = b1 -> a2 = b2 -> a3 = b3 -> a4 = b4 -> a5 = b5 -> a6 = b6 -> a7 = b7 -> a8 = b8 -> a9 = b9 ->
  (a0, a1, a2, a3, a4, a5, a6, a7, a8, a9) = (b0, b1, b2, b3, b4, b5, b6, b7, b8, b9).
Proof. intros; subst; reflexivity. Qed.

Lemma form2_additive s0 t0 s1 t1 : form2 s0 t0 s1 t1 = sym4_add (form1 s0 t0) (form1 s1 t1).
Proof.
  destruct s0 as [[? ?] ?], t0 as [[? ?] ?], s1 as [[? ?] ?], t1 as [[? ?] ?].
  unfold form2, form1. vunfold. kunfold. apply sym4_eq; ring.
Qed.

Lemma form3_additive s0 t0 s1 t1 s2 t2 :
  form3 s0 t0 s1 t1 s2 t2 = sym4_add (sym4_add (form1 s0 t0) (form1 s1 t1)) (form1 s2 t2).
Proof.
  destruct s0 as [[? ?] ?], t0 as [[? ?] ?], s1 as [[? ?] ?], t1 as [[? ?] ?], s2 as [[? ?] ?], t2 as [[? ?] ?].
  unfold form3, form1. vunfold. kunfold. apply sym4_eq; ring.
Qed.

(* the form for n pairs: fold of the traced one-pair kernel (hand-written loop, see DESIGN 2.3) *)
Fixpoint form_n (l : list (vec * vec)) : sym4 :=
  match l with [] => sym4_zero | (s, t) :: r => sym4_add (form1 s t) (form_n r) end.

Lemma qf4_add a b q0 q1 q2 q3 : qf4 (sym4_add a b) q0 q1 q2 q3 = qf4 a q0 q1 q2 q3 + qf4 b q0 q1 q2 q3.
Proof.
  destruct a as [[[[[[[[[a0 a1] a2] a3] a4] a5] a6] a7] a8] a9], b as [[[[[[[[[b0 b1] b2] b3] b4] b5] b6] b7] b8] b9].
  vunfold. ring.
Qed.

(* residual of the fit with quaternion q *)
Definition resid (q0 q1 q2 q3 : R) (l : list (vec * vec)) : R :=
  sum_pairs (fun s t => let d := vsub (mv (Qmat q0 q1 q2 q3) s) t in dot d d) l.

Lemma dot_sub_sq a b : dot (vsub a b) (vsub a b) = dot a a + dot b b - 2 * dot b a.
Proof. destruct a as [[? ?] ?], b as [[? ?] ?]. vunfold. ring. Qed.

(* 4. residual identity: sum |Q(q) s_i - t_i|^2 = sum (|s_i|^2 + |t_i|^2) - 2 q^T N q  for unit q *)
Lemma residual_identity q0 q1 q2 q3 l : qnorm2 q0 q1 q2 q3 = 1 ->
  resid q0 q1 q2 q3 l = sum_pairs (fun s t => dot s s + dot t t) l - 2 * qf4 (form_n l) q0 q1 q2 q3.
Proof.
  intros U. unfold resid. induction l as [|[s t] r IH].
  - cbn [sum_pairs form_n]. unfold sym4_zero, qf4. ring.
  - cbn [sum_pairs form_n]. rewrite IH. cbv zeta. rewrite dot_sub_sq, rot_norm, U, form1_identity, qf4_add. ring.
Qed.

Lemma dot_self_nonneg d : 0 <= dot d d.
Proof. destruct d as [[dx dy] dz]. vunfold. nra. Qed.

Lemma resid_nonneg q0 q1 q2 q3 l : 0 <= resid q0 q1 q2 q3 l.
Proof.
  unfold resid. induction l as [|[s t] r IH]; cbn [sum_pairs]; [lra|].
  cbv zeta. pose proof (dot_self_nonneg (vsub (mv (Qmat q0 q1 q2 q3) s) t)). lra.
Qed.

(* 5. a unit quaternion that maximises the quadratic form minimises the residual over all unit quaternions *)
Lemma optimal_given_max q0 q1 q2 q3 l : qnorm2 q0 q1 q2 q3 = 1 ->
  (forall p0 p1 p2 p3, qnorm2 p0 p1 p2 p3 = 1 -> qf4 (form_n l) p0 p1 p2 p3 <= qf4 (form_n l) q0 q1 q2 q3) ->
  forall p0 p1 p2 p3, qnorm2 p0 p1 p2 p3 = 1 -> resid q0 q1 q2 q3 l <= resid p0 p1 p2 p3 l.
Proof.
  intros U M p0 p1 p2 p3 P. rewrite !residual_identity by assumption. specialize (M p0 p1 p2 p3 P). lra.
Qed.

(* 6. exact rotated copy: the maximiser has residual zero *)
Lemma sum_pairs_zero f l : (forall s t, In (s, t) l -> f s t = 0) -> sum_pairs f l = 0.
Proof.
  induction l as [|[s t] r IH]; intros H; cbn [sum_pairs]; [reflexivity|].
  rewrite H by (left; reflexivity). rewrite IH; [ring|]. intros; apply H; right; assumption.
Qed.

Lemma exact_copy_zero q0 q1 q2 q3 p0 p1 p2 p3 l :
  qnorm2 q0 q1 q2 q3 = 1 -> qnorm2 p0 p1 p2 p3 = 1 ->
  (forall r0 r1 r2 r3, qnorm2 r0 r1 r2 r3 = 1 -> qf4 (form_n l) r0 r1 r2 r3 <= qf4 (form_n l) q0 q1 q2 q3) ->
  (forall s t, In (s, t) l -> t = mv (Qmat p0 p1 p2 p3) s) ->
  resid q0 q1 q2 q3 l = 0.
Proof.
  intros U P M E.
  assert (Z : resid p0 p1 p2 p3 l = 0).
  { unfold resid. apply sum_pairs_zero. intros s t I. cbv zeta. rewrite (E s t I).
    set (v := mv _ s). destruct v as [[a b] c]. vunfold. ring. }
  pose proof (optimal_given_max q0 q1 q2 q3 l U M p0 p1 p2 p3 P) as L.
  pose proof (resid_nonneg q0 q1 q2 q3 l). lra.
Qed.

(* 7. eigen-decomposition certificate: if N = V D V^T with V orthogonal and d3 the largest eigenvalue,
   the last column of V (what qtrfit extracts after jacobi's ascending sort) maximises q^T N q on the unit sphere.
   The harness checks the three hypotheses numerically on every sample (Jacobi convergence is not proved). *)
Section Eigen.
  Variables v00 v01 v02 v03 v10 v11 v12 v13 v20 v21 v22 v23 v30 v31 v32 v33 d0 d1 d2 d3 : R.
  Definition Ndec : sym4 :=
    (v00 * d0 * v00 + v01 * d1 * v01 + v02 * d2 * v02 + v03 * d3 * v03,
     v00 * d0 * v10 + v01 * d1 * v11 + v02 * d2 * v12 + v03 * d3 * v13,
     v00 * d0 * v20 + v01 * d1 * v21 + v02 * d2 * v22 + v03 * d3 * v23,
     v00 * d0 * v30 + v01 * d1 * v31 + v02 * d2 * v32 + v03 * d3 * v33,
     v10 * d0 * v10 + v11 * d1 * v11 + v12 * d2 * v12 + v13 * d3 * v13,
     v10 * d0 * v20 + v11 * d1 * v21 + v12 * d2 * v22 + v13 * d3 * v23,
     v10 * d0 * v30 + v11 * d1 * v31 + v12 * d2 * v32 + v13 * d3 * v33,
     v20 * d0 * v20 + v21 * d1 * v21 + v22 * d2 * v22 + v23 * d3 * v23,
     v20 * d0 * v30 + v21 * d1 * v31 + v22 * d2 * v32 + v23 * d3 * v33,
     v30 * d0 * v30 + v31 * d1 * v31 + v32 * d2 * v32 + v33 * d3 * v33).
  (* rows of V orthonormal (V V^T = I) *)
  Hypothesis R00 : v00 * v00 + v01 * v01 + v02 * v02 + v03 * v03 = 1.
  Hypothesis R11 : v10 * v10 + v11 * v11 + v12 * v12 + v13 * v13 = 1.
  Hypothesis R22 : v20 * v20 + v21 * v21 + v22 * v22 + v23 * v23 = 1.
  Hypothesis R33 : v30 * v30 + v31 * v31 + v32 * v32 + v33 * v33 = 1.
  Hypothesis R01 : v00 * v10 + v01 * v11 + v02 * v12 + v03 * v13 = 0.
  Hypothesis R02 : v00 * v20 + v01 * v21 + v02 * v22 + v03 * v23 = 0.
  Hypothesis R03 : v00 * v30 + v01 * v31 + v02 * v32 + v03 * v33 = 0.
  Hypothesis R12 : v10 * v20 + v11 * v21 + v12 * v22 + v13 * v23 = 0.
  Hypothesis R13 : v10 * v30 + v11 * v31 + v12 * v32 + v13 * v33 = 0.
  Hypothesis R23 : v20 * v30 + v21 * v31 + v22 * v32 + v23 * v33 = 0.
  (* last column orthonormal to all columns (V^T V = I, column 3) *)
  Hypothesis C33 : v03 * v03 + v13 * v13 + v23 * v23 + v33 * v33 = 1.
  Hypothesis C03 : v00 * v03 + v10 * v13 + v20 * v23 + v30 * v33 = 0.
  Hypothesis C13 : v01 * v03 + v11 * v13 + v21 * v23 + v31 * v33 = 0.
  Hypothesis C23 : v02 * v03 + v12 * v13 + v22 * v23 + v32 * v33 = 0.
  Hypothesis L0 : d0 <= d3. Hypothesis L1 : d1 <= d3. Hypothesis L2 : d2 <= d3.

  Lemma qf_decomposed p0 p1 p2 p3 :
    qf4 Ndec p0 p1 p2 p3 =
      d0 * (v00 * p0 + v10 * p1 + v20 * p2 + v30 * p3) * (v00 * p0 + v10 * p1 + v20 * p2 + v30 * p3)
    + d1 * (v01 * p0 + v11 * p1 + v21 * p2 + v31 * p3) * (v01 * p0 + v11 * p1 + v21 * p2 + v31 * p3)
    + d2 * (v02 * p0 + v12 * p1 + v22 * p2 + v32 * p3) * (v02 * p0 + v12 * p1 + v22 * p2 + v32 * p3)
    + d3 * (v03 * p0 + v13 * p1 + v23 * p2 + v33 * p3) * (v03 * p0 + v13 * p1 + v23 * p2 + v33 * p3).
  Proof. unfold Ndec, qf4. ring. Qed.

  Lemma coeff_norm p0 p1 p2 p3 :
      (v00 * p0 + v10 * p1 + v20 * p2 + v30 * p3) * (v00 * p0 + v10 * p1 + v20 * p2 + v30 * p3)
    + (v01 * p0 + v11 * p1 + v21 * p2 + v31 * p3) * (v01 * p0 + v11 * p1 + v21 * p2 + v31 * p3)
    + (v02 * p0 + v12 * p1 + v22 * p2 + v32 * p3) * (v02 * p0 + v12 * p1 + v22 * p2 + v32 * p3)
    + (v03 * p0 + v13 * p1 + v23 * p2 + v33 * p3) * (v03 * p0 + v13 * p1 + v23 * p2 + v33 * p3)
    = qnorm2 p0 p1 p2 p3.
  Proof.
    unfold qnorm2.
    match goal with |- ?l = _ =>
      replace l with (p0 * p0 * (v00 * v00 + v01 * v01 + v02 * v02 + v03 * v03) + p1 * p1 * (v10 * v10 + v11 * v11 + v12 * v12 + v13 * v13)
                    + p2 * p2 * (v20 * v20 + v21 * v21 + v22 * v22 + v23 * v23) + p3 * p3 * (v30 * v30 + v31 * v31 + v32 * v32 + v33 * v33)
                    + 2 * p0 * p1 * (v00 * v10 + v01 * v11 + v02 * v12 + v03 * v13) + 2 * p0 * p2 * (v00 * v20 + v01 * v21 + v02 * v22 + v03 * v23)
                    + 2 * p0 * p3 * (v00 * v30 + v01 * v31 + v02 * v32 + v03 * v33) + 2 * p1 * p2 * (v10 * v20 + v11 * v21 + v12 * v22 + v13 * v23)
                    + 2 * p1 * p3 * (v10 * v30 + v11 * v31 + v12 * v32 + v13 * v33) + 2 * p2 * p3 * (v20 * v30 + v21 * v31 + v22 * v32 + v23 * v33)) by ring end.
    rewrite R00, R11, R22, R33, R01, R02, R03, R12, R13, R23. ring.
  Qed.

  Lemma eigen_max p0 p1 p2 p3 : qnorm2 p0 p1 p2 p3 = 1 ->
    qf4 Ndec p0 p1 p2 p3 <= qf4 Ndec v03 v13 v23 v33.
  Proof.
    intros P.
    assert (Q : qf4 Ndec v03 v13 v23 v33 = d3).
    { rewrite qf_decomposed.
      replace (v00 * v03 + v10 * v13 + v20 * v23 + v30 * v33) with 0 by (symmetry; exact C03).
      replace (v01 * v03 + v11 * v13 + v21 * v23 + v31 * v33) with 0 by (symmetry; exact C13).
      replace (v02 * v03 + v12 * v13 + v22 * v23 + v32 * v33) with 0 by (symmetry; exact C23).
      replace (v03 * v03 + v13 * v13 + v23 * v23 + v33 * v33) with 1 by (symmetry; exact C33). ring. }
    rewrite Q, qf_decomposed. pose proof (coeff_norm p0 p1 p2 p3) as Nn. rewrite P in Nn.
    set (c0 := v00 * p0 + v10 * p1 + v20 * p2 + v30 * p3) in *.
    set (c1 := v01 * p0 + v11 * p1 + v21 * p2 + v31 * p3) in *.
    set (c2 := v02 * p0 + v12 * p1 + v22 * p2 + v32 * p3) in *.
    set (c3 := v03 * p0 + v13 * p1 + v23 * p2 + v33 * p3) in *.
    clearbody c0 c1 c2 c3.
    assert (S0 : 0 <= c0 * c0) by nra. assert (S1 : 0 <= c1 * c1) by nra. assert (S2 : 0 <= c2 * c2) by nra.
    assert (T0 : 0 <= (d3 - d0) * (c0 * c0)) by (apply Rmult_le_pos; lra).
    assert (T1 : 0 <= (d3 - d1) * (c1 * c1)) by (apply Rmult_le_pos; lra).
    assert (T2 : 0 <= (d3 - d2) * (c2 * c2)) by (apply Rmult_le_pos; lra).
    replace (d0 * c0 * c0 + d1 * c1 * c1 + d2 * c2 * c2 + d3 * c3 * c3)
      with (d3 * (c0 * c0 + c1 * c1 + c2 * c2 + c3 * c3) - (d3 - d0) * (c0 * c0) - (d3 - d1) * (c1 * c1) - (d3 - d2) * (c2 * c2)) by ring.
    rewrite Nn. lra.
  Qed.
End Eigen.

(* 8. fragment placement (fit_fragment after the fix): every fragment atom f goes to Q(q)(f - pc) + qc *)
Definition fit_place (q0 q1 q2 q3 : R) (pc qc f : vec) : vec := vadd (mv (Qmat q0 q1 q2 q3) (vsub f pc)) qc.
Definition centred (pc qc : vec) (l : list (vec * vec)) : list (vec * vec) :=
  map (fun st => (vsub (fst st) pc, vsub (snd st) qc)) l.

Lemma code_place_is_fit_place q0 q1 q2 q3 pc qc f :
  (* matrix_plus_vect (rotmol (matrix_minus_vect f pc) U) qc, piece by piece as traced *)
  let m := (k_minus_vect_0 ROps (vx f) (vy f) (vz f) (vx pc) (vy pc) (vz pc), k_minus_vect_1 ROps (vx f) (vy f) (vz f) (vx pc) (vy pc) (vz pc),
            k_minus_vect_2 ROps (vx f) (vy f) (vz f) (vx pc) (vy pc) (vz pc)) in
  let r := rot_code q0 q1 q2 q3 m in
  (k_plus_vect_0 ROps (vx r) (vy r) (vz r) (vx qc) (vy qc) (vz qc), k_plus_vect_1 ROps (vx r) (vy r) (vz r) (vx qc) (vy qc) (vz qc),
   k_plus_vect_2 ROps (vx r) (vy r) (vz r) (vx qc) (vy qc) (vz qc)) = fit_place q0 q1 q2 q3 pc qc f.
Proof.
  cbv zeta. rewrite rot_code_is_mv. destruct f as [[fx fy] fz], pc as [[px py] pz], qc as [[cx cy] cz].
  unfold fit_place. set (M := Qmat q0 q1 q2 q3). destruct M as [[[[a b] c] [[d e] f]] [[g h] i]].
  vunfold. kunfold. reflexivity.
Qed.

Lemma sum_pairs_nonneg_zero f l : (forall s t, 0 <= f s t) -> sum_pairs f l = 0 ->
  forall s t, In (s, t) l -> f s t = 0.
Proof.
  intros NN. induction l as [|[s0 t0] r IH]; intros Z s t I; [destruct I|].
  cbn [sum_pairs] in Z.
  assert (0 <= sum_pairs f r).
  { clear -NN. induction r as [|[a b] r IH]; cbn [sum_pairs]; [lra | pose proof (NN a b); lra]. }
  pose proof (NN s0 t0).
  destruct I as [I | I]; [inversion I; subst; lra | apply IH; [lra | exact I]].
Qed.

Lemma dot_zero_vec d : dot d d = 0 -> d = (0, 0, 0).
Proof.
  destruct d as [[x y] z]. vunfold. intros H.
  assert (x = 0) by nra. assert (y = 0) by nra. assert (z = 0) by nra. subst. reflexivity.
Qed.

(* when the fit of the centred subsets is exact (residual 0), every fitted atom lands on its target,
   wherever the fragment and the targets are *)
Lemma fit_fragment_places q0 q1 q2 q3 pc qc l :
  resid q0 q1 q2 q3 (centred pc qc l) = 0 ->
  forall s t, In (s, t) l -> fit_place q0 q1 q2 q3 pc qc s = t.
Proof.
  intros Z s t I. unfold resid in Z.
  assert (E : (let d := vsub (mv (Qmat q0 q1 q2 q3) (vsub s pc)) (vsub t qc) in dot d d) = 0).
  { apply (sum_pairs_nonneg_zero _ _ (fun a b => dot_self_nonneg _) Z (vsub s pc) (vsub t qc)).
    unfold centred. apply in_map_iff. exists (s, t). split; [reflexivity | exact I]. }
  cbv zeta in E. apply dot_zero_vec in E. unfold fit_place.
  set (w := mv (Qmat q0 q1 q2 q3) (vsub s pc)) in *.
  destruct w as [[wx wy] wz], t as [[tx ty] tz], qc as [[cx cy] cz]. vunfold.
  inversion E. apply vec_eq3; lra.
Qed.

(* the traced rmsd kernels are the root mean square of the pair distances *)
Lemma rmsd2_is_rms s0 t0 s1 t1 :
  k_rmsd2 ROps (vx s0) (vy s0) (vz s0) (vx t0) (vy t0) (vz t0) (vx s1) (vy s1) (vz s1) (vx t1) (vy t1) (vz t1) =
  sqrt ((dot (vsub s0 t0) (vsub s0 t0) + dot (vsub s1 t1) (vsub s1 t1)) / 2).
Proof.
  destruct s0 as [[? ?] ?], t0 as [[? ?] ?], s1 as [[? ?] ?], t1 as [[? ?] ?]. vunfold. kunfold. f_equal. field.
Qed.

(* the traced centroid kernels are the arithmetic mean *)
Lemma centroid3_is_mean p0 p1 p2 :
  (k_centroid3_0 ROps (vx p0) (vy p0) (vz p0) (vx p1) (vy p1) (vz p1) (vx p2) (vy p2) (vz p2),
   k_centroid3_1 ROps (vx p0) (vy p0) (vz p0) (vx p1) (vy p1) (vz p1) (vx p2) (vy p2) (vz p2),
   k_centroid3_2 ROps (vx p0) (vy p0) (vz p0) (vx p1) (vy p1) (vz p1) (vx p2) (vy p2) (vz p2)) =
  ((vx p0 + vx p1 + vx p2) / 3, (vy p0 + vy p1 + vy p2) / 3, (vz p0 + vz p1 + vz p2) / 3).
Proof.
  destruct p0 as [[? ?] ?], p1 as [[? ?] ?], p2 as [[? ?] ?]. vunfold. kunfold. apply vec_eq3; field.
Qed.

(* non-vacuity: the identity quaternion is a unit quaternion whose matrix is the identity *)
Example unit_quaternion_example : qnorm2 1 0 0 0 = 1 /\ mv (Qmat 1 0 0 0) (1, 2, 3) = (1, 2, 3).
Proof. split; [unfold qnorm2; ring|]. unfold Qmat. vunfold. kunfold. apply vec_eq3; ring. Qed.
