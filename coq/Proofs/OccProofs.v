From SX Require Import Base.Prelude Model.Occ Spec.OccSpec.
From Coq Require Import Lqa.
#[local] Open Scope Q_scope.

Lemma Qfloor_unique (q : Q) (z : Z) : inject_Z z <= q -> q < inject_Z (z + 1) -> Qfloor q = z.
Proof.
  intros H1 H2.
  assert (A : (z <= Qfloor q)%Z).
  { rewrite <- (Qfloor_Z z). apply Qfloor_resp_le. exact H1. }
  assert (B : (Qfloor q < z + 1)%Z).
  { rewrite Zlt_Qlt. eapply Qle_lt_trans; [apply Qfloor_le | exact H2]. }
  lia.
Qed.

Lemma inj_nonneg (z : Z) : (0 <= z)%Z -> 0 <= inject_Z z.
Proof. intros H. change 0 with (inject_Z 0). rewrite <- Zle_Qle. exact H. Qed.

Lemma Qabs_trunc (q : Q) : Z.abs (Qtrunc q) = Qfloor (Qabs q).
Proof.
  destruct q as [n d]. unfold Qtrunc, Qabs, Qfloor. cbn [Qnum Qden].
  rewrite <- Z.quot_abs by lia.
  change (Z.abs (Z.pos d)) with (Z.pos d). rewrite Z.quot_div_nonneg by lia.
  destruct n; reflexivity.
Qed.

(* decomposition of a non-negative number 10k + r, 0 <= r < 10 *)
Lemma floor_div10 (k : Z) (r : Q) : (0 <= k)%Z -> 0 <= r -> r < 10 ->
  (Qfloor (inject_Z (10 * k) + r) / 10)%Z = k.
Proof.
  intros Hk H0 H10.
  assert (F0 : (0 <= Qfloor r)%Z).
  { rewrite <- (Qfloor_Z 0). apply Qfloor_resp_le. exact H0. }
  assert (F9 : (Qfloor r < 10)%Z).
  { rewrite Zlt_Qlt. eapply Qle_lt_trans; [apply Qfloor_le | exact H10]. }
  assert (E : Qfloor (inject_Z (10 * k) + r) = (10 * k + Qfloor r)%Z).
  { apply Qfloor_unique.
    - rewrite inject_Z_plus. apply Qplus_le_r. apply Qfloor_le.
    - replace (10 * k + Qfloor r + 1)%Z with (10 * k + (Qfloor r + 1))%Z by lia.
      rewrite inject_Z_plus. apply Qplus_lt_r. apply Qlt_floor. }
  rewrite E. rewrite Z.mul_comm, Z.div_add_l by lia. rewrite Z.div_small by lia. lia.
Qed.

Lemma Qmod10_code (k : Z) (r : Q) : (0 <= k)%Z -> 0 <= r -> r < 10 ->
  Qmod10 (inject_Z (10 * k) + r) == r.
Proof.
  intros Hk H0 H10. unfold Qmod10. rewrite floor_div10 by assumption. ring.
Qed.

Lemma Qabs_code_neg (k : Z) (r : Q) : (0 <= k)%Z -> 0 <= r ->
  Qabs (inject_Z (10 * - k) + - r) == inject_Z (10 * k) + r.
Proof.
  intros Hk Hr.
  assert (E : inject_Z (10 * - k) + - r == - (inject_Z (10 * k) + r)).
  { replace (10 * - k)%Z with (- (10 * k))%Z by lia. rewrite inject_Z_opp. ring. }
  rewrite E, Qabs_opp. apply Qabs_pos.
  assert (0 <= inject_Z (10 * k)) by (apply inj_nonneg; lia). lra.
Qed.

(* non-negative codes *)
Lemma split_nonneg (k : Z) (r : Q) : (0 <= k)%Z -> 0 <= r -> r < 10 ->
  fst (split_fvar (code k r)) = k /\ snd (split_fvar (code k r)) == r.
Proof.
  intros Hk H0 H10. unfold split_fvar, code.
  assert (P : 0 <= inject_Z (10 * k) + r).
  { assert (0 <= inject_Z (10 * k)) by (apply inj_nonneg; lia). lra. }
  destruct (Qle_bool 0 (inject_Z (10 * k) + r)) eqn:E.
  - cbn [fst snd]. rewrite Qabs_trunc. split.
    + rewrite (Qfloor_comp _ _ (Qabs_pos _ P)). apply floor_div10; assumption.
    + unfold Qmod10. rewrite (Qfloor_comp _ _ (Qabs_pos _ P)). rewrite (Qabs_pos _ P).
      rewrite floor_div10 by assumption. ring.
  - apply Qle_bool_iff in P. congruence.
Qed.

(* negative codes -(10k + r), not both zero *)
Lemma split_neg (k : Z) (r : Q) : (0 <= k)%Z -> 0 <= r -> r < 10 -> ~ (k = 0%Z /\ r == 0) ->
  fst (split_fvar (code (- k) (- r))) = (- k)%Z /\ snd (split_fvar (code (- k) (- r))) == - r.
Proof.
  intros Hk H0 H10 Hnz. unfold split_fvar, code.
  pose proof (Qabs_code_neg k r Hk H0) as A.
  assert (N : ~ 0 <= inject_Z (10 * - k) + - r).
  { intro P. apply Hnz.
    assert (Q0 : 0 <= inject_Z (10 * k)) by (apply inj_nonneg; lia).
    assert (E : inject_Z (10 * - k) == - inject_Z (10 * k)).
    { replace (10 * - k)%Z with (- (10 * k))%Z by lia. rewrite inject_Z_opp. reflexivity. }
    rewrite E in P.
    assert (Z0 : inject_Z (10 * k) == 0) by lra.
    assert (R0 : r == 0) by lra.
    split; [|exact R0].
    change 0 with (inject_Z 0) in Z0. rewrite inject_Z_injective in Z0. lia. }
  destruct (Qle_bool 0 (inject_Z (10 * - k) + - r)) eqn:E.
  - apply Qle_bool_iff in E. contradiction.
  - cbn [fst snd]. rewrite Qabs_trunc. split.
    + rewrite (Qfloor_comp _ _ A). rewrite floor_div10 by assumption. reflexivity.
    + unfold Qmod10. rewrite (Qfloor_comp _ _ A). rewrite A.
      rewrite floor_div10 by assumption. ring.
Qed.

Definition fv_of (fvs : list Q) (m : Z) : Q := nth (Z.to_nat (m - 1)) fvs 0.

Lemma fvars_get_defined (fvs : list Q) (m : Z) :
  (1 <= Z.abs m <= Z.of_nat (length fvs))%Z -> fvars_get fvs m = Some (fv_of fvs (Z.abs m)).
Proof.
  intros H. unfold fvars_get, py_index, fv_of.
  destruct (Z.abs m - 1 <? 0)%Z eqn:E; [lia|].
  apply nth_error_nth'. lia.
Qed.

Lemma occupancy_respects (fvs : list Q) (q : Q) (m : Z) (p : Q) :
  fst (split_fvar q) = m -> snd (split_fvar q) == p ->
  (Z.abs m <= 1)%Z \/ (1 <= Z.abs m <= Z.of_nat (length fvs))%Z ->
  occupancy q fvs ==
    if (Z.abs m <=? 1)%Z then p
    else if (0 <? m)%Z then fv_of fvs (Z.abs m) * p else (fv_of fvs (Z.abs m) - 1) * p.
Proof.
  intros Hm Hp Hd. unfold occupancy. destruct (split_fvar q) as [m' p']. cbn [fst snd] in *. subst m'.
  destruct (Z.abs m <=? 1)%Z eqn:E; [exact Hp|].
  rewrite fvars_get_defined by lia.
  destruct (0 <? m)%Z; rewrite Hp; reflexivity.
Qed.

(* C09, occupancy: the implementation's occupancy of code 10m+p is the SHELXL rule. *)
Lemma occupancy_correct (m : Z) (p : Q) (fvs : list Q) :
  code_wf m p -> m <> (-1)%Z -> (Z.abs m <= Z.of_nat (length fvs))%Z ->
  occupancy (code m p) fvs == occ_spec m p (fv_of fvs).
Proof.
  intros (Hp & Hpos & Hneg) Hm1 Hdef.
  assert (P5 : - (5) < p /\ p < 5).
  { split.
    - apply Qabs_Qlt_condition in Hp. apply Hp.
    - apply Qabs_Qlt_condition in Hp. apply Hp. }
  destruct (Z_lt_le_dec m 0) as [Mneg | Mnn].
  - (* m < 0 , p <= 0 *)
    specialize (Hneg Mneg).
    pose proof (split_neg (- m) (- p)) as S.
    replace (- - m)%Z with m in S by lia.
    assert (Eq : code m (- - p) == code m p) by (unfold code; ring).
    assert (S' : fst (split_fvar (code m (- - p))) = m /\ snd (split_fvar (code m (- - p))) == - - p).
    { apply S; try lia; try lra. }
    destruct S' as [S1 S2].
    assert (O : occupancy (code m (- - p)) fvs ==
                if (Z.abs m <=? 1)%Z then - - p
                else if (0 <? m)%Z then fv_of fvs (Z.abs m) * - - p else (fv_of fvs (Z.abs m) - 1) * - - p).
    { apply occupancy_respects; [exact S1 | exact S2 | right; lia]. }
    assert (OE : occupancy (code m (- - p)) fvs = occupancy (code m p) fvs).
    { unfold code. f_equal. f_equal. destruct p; unfold Qopp; cbn. rewrite Z.opp_involutive. reflexivity. }
    rewrite <- OE, O. unfold occ_spec.
    destruct (Z.abs m <=? 1)%Z eqn:E1; [lia|].
    destruct (0 <? m)%Z eqn:E2; [lia|].
    replace ((m =? 0) || (m =? 1))%Z with false by lia.
    replace (1 <? m)%Z with false by lia.
    replace (Z.abs m) with (- m)%Z by lia. ring.
  - destruct (Z.eq_dec m 0) as [M0 | Mpos].
    + (* m = 0: p of either sign *)
      subst m. unfold occ_spec. cbn [Z.eqb orb].
      destruct (Qlt_le_dec p 0) as [Pn | Pp].
      * pose proof (split_neg 0 (- p)) as S. cbn [Z.opp] in S.
        assert (S' : fst (split_fvar (code 0 (- - p))) = 0%Z /\ snd (split_fvar (code 0 (- - p))) == - - p).
        { apply S; try lia; try lra. }
        destruct S' as [S1 S2].
        assert (OE : occupancy (code 0 (- - p)) fvs = occupancy (code 0 p) fvs).
        { unfold code. f_equal. f_equal. destruct p; unfold Qopp; cbn. rewrite Z.opp_involutive. reflexivity. }
        rewrite <- OE.
        rewrite (occupancy_respects fvs _ 0%Z (- - p) S1 S2) by (left; cbn; lia).
        cbn. ring.
      * destruct (split_nonneg 0 p) as [S1 S2]; try lia; try lra.
        rewrite (occupancy_respects fvs _ 0%Z p S1 S2) by (left; cbn; lia).
        cbn. reflexivity.
    + assert (Mp : (0 < m)%Z) by lia. specialize (Hpos Mp).
      destruct (split_nonneg m p) as [S1 S2]; try lia; try lra.
      rewrite (occupancy_respects fvs _ m p S1 S2) by (right; lia).
      unfold occ_spec.
      destruct (Z.eq_dec m 1) as [M1 | Mn1].
      * subst m. cbn. reflexivity.
      * destruct (Z.abs m <=? 1)%Z eqn:E1; [lia|].
        replace ((m =? 0) || (m =? 1))%Z with false by lia.
        replace (0 <? m)%Z with true by lia. replace (1 <? m)%Z with true by lia.
        replace (Z.abs m) with m by lia. ring.
Qed.

(* codes 10m+p and -(10m+p) sum to p  (m > 1) *)
Lemma occupancy_complement (m : Z) (p : Q) (fvs : list Q) :
  (1 < m)%Z -> 0 <= p -> p < 5 -> (m <= Z.of_nat (length fvs))%Z ->
  occupancy (code m p) fvs + occupancy (code (- m) (- p)) fvs == p.
Proof.
  intros Hm H0 H5 Hd.
  rewrite (occupancy_correct m p), (occupancy_correct (- m) (- p)); try lia.
  - unfold occ_spec.
    replace ((m =? 0) || (m =? 1))%Z with false by lia.
    replace ((- m =? 0) || (- m =? 1))%Z with false by lia.
    replace (1 <? m)%Z with true by lia. replace (1 <? - m)%Z with false by lia.
    rewrite Z.opp_involutive. ring.
  - unfold code_wf. rewrite Qabs_opp, Qabs_pos by assumption. repeat split; try assumption; intros; try lia; lra.
  - unfold code_wf. rewrite Qabs_pos by assumption. repeat split; try assumption; intros; try lia; lra.
Qed.

(* exact sum formula = sum of spec occupancies *)
Definition to_model (a : atom_spec) : atom_occ :=
  {| ao_elem := as_elem a; ao_sof := code (as_m a) (as_p a); ao_qpeak := as_qpeak a |}.

Definition atom_wf (n : nat) (a : atom_spec) : Prop :=
  code_wf (as_m a) (as_p a) /\ as_m a <> (-1)%Z /\ (Z.abs (as_m a) <= Z.of_nat n)%Z.

Lemma sum_for_acc fvs atoms el : forall acc,
  fold_left (fun acc a => if Nat.eqb (ao_elem a) el && negb (ao_qpeak a) then acc + occupancy (ao_sof a) fvs else acc) atoms acc
  == acc + sum_for fvs atoms el.
Proof.
  induction atoms as [|a r IH]; intros acc.
  - unfold sum_for. cbn [fold_left]. ring.
  - unfold sum_for. cbn [fold_left].
    set (c := Nat.eqb (ao_elem a) el && negb (ao_qpeak a)).
    rewrite (IH (if c then acc + occupancy (ao_sof a) fvs else acc)).
    rewrite (IH (if c then 0 + occupancy (ao_sof a) fvs else 0)).
    destruct c; ring.
Qed.

Lemma sum_formula_correct (fvs : list Q) (atoms : list atom_spec) (el : nat) :
  Forall (atom_wf (length fvs)) atoms ->
  sum_for fvs (map to_model atoms) el == sum_spec (fv_of fvs) atoms el.
Proof.
  induction atoms as [|a r IH]; intros H.
  - reflexivity.
  - inversion H as [|? ? Ha Hr]; subst. unfold sum_for. cbn [map fold_left sum_spec].
    rewrite sum_for_acc. rewrite (IH Hr).
    unfold to_model at 1 2 3. cbn [ao_elem ao_qpeak ao_sof].
    destruct Ha as (W & M1 & D).
    destruct (Nat.eqb (as_elem a) el && negb (as_qpeak a)).
    + rewrite occupancy_correct by assumption. ring.
    + ring.
Qed.

(* Q-peaks never contribute *)
Lemma sum_ignores_qpeaks fvs el a r :
  ao_qpeak a = true -> sum_for fvs (a :: r) el == sum_for fvs r el.
Proof.
  intros H. unfold sum_for at 1. cbn [fold_left]. rewrite H, andb_false_r. reflexivity.
Qed.

Lemma unit_formula_correct (unit : list Q) (z : Q) (i : nat) (u : Q) :
  nth_error unit i = Some u -> nth_error (unit_formula unit z) i = Some (u / z).
Proof. intros H. unfold unit_formula. rewrite nth_error_map, H. reflexivity. Qed.

(* The occupancy of the pinned (unrepaired) tree, kept to record finding #19: it was refuted for
   m = 0 (uses the last free variable) and for negative codes with |p| <> 1. *)
Definition occupancy_pinned (sof : Q) (fvs : list Q) : Q :=
  let '(m, p) := split_fvar sof in
  if (Z.abs m =? 1)%Z then p
  else if Qlt_le_dec 0 p then match fvars_get fvs m with Some fv => fv * p | None => 1 end
       else match fvars_get fvs m with Some fv => 1 + fv * p | None => 1 end.

Lemma occupancy_pinned_refuted :
  exists m p fvs, code_wf m p /\ m <> (-1)%Z /\ (Z.abs m <= Z.of_nat (length fvs))%Z /\
                  ~ occupancy_pinned (code m p) fvs == occ_spec m p (fv_of fvs).
Proof.
  exists (-3)%Z, (-(1#2)), [1; 6#10; 3#10].
  split; [|split; [|split]].
  - unfold code_wf. split; [reflexivity|]. split; [intros; lia | intros; discriminate].
  - discriminate.
  - cbn; lia.
  - vm_compute. intro H. discriminate H.
Qed.

(* non-vacuity: a concrete disordered pair satisfies the hypotheses *)
Example occupancy_example :
  code_wf 2 (1#2) /\ (Z.abs 2 <= Z.of_nat (length [1#1; 6#10]))%Z /\
  occupancy (code 2 (1#2)) [1#1; 6#10] == 3#10 /\ occupancy (code (-2) (-(1#2))) [1#1; 6#10] == 2#10.
Proof.
  split; [|split; [|split]].
  - unfold code_wf. split; [reflexivity|]. split; [intros; discriminate | intros; lia].
  - cbn; lia.
  - vm_compute; reflexivity.
  - vm_compute; reflexivity.
Qed.
