(* C13 — proofs about the real-number instance of Model/Sdm.v: range of the wrap, the per-pair minimum
   search, the bond rule, and the minimum-image lemma (triangle inequality in the metric norm). *)
From SX Require Import Base.RTac Model.Sdm Spec.GeomSpec.
Import ListNotations.
Open Scope R_scope.

Ltac runfold := cbv beta delta [o_add o_sub o_mul o_div o_neg o_abs o_const o_sqrt o_floor o_ltb o_eqb ROps Rconst cst ltb half] iota zeta.

Lemma ltb_true x y : ltb ROps x y = true <-> x < y.
Proof. unfold ltb; cbn [o_ltb ROps]. destruct (Rlt_dec x y); split; intros; auto; try discriminate; contradiction. Qed.
Lemma ltb_false x y : ltb ROps x y = false <-> ~ x < y.
Proof. unfold ltb; cbn [o_ltb ROps]. destruct (Rlt_dec x y); split; intros; auto; try discriminate; contradiction. Qed.

(* ---------- (a) the wrap  D - floor(D) - 1/2 with D = d + 1/2 ---------- *)
Lemma wrap1_range d :
  let fw := wrap1 ROps d in
  (exists k : Z, fst fw = IZR k) /\ - (1 / 2) <= snd fw < 1 / 2 /\ d = snd fw + fst fw.
Proof.
  unfold wrap1. runfold. cbn [fst snd]. unfold Rfloor.
  destruct (base_Int_part (d + 1 / 2)) as [H1 H2].
  split; [eexists; reflexivity|]. split; [split; lra | lra].
Qed.

(* ---------- (b) the minimum search over the operator list ---------- *)
Section PairMin.
  Variables (m : metric (T:=R)) (same : bool) (a1 a2 : satom (T:=R)).
  Definition dk_of (s : sop (T:=R)) : R := snd (candidate ROps m s a1 a2).
  Definition biased (n : nat) (dk : R) : R := match n with 0%nat => dk | _ => dk + 1 / 10000 end.
  Definition qualifies (n : nat) (s : sop (T:=R)) : Prop := ~ 53 / 10 < dk_of s /\ (1 / 100 < biased n (dk_of s) \/ same = false).

  Lemma step_cases st n s :
    let st' := sdm_step ROps m same a1 a2 st (n, s) in
    (qualifies n s /\ biased n (dk_of s) <= fst st /\ st' = (biased n (dk_of s), Some (biased n (dk_of s), n)))
    \/ ((~ qualifies n s \/ fst st < biased n (dk_of s)) /\ st' = st).
  Proof.
    destruct st as [mind best]. unfold sdm_step. fold (dk_of s). cbn [fst].
    change (cst ROps 53 10) with (53 / 10). change (cst ROps 1 100) with (1 / 100). change (cst ROps 1 10000) with (1 / 10000).
    change (o_add ROps (dk_of s) (1 / 10000)) with (dk_of s + 1 / 10000).
    assert (B : (match n with 0%nat => dk_of s | S _ => dk_of s + 1 / 10000 end) = biased n (dk_of s)) by (destruct n; reflexivity).
    rewrite B. clear B.
    destruct (ltb ROps (53 / 10) (dk_of s)) eqn:E1.
    - right. split; [|reflexivity]. left. intros [Q _]. apply Q. apply ltb_true in E1. exact E1.
    - apply ltb_false in E1.
      destruct (ltb ROps (1 / 100) (biased n (dk_of s)) || negb same) eqn:E2; cbn [andb].
      + assert (G : 1 / 100 < biased n (dk_of s) \/ same = false).
        { apply orb_true_iff in E2. destruct E2 as [E2 | E2]; [left; apply ltb_true in E2; exact E2 | right; destruct same; [discriminate | reflexivity]]. }
        destruct (ltb ROps mind (biased n (dk_of s))) eqn:E3; cbn [negb].
        * right. split; [|reflexivity]. right. apply ltb_true in E3. exact E3.
        * left. apply ltb_false in E3. split; [split; assumption|]. split; [lra | reflexivity].
      + right. split; [|reflexivity]. left. intros [_ Q]. apply orb_false_iff in E2. destruct E2 as [E2 E2'].
        apply ltb_false in E2. destruct Q as [Q | Q]; [contradiction | rewrite Q in E2'; discriminate].
  Qed.

  Lemma fold_spec l : forall mind best,
    let r := fold_left (sdm_step ROps m same a1 a2) l (mind, best) in
    fst r <= mind /\
    (forall n s, In (n, s) l -> qualifies n s -> fst r <= biased n (dk_of s)) /\
    ((r = (mind, best) /\ forall n s, In (n, s) l -> qualifies n s -> mind < biased n (dk_of s))
     \/ exists n s, In (n, s) l /\ qualifies n s /\ r = (biased n (dk_of s), Some (biased n (dk_of s), n))).
  Proof.
    induction l as [|[n s] r IH]; intros mind best; cbn [fold_left].
    - cbn [fst]. split; [lra|]. split; [intros ? ? []|]. left. split; [reflexivity | intros ? ? []].
    - destruct (step_cases (mind, best) n s) as [(Q & Le & E) | (NQ & E)]; rewrite E; cbn [fst] in *.
      + destruct (IH (biased n (dk_of s)) (Some (biased n (dk_of s), n))) as (L1 & L2 & L3). cbv zeta in *.
        split; [lra|]. split.
        * intros n' s' [I | I] Q'; [injection I as <- <-; exact L1 | exact (L2 n' s' I Q')].
        * right. destruct L3 as [(E3 & _) | (n' & s' & I & Q' & E3)].
          -- exists n, s. split; [left; reflexivity|]. split; [exact Q | exact E3].
          -- exists n', s'. split; [right; exact I|]. split; [exact Q' | exact E3].
      + destruct (IH mind best) as (L1 & L2 & L3). cbv zeta in *.
        split; [exact L1|]. split.
        * intros n' s' [I | I] Q'; [injection I as <- <-|exact (L2 n' s' I Q')].
          destruct NQ as [NQ | Lt]; [contradiction | lra].
        * destruct L3 as [(E3 & N3) | (n' & s' & I & Q' & E3)].
          -- left. split; [exact E3|]. intros n' s' [I | I] Q'; [injection I as <- <-|exact (N3 n' s' I Q')].
             destruct NQ as [NQ | Lt]; [contradiction | exact Lt].
          -- right. exists n', s'. split; [right; exact I|]. split; [exact Q' | exact E3].
  Qed.

  Lemma number_from_In {A} (l : list A) : forall i n x, In (n, x) (number_from i l) <-> (i <= n)%nat /\ nth_error l (n - i) = Some x.
  Proof.
    induction l as [|y r IH]; intros i n x; cbn [number_from].
    - split; [intros [] | intros [_ H]; destruct (n - i)%nat; discriminate].
    - split.
      + intros [E | I].
        * injection E as <- <-. split; [lia|]. rewrite Nat.sub_diag. reflexivity.
        * apply IH in I. destruct I as [L N]. split; [lia|]. replace (n - i)%nat with (S (n - S i)) by lia. exact N.
      + intros [L N]. destruct (Nat.eq_dec n i) as [-> | NE].
        * rewrite Nat.sub_diag in N. injection N as ->. left. reflexivity.
        * right. apply IH. split; [lia|]. replace (n - i)%nat with (S (n - S i)) in N by lia. exact N.
  Qed.

  (* the distance reported for an ordered pair is the least biased wrapped length over all qualifying operators,
     and the reported operator realises it; nothing is reported exactly when no operator qualifies *)
  Theorem pair_min_spec (ops : list (sop (T:=R))) :
    match pair_min ROps m ops same a1 a2 with
    | Some (d, n) => exists s, nth_error ops n = Some s /\ qualifies n s /\ d = biased n (dk_of s) /\
                               forall n' s', nth_error ops n' = Some s' -> qualifies n' s' -> d <= biased n' (dk_of s')
    | None => forall n' s', nth_error ops n' = Some s' -> ~ qualifies n' s'
    end.
  Proof.
    unfold pair_min.
    destruct (fold_spec (number_from 0 ops) (cst ROps 1000000 1) None) as (L1 & L2 & L3). cbv zeta in *.
    destruct L3 as [(E & N) | (n & s & I & Q & E)]; rewrite E in *; cbn [snd fst] in *.
    - intros n' s' Hn Q'.
      assert (I : In (n', s') (number_from 0 ops)) by (apply number_from_In; split; [lia | rewrite Nat.sub_0_r; exact Hn]).
      specialize (N n' s' I Q'). destruct Q' as [Q1 _]. change (cst ROps 1000000 1) with 1000000 in N.
      assert (biased n' (dk_of s') <= 53 / 10 + 1 / 10000) by (destruct n'; cbn [biased]; lra). lra.
    - apply number_from_In in I. destruct I as [_ I]. rewrite Nat.sub_0_r in I.
      exists s. split; [exact I|]. split; [exact Q|]. split; [reflexivity|].
      intros n' s' Hn Q'. apply L2; [|exact Q'].
      apply number_from_In. split; [lia | rewrite Nat.sub_0_r; exact Hn].
  Qed.
End PairMin.

(* top-level restatement (section variables made explicit) *)
Lemma pair_min_correct (m : metric (T:=R)) (same : bool) (a1 a2 : satom (T:=R)) (ops : list (sop (T:=R))) :
  match pair_min ROps m ops same a1 a2 with
  | Some (d, n) => exists s, nth_error ops n = Some s /\ qualifies m same a1 a2 n s /\ d = biased n (dk_of m a1 a2 s) /\
                             forall n' s', nth_error ops n' = Some s' -> qualifies m same a1 a2 n' s' -> d <= biased n' (dk_of m a1 a2 s')
  | None => forall n' s', nth_error ops n' = Some s' -> ~ qualifies m same a1 a2 n' s'
  end.
Proof. exact (pair_min_spec m same a1 a2 ops). Qed.

(* ---------- (c) the bond rule ---------- *)
Lemma bond_rule (a1 a2 : satom (T:=R)) (d : R) : 0 < d ->
  (ltb ROps d (bond_limit ROps a1 a2) = true <->
   d < (sa_radius a1 + sa_radius a2) * (12 / 10) /\
   ((sa_h a1 = false /\ sa_h a2 = false /\ (sa_part a1 * sa_part a2 = 0)%Z) \/ sa_part a1 = sa_part a2)).
Proof.
  intros Hd. unfold bond_limit. change (cst ROps 12 10) with (12 / 10). change (cst ROps 0 1) with 0.
  change (o_mul ROps (o_add ROps (sa_radius a1) (sa_radius a2)) (12 / 10)) with ((sa_radius a1 + sa_radius a2) * (12 / 10)).
  destruct (sa_h a1), (sa_h a2); cbn [negb andb orb];
    destruct (Z.eqb_spec (sa_part a1 * sa_part a2) 0); destruct (Z.eqb_spec (sa_part a1) (sa_part a2)); cbn [andb orb];
    rewrite ltb_true; split; try (intros H; split; [exact H | tauto]); try (intros [H _]; exact H);
    try (intros H; exfalso; lra);
    try (intros [_ [(A & B & C) | C]]; try discriminate; try contradiction).
Qed.

(* ---------- (d) minimum image: the wrapped vector is the shortest among all its lattice translates ---------- *)
From SX Require Import Proofs.GeomProofs.

Definition norm (v : vec) : R := sqrt (dot v v).

Lemma dot_nonneg v : 0 <= dot v v.
Proof. destruct v as [[x y] z]. unfold dot, vx, vy, vz; cbn [fst snd]. nra. Qed.

Lemma cauchy_schwarz a b : dot a b * dot a b <= dot a a * dot b b.
Proof. pose proof (cross_norm a b) as H. pose proof (dot_nonneg (cross a b)). lra. Qed.

Lemma dot_vadd a b : dot (vadd a b) (vadd a b) = dot a a + 2 * dot a b + dot b b.
Proof. destruct a as [[? ?] ?], b as [[? ?] ?]. unfold dot, vadd, vx, vy, vz; cbn [fst snd]. ring. Qed.

Lemma norm_triangle a b : norm (vadd a b) <= norm a + norm b.
Proof.
  unfold norm. pose proof (dot_nonneg a) as Ha. pose proof (dot_nonneg b) as Hb.
  pose proof (sqrt_pos (dot a a)) as Sa. pose proof (sqrt_pos (dot b b)) as Sb.
  apply Rsqr_incr_0_var; [|lra].
  unfold Rsqr. rewrite sqrt_sqrt by apply dot_nonneg. rewrite dot_vadd.
  replace ((sqrt (dot a a) + sqrt (dot b b)) * (sqrt (dot a a) + sqrt (dot b b)))
    with (sqrt (dot a a) * sqrt (dot a a) + 2 * (sqrt (dot a a) * sqrt (dot b b)) + sqrt (dot b b) * sqrt (dot b b)) by ring.
  rewrite !sqrt_sqrt by assumption.
  assert (C : dot a b <= sqrt (dot a a) * sqrt (dot b b)).
  { rewrite <- sqrt_mult by assumption.
    destruct (Rle_dec (dot a b) 0) as [N | P].
    - pose proof (sqrt_pos (dot a a * dot b b)). lra.
    - apply Rsqr_incr_0_var; [|apply sqrt_pos]. unfold Rsqr. rewrite sqrt_sqrt by (apply Rmult_le_pos; assumption).
      apply cauchy_schwarz. }
  lra.
Qed.

Lemma mv_vadd M a b : mv M (vadd a b) = vadd (mv M a) (mv M b).
Proof.
  destruct a as [[? ?] ?], b as [[? ?] ?], M as [[[[? ?] ?] [[? ?] ?]] [[? ?] ?]].
  unfold mv, vadd, dot, mrow1, mrow2, mrow3, vx, vy, vz; cbn [fst snd]. apply vec_eq; ring.
Qed.
Lemma mv_vneg M a : mv M (vneg a) = vneg (mv M a).
Proof.
  destruct a as [[? ?] ?], M as [[[[? ?] ?] [[? ?] ?]] [[? ?] ?]].
  unfold mv, vneg, dot, mrow1, mrow2, mrow3, vx, vy, vz; cbn [fst snd]. apply vec_eq; ring.
Qed.
Lemma norm_vneg a : norm (vneg a) = norm a.
Proof. unfold norm. f_equal. destruct a as [[? ?] ?]. unfold dot, vneg, vx, vy, vz; cbn [fst snd]. ring. Qed.

(* length of a fractional vector in the cell with orthogonalisation matrix M *)
Definition cell_norm (M : mat) (v : vec) : R := norm (mv M v).

Theorem min_image (M : mat) (w k : vec) (L : R) :
  cell_norm M w < L / 2 -> L <= cell_norm M k -> cell_norm M w <= cell_norm M (vadd w k).
Proof.
  unfold cell_norm. intros Hw Hk.
  assert (E : k = vadd (vadd w k) (vneg w)).
  { destruct w as [[? ?] ?], k as [[? ?] ?]. unfold vadd, vneg, vx, vy, vz; cbn [fst snd]. apply vec_eq; ring. }
  pose proof (norm_triangle (mv M (vadd w k)) (mv M (vneg w))) as T.
  rewrite <- mv_vadd, <- E, mv_vneg, norm_vneg in T. lra.
Qed.

(* the metric constants of the SDM class are the Gram matrix of the columns of M, and vector_length is that norm *)
Definition metric_of_mat (M : mat) : metric (T:=R) :=
  {| m_asq := dot (mcol1 M) (mcol1 M); m_bsq := dot (mcol2 M) (mcol2 M); m_csq := dot (mcol3 M) (mcol3 M);
     m_aga := dot (mcol1 M) (mcol2 M); m_bbe := dot (mcol1 M) (mcol3 M); m_cal := dot (mcol2 M) (mcol3 M) |}.

Lemma vlen_is_cell_norm M x y z : vlen ROps (metric_of_mat M) x y z = cell_norm M (x, y, z).
Proof.
  unfold vlen, cell_norm, norm, metric_of_mat. cbn [m_asq m_bsq m_csq m_aga m_bbe m_cal].
  destruct M as [[[[a b] c] [[d e] f]] [[g h] i]].
  unfold cst. cbn [o_add o_mul o_sqrt o_const ROps Rconst].
  f_equal. unfold mv, dot, mcol1, mcol2, mcol3, mrow1, mrow2, mrow3, vx, vy, vz; cbn [fst snd]. ring.
Qed.

(* for one operator: the wrapped difference vector is the shortest lattice translate, when it is shorter than
   half the shortest lattice vector *)
Theorem wrapped_is_shortest (M : mat) (L : R) (wx wy wz : R) (kx ky kz : Z) :
  (forall a b c : Z, (a, b, c) <> (0, 0, 0)%Z -> L <= cell_norm M (IZR a, IZR b, IZR c)) ->
  vlen ROps (metric_of_mat M) wx wy wz < L / 2 ->
  vlen ROps (metric_of_mat M) wx wy wz <= vlen ROps (metric_of_mat M) (wx + IZR kx) (wy + IZR ky) (wz + IZR kz).
Proof.
  intros HL Hw. rewrite !vlen_is_cell_norm in *.
  destruct (Z.eq_dec kx 0) as [-> | Nx]; [destruct (Z.eq_dec ky 0) as [-> | Ny]; [destruct (Z.eq_dec kz 0) as [-> | Nz]|]|].
  - rewrite !Rplus_0_r. lra.
  - apply (min_image M (wx, wy, wz) (IZR 0, IZR 0, IZR kz) L Hw). apply HL. intros E. injection E as E. contradiction.
  - apply (min_image M (wx, wy, wz) (IZR 0, IZR ky, IZR kz) L Hw). apply HL. intros E. injection E as E1 E2. contradiction.
  - apply (min_image M (wx, wy, wz) (IZR kx, IZR ky, IZR kz) L Hw). apply HL. intros E. injection E as E1 E2 E3. contradiction.
Qed.

(* non-vacuity: in a cubic cell of edge 10 every non-zero lattice vector is at least 10 long *)
Example cubic_lattice_bound : forall a b c : Z, (a, b, c) <> (0, 0, 0)%Z ->
  10 <= cell_norm ((10, 0, 0), (0, 10, 0), (0, 0, 10)) (IZR a, IZR b, IZR c).
Proof.
  intros a b c NZ. unfold cell_norm, norm, mv, dot, mrow1, mrow2, mrow3, vx, vy, vz; cbn [fst snd].
  replace 10 with (sqrt (10 * 10)) at 1 by (apply sqrt_square; lra). apply sqrt_le_1_alt.
  assert (Hn : (a <> 0 \/ b <> 0 \/ c <> 0)%Z).
  { destruct (Z.eq_dec a 0), (Z.eq_dec b 0), (Z.eq_dec c 0); subst; try tauto. }
  assert (Sq : forall z : Z, z <> 0%Z -> 1 <= IZR z * IZR z).
  { intros z Hz. rewrite <- mult_IZR. apply IZR_le. nia. }
  assert (S0 : forall z : Z, 0 <= IZR z * IZR z) by (intros; nra).
  pose proof (S0 a) as Pa. pose proof (S0 b) as Pb. pose proof (S0 c) as Pc.
  destruct Hn as [Hz | [Hz | Hz]]; pose proof (Sq _ Hz) as Q1; nra.
Qed.

(* the model's length formula, with the metric constants the SDM constructor computes from the cell,
   is the kernel traced from SDM.vector_length in /repo's current source *)
From SX Require Import Gen.K_cell.
Definition metric_of_cell (a b c al be ga : R) : metric (T:=R) :=
  {| m_asq := a * a; m_bsq := b * b; m_csq := c * c;
     m_aga := a * b * cos (ga * PI / 180); m_bbe := a * c * cos (be * PI / 180); m_cal := b * c * cos (al * PI / 180) |}.
Lemma vlen_matches_traced x y z a b c al be ga :
  vlen ROps (metric_of_cell a b c al be ga) x y z = k_vector_length ROps x y z a b c al be ga.
Proof.
  unfold vlen, metric_of_cell, cst. cbn [m_asq m_bsq m_csq m_aga m_bbe m_cal]. kunfold. f_equal; ring.
Qed.

(* ---------- minimum image from the interplanar spacings ---------- *)
Lemma wrap1_of_small (v : R) (k : Z) : - (1 / 2) <= v < 1 / 2 -> wrap1 ROps (v + IZR k) = (IZR k, v).
Proof.
  intros [L U]. unfold wrap1. runfold. unfold Rfloor.
  assert (E : Int_part (v + IZR k + 1 / 2) = k).
  { unfold Int_part. rewrite <- (tech_up (v + IZR k + 1 / 2) (k + 1)); [lia | rewrite plus_IZR; lra | rewrite plus_IZR; lra]. }
  rewrite E. f_equal. lra.
Qed.

Lemma abs_dot_le a b : Rabs (dot a b) <= norm a * norm b.
Proof.
  unfold norm. rewrite <- sqrt_mult by apply dot_nonneg.
  rewrite <- (sqrt_Rsqr_abs (dot a b)). apply sqrt_le_1_alt. unfold Rsqr. apply cauchy_schwarz.
Qed.

(* a fractional component is bounded by the length times the reciprocal axis length (row norm of the inverse) *)
Lemma component_bound (M Minv : mat) (v : vec) : mv Minv (mv M v) = v ->
  Rabs (vx v) <= norm (mrow1 Minv) * cell_norm M v /\
  Rabs (vy v) <= norm (mrow2 Minv) * cell_norm M v /\
  Rabs (vz v) <= norm (mrow3 Minv) * cell_norm M v.
Proof.
  intros E. unfold cell_norm.
  assert (X : vx v = dot (mrow1 Minv) (mv M v)) by (rewrite <- E at 1; reflexivity).
  assert (Y : vy v = dot (mrow2 Minv) (mv M v)) by (rewrite <- E at 1; reflexivity).
  assert (Z : vz v = dot (mrow3 Minv) (mv M v)) by (rewrite <- E at 1; reflexivity).
  rewrite X, Y, Z at 1. repeat split; apply abs_dot_le.
Qed.

(* if a lattice translate v of the difference vector is shorter than half of every interplanar spacing
   (1 / reciprocal axis length), the component-wise wrap of ANY of its translates returns exactly v:
   the distance the SDM computes for this operator is the true shortest one *)
Theorem min_image_spacing (M Minv : mat) (v : vec) (kx ky kz : Z) :
  mv Minv (mv M v) = v ->
  norm (mrow1 Minv) * cell_norm M v < 1 / 2 -> norm (mrow2 Minv) * cell_norm M v < 1 / 2 ->
  norm (mrow3 Minv) * cell_norm M v < 1 / 2 ->
  snd (wrap1 ROps (vx v + IZR kx)) = vx v /\ snd (wrap1 ROps (vy v + IZR ky)) = vy v /\ snd (wrap1 ROps (vz v + IZR kz)) = vz v.
Proof.
  intros E Hx Hy Hz. destruct (component_bound M Minv v E) as (Bx & By & Bz).
  assert (Ax : - (1 / 2) <= vx v < 1 / 2) by (pose proof (Rabs_def2 (vx v) (1/2) ltac:(lra)); lra).
  assert (Ay : - (1 / 2) <= vy v < 1 / 2) by (pose proof (Rabs_def2 (vy v) (1/2) ltac:(lra)); lra).
  assert (Az : - (1 / 2) <= vz v < 1 / 2) by (pose proof (Rabs_def2 (vz v) (1/2) ltac:(lra)); lra).
  rewrite (wrap1_of_small _ kx Ax), (wrap1_of_small _ ky Ay), (wrap1_of_small _ kz Az). repeat split.
Qed.
