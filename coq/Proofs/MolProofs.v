(* C13 — molecule numbers (SDM.calc_molindex, Model/Sdm.v molindex) partition the atoms into the connected components of
   the bond graph.  The model mirrors the library's label propagation ("bring atoms together"): repeated passes over the
   item list give the current number to the unnumbered end of every bonded pair with one numbered end, until a pass changes
   nothing; then the first unnumbered atom opens the next molecule.  Proved here, for every item list and any number of
   atoms: the fuel of the model suffices (the loops end), every atom gets a number >= 1, and two atoms get the same number
   exactly when they are connected by bonded pairs. *)
From Coq Require Import ZArith List Bool Lia Relations.
From SX Require Import Base.Num Model.Sdm.
Import ListNotations.
Local Open Scope Z_scope.

(* ---------------------------------------------------------------- lists of numbers *)

Lemma set_idx_length idx i v : length (set_idx idx i v) = length idx.
Proof. revert i; induction idx as [|x r IH]; intros [|i]; cbn [set_idx length]; try reflexivity. rewrite IH. reflexivity. Qed.

Lemma get_set_same idx i v : (i < length idx)%nat -> get_idx (set_idx idx i v) i = v.
Proof.
  unfold get_idx. revert i; induction idx as [|x r IH]; intros [|i] H; cbn [length] in H; try lia; cbn [set_idx nth]; [reflexivity|].
  apply IH. lia.
Qed.

Lemma get_set_other idx i j v : i <> j -> get_idx (set_idx idx i v) j = get_idx idx j.
Proof.
  unfold get_idx. revert i j; induction idx as [|x r IH]; intros [|i] [|j] H; cbn [set_idx nth]; try reflexivity; try congruence.
  apply IH. congruence.
Qed.

Lemma get_oob idx i : (length idx <= i)%nat -> get_idx idx i = -1.
Proof. unfold get_idx. intros H. apply nth_overflow. exact H. Qed.

(* number of atoms without a molecule number *)
Definition unl (idx : list Z) : nat := length (filter (fun x => Z.ltb x 0) idx).

Lemma unl_le idx : (unl idx <= length idx)%nat.
Proof. unfold unl. induction idx as [|x r IH]; cbn [filter length]; [lia|]. destruct (Z.ltb x 0); cbn [length]; lia. Qed.

Lemma unl_set idx u v : (u < length idx)%nat -> get_idx idx u < 0 -> 0 <= v -> S (unl (set_idx idx u v)) = unl idx.
Proof.
  unfold unl, get_idx. revert u; induction idx as [|x r IH]; intros [|u] L G V; cbn [length] in L; try lia; cbn [set_idx nth filter] in *.
  - destruct (Z.ltb_spec v 0); [lia|]. destruct (Z.ltb_spec x 0); [reflexivity | lia].
  - destruct (Z.ltb_spec x 0); cbn [length]; rewrite <- (IH u); try lia; reflexivity.
Qed.

(* ---------------------------------------------------------------- the bond graph *)

Section Graph.
Variable edges : list (nat * nat).
Variable n : nat.
Hypothesis edges_valid : forall i j, In (i, j) edges -> (i < n)%nat /\ (j < n)%nat.

Definition conn : nat -> nat -> Prop := clos_refl_sym_trans nat (fun i j => In (i, j) edges).

(* label k is closed: no bonded pair has exactly one end numbered k *)
Definition closed (idx : list Z) (k : Z) : Prop := forall i j, In (i, j) edges -> (get_idx idx i = k <-> get_idx idx j = k).

Lemma closed_conn idx k i j : closed idx k -> conn i j -> (get_idx idx i = k <-> get_idx idx j = k).
Proof.
  intros C H. induction H as [x y E | x | x y _ IH | x y z _ IH1 _ IH2].
  - apply C. exact E.
  - reflexivity.
  - symmetry. exact IH.
  - rewrite IH1. exact IH2.
Qed.

Lemma get_set idx u v i : get_idx (set_idx idx u v) i = if Nat.eqb u i && Nat.ltb u (length idx) then v else get_idx idx i.
Proof.
  destruct (Nat.eqb_spec u i) as [<- | N]; cbn [andb].
  - destruct (Nat.ltb_spec u (length idx)) as [L | L]; [apply get_set_same; exact L|].
    rewrite !get_oob; [reflexivity | exact L | rewrite set_idx_length; exact L].
  - apply get_set_other. exact N.
Qed.

Lemma closed_set idx k u v : closed idx k -> get_idx idx u <> k -> v <> k -> closed (set_idx idx u v) k.
Proof.
  intros C Gu Vk i j E. specialize (C i j E). rewrite !get_set.
  destruct (Nat.eqb_spec u i) as [Ei | Ni]; destruct (Nat.eqb_spec u j) as [Ej | Nj]; cbn [andb];
    destruct (Nat.ltb u (length idx)); try subst i; try subst j; tauto.
Qed.

(* the invariant of the numbering: current number m, seed k = the atom that opened molecule k *)
Record inv (seed : Z -> nat) (m : Z) (idx : list Z) : Prop := {
  inv_len : length idx = n;
  inv_m : 1 <= m;
  inv_zero : 1 <= get_idx idx 0;
  inv_rng : forall i, (i < n)%nat -> get_idx idx i = -1 \/ 1 <= get_idx idx i <= m;
  inv_seed : forall i, (i < n)%nat -> 1 <= get_idx idx i -> conn i (seed (get_idx idx i));
  inv_closed : forall k, 1 <= k < m -> closed idx k }.

(* giving the current number to an unnumbered atom u next to an atom w that carries it *)
Lemma label_one seed m idx u w :
  inv seed m idx -> (u < n)%nat -> get_idx idx u = -1 -> (w < n)%nat -> get_idx idx w = m -> (In (u, w) edges \/ In (w, u) edges) ->
  inv seed m (set_idx idx u m).
Proof.
  intros [Len M Z0 Rng Seed Cl] Un Gu Wn Gw Adj.
  assert (UW : u <> w) by (intros ->; lia).
  split.
  - rewrite set_idx_length. exact Len.
  - exact M.
  - destruct (Nat.eq_dec u 0%nat) as [-> | N0]; [lia | rewrite get_set_other by exact N0; exact Z0].
  - intros i Hi. destruct (Nat.eq_dec u i) as [<- | N]; [rewrite get_set_same by lia; right; lia | rewrite get_set_other by exact N; apply Rng; exact Hi].
  - intros i Hi. destruct (Nat.eq_dec u i) as [<- | N].
    + rewrite get_set_same by lia. intros _.
      apply rst_trans with w.
      * destruct Adj as [A | A]; [apply rst_step; exact A | apply rst_sym; apply rst_step; exact A].
      * specialize (Seed w Wn). rewrite Gw in Seed. apply Seed. lia.
    + rewrite get_set_other by exact N. apply Seed. exact Hi.
  - intros k Hk. apply closed_set; [apply Cl; exact Hk | lia | lia].
Qed.

(* ---------------------------------------------------------------- one pass over the bonded pairs *)

Definition estep (m : Z) (st : list Z * bool) (e : nat * nat) : list Z * bool :=
  let '(idx, ch) := st in
  if Z.ltb (get_idx idx (fst e) * get_idx idx (snd e)) 0 then (set_idx (set_idx idx (fst e) m) (snd e) m, true) else st.

Lemma set_same idx j : (j < length idx)%nat -> set_idx idx j (get_idx idx j) = idx.
Proof.
  unfold get_idx. revert j; induction idx as [|x r IH]; intros [|j] L; cbn [length] in L; try lia; cbn [set_idx nth]; [reflexivity|].
  rewrite IH by lia. reflexivity.
Qed.

(* a firing step numbers exactly one new atom *)
Lemma estep_fires seed m idx i j :
  inv seed m idx -> In (i, j) edges -> get_idx idx i * get_idx idx j < 0 ->
  exists u w, (u < n)%nat /\ get_idx idx u = -1 /\ (w < n)%nat /\ get_idx idx w = m /\ (In (u, w) edges \/ In (w, u) edges) /\
              set_idx (set_idx idx i m) j m = set_idx idx u m.
Proof.
  intros I E P. destruct (edges_valid i j E) as [Hi Hj]. pose proof I as [Len M Z0 Rng Seed Cl].
  assert (IJ : i <> j) by (intros ->; nia).
  destruct (Rng i Hi) as [Ai | Ai]; destruct (Rng j Hj) as [Aj | Aj]; try nia.
  - (* i unnumbered, j numbered: its number is the current one *)
    assert (Gj : get_idx idx j = m).
    { destruct (Z.eq_dec (get_idx idx j) m) as [e | ne]; [exact e|]. exfalso.
      assert (K : 1 <= get_idx idx j < m) by lia. pose proof (Cl _ K i j E) as C. destruct C as [_ C]. specialize (C eq_refl). lia. }
    exists i, j. repeat split; try assumption; [left; exact E|].
    rewrite <- Gj at 2. rewrite <- (get_set_other idx i j m IJ). apply set_same. rewrite set_idx_length, Len. exact Hj.
  - assert (Gi : get_idx idx i = m).
    { destruct (Z.eq_dec (get_idx idx i) m) as [e | ne]; [exact e|]. exfalso.
      assert (K : 1 <= get_idx idx i < m) by lia. pose proof (Cl _ K i j E) as C. destruct C as [C _]. specialize (C eq_refl). lia. }
    exists j, i. repeat split; try assumption; [right; exact E|].
    rewrite <- Gi at 1. rewrite set_same by (rewrite Len; exact Hi). reflexivity.
Qed.

Definition quiet (idx : list Z) (es : list (nat * nat)) : Prop :=
  forall e, In e es -> ~ get_idx idx (fst e) * get_idx idx (snd e) < 0.

Lemma epass_spec seed m es : incl es edges -> forall idx ch, inv seed m idx ->
  let r := fold_left (estep m) es (idx, ch) in
  inv seed m (fst r) /\ (unl (fst r) <= unl idx)%nat /\
  (snd r = false -> ch = false /\ fst r = idx /\ quiet idx es) /\
  (ch = false -> snd r = true -> (unl (fst r) < unl idx)%nat).
Proof.
  induction es as [|[i j] es IH]; intros Inc idx ch I; cbv zeta; cbn [fold_left].
  - cbn [fst snd]. split; [exact I|]. split; [lia|]. split; [intros ->; repeat split; intros e [] | intros -> F; discriminate].
  - assert (E : In (i, j) edges) by (apply Inc; left; reflexivity).
    assert (Inc' : incl es edges) by (intros e He; apply Inc; right; exact He).
    assert (St : estep m (idx, ch) (i, j) = if Z.ltb (get_idx idx i * get_idx idx j) 0 then (set_idx (set_idx idx i m) j m, true) else (idx, ch)) by reflexivity.
    rewrite St. clear St.
    destruct (Z.ltb_spec (get_idx idx i * get_idx idx j) 0) as [P | P].
    + destruct (estep_fires seed m idx i j I E P) as (u & w & Un & Gu & Wn & Gw & Adj & Eq). rewrite Eq.
      pose proof (label_one seed m idx u w I Un Gu Wn Gw Adj) as I'.
      assert (Dec : S (unl (set_idx idx u m)) = unl idx).
      { apply unl_set; [rewrite (inv_len _ _ _ I); exact Un | lia | pose proof (inv_m _ _ _ I); lia]. }
      specialize (IH Inc' (set_idx idx u m) true I'). cbv zeta in IH. destruct IH as (A & B & C & _).
      split; [exact A|]. split; [lia|]. split.
      * intros F. apply C in F. destruct F as [F _]. discriminate.
      * intros _ _. lia.
    + specialize (IH Inc' idx ch I). cbv zeta in IH. destruct IH as (A & B & C & D).
      split; [exact A|]. split; [exact B|]. split; [|exact D].
      intros F. destruct (C F) as (C1 & C2 & C3). split; [exact C1|]. split; [exact C2|].
      intros e [<- | He]; [cbn [fst snd]; lia | apply C3; exact He].
Qed.

(* ---------------------------------------------------------------- passes until nothing changes *)

Fixpoint espread (fuel : nat) (m : Z) (idx : list Z) : list Z :=
  match fuel with
  | O => idx
  | S f => let '(idx', ch) := fold_left (estep m) edges (idx, false) in if ch then espread f m idx' else idx'
  end.

Lemma espread_spec seed m : forall fuel idx, inv seed m idx -> (unl idx < fuel)%nat ->
  inv seed m (espread fuel m idx) /\ quiet (espread fuel m idx) edges /\ (unl (espread fuel m idx) <= unl idx)%nat.
Proof.
  induction fuel as [|f IH]; intros idx I U; [lia|].
  cbn [espread]. pose proof (epass_spec seed m edges (incl_refl _) idx false I) as S. cbv zeta in S.
  destruct (fold_left (estep m) edges (idx, false)) as [idx' ch]. cbn [fst snd] in S. destruct S as (A & B & C & D).
  destruct ch.
  - specialize (D eq_refl eq_refl). destruct (IH idx' A ltac:(lia)) as (X & Y & W). split; [exact X|]. split; [exact Y|]. lia.
  - destruct (C eq_refl) as (_ & -> & Q). split; [exact I|]. split; [exact Q|]. lia.
Qed.

(* when no pass changes anything, the current number is closed as well *)
Lemma quiet_closed seed m idx : inv seed m idx -> quiet idx edges -> closed idx m.
Proof.
  intros [Len M Z0 Rng Seed Cl] Q i j E. destruct (edges_valid i j E) as [Hi Hj]. specialize (Q (i, j) E). cbn [fst snd] in Q.
  split; intros G.
  - destruct (Rng j Hj) as [A | A]; [rewrite G, A in Q; lia|].
    destruct (Z.eq_dec (get_idx idx j) m) as [e | ne]; [exact e|]. exfalso.
    assert (K : 1 <= get_idx idx j < m) by lia. destruct (Cl _ K i j E) as [_ C]. specialize (C eq_refl). lia.
  - destruct (Rng i Hi) as [A | A]; [rewrite G, A in Q; lia|].
    destruct (Z.eq_dec (get_idx idx i) m) as [e | ne]; [exact e|]. exfalso.
    assert (K : 1 <= get_idx idx i < m) by lia. destruct (Cl _ K i j E) as [C _]. specialize (C eq_refl). lia.
Qed.

(* ---------------------------------------------------------------- the first unnumbered atom *)

Fixpoint ffree (idx : list Z) (i : nat) : option nat :=
  match idx with [] => None | x :: r => if Z.ltb x 0 then Some i else ffree r (S i) end.

Lemma ffree_none idx i0 : ffree idx i0 = None -> forall i, (i < length idx)%nat -> 0 <= get_idx idx i.
Proof.
  unfold get_idx. revert i0; induction idx as [|x r IH]; intros i0 H i L; cbn [length] in L; [lia|].
  cbn [ffree] in H. destruct (Z.ltb_spec x 0); [discriminate|]. destruct i as [|i]; cbn [nth]; [assumption|]. apply (IH (S i0) H). lia.
Qed.

Lemma ffree_some idx i0 k : ffree idx i0 = Some k -> (i0 <= k)%nat /\ (k - i0 < length idx)%nat /\ get_idx idx (k - i0) < 0.
Proof.
  unfold get_idx. revert i0; induction idx as [|x r IH]; intros i0 H; cbn [ffree] in H; [discriminate|].
  destruct (Z.ltb_spec x 0).
  - injection H as <-. rewrite Nat.sub_diag. cbn [length nth]. repeat split; try lia.
  - destruct (IH (S i0) H) as (A & B & C). cbn [length]. repeat split; try lia.
    replace (k - i0)%nat with (S (k - S i0)) by lia. cbn [nth]. exact C.
Qed.

(* ---------------------------------------------------------------- the outer loop *)

Fixpoint eouter (fuel : nat) (m : Z) (idx : list Z) : list Z * Z :=
  match fuel with
  | O => (idx, m)
  | S f => let idx1 := espread (S n) m idx in
           match ffree idx1 0 with
           | Some (S k) => eouter f (m + 1) (set_idx idx1 (S k) (m + 1))
           | _ => (idx1, m)
           end
  end.

Definition numbered (idx : list Z) : Prop := forall i, (i < n)%nat -> 1 <= get_idx idx i.

Lemma eouter_spec : forall fuel seed m idx, inv seed m idx -> (unl idx < fuel)%nat ->
  exists seed', inv seed' (snd (eouter fuel m idx)) (fst (eouter fuel m idx)) /\ quiet (fst (eouter fuel m idx)) edges /\ numbered (fst (eouter fuel m idx)).
Proof.
  induction fuel as [|f IH]; intros seed m idx I U; [lia|].
  cbn [eouter].
  assert (U1 : (unl idx < S n)%nat) by (pose proof (unl_le idx); rewrite (inv_len _ _ _ I) in *; lia).
  destruct (espread_spec seed m (S n) idx I U1) as (I1 & Q1 & L1).
  set (idx1 := espread (S n) m idx) in *.
  destruct (ffree idx1 0) as [[|k]|] eqn:F.
  - (* atom 0 always has a number *)
    exfalso. destruct (ffree_some _ _ _ F) as (_ & _ & G). rewrite Nat.sub_diag in G. pose proof (inv_zero _ _ _ I1). lia.
  - destruct (ffree_some _ _ _ F) as (_ & Lk & Gk). rewrite Nat.sub_0_r in Lk, Gk. rewrite (inv_len _ _ _ I1) in Lk.
    assert (Gk' : get_idx idx1 (S k) = -1) by (destruct (inv_rng _ _ _ I1 (S k) Lk); lia).
    pose proof I1 as [Len M Z0 Rng Seed Cl].
    set (seed' := fun z => if Z.eqb z (m + 1) then S k else seed z).
    assert (I2 : inv seed' (m + 1) (set_idx idx1 (S k) (m + 1))).
    { split.
      - rewrite set_idx_length. exact Len.
      - lia.
      - rewrite get_set_other by discriminate. exact Z0.
      - intros i Hi. destruct (Nat.eq_dec (S k) i) as [<- | N]; [rewrite get_set_same by lia; right; lia|].
        rewrite get_set_other by exact N. destruct (Rng i Hi); [left; assumption | right; lia].
      - intros i Hi. destruct (Nat.eq_dec (S k) i) as [<- | N].
        + rewrite get_set_same by lia. intros _. unfold seed'. rewrite Z.eqb_refl. apply rst_refl.
        + rewrite get_set_other by exact N. intros G. unfold seed'.
          destruct (Z.eqb_spec (get_idx idx1 i) (m + 1)) as [e | ne]; [destruct (Rng i Hi); lia|]. apply Seed; assumption.
      - intros z Hz. apply closed_set; try lia.
        destruct (Z.eq_dec z m) as [-> | ne]; [apply (quiet_closed seed m idx1 I1 Q1) | apply Cl; lia]. }
    assert (U2 : (unl (set_idx idx1 (S k) (m + 1)) < f)%nat).
    { assert (S (unl (set_idx idx1 (S k) (m + 1))) = unl idx1) by (apply unl_set; [rewrite Len; exact Lk | lia | lia]). lia. }
    exact (IH seed' (m + 1) _ I2 U2).
  - exists seed. cbn [fst snd]. split; [exact I1|]. split; [exact Q1|].
    intros i Hi. pose proof (ffree_none _ _ F i ltac:(rewrite (inv_len _ _ _ I1); exact Hi)) as G.
    destruct (inv_rng _ _ _ I1 i Hi); lia.
Qed.

(* the partition theorem for the abstract loop *)
Theorem eouter_components : (0 < n)%nat ->
  let idx0 := set_idx (repeat (-1) n) 0 1 in
  let idx := fst (eouter (S n) 1 idx0) in
  length idx = n /\ (forall i, (i < n)%nat -> 1 <= get_idx idx i) /\
  (forall i j, (i < n)%nat -> (j < n)%nat -> (get_idx idx i = get_idx idx j <-> conn i j)).
Proof.
  intros Hn idx0 idx.
  assert (L0 : length idx0 = n) by (unfold idx0; rewrite set_idx_length, repeat_length; reflexivity).
  assert (G0 : forall i, (i < n)%nat -> get_idx idx0 i = if Nat.eqb i 0 then 1 else -1).
  { intros i Hi. unfold idx0. destruct i as [|i]; cbn [Nat.eqb].
    - apply get_set_same. rewrite repeat_length. exact Hn.
    - rewrite get_set_other by discriminate. unfold get_idx. apply nth_repeat. }
  assert (I0 : inv (fun _ => 0%nat) 1 idx0).
  { split; try assumption; try lia.
    - rewrite (G0 0%nat Hn). cbn. lia.
    - intros i Hi. rewrite (G0 i Hi). destruct i; cbn; lia.
    - intros i Hi. rewrite (G0 i Hi). destruct i; cbn [Nat.eqb]; [intros _; apply rst_refl | lia]. }
  assert (U0 : (unl idx0 < S n)%nat) by (pose proof (unl_le idx0); lia).
  destruct (eouter_spec (S n) _ 1 idx0 I0 U0) as (seed & I & Q & Nb). fold idx in I, Q, Nb.
  set (m := snd (eouter (S n) 1 idx0)) in *.
  repeat split.
  - exact (inv_len _ _ _ I).
  - exact Nb.
  - intros E. apply rst_trans with (seed (get_idx idx i)); [apply (inv_seed _ _ _ I i H (Nb i H))|].
    rewrite E. apply rst_sym. apply (inv_seed _ _ _ I j H0 (Nb j H0)).
  - intros C.
    assert (Cl : closed idx (get_idx idx i)).
    { destruct (inv_rng _ _ _ I i H) as [A | A]; [pose proof (Nb i H); lia|].
      destruct (Z.eq_dec (get_idx idx i) m) as [-> | ne]; [apply (quiet_closed seed m idx I Q) | apply (inv_closed _ _ _ I); lia]. }
    symmetry. apply (closed_conn idx _ i j Cl C). reflexivity.
Qed.
End Graph.

(* ---------------------------------------------------------------- the model of Model/Sdm.v is this loop *)

Section Model.
Context {T : Type}.
Definition cov_edges (items : list (sitem (T:=T))) : list (nat * nat) :=
  map (fun it => (it_a1 it, it_a2 it)) (filter (fun it => it_cov it) items).

Lemma mol_pass_fold items m : forall st,
  fold_left (fun st it => let '(idx, ch) := st in
                          if it_cov it && Z.ltb (get_idx idx (it_a1 it) * get_idx idx (it_a2 it)) 0
                          then (set_idx (set_idx idx (it_a1 it) m) (it_a2 it) m, true) else st) items st
  = fold_left (estep m) (cov_edges items) st.
Proof.
  unfold cov_edges. induction items as [|it r IH]; intros [idx ch]; cbn [fold_left filter map]; [reflexivity|].
  destruct (it_cov it); cbn [andb map fold_left].
  - unfold estep at 2. cbn [fst snd]. destruct (Z.ltb _ 0); apply IH.
  - apply IH.
Qed.

Lemma mol_pass_epass items m idx : mol_pass items m idx = fold_left (estep m) (cov_edges items) (idx, false).
Proof. unfold mol_pass. apply mol_pass_fold. Qed.

Lemma mol_spread_espread items m : forall fuel idx, mol_spread fuel items m idx = espread (cov_edges items) fuel m idx.
Proof.
  induction fuel as [|f IH]; intros idx; cbn [mol_spread espread]; [reflexivity|].
  rewrite mol_pass_epass. destruct (fold_left (estep m) (cov_edges items) (idx, false)) as [idx' ch]. destruct ch; [apply IH | reflexivity].
Qed.

Lemma first_free_ffree (atoms : list (satom (T:=T))) : forall idx i, length atoms = length idx -> first_free atoms idx i = ffree idx i.
Proof.
  induction atoms as [|a ra IH]; intros [|x rx] i L; cbn [length] in L; try lia; cbn [first_free ffree]; [reflexivity|].
  destruct (Z.ltb x 0); [reflexivity|]. apply IH. lia.
Qed.

Lemma espread_length edges m : forall fuel idx, length (espread edges fuel m idx) = length idx.
Proof.
  assert (P : forall es st, length (fst (fold_left (estep m) es st)) = length (fst st)).
  { induction es as [|e es IH]; intros [idx ch]; cbn [fold_left]; [reflexivity|].
    rewrite IH. unfold estep. destruct (Z.ltb _ 0); cbn [fst]; [rewrite !set_idx_length|]; reflexivity. }
  induction fuel as [|f IH]; intros idx; cbn [espread]; [reflexivity|].
  pose proof (P edges (idx, false)) as L. destruct (fold_left (estep m) edges (idx, false)) as [idx' ch]. cbn [fst] in L.
  destruct ch; [rewrite IH|]; exact L.
Qed.

Lemma mol_outer_eouter items (atoms : list (satom (T:=T))) : forall fuel m idx, length idx = length atoms ->
  mol_outer fuel items atoms m idx = eouter (cov_edges items) (length atoms) fuel m idx.
Proof.
  induction fuel as [|f IH]; intros m idx L; cbn [mol_outer eouter]; [reflexivity|].
  rewrite mol_spread_espread. rewrite first_free_ffree by (rewrite espread_length; lia).
  destruct (ffree (espread (cov_edges items) (S (length atoms)) m idx) 0) as [[|k]|]; try reflexivity.
  apply IH. rewrite set_idx_length, espread_length. exact L.
Qed.

Theorem molindex_components items (atoms : list (satom (T:=T))) :
  atoms <> [] ->
  (forall i j, In (i, j) (cov_edges items) -> (i < length atoms)%nat /\ (j < length atoms)%nat) ->
  let idx := molindex items atoms in
  length idx = length atoms /\
  (forall i, (i < length atoms)%nat -> 1 <= get_idx idx i) /\
  (forall i j, (i < length atoms)%nat -> (j < length atoms)%nat ->
     (get_idx idx i = get_idx idx j <-> conn (cov_edges items) i j)).
Proof.
  intros NE V. unfold molindex. destruct atoms as [|a ra] eqn:EA; [contradiction|]. rewrite <- EA in *.
  assert (M : map (fun _ : satom => -1) atoms = repeat (-1) (length atoms)).
  { clear. induction atoms as [|x r IH]; cbn [map repeat length]; [reflexivity | rewrite IH; reflexivity]. }
  rewrite M. rewrite mol_outer_eouter by (rewrite set_idx_length, repeat_length; reflexivity).
  apply (eouter_components (cov_edges items) (length atoms) V). rewrite EA. cbn [length]. lia.
Qed.
End Model.

(* non-vacuity: five atoms, bonded pairs 0-2, 3-1 (listed in both directions as calc_sdm does) and atom 4 alone *)
Example molindex_example :
  let it := fun a b c => {| it_a1 := a; it_a2 := b; it_dist := tt; it_n := 0%nat; it_cov := c |} in
  let at_ := {| sa_x := tt; sa_y := tt; sa_z := tt; sa_h := false; sa_part := 0; sa_radius := tt; sa_qpeak := false; sa_an := 6 |} in
  molindex [it 0 2 true; it 2 0 true; it 0 1 false; it 3 1 true; it 1 3 true]%nat [at_; at_; at_; at_; at_] = [1; 2; 1; 2; 3].
Proof. vm_compute. reflexivity. Qed.
