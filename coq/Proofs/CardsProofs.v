(* C02 — every instruction of the documented syntax, in every admissible parameter form, is accepted by the
   model of the instruction constructors (Model/Cards.v), hence parsing goes on to the next line. *)
From SX Require Import Base.Str Model.Symm Model.Cards Spec.Syntax.
From Coq Require Import QArith.

(* what a valid parameter list looks like: numeric literals first, then names *)
Definition num_ok (t : str) : bool := numlike_cmd t && match py_float t with Some _ => true | None => false end.
Definition word_ok (t : str) : bool := negb (numlike_cmd t) && match py_float t with Some _ => false | None => true end.
Definition num_val (t : str) : Q := match py_float t with Some q => q | None => 0 end.

(* value conditions the syntax imposes: DFIX d <> 0; DANG d > s > 0 (s defaults to 0.04); NCSY DN <> 0 *)
Definition values_ok (kw : string) (ns : list Q) : bool :=
  match kw with
  | "DFIX" => qnz (nth_q ns 0)
  | "DANG" => negb (Qle_bool (nth_q ns 0) (if (2 <=? length ns)%nat then nth_q ns 1 else 4 # 100)) && qnz (nth_q ns 0)
  | "NCSY" => qnz (nth_q ns 0)
  | _ => true
  end%string.

Definition valid_instr (e : syn) (nums words : list str) : Prop :=
  forallb num_ok nums = true /\ forallb word_ok words = true /\
  In (length nums) (sy_arities e) /\ (sy_minwords e <= length words)%nat /\ (sy_words e = false -> words = []) /\
  values_ok (sy_kw e) (map num_val nums) = true.

Lemma cmd_params_words ws : forallb word_ok ws = true -> cmd_params ws = Some ([], ws).
Proof.
  induction ws as [|w r IH]; intros H; [reflexivity|].
  cbn [forallb] in H. apply andb_true_iff in H. destruct H as [W R]. cbn [cmd_params]. rewrite (IH R).
  unfold word_ok in W. apply andb_true_iff in W. destruct W as [N _]. apply negb_true_iff in N. rewrite N. reflexivity.
Qed.

Lemma cmd_params_valid ns ws : forallb num_ok ns = true -> forallb word_ok ws = true ->
  cmd_params (ns ++ ws) = Some (map num_val ns, ws).
Proof.
  intros Hn Hw. induction ns as [|t r IH]; [exact (cmd_params_words ws Hw)|].
  cbn [forallb] in Hn. apply andb_true_iff in Hn. destruct Hn as [T R]. cbn [app cmd_params map]. rewrite (IH R).
  unfold num_ok in T. apply andb_true_iff in T. destruct T as [N F]. rewrite N. unfold num_val.
  destruct (py_float t); [reflexivity | discriminate].
Qed.

Lemma rst_params_valid ns ws : forallb num_ok ns = true -> forallb word_ok ws = true ->
  rst_params (ns ++ ws) = (map num_val ns, ws).
Proof.
  intros Hn Hw. induction ns as [|t r IH].
  - cbn [app map]. induction ws as [|w r IH]; [reflexivity|].
    cbn [forallb] in Hw. apply andb_true_iff in Hw. destruct Hw as [W R]. cbn [rst_params]. rewrite (IH R).
    unfold word_ok in W. apply andb_true_iff in W. destruct W as [_ F]. destruct (py_float w); [discriminate | reflexivity].
  - cbn [forallb] in Hn. apply andb_true_iff in Hn. destruct Hn as [T R]. cbn [app rst_params map]. rewrite (IH R).
    unfold num_ok in T. apply andb_true_iff in T. destruct T as [_ F]. unfold num_val. destruct (py_float t); [reflexivity | discriminate].
Qed.

(* per keyword: admissible arity and word count imply acceptance *)
Lemma accepts_table (e : syn) (ns : list Q) (ws : list str) :
  In e syntax_table -> In (length ns) (sy_arities e) -> (sy_minwords e <= length ws)%nat -> (sy_words e = false -> ws = []) ->
  values_ok (sy_kw e) ns = true -> accepts (sy_kw e) ns ws = true.
Proof.
  intros He Ha Hw Hnw Hv. unfold syntax_table in He.
  repeat (destruct He as [<- | He]; [
    cbn [sy_kw sy_arities sy_minwords sy_words] in *; unfold values_ok in Hv; cbn [String.eqb] in Hv; unfold accepts;
    try reflexivity;
    try (rewrite (Hnw eq_refl) in *; clear Hnw);
    cbn [length] in *;
    repeat (destruct Ha as [Ha' | Ha]; [rewrite <- Ha' in *; cbn; try reflexivity; try (apply andb_true_iff in Hv; destruct Hv as [Hv1 Hv2]); rewrite ?Hv, ?Hv1, ?Hv2; try reflexivity; try (apply Nat.leb_le; lia) | ]);
    try contradiction
  | ]).
  all: try contradiction.
  all: try (cbn in Hv); try (cbn in Hv1); try (cbn in Hv2); try reflexivity.
  all: try (apply andb_true_iff in Hv; destruct Hv as [Hv1 Hv2]).
  all: try (apply negb_true_iff in Hv1; rewrite Hv1, ?andb_false_r; reflexivity).
  all: try exact Hv; try exact Hv1; try exact Hv2.
  all: try (apply Nat.leb_le; exact Hw).
  all: try (destruct (length ws); [lia | reflexivity]).
Qed.

(* C02: every documented instruction in every admissible parameter form is accepted *)
Theorem handle_valid (e : syn) (nums words : list str) :
  In e syntax_table -> valid_instr e nums words -> handle (sy_kw e) (nums ++ words) = true.
Proof.
  intros He (Hn & Hw & Ha & Hm & Hnw & Hv). unfold handle.
  assert (A : accepts (sy_kw e) (map num_val nums) words = true).
  { apply accepts_table; try assumption. rewrite map_length. exact Ha. }
  destruct (is_restraint_kw (sy_kw e)).
  - rewrite rst_params_valid by assumption. exact A.
  - rewrite cmd_params_valid by assumption. exact A.
Qed.

(* the card loop: stops at the first instruction that is not accepted; returns how many lines were processed *)
Fixpoint parse_lines (ls : list (string * list str)) : nat :=
  match ls with
  | [] => 0
  | (kw, ps) :: r => if handle kw ps then S (parse_lines r) else 0
  end.

Definition valid_line (l : string * list str) : Prop :=
  exists e nums words, In e syntax_table /\ fst l = sy_kw e /\ snd l = nums ++ words /\ valid_instr e nums words.

Theorem parse_reaches_end (ls : list (string * list str)) : Forall valid_line ls -> parse_lines ls = length ls.
Proof.
  induction 1 as [|[kw ps] r (e & nums & words & He & Hk & Hp & Hv) _ IH]; [reflexivity|].
  cbn [fst snd] in Hk, Hp. subst kw ps. cbn [parse_lines length]. rewrite (handle_valid e nums words He Hv), IH. reflexivity.
Qed.

(* the three diagnostic modes (Shelxfile.parse_cards: one try/except around the card loop): an exception ends the parsing silently in quiet
   mode, is reported in verbose mode and propagates in debug mode.  The outcome records how many lines were processed or where it raised. *)
Inductive mode := Quiet | Verbose | Debug.
Inductive outcome := Done (processed : nat) | Raises (line : nat).
Fixpoint parse_mode (m : mode) (ls : list (string * list str)) (k : nat) : outcome :=
  match ls with
  | [] => Done k
  | (kw, ps) :: r => if handle kw ps then parse_mode m r (S k) else match m with Debug => Raises k | _ => Done k end
  end.

(* valid input: every mode processes every line, none raises, so the three runs see the same instructions *)
Theorem parse_modes_agree (ls : list (string * list str)) : Forall valid_line ls -> forall m k, parse_mode m ls k = Done (k + length ls).
Proof.
  induction 1 as [|[kw ps] r (e & nums & words & He & Hk & Hp & Hv) _ IH]; intros m k; cbn [parse_mode length]; [f_equal; lia|].
  cbn [fst snd] in Hk, Hp. subst kw ps. rewrite (handle_valid e nums words He Hv), IH. f_equal. lia.
Qed.

(* whatever the text: outside debug mode the card loop does not raise (the model of the try/except; that an instruction the model
   rejects raises in debug mode and ends the parse silently in quiet mode is what the grid correspondence observes) *)
Theorem quiet_never_raises (ls : list (string * list str)) m : m <> Debug -> forall k, exists n, parse_mode m ls k = Done n.
Proof.
  intros Hm. induction ls as [|[kw ps] r IH]; intros k; cbn [parse_mode]; [eexists; reflexivity|].
  destruct (handle kw ps); [apply IH|]. destruct m; [eexists; reflexivity | eexists; reflexivity | contradiction].
Qed.

(* names: a token starting with a letter or '$' is a word for both parsers *)
Definition name_start (c : ascii) : bool := is_upper c || is_lower c || Ascii.eqb c "$"%char.
Lemma name_is_word c r : name_start c = true -> word_ok (c :: r) = true.
Proof.
  intros H. unfold word_ok.
  assert (N : numlike_cmd (c :: r) = false /\ is_digit c = false /\ Ascii.eqb c cMinus = false /\ Ascii.eqb c cPlus = false /\ Ascii.eqb c cDot = false).
  { revert H. clear. destruct c as [[] [] [] [] [] [] [] []]; vm_compute; intros; try discriminate; auto. }
  destruct N as (N & D & M & P & Dt). rewrite N. cbn [negb andb].
  unfold py_float, split_sign. rewrite M, P.
  cbn [partition]. rewrite Dt.
  destruct (partition cDot r) as [[b f] a]. cbn [all_digits forallb]. rewrite D. reflexivity.
Qed.

(* non-vacuity: a concrete valid instruction of the table *)
Example sadi_valid : exists e, In e syntax_table /\ sy_kw e = "SADI"%string /\
  valid_instr e [lit "0.02"] [lit "C1"; lit "C2"].
Proof.
  exists {| sy_kw := "SADI"; sy_arities := [0; 1]%nat; sy_minwords := 0; sy_words := true |}.
  split; [|split; [reflexivity|]].
  - unfold syntax_table. repeat (try (left; reflexivity); right).
  - vm_compute. repeat split; auto; try lia; try (intros H; discriminate H).
Qed.
