(* C19 — a refinement run never loses the user's model, whatever SHELXL does. *)
From SX Require Import Base.Prelude Base.Str Model.Refine.

Section Proofs.
  Variable shelxl : fs -> Z * fs.
  Variable parse : str -> list str.
  Variable render : list str -> str.
  Variable is_acta is_unit : str -> bool.
  Variable set_cycles : nat -> list str -> list str.
  (* SHELXL does not touch the backup copy *)
  Hypothesis shelxl_keeps_backup : forall f, snd (shelxl f) FBak = f FBak.

  Notation refine := (refine shelxl parse render is_acta is_unit set_cycles).

  Lemma upd_same f n v : upd_fs f n v n = v.
  Proof. unfold upd_fs. destruct n; cbn; rewrite ?Nat.eqb_refl; reflexivity. Qed.
  Lemma upd_other f n m v : fname_eqb m n = false -> upd_fs f n v m = f m.
  Proof. intros H. unfold upd_fs. rewrite H. reflexivity. Qed.

  (* whatever SHELXL does - any exit status, result file missing, empty or too short: the .res is byte-identical afterwards *)
  Theorem failure_restores cycles lines f o f' ins : refine cycles lines f = (o, f', ins) -> o = Failed -> f' FRes = f FRes.
  Proof.
    unfold Refine.refine. intros H Ho.
    set (lines1 := match cycles with Some n => set_cycles n lines | None => lines end) in *.
    set (ins0 := render (without_acta is_acta lines1)) in *.
    set (f1 := upd_fs f FIns (Some ins0)) in *.
    set (f2 := upd_fs (upd_fs f1 FBak (f1 FRes)) FSave (f1 FRes)) in *.
    pose proof (shelxl_keeps_backup f2) as K. destruct (shelxl f2) as [code f3] eqn:E. cbn [snd] in K.
    destruct (result_ok code f3).
    - injection H as <- _ _. discriminate.
    - injection H as _ <- _. rewrite upd_other by reflexivity. rewrite upd_same. rewrite K.
      unfold f2. rewrite upd_other by reflexivity. rewrite upd_same. unfold f1. rewrite upd_other by reflexivity. reflexivity.
  Qed.

  (* the run is classified as failed exactly when the exit status is non-zero or the result is missing / shorter than 10 bytes *)
  Theorem failed_iff code f : result_ok code f = false <-> (code <> 0%Z \/ f FRes = None \/ exists s, f FRes = Some s /\ (length s < 10)%nat).
  Proof.
    unfold result_ok. split.
    - intros H. apply andb_false_iff in H. destruct H as [H|H].
      + left. apply Z.eqb_neq. exact H.
      + right. destruct (f FRes) as [s|]; [right; exists s; split; [reflexivity | apply Nat.leb_gt; exact H] | left; reflexivity].
    - intros [H|[H|(s & H & L)]].
      + apply Z.eqb_neq in H. rewrite H. reflexivity.
      + rewrite H. apply andb_false_r.
      + rewrite H. apply Nat.leb_gt in L. rewrite L. apply andb_false_r.
  Qed.

  (* the .ins handed to SHELXL is the current model with the requested cycles and without ACTA *)
  Theorem ins_is_model cycles lines f o f' ins : refine cycles lines f = (o, f', ins) ->
    ins = render (without_acta is_acta (match cycles with Some n => set_cycles n lines | None => lines end))
    /\ forall x, In x (without_acta is_acta (match cycles with Some n => set_cycles n lines | None => lines end)) -> is_acta x = false.
  Proof.
    unfold Refine.refine. intros H. split.
    - destruct (shelxl _) as [code f3]. destruct (result_ok code f3); injection H as _ _ <-; reflexivity.
    - intros x I. unfold without_acta in I. apply filter_In in I. destruct I as [_ I]. destruct (is_acta x); [discriminate | reflexivity].
  Qed.

  (* on success the model is the parsed result with ACTA right behind UNIT *)
  Lemma insert_after_unit_spec a pre u post : Forall (fun x => is_unit x = false) pre -> is_unit u = true ->
    insert_after_unit is_unit a (pre ++ u :: post) = pre ++ u :: a :: post.
  Proof.
    intros H U. induction H as [|x pre Hx _ IH]; cbn [app insert_after_unit]; [rewrite U; reflexivity|]. rewrite Hx, IH. reflexivity.
  Qed.

  Theorem success_reloads cycles lines f m f' ins a s pre u post : refine cycles lines f = (Refined m, f', ins) ->
    find_acta is_acta (match cycles with Some n => set_cycles n lines | None => lines end) = Some a ->
    f' FRes = Some s -> parse s = pre ++ u :: post -> Forall (fun x => is_unit x = false) pre -> is_unit u = true ->
    m = pre ++ u :: a :: post.
  Proof.
    unfold Refine.refine. intros H A S P Hp Hu. destruct (shelxl _) as [code f3]. destruct (result_ok code f3); [|discriminate].
    injection H as <- <- _. rewrite A, S, P. apply insert_after_unit_spec; assumption.
  Qed.

  (* ---- backup on / off, and the model in memory ---- *)
  Notation refine_b := (refine_b shelxl parse render is_acta is_unit set_cycles).

  (* with the backup switched on, refine_b is the protocol above *)
  Theorem refine_b_backup cycles lines f :
    let '(o, f', ins, _) := refine_b true cycles lines f in refine cycles lines f = (o, f', ins).
  Proof.
    unfold Refine.refine_b, Refine.refine. destruct (shelxl _) as [code f3]. destruct (result_ok code f3); reflexivity.
  Qed.

  (* without backup a failed run leaves the files exactly as SHELXL left them: nothing is restored, in particular not the backup file
     of an earlier run (whatever f FBak holds) *)
  Theorem nobackup_failure_restores_nothing cycles lines f o f' ins mem : refine_b false cycles lines f = (o, f', ins, mem) -> o = Failed ->
    f' = snd (shelxl (upd_fs f FIns (Some ins))).
  Proof.
    unfold Refine.refine_b. intros H Ho.
    set (lines1 := match cycles with Some n => set_cycles n lines | None => lines end) in *.
    set (ins0 := render (without_acta is_acta lines1)) in *.
    destruct (shelxl (upd_fs f FIns (Some ins0))) as [code f3] eqn:E.
    destruct (result_ok code f3).
    - injection H as <- _ _ _. discriminate.
    - injection H as _ <- <- _. rewrite E. reflexivity.
  Qed.

  (* the model in memory after a failed run still holds every instruction, ACTA included (behind UNIT) *)
  Lemma find_acta_true l a : find_acta is_acta l = Some a -> is_acta a = true /\ In a l.
  Proof. unfold find_acta. intros H. apply find_some in H. destruct H as [I T]. split; assumption. Qed.

  Lemma insert_after_unit_In a l : existsb is_unit l = true -> In a (insert_after_unit is_unit a l).
  Proof.
    induction l as [|x r IH]; cbn [existsb insert_after_unit]; [discriminate|]. intros H.
    destruct (is_unit x) eqn:U; [right; left; reflexivity|]. cbn [orb] in H. right. apply IH. exact H.
  Qed.

  Lemma insert_after_unit_keeps a l x : In x l -> In x (insert_after_unit is_unit a l).
  Proof.
    induction l as [|y r IH]; cbn [insert_after_unit]; [intros []|]. intros [<- | I].
    - destruct (is_unit y); left; reflexivity.
    - destruct (is_unit y); [right; right; exact I | right; apply IH; exact I].
  Qed.

  Theorem failure_keeps_model cycles lines f o f' ins mem backup : refine_b backup cycles lines f = (o, f', ins, mem) -> o = Failed ->
    let lines1 := match cycles with Some n => set_cycles n lines | None => lines end in
    (forall x, In x lines1 -> is_acta x = false -> In x mem) /\
    (forall a, find_acta is_acta lines1 = Some a -> existsb is_unit (without_acta is_acta lines1) = true -> In a mem).
  Proof.
    unfold Refine.refine_b. intros H Ho. cbv zeta.
    set (lines1 := match cycles with Some n => set_cycles n lines | None => lines end) in *.
    destruct (shelxl _) as [code f3]. destruct (result_ok code f3).
    - injection H as <- _ _ _. discriminate.
    - injection H as _ _ _ <-. unfold memory_after_failure. split.
      + intros x I N. destruct (find_acta is_acta lines1) as [a|]; [|exact I].
        apply insert_after_unit_keeps. unfold without_acta. apply filter_In. split; [exact I | rewrite N; reflexivity].
      + intros a A U. rewrite A. apply insert_after_unit_In. exact U.
  Qed.
End Proofs.

(* top-level statements (everything the Section abstracted over is quantified explicitly) *)
Theorem refine_failure_restores (shelxl : fs -> Z * fs) (parse : str -> list str) (render : list str -> str) (is_acta is_unit : str -> bool)
  (set_cycles : nat -> list str -> list str) (cycles : option nat) (lines : list str) (f f' : fs) (o : outcome) (ins : str) :
  (forall g, snd (shelxl g) FBak = g FBak) ->
  refine shelxl parse render is_acta is_unit set_cycles cycles lines f = (o, f', ins) -> o = Failed -> f' FRes = f FRes.
Proof. intros K H Ho. exact (failure_restores shelxl parse render is_acta is_unit set_cycles K cycles lines f o f' ins H Ho). Qed.

Theorem refine_failed_iff (code : Z) (f : fs) :
  result_ok code f = false <-> (code <> 0%Z \/ f FRes = None \/ exists s, f FRes = Some s /\ (length s < 10)%nat).
Proof. apply failed_iff. Qed.

Theorem refine_ins_is_model (shelxl : fs -> Z * fs) (parse : str -> list str) (render : list str -> str) (is_acta is_unit : str -> bool)
  (set_cycles : nat -> list str -> list str) (cycles : option nat) (lines : list str) (f f' : fs) (o : outcome) (ins : str) :
  refine shelxl parse render is_acta is_unit set_cycles cycles lines f = (o, f', ins) ->
  ins = render (without_acta is_acta (match cycles with Some n => set_cycles n lines | None => lines end))
  /\ forall x, In x (without_acta is_acta (match cycles with Some n => set_cycles n lines | None => lines end)) -> is_acta x = false.
Proof. apply ins_is_model. Qed.

Theorem refine_success_reloads (shelxl : fs -> Z * fs) (parse : str -> list str) (render : list str -> str) (is_acta is_unit : str -> bool)
  (set_cycles : nat -> list str -> list str) (cycles : option nat) (lines : list str) (f f' : fs) (m : list str) (ins a s : str) (pre : list str) (u : str) (post : list str) :
  refine shelxl parse render is_acta is_unit set_cycles cycles lines f = (Refined m, f', ins) ->
  find_acta is_acta (match cycles with Some n => set_cycles n lines | None => lines end) = Some a ->
  f' FRes = Some s -> parse s = pre ++ u :: post -> Forall (fun x => is_unit x = false) pre -> is_unit u = true ->
  m = pre ++ u :: a :: post.
Proof. apply success_reloads. Qed.

(* ---- crash safety: at every point of the protocol the user's model is on disk, in the .res file or in the backup file ---- *)
Theorem refine_crash_safe (shelxl : fs -> Z * fs) (during : fs -> list fs) (parse : str -> list str) (render : list str -> str)
  (is_acta is_unit : str -> bool) (set_cycles : nat -> list str -> list str) (cycles : option nat) (lines : list str) (f : fs) (old : str) :
  (forall g, snd (shelxl g) FBak = g FBak) -> (forall g h, In h (during g) -> h FBak = g FBak) ->
  f FRes = Some old ->
  forall g, In g (refine_trace shelxl during render is_acta set_cycles cycles lines f) -> g FRes = Some old \/ g FBak = Some old.
Proof.
  intros K D Old g. unfold refine_trace.
  set (lines1 := match cycles with Some n => set_cycles n lines | None => lines end).
  set (ins0 := render (without_acta is_acta lines1)).
  set (f1 := upd_fs f FIns (Some ins0)).
  set (f2a := upd_fs f1 FBak (f1 FRes)).
  set (f2 := upd_fs f2a FSave (f1 FRes)).
  assert (R1 : f1 FRes = Some old) by (unfold f1, upd_fs; cbn; exact Old).
  assert (B2a : f2a FBak = Some old) by (unfold f2a, upd_fs; cbn; exact R1).
  assert (B2 : f2 FBak = Some old) by (unfold f2, upd_fs; cbn; exact B2a).
  pose proof (K f2) as K2. destruct (shelxl f2) as [code f3] eqn:E. cbn [snd] in K2.
  intros I. apply in_app_or in I. destruct I as [I | I].
  - destruct I as [<- | [<- | [<- | [<- | []]]]].
    + left; exact Old.
    + left; exact R1.
    + right; exact B2a.
    + right; exact B2.
  - apply in_app_or in I. destruct I as [I | I].
    + right. rewrite (D f2 g I). exact B2.
    + apply in_app_or in I. destruct I as [[<- | []] | I].
      * right. rewrite K2. exact B2.
      * destruct (result_ok code f3); [destruct I|].
        destruct I as [<- | [<- | []]].
        -- left. unfold upd_fs. cbn. rewrite K2. exact B2.
        -- left. unfold upd_fs. cbn. rewrite K2. exact B2.
Qed.

(* the trace is a refinement of the protocol: its last state is the file system refine() ends with *)
Theorem refine_trace_ends (shelxl : fs -> Z * fs) (during : fs -> list fs) (parse : str -> list str) (render : list str -> str)
  (is_acta is_unit : str -> bool) (set_cycles : nat -> list str -> list str) (cycles : option nat) (lines : list str) (f : fs) :
  last (refine_trace shelxl during render is_acta set_cycles cycles lines f) f =
  snd (fst (refine shelxl parse render is_acta is_unit set_cycles cycles lines f)).
Proof.
  unfold refine_trace, refine.
  destruct (shelxl _) as [code f3]. rewrite !app_assoc.
  destruct (result_ok code f3).
  - rewrite app_nil_r. rewrite last_last. reflexivity.
  - change [upd_fs f3 FRes (f3 FBak); upd_fs (upd_fs f3 FRes (f3 FBak)) FBak None]
      with ([upd_fs f3 FRes (f3 FBak)] ++ [upd_fs (upd_fs f3 FRes (f3 FBak)) FBak None]).
    rewrite app_assoc. rewrite last_last. reflexivity.
Qed.

(* non-vacuity: SHELXL deletes the result file while it runs and then dies; at every crash point the old bytes are on disk *)
Example crash_example :
  let old := lit "TITL x / UNIT 1 / L.S. 4 / HKLF 4" in
  let f0 : fs := fun n => match n with FRes => Some old | _ => None end in
  let shelxl := fun g : fs => ((-9)%Z, upd_fs g FRes None) in
  let during := fun g : fs => [upd_fs g FRes (Some []); upd_fs g FRes None] in
  forallb (fun g : fs => match g FRes, g FBak with
                         | Some s, _ => if list_eq_dec Ascii.ascii_dec s old then true else match g FBak with Some b => if list_eq_dec Ascii.ascii_dec b old then true else false | None => false end
                         | None, Some b => if list_eq_dec Ascii.ascii_dec b old then true else false
                         | None, None => false end)
          (refine_trace shelxl during (fun l => concat l) (fun _ => false) (fun _ l => l) None [lit "UNIT 1"] f0) = true
  /\ length (refine_trace shelxl during (fun l => concat l) (fun _ => false) (fun _ l => l) None [lit "UNIT 1"] f0) = 9%nat.
Proof. cbv zeta. split; vm_compute; reflexivity. Qed.

(* a concrete run of the model: SHELXL exits with status 1 after truncating the result file *)
Example refine_example :
  let shelxl := fun g : fs => (1%Z, upd_fs g FRes (Some [])) in
  let f0 : fs := fun n => match n with FRes => Some (lit "TITL x / UNIT 1 / ACTA / L.S. 4 / HKLF 4") | _ => None end in
  let is_acta := fun x : str => if list_eq_dec Ascii.ascii_dec x (lit "ACTA") then true else false in
  let r := refine shelxl (fun s => [s]) (fun l => concat l) is_acta (fun _ => false) (fun _ l => l) (Some 5%nat) [lit "UNIT 1"; lit "ACTA"; lit "L.S. 4"] f0 in
  fst (fst r) = Failed /\ snd (fst r) FRes = f0 FRes /\ snd (fst r) FBak = None /\ snd r = lit "UNIT 1L.S. 4".
Proof. cbv zeta. repeat split; vm_compute; reflexivity. Qed.

(* ---- backup on / off and the model in memory: top-level statements ---- *)
Theorem refine_b_backup_is_refine (shelxl : fs -> Z * fs) (parse : str -> list str) (render : list str -> str) (is_acta is_unit : str -> bool)
  (set_cycles : nat -> list str -> list str) (cycles : option nat) (lines : list str) (f : fs) :
  let '(o, f', ins, _) := refine_b shelxl parse render is_acta is_unit set_cycles true cycles lines f in
  refine shelxl parse render is_acta is_unit set_cycles cycles lines f = (o, f', ins).
Proof. apply refine_b_backup. Qed.

Theorem refine_nobackup_failure_restores_nothing (shelxl : fs -> Z * fs) (parse : str -> list str) (render : list str -> str) (is_acta is_unit : str -> bool)
  (set_cycles : nat -> list str -> list str) (cycles : option nat) (lines : list str) (f f' : fs) (o : outcome) (ins : str) (mem : list str) :
  refine_b shelxl parse render is_acta is_unit set_cycles false cycles lines f = (o, f', ins, mem) -> o = Failed ->
  f' = snd (shelxl (upd_fs f FIns (Some ins))).
Proof. apply nobackup_failure_restores_nothing. Qed.

Theorem refine_failure_keeps_model (shelxl : fs -> Z * fs) (parse : str -> list str) (render : list str -> str) (is_acta is_unit : str -> bool)
  (set_cycles : nat -> list str -> list str) (cycles : option nat) (lines : list str) (f f' : fs) (o : outcome) (ins : str) (mem : list str) (backup : bool) :
  refine_b shelxl parse render is_acta is_unit set_cycles backup cycles lines f = (o, f', ins, mem) -> o = Failed ->
  let lines1 := match cycles with Some n => set_cycles n lines | None => lines end in
  (forall x, In x lines1 -> is_acta x = false -> In x mem) /\
  (forall a, find_acta is_acta lines1 = Some a -> existsb is_unit (without_acta is_acta lines1) = true -> In a mem).
Proof. apply failure_keeps_model. Qed.

(* a backup file of an earlier run ("OLDER") lies around; the run without backup fails and leaves an empty .res: nothing is copied over it,
   and the model in memory has its ACTA back behind UNIT *)
Example nobackup_example :
  let shelxl := fun g : fs => (1%Z, upd_fs g FRes (Some [])) in
  let f0 : fs := fun n => match n with FRes => Some (lit "RESULT OF THE FIRST RUN") | FBak => Some (lit "OLDER") | _ => None end in
  let is_acta := fun x : str => if list_eq_dec Ascii.ascii_dec x (lit "ACTA") then true else false in
  let is_unit := fun x : str => if list_eq_dec Ascii.ascii_dec x (lit "UNIT 1") then true else false in
  let r := refine_b shelxl (fun s => [s]) (fun l => concat l) is_acta is_unit (fun _ l => l) false None [lit "TITL"; lit "UNIT 1"; lit "L.S. 4"; lit "ACTA"] f0 in
  fst (fst (fst r)) = Failed /\ snd (fst (fst r)) FRes = Some [] /\ snd (fst (fst r)) FBak = Some (lit "OLDER")
  /\ snd r = [lit "TITL"; lit "UNIT 1"; lit "ACTA"; lit "L.S. 4"].
Proof. cbv zeta. repeat split; vm_compute; reflexivity. Qed.
