(* C04 / C08 — the position bookkeeping of the editing API refines the position-free specification (Spec/EditSpec.v). *)
From SX Require Import Base.Prelude Base.Str Model.Wrap Model.Writer Model.Edit Spec.EditSpec.
Local Open Scope nat_scope.

Ltac eqb_lia := repeat match goal with H : (_ =? _) = true |- _ => apply Nat.eqb_eq in H | H : (_ =? _) = false |- _ => apply Nat.eqb_neq in H end; lia.

(* ---------- membership after shifting ---------- *)
Lemma mem_shift_up_lt k d i : i < k -> mem i (map (shift_up k) d) = mem i d.
Proof.
  intros H. unfold mem. induction d as [|x d IH]; [reflexivity|]. cbn [map existsb]. rewrite IH. f_equal.
  unfold shift_up. destruct (k <=? x) eqn:E.
  - apply Nat.leb_le in E. destruct (i =? S x) eqn:A; destruct (i =? x) eqn:B; try reflexivity; eqb_lia.
  - reflexivity.
Qed.
Lemma mem_shift_up_eq k d : mem k (map (shift_up k) d) = false.
Proof.
  unfold mem. induction d as [|x d IH]; [reflexivity|]. cbn [map existsb]. rewrite IH, orb_false_r.
  unfold shift_up. destruct (k <=? x) eqn:E; apply Nat.eqb_neq; [apply Nat.leb_le in E | apply Nat.leb_gt in E]; lia.
Qed.
Lemma mem_shift_up_gt k d j : k <= j -> mem (S j) (map (shift_up k) d) = mem j d.
Proof.
  intros H. unfold mem. induction d as [|x d IH]; [reflexivity|]. cbn [map existsb]. rewrite IH. f_equal.
  unfold shift_up. destruct (k <=? x) eqn:E.
  - reflexivity.
  - apply Nat.leb_gt in E. destruct (S j =? x) eqn:A; destruct (j =? x) eqn:B; try reflexivity; eqb_lia.
Qed.

Definition del_list (k : nat) (d : list nat) : list nat := map (shift_down k) (filter (fun i => negb (i =? k)) d).
Lemma mem_del_lt k d i : i < k -> mem i (del_list k d) = mem i d.
Proof.
  intros H. unfold mem, del_list. induction d as [|x d IH]; [reflexivity|]. cbn [filter]. destruct (x =? k) eqn:X.
  - cbn [negb existsb]. rewrite IH. apply Nat.eqb_eq in X. subst. replace (i =? k) with false; [reflexivity|]. symmetry. apply Nat.eqb_neq. lia.
  - cbn [negb map existsb]. rewrite IH. f_equal. apply Nat.eqb_neq in X. unfold shift_down. destruct (k <? x) eqn:E.
    + apply Nat.ltb_lt in E. destruct (i =? pred x) eqn:A; destruct (i =? x) eqn:B; try reflexivity; eqb_lia.
    + reflexivity.
Qed.
Lemma mem_del_ge k d j : k <= j -> mem j (del_list k d) = mem (S j) d.
Proof.
  intros H. unfold mem, del_list. induction d as [|x d IH]; [reflexivity|]. cbn [filter]. destruct (x =? k) eqn:X.
  - cbn [negb existsb]. rewrite IH. apply Nat.eqb_eq in X. subst. replace (S j =? k) with false; [reflexivity|]. symmetry. apply Nat.eqb_neq. lia.
  - cbn [negb map existsb]. rewrite IH. f_equal. apply Nat.eqb_neq in X. unfold shift_down. destruct (k <? x) eqn:E.
    + apply Nat.ltb_lt in E. destruct (j =? pred x) eqn:A; destruct (S j =? x) eqn:B; try reflexivity; eqb_lia.
    + apply Nat.ltb_ge in E. destruct (j =? x) eqn:A; destruct (S j =? x) eqn:B; try reflexivity; eqb_lia.
Qed.

(* ---------- tagged view ---------- *)
Lemma tag_shift_up_tail K d items : forall j, K <= j -> tag_from (S j) (map (shift_up K) d) items = tag_from j d items.
Proof.
  induction items as [|x r IH]; intros j H; [reflexivity|]. cbn [tag_from]. rewrite mem_shift_up_gt by exact H. rewrite IH by lia. reflexivity.
Qed.
Lemma tag_del_tail K d items : forall j, K <= j -> tag_from j (del_list K d) items = tag_from (S j) d items.
Proof.
  induction items as [|x r IH]; intros j H; [reflexivity|]. cbn [tag_from]. rewrite mem_del_ge by exact H. rewrite IH by lia. reflexivity.
Qed.

Lemma insert_at_0 {A} (x : A) l : insert_at 0 x l = x :: l.
Proof. reflexivity. Qed.
Lemma insert_at_S {A} k (x y : A) l : insert_at (S k) x (y :: l) = y :: insert_at k x l.
Proof. reflexivity. Qed.
Lemma remove_at_0 {A} (y : A) l : remove_at 0 (y :: l) = l.
Proof. reflexivity. Qed.
Lemma remove_at_S {A} k (y : A) l : remove_at (S k) (y :: l) = y :: remove_at k l.
Proof. reflexivity. Qed.
Lemma replace_at_0 {A} (x y : A) l : replace_at 0 x (y :: l) = x :: l.
Proof. reflexivity. Qed.
Lemma replace_at_S {A} k (x y : A) l : replace_at (S k) x (y :: l) = y :: replace_at k x l.
Proof. reflexivity. Qed.

Lemma tag_ins k : forall i d items it, k <= length items ->
  tag_from i (map (shift_up (i + k)) d) (insert_at k it items) = insert_at k (it, false) (tag_from i d items).
Proof.
  induction k as [|k IH]; intros i d items it H.
  - rewrite Nat.add_0_r, !insert_at_0. cbn [tag_from]. rewrite mem_shift_up_eq. rewrite tag_shift_up_tail by lia. reflexivity.
  - destruct items as [|x r]; [cbn in H; lia|]. rewrite insert_at_S. cbn [tag_from]. rewrite insert_at_S.
    rewrite mem_shift_up_lt by lia. replace (i + S k) with (S i + k) by lia. rewrite IH by (cbn in H; lia). reflexivity.
Qed.

Lemma tag_del k : forall i d items, k < length items ->
  tag_from i (del_list (i + k) d) (remove_at k items) = remove_at k (tag_from i d items).
Proof.
  induction k as [|k IH]; intros i d items H.
  - destruct items as [|x r]; [cbn in H; lia|]. rewrite Nat.add_0_r, remove_at_0. cbn [tag_from]. rewrite remove_at_0.
    apply tag_del_tail. lia.
  - destruct items as [|x r]; [cbn in H; lia|]. rewrite remove_at_S. cbn [tag_from]. rewrite remove_at_S.
    rewrite mem_del_lt by lia. replace (i + S k) with (S i + k) by lia. rewrite IH by (cbn in H; lia). reflexivity.
Qed.

Lemma tag_upd k : forall i d items it, k < length items ->
  tag_from i d (replace_at k it items) = replace_at k (it, mem (i + k) d) (tag_from i d items).
Proof.
  induction k as [|k IH]; intros i d items it H; (destruct items as [|x r]; [cbn in H; lia|]).
  - rewrite Nat.add_0_r, replace_at_0. cbn [tag_from]. rewrite replace_at_0. reflexivity.
  - rewrite replace_at_S. cbn [tag_from]. rewrite replace_at_S. replace (i + S k) with (S i + k) by lia. rewrite IH by (cbn in H; lia). reflexivity.
Qed.

Lemma tag_length items : forall i d, length (tag_from i d items) = length items.
Proof. induction items as [|x r IH]; intros i d; [reflexivity|]. cbn. rewrite IH. reflexivity. Qed.

Lemma tag_nth k : forall i d items, k < length items -> exists it, nth_error (tag_from i d items) k = Some (it, mem (i + k) d).
Proof.
  induction k as [|k IH]; intros i d items H; (destruct items as [|x r]; [cbn in H; lia|]).
  - exists x. rewrite Nat.add_0_r. reflexivity.
  - cbn [tag_from nth_error]. replace (i + S k) with (S i + k) by lia. apply IH. cbn in H. lia.
Qed.

(* ---------- one step ---------- *)
Theorem abs_step s o : op_valid (length (e_items s)) o = true -> abs (apply s o) = spec_apply (abs s) o.
Proof.
  intros V. destruct o as [k it | k | k it]; cbn [op_valid] in V; unfold abs; cbn [apply ins del upd e_items e_del spec_apply].
  - apply Nat.leb_le in V. exact (tag_ins k 0 (e_del s) (e_items s) it V).
  - apply Nat.ltb_lt in V. exact (tag_del k 0 (e_del s) (e_items s) V).
  - apply Nat.ltb_lt in V. destruct (tag_nth k 0 (e_del s) (e_items s) V) as [x E]. rewrite E. cbn [Nat.add] in *.
    exact (tag_upd k 0 (e_del s) (e_items s) it V).
Qed.

Theorem written_abs s : written s = write_tagged (abs s).
Proof.
  unfold written, write_file, abs, write_tagged. generalize 0 as i. generalize (e_del s) as d.
  induction (e_items s) as [|x r IH]; intros d i; [reflexivity|]. cbn [write_from tag_from flat_map fst snd]. rewrite IH. reflexivity.
Qed.

Lemma apply_length s o : op_valid (length (e_items s)) o = true ->
  length (e_items (apply s o)) = match o with OIns _ _ => S (length (e_items s)) | ODel _ => pred (length (e_items s)) | OUpd _ _ => length (e_items s) end.
Proof.
  intros V. destruct o as [k it | k | k it]; cbn [op_valid apply ins del upd e_items] in *.
  - apply Nat.leb_le in V. unfold insert_at. rewrite app_length, firstn_length. cbn [length]. rewrite skipn_length. lia.
  - apply Nat.ltb_lt in V. unfold remove_at. rewrite app_length, firstn_length, skipn_length. lia.
  - apply Nat.ltb_lt in V. unfold replace_at. rewrite app_length, firstn_length. cbn [length]. rewrite skipn_length. lia.
Qed.

(* ---------- any history ---------- *)
Theorem edits_refine ops : forall s, valid_ops (length (e_items s)) ops = true ->
  written (fold_left apply ops s) = write_tagged (fold_left spec_apply ops (abs s)).
Proof.
  induction ops as [|o r IH]; intros s V; [apply written_abs|]. cbn [valid_ops] in V. apply andb_prop in V. destruct V as [V1 V2].
  cbn [fold_left]. rewrite <- (abs_step s o V1). apply IH. rewrite (apply_length s o V1). exact V2.
Qed.

(* ---------- an edit changes what it says and nothing else ---------- *)
Lemma write_tagged_app a b : write_tagged (a ++ b) = write_tagged a ++ write_tagged b.
Proof. unfold write_tagged. apply flat_map_app. Qed.

Theorem insert_local k it l : write_tagged (insert_at k (it, false) l) = write_tagged (firstn k l) ++ item_lines it ++ write_tagged (skipn k l).
Proof. unfold insert_at. rewrite write_tagged_app. reflexivity. Qed.
Theorem remove_local k l : write_tagged (remove_at k l) = write_tagged (firstn k l) ++ write_tagged (skipn (S k) l).
Proof. unfold remove_at. apply write_tagged_app. Qed.
Theorem replace_local k it f l : write_tagged (replace_at k (it, f) l) =
  write_tagged (firstn k l) ++ (if f then [] else item_lines it) ++ write_tagged (skipn (S k) l).
Proof. unfold replace_at. rewrite write_tagged_app. reflexivity. Qed.
Theorem unchanged_whole l : write_tagged l = write_tagged (firstn 0 l) ++ write_tagged (skipn 0 l).
Proof. reflexivity. Qed.

(* ---------- C08: positions by identity ---------- *)
Theorem index_of_id_correct x ids : In x ids -> exists k, index_of_id x ids = Some k /\ nth_error ids k = Some x.
Proof.
  induction ids as [|y r IH]; intros H; [destruct H|]. cbn [index_of_id]. destruct (x =? y) eqn:E.
  - apply Nat.eqb_eq in E. subst. exists 0. split; reflexivity.
  - destruct H as [H|H]; [subst; rewrite Nat.eqb_refl in E; discriminate|]. destruct (IH H) as (k & A & B).
    exists (S k). rewrite A. split; [reflexivity | exact B].
Qed.
Theorem index_of_id_unique x ids k : NoDup ids -> nth_error ids k = Some x -> index_of_id x ids = Some k.
Proof.
  intros N. revert k. induction N as [|y r Hy N IH]; intros k H; [destruct k; discriminate|]. cbn [index_of_id]. destruct k as [|k].
  - cbn in H. injection H as ->. rewrite Nat.eqb_refl. reflexivity.
  - cbn in H. destruct (x =? y) eqn:E.
    + apply Nat.eqb_eq in E. subst. exfalso. apply Hy. eapply nth_error_In. exact H.
    + rewrite (IH k H). reflexivity.
Qed.
Theorem index_of_id_absent x ids : ~ In x ids -> index_of_id x ids = None.
Proof.
  induction ids as [|y r IH]; intros H; [reflexivity|]. cbn [index_of_id]. destruct (x =? y) eqn:E.
  - apply Nat.eqb_eq in E. subst. exfalso. apply H. left. reflexivity.
  - rewrite IH; [reflexivity|]. intro A. apply H. right. exact A.
Qed.
Lemma in_firstn {A} (x : A) k l : In x (firstn k l) -> In x l.
Proof. intros H. rewrite <- (firstn_skipn k l). apply in_or_app. left. exact H. Qed.
Lemma in_skipn {A} (x : A) k l : In x (skipn k l) -> In x l.
Proof. intros H. rewrite <- (firstn_skipn k l). apply in_or_app. right. exact H. Qed.
(* deleting the object at a position removes that identity and no other *)
Theorem remove_at_ids k (ids : list nat) x : NoDup ids -> nth_error ids k = Some x ->
  ~ In x (remove_at k ids) /\ (forall y, y <> x -> In y ids -> In y (remove_at k ids)) /\ NoDup (remove_at k ids).
Proof.
  intros N. revert k. induction N as [|y r Hy N IH]; intros k H; [destruct k; discriminate|]. destruct k as [|k].
  - cbn in H. injection H as ->. rewrite remove_at_0. repeat split; [exact Hy | | exact N]. intros z Hz [A|A]; [congruence | exact A].
  - cbn in H. rewrite remove_at_S. destruct (IH k H) as (A & B & C). repeat split.
    + intros [E|E]; [subst; apply Hy; eapply nth_error_In; exact H | exact (A E)].
    + intros z Hz [E|E]; [left; exact E | right; apply B; assumption].
    + constructor; [|exact C]. intro I. apply Hy. unfold remove_at in I. apply in_app_or in I. destruct I as [I|I].
      * eapply in_firstn; exact I.
      * eapply in_skipn; exact I.
Qed.

Example edit_example :
  let s := {| e_items := [IObj [lit "FVAR 1 2"]; IRaw (lit "FVAR 3"); IObj [lit "C1 1 0 0 0"]; IObj [lit "HKLF 4"]]; e_del := [1] |} in
  written s = [lit "FVAR 1 2"; lit "C1 1 0 0 0"; lit "HKLF 4"]
  /\ written (apply s (OIns 0 (IRaw (lit "ANIS")))) = [lit "ANIS"; lit "FVAR 1 2"; lit "C1 1 0 0 0"; lit "HKLF 4"]
  /\ written (apply (apply s (OIns 0 (IRaw (lit "ANIS")))) (ODel 3)) = [lit "ANIS"; lit "FVAR 1 2"; lit "HKLF 4"].
Proof. cbv zeta. repeat split; vm_compute; reflexivity. Qed.
