(* C01 — the fixed-precision numerals of a written atom denote the stored values to SHELXL's precision. *)
From SX Require Import Base.Prelude Model.Fmt.
From Coq Require Import Lqa Lia.
Open Scope Q_scope.

Lemma pow10Z_pos k : (0 < pow10Z k)%Z.
Proof. unfold pow10Z. apply Z.pow_pos_nonneg; lia. Qed.

Lemma scaled_near k q : Qabs (inject_Z (scaled k q) - q * inject_Z (pow10Z k)) <= 1 # 2.
Proof.
  unfold scaled. set (x := q * inject_Z (pow10Z k)). set (f := Qfloor x).
  assert (L : inject_Z f <= x) by apply Qfloor_le.
  assert (U : x < inject_Z (f + 1)) by apply Qlt_floor.
  rewrite inject_Z_plus in U. change (inject_Z 1) with 1 in U.
  destruct (Qcompare (x - inject_Z f) (1 # 2)) eqn:C.
  - apply Qeq_alt in C. destruct (Z.even f); [|rewrite inject_Z_plus; change (inject_Z 1) with 1];
      apply Qabs_Qle_condition; split; lra.
  - apply Qlt_alt in C. apply Qabs_Qle_condition; split; lra.
  - apply Qgt_alt in C. rewrite inject_Z_plus. change (inject_Z 1) with 1. apply Qabs_Qle_condition; split; lra.
Qed.

Theorem denote_scaled_close k q : Qabs (denote k (scaled k q) - q) <= (1 # 2) / inject_Z (pow10Z k).
Proof.
  pose proof (pow10Z_pos k) as P. assert (PQ : 0 < inject_Z (pow10Z k)) by (rewrite <- (Zlt_Qlt 0); exact P).
  pose proof (scaled_near k q) as N. unfold denote.
  set (p := inject_Z (pow10Z k)) in *. set (n := inject_Z (scaled k q)) in *.
  assert (E : n / p - q == (n - q * p) / p) by (field; lra).
  rewrite E. unfold Qdiv. rewrite Qabs_Qmult. rewrite (Qabs_pos (/ p)).
  - apply Qmult_le_compat_r; [exact N|]. apply Qlt_le_weak. apply Qinv_lt_0_compat. exact PQ.
  - apply Qlt_le_weak. apply Qinv_lt_0_compat. exact PQ.
Qed.

(* coordinates: 6 decimals -> within 5e-7 < 1e-6; occupation code and U values: 5 decimals -> within 5e-6 < 1e-5 *)
Theorem coordinate_precision q : Qabs (denote 6 (scaled 6 q) - q) <= 1 # 2000000.
Proof. pose proof (denote_scaled_close 6 q) as H. vm_compute in H. exact H. Qed.
Theorem sof_u_precision q : Qabs (denote 5 (scaled 5 q) - q) <= 1 # 200000.
Proof. pose proof (denote_scaled_close 5 q) as H. vm_compute in H. exact H. Qed.

(* ---- the kind of atom line: fixed point and loss bound *)
Lemma scaled_of_denote k n : scaled k (denote k n) = n.
Proof.
  pose proof (pow10Z_pos k) as P. assert (PQ : 0 < inject_Z (pow10Z k)) by (rewrite <- (Zlt_Qlt 0); exact P).
  unfold scaled, denote.
  assert (E : inject_Z n / inject_Z (pow10Z k) * inject_Z (pow10Z k) == inject_Z n) by (field; lra).
  rewrite (Qfloor_comp _ _ E). rewrite Qfloor_Z.
  assert (R : inject_Z n / inject_Z (pow10Z k) * inject_Z (pow10Z k) - inject_Z n == 0) by (rewrite E; ring).
  rewrite (Qcompare_comp _ _ R _ _ (Qeq_refl (1 # 2))). reflexivity.
Qed.

Lemma scaled_zero_small q : scaled 5 q = 0%Z -> Qabs q <= 1 # 200000.
Proof.
  intros H. pose proof (sof_u_precision q) as P. rewrite H in P.
  assert (E : denote 5 0 - q == - q) by (unfold denote; field; vm_compute; discriminate).
  rewrite E in P. rewrite Qabs_opp in P. exact P.
Qed.

Lemma scaled_0 : scaled 5 0 = 0%Z.
Proof. reflexivity. Qed.

Ltac six u := destruct u as [|? [|? [|? [|? [|? [|? [|? ?]]]]]]]; try discriminate.

Theorem u_fixed_point u : length u = 6%nat -> u_written (u_read (u_written u)) = u_written u.
Proof.
  intros L. six u. clear L. unfold u_written at 2 3. destruct (aniso_line [q; q0; q1; q2; q3; q4]) eqn:A.
  - unfold u_read. cbn [map length Nat.sub repeat app]. unfold u_written, aniso_line in *. cbn [skipn existsb map firstn] in *.
    rewrite !scaled_of_denote. rewrite A. reflexivity.
  - unfold u_read. cbn [firstn map length Nat.sub repeat app]. unfold u_written, aniso_line. cbn [skipn existsb map firstn].
    rewrite scaled_of_denote. reflexivity.
Qed.

(* what is read back agrees with what was stored to half a unit of the fifth decimal - for an atom written as isotropic this
   includes U22 only if U22 itself is written as 0.00000 (see u_flat_refuted) *)
Theorem u_lossless u i : length u = 6%nat -> (aniso_line u = false -> scaled 5 (nth 1 u 0) = 0%Z) -> (i < 6)%nat ->
  Qabs (nth i (u_read (u_written u)) 0 - nth i u 0) <= 1 # 200000.
Proof.
  intros L F I. six u. clear L. unfold u_written. destruct (aniso_line [q; q0; q1; q2; q3; q4]) eqn:A.
  - unfold u_read. cbn [map length Nat.sub repeat app].
    do 6 (destruct i as [|i]; [cbn [nth]; apply sof_u_precision|]). lia.
  - specialize (F eq_refl). cbn [nth] in F. unfold aniso_line in A. cbn [skipn existsb] in A.
    repeat match type of A with (_ || _)%bool = false => apply Bool.orb_false_iff in A; let A1 := fresh "Z" in destruct A as [A1 A] end.
    repeat match goal with H : negb (Z.eqb _ 0) = false |- _ => apply Bool.negb_false_iff in H; apply Z.eqb_eq in H; apply scaled_zero_small in H end.
    apply scaled_zero_small in F.
    unfold u_read. cbn [firstn map length Nat.sub repeat app].
    destruct i as [|i]; [cbn [nth]; apply sof_u_precision|].
    assert (N : forall x, Qabs x <= 1 # 200000 -> Qabs (0 - x) <= 1 # 200000).
    { intros x Hx. assert (E : 0 - x == - x) by ring. rewrite E, Qabs_opp. exact Hx. }
    do 5 (destruct i as [|i]; [cbn [nth]; apply N; assumption|]). lia.
Qed.

(* the degenerate case that stays: U33 = U23 = U13 = U12 = 0.00000 with a U22 that is not - a flat ellipsoid - is written with U11 only *)
Theorem u_flat_refuted : exists u, length u = 6%nat /\ aniso_line u = false /\
  Qabs (nth 1 (u_read (u_written u)) 0 - nth 1 u 0) == 1 # 25.
Proof. exists [1 # 20; 1 # 25; 0; 0; 0; 0]. vm_compute. repeat split. Qed.

(* the threshold before 6588dd5 lost a value that the format can hold *)
Theorem old_threshold_refuted : exists u, length u = 6%nat /\ aniso_line_old u = false /\ aniso_line u = true /\ scaled 5 (nth 1 u 0) = 0%Z /\
  ~ Qabs (0 - nth 3 u 0) <= 1 # 200000.
Proof. exists [1 # 20; 2 # 1000000; 0; 12 # 1000000; 0; 0]. vm_compute. repeat split; try reflexivity. intros H. apply H. reflexivity. Qed.

Example u_written_examples :
  u_written [1 # 20; 4 # 1000000; 4 # 1000000; 4 # 1000000; 4 # 1000000; 4 # 1000000] = [5000%Z]
  /\ u_written [1 # 20; 1 # 25; 3 # 100; 0; -12 # 1000000; 0] = [5000; 4000; 3000; 0; -1; 0]%Z
  /\ Forall2 Qeq (u_read [5000%Z]) [1 # 20; 0; 0; 0; 0; 0].
Proof. repeat split; try (vm_compute; reflexivity). repeat constructor. Qed.

(* the short form of WGHT denotes the same six values *)
Theorem wght_written_denotes v : length v = 6%nat ->
  Forall2 Qeq (pad_defaults wght_defaults (wght_written v)) v.
Proof.
  intros H. destruct v as [|a [|b [|c [|d [|e [|f [|g v]]]]]]]; try discriminate. clear H.
  unfold wght_written. destruct (Qeq_bool c 0) eqn:C; destruct (Qeq_bool d 0) eqn:D; destruct (Qeq_bool e 0) eqn:E;
    destruct (Qeq_bool f (33333 # 100000)) eqn:F; cbn [andb pad_defaults length skipn app wght_defaults];
    repeat (constructor; try reflexivity);
    try (apply Qeq_bool_iff in C); try (apply Qeq_bool_iff in D); try (apply Qeq_bool_iff in E); try (apply Qeq_bool_iff in F);
    try (symmetry; assumption).
Qed.

Example scaled_examples :
  scaled 6 (123456789 # 1000000000) = 123457%Z /\ scaled 5 (-21) = (-2100000)%Z /\ scaled 0 (5 # 2) = 2%Z /\ scaled 0 (7 # 2) = 4%Z
  /\ scaled 6 (- (1 # 3)) = (-333333)%Z.
Proof. vm_compute. repeat split. Qed.
