(* C01 — the fixed-precision numerals of a written atom denote the stored values to SHELXL's precision. *)
From SX Require Import Base.Prelude Model.Fmt.
From Coq Require Import Lqa Lia.
Open Scope Q_scope.

Lemma pow10Z_pos k : (0 < pow10Z k)%Z.
Proof. unfold pow10Z. apply Z.pow_pos_nonneg; lia. Qed.

Lemma scaled_near k q : Qabs (inject_Z (scaled k q) - q * inject_Z (pow10Z k)) <= 1 # 2.
Proof.
  unfold scaled. set (x := q * inject_Z (pow10Z k)). set (f := Qfloor x).
  assert (L : inject_Z f <= x) by apply Qfloor_le.
  assert (U : x < inject_Z (f + 1)) by apply Qlt_floor.
  rewrite inject_Z_plus in U. change (inject_Z 1) with 1 in U.
  destruct (Qcompare (x - inject_Z f) (1 # 2)) eqn:C.
  - apply Qeq_alt in C. destruct (Z.even f); [|rewrite inject_Z_plus; change (inject_Z 1) with 1];
      apply Qabs_Qle_condition; split; lra.
  - apply Qlt_alt in C. apply Qabs_Qle_condition; split; lra.
  - apply Qgt_alt in C. rewrite inject_Z_plus. change (inject_Z 1) with 1. apply Qabs_Qle_condition; split; lra.
Qed.

Theorem denote_scaled_close k q : Qabs (denote k (scaled k q) - q) <= (1 # 2) / inject_Z (pow10Z k).
Proof.
  pose proof (pow10Z_pos k) as P. assert (PQ : 0 < inject_Z (pow10Z k)) by (rewrite <- (Zlt_Qlt 0); exact P).
  pose proof (scaled_near k q) as N. unfold denote.
  set (p := inject_Z (pow10Z k)) in *. set (n := inject_Z (scaled k q)) in *.
  assert (E : n / p - q == (n - q * p) / p) by (field; lra).
  rewrite E. unfold Qdiv. rewrite Qabs_Qmult. rewrite (Qabs_pos (/ p)).
  - apply Qmult_le_compat_r; [exact N|]. apply Qlt_le_weak. apply Qinv_lt_0_compat. exact PQ.
  - apply Qlt_le_weak. apply Qinv_lt_0_compat. exact PQ.
Qed.

(* coordinates: 6 decimals -> within 5e-7 < 1e-6; occupation code and U values: 5 decimals -> within 5e-6 < 1e-5 *)
Theorem coordinate_precision q : Qabs (denote 6 (scaled 6 q) - q) <= 1 # 2000000.
Proof. pose proof (denote_scaled_close 6 q) as H. vm_compute in H. exact H. Qed.
Theorem sof_u_precision q : Qabs (denote 5 (scaled 5 q) - q) <= 1 # 200000.
Proof. pose proof (denote_scaled_close 5 q) as H. vm_compute in H. exact H. Qed.

(* the short form of WGHT denotes the same six values *)
Theorem wght_written_denotes v : length v = 6%nat ->
  Forall2 Qeq (pad_defaults wght_defaults (wght_written v)) v.
Proof.
  intros H. destruct v as [|a [|b [|c [|d [|e [|f [|g v]]]]]]]; try discriminate. clear H.
  unfold wght_written. destruct (Qeq_bool c 0) eqn:C; destruct (Qeq_bool d 0) eqn:D; destruct (Qeq_bool e 0) eqn:E;
    destruct (Qeq_bool f (33333 # 100000)) eqn:F; cbn [andb pad_defaults length skipn app wght_defaults];
    repeat (constructor; try reflexivity);
    try (apply Qeq_bool_iff in C); try (apply Qeq_bool_iff in D); try (apply Qeq_bool_iff in E); try (apply Qeq_bool_iff in F);
    try (symmetry; assumption).
Qed.

Example scaled_examples :
  scaled 6 (123456789 # 1000000000) = 123457%Z /\ scaled 5 (-21) = (-2100000)%Z /\ scaled 0 (5 # 2) = 2%Z /\ scaled 0 (7 # 2) = 4%Z
  /\ scaled 6 (- (1 # 3)) = (-333333)%Z.
Proof. vm_compute. repeat split. Qed.
