(* C17 — the restraint diagnostics name exactly the atoms that do not exist. *)
From SX Require Import Base.Str Model.Restr Spec.RestrSpec.

Lemma zsum_pos_in l : (forall n, In n l -> (0 <= n)%Z) -> (0 < zsum l)%Z \/ (forall n, In n l -> n = 0%Z).
Proof.
  unfold zsum. intros H.
  assert (G : forall acc, (0 <= acc)%Z -> (0 < fold_left Z.add l acc)%Z \/ (acc = 0%Z /\ forall n, In n l -> n = 0%Z)).
  { induction l as [|x r IH]; intros acc A; cbn [fold_left].
    - destruct (Z.eq_dec acc 0); [right; split; [assumption | intros ? []] | left; lia].
    - assert (Hx : (0 <= x)%Z) by (apply H; left; reflexivity).
      destruct (IH (fun n I => H n (or_intror I)) (acc + x)%Z ltac:(lia)) as [L | [E Z0]]; [left; exact L|].
      right. split; [lia|]. intros n [<- | I]; [lia | apply Z0; exact I]. }
  destruct (G 0%Z ltac:(lia)) as [L | [_ Z0]]; [left; exact L | right; exact Z0].
Qed.

(* never reported: element wildcards and range operators *)
Theorem never_reports_wildcards fi s : report_atom fi s ARange = [] /\ forall e, report_atom fi s (AElem e) = [].
Proof. split; reflexivity. Qed.

(* a restraint whose atoms all exist in every addressed residue produces no message *)
Definition suffix_ok (fi : file_index) (s : suffix) : Prop :=
  match s with
  | SNum k => (0 <= k)%Z
  | SStar => forall n, In n (map fst (fi_residues fi)) -> (0 <= n)%Z      (* residue numbers of RESI instructions are not negative *)
  | _ => True
  end.

Lemma zsum_zero l : (forall n, In n l -> n = 0%Z) -> zsum l = 0%Z.
Proof.
  unfold zsum. intros H. assert (G : forall acc, fold_left Z.add l acc = acc).
  { induction l as [|x r IH]; intros acc; cbn [fold_left]; [reflexivity|].
    rewrite (H x (or_introl eq_refl)), Z.add_0_r. apply IH. intros n I. apply H. right. exact I. }
  apply G.
Qed.

Lemma zsum_nil_pos l : (0 < zsum l)%Z -> l <> [].
Proof. intros H E. subst l. cbv in H. discriminate H. Qed.

Theorem complete_restraint_silent fi s atoms : suffix_ok fi s ->
  (forall a, In a atoms -> must_not_report fi s a) -> reported fi s atoms = [].
Proof.
  intros OK H. unfold reported. induction atoms as [|a r IH]; [reflexivity|].
  cbn [flat_map]. rewrite IH by (intros; apply H; right; assumption). rewrite app_nil_r.
  specialize (H a (or_introl eq_refl)). destruct a as [| e | name [n|] | name]; cbn [report_atom]; try reflexivity.
  - cbn [must_not_report addressed] in H. destruct H as [_ H]. rewrite (H n (or_introl eq_refl)). reflexivity.
  - cbn [must_not_report addressed] in H. destruct H as [NE H].
    destruct s as [| k | c |]; cbn [residue_numbers has_class orb].
    + cbn [zsum fold_left Z.add Z.ltb]. rewrite (H 0%Z (or_introl eq_refl)). reflexivity.
    + cbn [suffix_ok] in OK. cbn [zsum fold_left Z.add]. destruct (Z.ltb_spec 0 k); cbn [filter]; [rewrite (H k (or_introl eq_refl)); reflexivity|].
      assert (k = 0%Z) by lia. subst k. rewrite (H 0%Z (or_introl eq_refl)). reflexivity.
    + destruct (map fst (filter (fun r0 => str_eqb (snd r0) c) (fi_residues fi))) as [|x l] eqn:E; [contradiction|].
      assert (F : filter (fun n => negb (has_atom fi name n)) (x :: l) = []).
      { clear -H. induction (x :: l) as [|y t IH]; [reflexivity|]. cbn [filter]. rewrite (H y (or_introl eq_refl)). cbn [negb]. apply IH. intros; apply H; right; assumption. }
      rewrite F. reflexivity.
    + cbn [suffix_ok] in OK. set (nums := map fst (fi_residues fi)) in *.
      destruct (zsum_pos_in nums OK) as [P | Z0].
      * apply Z.ltb_lt in P. rewrite P.
        assert (F : filter (fun n => negb (has_atom fi name n)) nums = []).
        { clear -H. induction nums as [|y t IH]; [reflexivity|]. cbn [filter]. rewrite (H y (or_introl eq_refl)). cbn [negb]. apply IH. intros; apply H; right; assumption. }
        rewrite F. reflexivity.
      * rewrite (zsum_zero nums Z0). cbn [Z.ltb Z.compare]. destruct nums as [|x l]; [contradiction|].
        assert (x = 0%Z) by (apply Z0; left; reflexivity). subst x. rewrite (H 0%Z (or_introl eq_refl)). reflexivity.
  - cbn [must_not_report] in H. unfold all_residues in H.
    assert (F : filter (fun n => negb (has_atom fi name n)) (map fst (fi_residues fi)) = []).
    { induction (map fst (fi_residues fi)) as [|y t IHt]; [reflexivity|]. cbn [filter]. rewrite (H y (or_introl eq_refl)). cbn [negb]. apply IHt. intros; apply H; right; assumption. }
    rewrite F. reflexivity.
Qed.

(* an atom that exists in none of the addressed residues is reported *)
Theorem missing_atom_reported fi s a atoms : suffix_ok fi s -> In a atoms -> must_report fi s a -> reported fi s atoms <> [].
Proof.
  intros OK I M. unfold reported.
  assert (R : report_atom fi s a <> []).
  { destruct a as [| e | name [n|] | name]; cbn [must_report] in M; try contradiction; destruct M as [NE M]; cbn [report_atom addressed] in *.
    - rewrite (M n (or_introl eq_refl)). discriminate.
    - destruct s as [| k | c |]; cbn [residue_numbers has_class orb].
      + cbn [zsum fold_left Z.add Z.ltb]. rewrite (M 0%Z (or_introl eq_refl)). discriminate.
      + cbn [suffix_ok] in OK. cbn [zsum fold_left Z.add]. destruct (Z.ltb_spec 0 k); cbn [filter map]; [rewrite (M k (or_introl eq_refl)); cbn [negb map]; discriminate|].
        assert (k = 0%Z) by lia. subst k. rewrite (M 0%Z (or_introl eq_refl)). discriminate.
      + destruct (map fst (filter (fun r0 => str_eqb (snd r0) c) (fi_residues fi))) as [|x l] eqn:E; [contradiction|].
        cbn [filter]. rewrite (M x (or_introl eq_refl)). cbn [negb map]. discriminate.
      + cbn [suffix_ok] in OK. set (nums := map fst (fi_residues fi)) in *.
        destruct nums as [|x l] eqn:EN; [contradiction|].
        destruct (zsum_pos_in (x :: l) OK) as [P | Z0].
        * apply Z.ltb_lt in P. rewrite P. cbn [filter]. rewrite (M x (or_introl eq_refl)). cbn [negb map]. discriminate.
        * rewrite (zsum_zero (x :: l) Z0). cbn [Z.ltb Z.compare].
          assert (x = 0%Z) by (apply Z0; left; reflexivity). subst x. rewrite (M 0%Z (or_introl eq_refl)). discriminate.
    - unfold all_residues in *. destruct (map fst (fi_residues fi)) as [|x l]; [contradiction|].
      cbn [filter]. rewrite (M x (or_introl eq_refl)). cbn [negb map]. discriminate. }
  clear M. induction atoms as [|b r IH]; [destruct I|]. cbn [flat_map]. destruct I as [<- | I].
  - intros E. apply app_eq_nil in E. destruct E as [E _]. contradiction.
  - intros E. apply app_eq_nil in E. destruct E as [_ E]. exact (IH I E).
Qed.

(* everything that is reported is an atom absent from the residue the message names *)
Theorem reported_are_absent fi s atoms name n :
  In (name, Some n) (reported fi s atoms) -> has_atom fi name n = false.
Proof.
  unfold reported. intros I. apply in_flat_map in I. destruct I as (a & _ & I).
  destruct a as [| e | nm [k|] | nm]; cbn [report_atom] in I; try (destruct I; fail).
  - destruct (has_atom fi nm k) eqn:H; [destruct I|]. destruct I as [E | []]. injection E as -> ->. exact H.
  - destruct (has_class s || Z.ltb 0 (zsum (residue_numbers fi s))).
    + apply in_map_iff in I. destruct I as (m & E & F). injection E as -> ->. apply filter_In in F. destruct F as [_ F].
      apply negb_true_iff in F. exact F.
    + destruct (has_atom fi nm 0); [destruct I | destruct I as [E | []]; discriminate E].
  - apply in_map_iff in I. destruct I as (m & E & F). injection E as -> ->. apply filter_In in F. destruct F as [_ F].
    apply negb_true_iff in F. exact F.
Qed.

Theorem reported_bare_absent fi s atoms name :
  In (name, None) (reported fi s atoms) -> has_atom fi name 0 = false.
Proof.
  unfold reported. intros I. apply in_flat_map in I. destruct I as (a & _ & I).
  destruct a as [| e | nm [k|] | nm]; cbn [report_atom] in I; try (destruct I; fail).
  - destruct (has_atom fi nm k); [destruct I | destruct I as [E | []]; discriminate E].
  - destruct (has_class s || Z.ltb 0 (zsum (residue_numbers fi s))).
    + apply in_map_iff in I. destruct I as (m & E & _). discriminate E.
    + destruct (has_atom fi nm 0) eqn:H; [destruct I|]. destruct I as [E | []]. injection E as ->. exact H.
  - apply in_map_iff in I. destruct I as (m & E & _). discriminate E.
Qed.

(* The complete characterisation (per-residue reading): a message names (name, residue n) exactly when some item of the
   restraint asks for that name in residue n and the file has no such atom. *)
Lemma report_atom_exactly fi s a name n : suffix_ok fi s ->
  (exists o, res_of o = n /\ In (name, o) (report_atom fi s a)) <-> (In (name, n) (asked fi s a) /\ has_atom fi name n = false).
Proof.
  intros OK. destruct a as [| e | nm [k|] | nm]; cbn [report_atom asked addressed].
  - split; [intros (o & _ & []) | intros [[] _]].
  - split; [intros (o & _ & []) | intros [[] _]].
  - split.
    + intros (o & E & I). destruct (has_atom fi nm k) eqn:H; [destruct I|]. destruct I as [I | []]. injection I as <- <-.
      cbn [res_of] in E. subst n. split; [left; reflexivity | exact H].
    + intros [[I | []] H]. injection I as <- <-. rewrite H. exists (Some k). split; [reflexivity | left; reflexivity].
  - (* bare name: the keyword decides *)
    assert (PER : forall nums L, nums <> [] -> L = nums ->
      ((exists o, res_of o = n /\ In (name, o) (map (fun n0 => (nm, Some n0)) (filter (fun n0 => negb (has_atom fi nm n0)) nums))) <->
       (In (name, n) (map (pair nm) L) /\ has_atom fi name n = false))).
    { intros nums L NE EL. subst L. split.
      * intros (o & E & I). apply in_map_iff in I. destruct I as (m & P & F). injection P as <- <-. cbn [res_of] in E. subst m.
        apply filter_In in F. destruct F as [F1 F2]. apply negb_true_iff in F2. split; [apply in_map; exact F1 | exact F2].
      * intros [I H]. apply in_map_iff in I. destruct I as (m & P & I). injection P as P1 P2; subst nm m. exists (Some n). split; [reflexivity|].
        apply in_map_iff. exists n. split; [reflexivity|]. apply filter_In. split; [exact I | rewrite H; reflexivity]. }
    assert (ZERO : ((exists o, res_of o = n /\ In (name, o) (if has_atom fi nm 0 then [] else [(nm, None)])) <->
                    (In (name, n) [(nm, 0%Z)] /\ has_atom fi name n = false))).
    { split.
      * intros (o & E & I). destruct (has_atom fi nm 0) eqn:H; [destruct I|]. destruct I as [I | []]. injection I as <- <-.
        cbn [res_of] in E. subst n. split; [left; reflexivity | exact H].
      * intros [[I | []] H]. injection I as <- <-. rewrite H. exists None. split; [reflexivity | left; reflexivity]. }
    destruct s as [| k | c |]; cbn [residue_numbers has_class orb].
    + cbn [zsum fold_left Z.add Z.ltb Z.compare map]. exact ZERO.
    + cbn [suffix_ok] in OK. cbn [zsum fold_left Z.add]. destruct (Z.ltb_spec 0 k).
      * apply (PER [k]); [discriminate | reflexivity].
      * assert (k = 0%Z) by lia. subst k. cbn [map]. exact ZERO.
    + destruct (map fst (filter (fun r0 => str_eqb (snd r0) c) (fi_residues fi))) as [|x l] eqn:E.
      * cbn [filter map]. destruct (has_atom fi nm 0) eqn:H0; cbn [negb map].
        -- split; [intros (o & _ & []) | intros [[I | []] H]]. injection I as <- <-. rewrite H0 in H. discriminate H.
        -- split.
           ++ intros (o & Eo & [I | []]). injection I as <- <-. cbn [res_of] in Eo. subst n. split; [left; reflexivity | exact H0].
           ++ intros [[I | []] H]. injection I as <- <-. exists (Some 0%Z). split; [reflexivity | left; reflexivity].
      * apply (PER (x :: l)); [discriminate | reflexivity].
    + cbn [suffix_ok] in OK. set (nums := map fst (fi_residues fi)) in *.
      destruct (zsum_pos_in nums OK) as [P | Z0].
      * pose proof (zsum_nil_pos nums P) as NE. apply Z.ltb_lt in P. rewrite P. apply (PER nums); [exact NE | destruct nums; [contradiction | reflexivity]].
      * rewrite (zsum_zero nums Z0). cbn [Z.ltb Z.compare].
        destruct nums as [|x l]; [cbn [map]; exact ZERO|].
        assert (X0 : x = 0%Z) by (apply Z0; left; reflexivity).
        split.
        -- intros Hex. apply ZERO in Hex. destruct Hex as [[I | []] H]. injection I as <- <-. split; [|exact H].
           cbn [map]. left. rewrite X0. reflexivity.
        -- intros [I H]. apply ZERO. split; [|exact H]. apply in_map_iff in I. destruct I as (m & Pm & I). injection Pm as <- <-.
           rewrite (Z0 m I). left; reflexivity.
  - unfold all_residues. split.
    + intros (o & E & I). apply in_map_iff in I. destruct I as (m & P & F). injection P as <- <-. cbn [res_of] in E. subst m.
      apply filter_In in F. destruct F as [F1 F2]. apply negb_true_iff in F2. split; [apply in_map; exact F1 | exact F2].
    + intros [I H]. apply in_map_iff in I. destruct I as (m & P & I). injection P as P1 P2; subst nm m. exists (Some n). split; [reflexivity|].
      apply in_map_iff. exists n. split; [reflexivity|]. apply filter_In. split; [exact I | rewrite H; reflexivity].
Qed.

Theorem reported_exactly fi s atoms name n : suffix_ok fi s ->
  (exists o, res_of o = n /\ In (name, o) (reported fi s atoms)) <->
  (exists a, In a atoms /\ In (name, n) (asked fi s a) /\ has_atom fi name n = false).
Proof.
  intros OK. unfold reported. split.
  - intros (o & E & I). apply in_flat_map in I. destruct I as (a & Ia & I). exists a. split; [exact Ia|].
    apply (report_atom_exactly fi s a name n OK). exists o. split; assumption.
  - intros (a & Ia & A & H). destruct (proj2 (report_atom_exactly fi s a name n OK) (conj A H)) as (o & E & I).
    exists o. split; [exact E|]. apply in_flat_map. exists a. split; assumption.
Qed.

(* non-vacuity: NAME_* with three residues, the atom missing in one of them *)
Example star_example :
  let fi := {| fi_atoms := [(lit "C2", 1%Z); (lit "N1", 1%Z); (lit "N1", 2%Z); (lit "C2", 3%Z); (lit "N1", 3%Z)];
               fi_residues := [(1%Z, lit "TOL"); (2%Z, lit "TOL"); (3%Z, lit "")] |} in
  reported fi SNone [AStar (lit "N1"); AStar (lit "C2")] = [(lit "C2", Some 2%Z)].
Proof. vm_compute. reflexivity. Qed.

(* the keyword suffix _* addresses every residue of the file (and not residue 0, where N1 does not exist here) *)
Example keyword_star_example :
  let fi := {| fi_atoms := [(lit "O1", 0%Z); (lit "N1", 1%Z); (lit "C2", 1%Z); (lit "N1", 2%Z)];
               fi_residues := [(1%Z, lit "TOL"); (2%Z, lit "TOL")] |} in
  reported fi SStar [AName (lit "N1") None; AName (lit "C2") None] = [(lit "C2", Some 2%Z)]
  /\ suffix_ok fi SStar.
Proof. split; [vm_compute; reflexivity|]. cbn. intros n [<- | [<- | []]]; discriminate. Qed.

Example restr_example :
  let fi := {| fi_atoms := [(lit "C1", 0%Z); (lit "C1", 1%Z); (lit "C3", 1%Z); (lit "C1", 2%Z)]; fi_residues := [(1%Z, lit "TOL"); (2%Z, lit "TOL")] |} in
  reported fi (SClass (lit "TOL")) [AName (lit "C1") None; ARange; AName (lit "C3") None; AElem (lit "C")] = [(lit "C3", Some 2%Z)]
  /\ reported fi SNone [AName (lit "C1") None; AName (lit "C9") None] = [(lit "C9", None)].
Proof. vm_compute. split; reflexivity. Qed.
