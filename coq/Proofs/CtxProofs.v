(* C03 — the context model (Model/Ctx.v) assigns every atom exactly the attributes of Spec/CtxSpec.v. *)
From SX Require Import Base.Str Model.Ctx Spec.CtxSpec.
From Coq Require Import QArith.

Definition afix_val (a : option Z) : Z := match a with Some mn => mn | None => 0 end.
Definition inv (c : ctx) : Prop :=
  (p_n (c_part c) = 0%Z -> p_sof (c_part c) = None) /\ (0 <= afix_val (c_afix c))%Z.

Lemma reset_facts c : inv c ->
  p_n (c_part (reset_ctx c)) = 0%Z /\ p_sof (c_part (reset_ctx c)) = None /\ afix_val (c_afix (reset_ctx c)) = 0%Z /\
  r_num (c_resi (reset_ctx c)) = 0%Z /\ r_class (c_resi (reset_ctx c)) = [] /\
  c_hklf (reset_ctx c) = c_hklf c /\ c_end (reset_ctx c) = c_end c /\ c_frag (reset_ctx c) = c_frag c.
Proof.
  intros [Ip Ia]. unfold reset_ctx. cbn [c_part c_afix c_resi c_hklf c_end c_frag].
  repeat split.
  - destruct (Z.eqb_spec (p_n (c_part c)) 0); cbn [negb]; [assumption | reflexivity].
  - destruct (Z.eqb_spec (p_n (c_part c)) 0); cbn [negb]; [apply Ip; assumption | reflexivity].
  - unfold afix_true. destruct (c_afix c) as [mn|]; [|reflexivity]. cbn [afix_val] in *.
    destruct (Z.ltb_spec 0 mn); [reflexivity | cbn [afix_val]; lia].
  - unfold resi_open. destruct (Z.eqb_spec (r_num (c_resi c)) 0); cbn [negb orb]; [|reflexivity].
    destruct (Nat.eqb (length (r_class (c_resi c))) 0); cbn [negb]; [assumption | reflexivity].
  - unfold resi_open. destruct (Z.eqb_spec (r_num (c_resi c)) 0); cbn [negb orb]; [|reflexivity].
    destruct (r_class (c_resi c)) as [|x r] eqn:E; [cbn; exact E | reflexivity].
Qed.

Lemma fold_spec evs : forall c out, inv c -> forallb event_ok evs = true ->
  snd (fold_left step evs (c, out)) =
  out ++ spec_atoms evs (p_n (c_part c)) (p_sof (c_part c)) (afix_val (c_afix c)) (r_num (c_resi c)) (r_class (c_resi c))
                   (c_hklf c) (c_end c) (c_frag c).
Proof.
  induction evs as [|e t IH]; intros c out I H; cbn [fold_left spec_atoms]; [rewrite app_nil_r; reflexivity|].
  cbn [forallb] in H. apply andb_true_iff in H. destruct H as [He Ht].
  destruct e as [r | p | mn | n s own u2 u3 | | | | | ]; cbn [step].
  - rewrite IH; [reflexivity | exact I | exact Ht].
  - rewrite IH; [reflexivity | | exact Ht]. destruct I as [_ Ia]. split; [|exact Ia]. cbn [c_part].
    cbn [event_ok] in He. destruct (p_sof p); [|reflexivity]. intros Z0. rewrite Z0 in He. discriminate He.
  - rewrite IH; [reflexivity | | exact Ht]. destruct I as [Ip _]. split; [exact Ip|]. cbn [c_afix afix_val event_ok] in *. lia.
  - destruct (c_frag c) eqn:F.
    + rewrite IH by assumption. rewrite F. reflexivity.
    + rewrite IH by assumption. rewrite F. rewrite <- app_assoc. cbn [app]. unfold atom_of.
      destruct (c_afix c); reflexivity.
  - destruct (reset_facts c I) as (A & B & C & D & E & F & G & K).
    rewrite IH; [| split; cbn [c_part c_afix]; [intros _; exact B | rewrite C; lia] | exact Ht].
    cbn [c_part c_afix c_resi c_hklf c_end c_frag]. rewrite A, B, C, D, E, G, K. reflexivity.
  - destruct (reset_facts c I) as (A & B & C & D & E & F & G & K).
    rewrite IH; [| split; cbn [c_part c_afix]; [intros _; exact B | rewrite C; lia] | exact Ht].
    cbn [c_part c_afix c_resi c_hklf c_end c_frag]. rewrite A, B, C, D, E, F, K. reflexivity.
  - rewrite IH; [reflexivity | exact I | exact Ht].
  - rewrite IH; [reflexivity | exact I | exact Ht].
  - rewrite IH; [reflexivity | exact I | exact Ht].
Qed.

(* C03: one entry per atom line of the structure, in file order, each with exactly the attributes of the rules *)
Theorem atoms_correct evs : forallb event_ok evs = true -> atoms_of evs = expected_atoms evs.
Proof.
  intros H. unfold atoms_of, expected_atoms. rewrite fold_spec; [reflexivity | | exact H].
  split; [reflexivity | cbn; lia].
Qed.

(* consequences for the derived views *)
Theorem qpeaks_only_after_hklf evs a : forallb event_ok evs = true -> In a (atoms_of evs) -> a_qpeak a = true ->
  exists pre post, evs = pre ++ post /\ (In EHklf pre \/ In EEnd pre).
Proof.
  intros H. rewrite (atoms_correct evs H). unfold expected_atoms.
  assert (G : forall evs pn ps af rn rc h e f, In a (spec_atoms evs pn ps af rn rc h e f) -> a_qpeak a = true ->
              (h = true \/ e = true) \/ exists pre post, evs = pre ++ post /\ (In EHklf pre \/ In EEnd pre)).
  { clear. induction evs as [|ev t IH]; intros pn ps af rn rc h e f I Q; [destruct I|].
    assert (K : forall pn ps af rn rc h e f, In a (spec_atoms t pn ps af rn rc h e f) ->
                (h = true \/ e = true) \/ exists pre post, ev :: t = pre ++ post /\ (In EHklf pre \/ In EEnd pre)).
    { intros pn' ps' af' rn' rc' h' e' f' I'. destruct (IH _ _ _ _ _ _ _ _ I' Q) as [L | (pre & post & E & P)]; [left; exact L|].
      right. exists (ev :: pre), post. split; [rewrite E; reflexivity | destruct P; [left | right]; right; assumption]. }
    destruct ev; cbn [spec_atoms] in I.
    - exact (K _ _ _ _ _ _ _ _ I).
    - exact (K _ _ _ _ _ _ _ _ I).
    - exact (K _ _ _ _ _ _ _ _ I).
    - destruct f; [exact (K _ _ _ _ _ _ _ _ I)|].
      destruct I as [I | I]; [|exact (K _ _ _ _ _ _ _ _ I)].
      subst a. cbn [a_qpeak] in Q. apply orb_true_iff in Q.
      destruct Q as [Q | Q]; [apply andb_true_iff in Q; destruct Q as [_ Q]; left; left; exact Q | left; right; exact Q].
    - right. exists [EHklf], t. split; [reflexivity | left; left; reflexivity].
    - right. exists [EEnd], t. split; [reflexivity | right; left; reflexivity].
    - exact (K _ _ _ _ _ _ _ _ I).
    - exact (K _ _ _ _ _ _ _ _ I).
    - exact (K _ _ _ _ _ _ _ _ I). }
  intros I Q. destruct (G evs _ _ _ _ _ _ _ _ I Q) as [[L | L] | R]; [discriminate | discriminate | exact R].
Qed.

(* non-vacuity / regression: an open PART and AFIX at HKLF, a Q-peak after it *)
Example ctx_example :
  map (fun a => (a_part a, a_afix a, a_resinum a, a_sof a, a_qpeak a))
      (atoms_of [EResi {| r_num := 2; r_class := lit "TOL" |}; EPart {| p_n := 1; p_sof := Some (21 # 1) |}; EAfix 43;
                 EAtom (lit "H1") 2 (Some (11 # 1)) false true; EHklf; EAtom (lit "Q1") 1 (Some (11 # 1)) true true])
  = [(1%Z, 43%Z, 2%Z, 21 # 1, false); (0%Z, 0%Z, 0%Z, 11 # 1, true)].
Proof. vm_compute. reflexivity. Qed.

(* ---------- exactly one entry per atom line of the structure, in file order ---------- *)
Fixpoint atom_lines (frag : bool) (evs : list event) : list str :=
  match evs with
  | [] => []
  | EAtom n _ _ _ _ :: r => if frag then atom_lines frag r else n :: atom_lines frag r
  | EFrag :: r => atom_lines true r
  | EFend :: r => atom_lines false r
  | _ :: r => atom_lines frag r
  end.

Lemma fold_names evs : forall c out,
  map a_name (snd (fold_left step evs (c, out))) = map a_name out ++ atom_lines (c_frag c) evs.
Proof.
  induction evs as [|e evs IH]; intros c out; cbn [fold_left atom_lines]; [rewrite app_nil_r; reflexivity|].
  destruct e; cbn [step]; try (rewrite IH; reflexivity).
  all: destruct (c_frag c) eqn:F; rewrite IH; [rewrite F; reflexivity|]. all: rewrite F, map_app. all: cbn [map atom_of a_name]. all: rewrite <- app_assoc. all: reflexivity.
Qed.

Theorem atoms_in_file_order evs : map a_name (atoms_of evs) = atom_lines false evs.
Proof. unfold atoms_of. rewrite fold_names. reflexivity. Qed.

Theorem atoms_count evs : length (atoms_of evs) = length (atom_lines false evs).
Proof. rewrite <- atoms_in_file_order. symmetry. apply map_length. Qed.
