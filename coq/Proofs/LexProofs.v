(* C05 — the line handling model recovers exactly the token lists of every rendering (Spec/LexSpec.v). *)
From SX Require Import Base.Str Model.Lex Spec.LexSpec.

Ltac ascii_cases c := destruct c as [[] [] [] [] [] [] [] []]; vm_compute; intros; try discriminate; try tauto; auto.

Lemma tok_char_bools c : tok_char c = true -> is_blank c = false /\ Ascii.eqb c cBang = false /\ Ascii.eqb c cEq = false
                                             /\ Ascii.eqb cEq c = false.
Proof. ascii_cases c. Qed.
Lemma tok_char_props c : tok_char c = true -> is_blank c = false /\ Ascii.eqb c cBang = false /\ Ascii.eqb c cEq = false
                                             /\ Ascii.eqb cEq c = false /\ c <> cBang /\ c <> cEq.
Proof.
  intros H. destruct (tok_char_bools c H) as (A & B & C & D). repeat split; try assumption.
  - apply Ascii.eqb_neq. exact B.
  - apply Ascii.eqb_neq. exact C.
Qed.

Lemma token_chars t : forallb tok_char t = true -> forall c, In c t -> tok_char c = true.
Proof. intros H c I. rewrite forallb_forall in H. exact (H c I). Qed.

(* ---------- split_ws ---------- *)
Lemma split_aux_token cur t s : forallb tok_char t = true -> split_aux cur (t ++ s) = split_aux (rev t ++ cur) s.
Proof.
  revert cur. induction t as [|c r IH]; intros cur H; cbn [app rev]; [reflexivity|].
  cbn [forallb] in H. apply andb_true_iff in H. destruct H as [Hc Hr].
  cbn [split_aux]. destruct (tok_char_props c Hc) as (B & _). rewrite B.
  rewrite IH by exact Hr. rewrite <- app_assoc. reflexivity.
Qed.

Lemma split_aux_blanks_nil n s : split_aux [] (blanks n ++ s) = split_aux [] s.
Proof. induction n as [|n IH]; cbn [blanks repeat app split_aux]; [reflexivity|]. change (is_blank " ") with true. cbv iota. exact IH. Qed.

Lemma split_aux_blanks_cur cur n s : cur <> [] -> (1 <= n)%nat -> split_aux cur (blanks n ++ s) = rev cur :: split_aux [] s.
Proof.
  intros NE L. destruct n as [|n]; [lia|]. cbn [blanks repeat app split_aux]. change (is_blank " ") with true. cbv iota.
  destruct cur; [contradiction|]. f_equal. apply split_aux_blanks_nil.
Qed.

(* splitting a rendered piece list followed by text that starts with a blank or is empty *)
Definition ends_token (s : str) : Prop := s = [] \/ exists r, s = " "%char :: r.

Lemma split_token_then t s : token_ok t = true -> ends_token s -> split_aux [] (t ++ s) = t :: split_aux [] s.
Proof.
  intros T E. unfold token_ok in T. apply andb_true_iff in T. destruct T as [Tc Tn].
  rewrite split_aux_token by exact Tc. rewrite app_nil_r.
  assert (NE : rev t <> []).
  { destruct t as [|c0 r0]; [cbn in Tn; discriminate Tn|]. intros Z. apply (f_equal (@length ascii)) in Z. rewrite rev_length in Z. discriminate Z. }
  destruct E as [-> | (r & ->)].
  - cbn [split_aux]. destruct (rev t) eqn:R; [contradiction|]. rewrite <- R, rev_involutive. reflexivity.
  - cbn [split_aux]. change (is_blank " ") with true. cbv iota. destruct (rev t) eqn:R; [contradiction|]. rewrite <- R, rev_involutive. reflexivity.
Qed.

Lemma render_pieces_ends l s : pieces_ok false l = true -> ends_token s -> ends_token (render_pieces l ++ s).
Proof.
  intros P E. destruct l as [|[n t] r]; [exact E|].
  cbn [pieces_ok piece_ok fst snd] in P. apply andb_true_iff in P. destruct P as [P _]. apply andb_true_iff in P. destruct P as [_ N].
  cbn [orb] in N. apply Nat.leb_le in N. cbn [fst] in N. right. unfold render_pieces. cbn [map concat]. unfold render_piece at 1. cbn [fst snd].
  destruct n as [|n]; [lia|]. cbn [blanks repeat app]. eexists. reflexivity.
Qed.

Lemma split_pieces l : forall first s, pieces_ok first l = true -> ends_token s ->
  split_aux [] (render_pieces l ++ s) = map snd l ++ split_aux [] s.
Proof.
  induction l as [|[n t] r IH]; intros first s P E; [reflexivity|].
  cbn [pieces_ok piece_ok fst snd] in P. apply andb_true_iff in P. destruct P as [P Pr]. apply andb_true_iff in P. destruct P as [T _].
  unfold render_pieces. cbn [map concat]. unfold render_piece at 1. cbn [fst snd]. rewrite <- !app_assoc. rewrite split_aux_blanks_nil.
  fold (render_pieces r). rewrite split_token_then; [|exact T | apply render_pieces_ends; assumption].
  cbn [app]. f_equal. apply (IH false); assumption.
Qed.

(* ---------- characters of rendered pieces: no '!' and no '=' ---------- *)
Lemma blanks_notin c n : c <> " "%char -> ~ In c (blanks n).
Proof. intros NE I. apply repeat_spec in I. congruence. Qed.

Lemma pieces_notin l c first : pieces_ok first l = true -> (c = cBang \/ c = cEq) -> ~ In c (render_pieces l).
Proof.
  revert first. induction l as [|[n t] r IH]; intros first P Hc I; [exact I|].
  cbn [pieces_ok piece_ok fst snd] in P. apply andb_true_iff in P. destruct P as [P Pr]. apply andb_true_iff in P. destruct P as [T _].
  unfold token_ok in T. apply andb_true_iff in T. destruct T as [Tc _].
  unfold render_pieces in I. cbn [map concat] in I. unfold render_piece at 1 in I. cbn [fst snd] in I.
  apply in_app_or in I. destruct I as [I | I]; [apply in_app_or in I; destruct I as [I | I]|].
  - apply (blanks_notin c n); [destruct Hc as [-> | ->]; discriminate | exact I].
  - pose proof (token_chars t Tc c I) as K. destruct (tok_char_props c K) as (_ & _ & _ & _ & N1 & N2). destruct Hc; contradiction.
  - exact (IH false Pr Hc I).
Qed.

Lemma body_cont c a first : pieces_ok first (ch_pieces c) = true ->
  body (render_cont c a) = render_pieces (ch_pieces c) ++ blanks (ch_trail c) ++ [cEq] ++ blanks a
                           ++ match ch_comment c with None => [] | Some _ => [] end
  /\ has_eq (render_cont c a) = true
  /\ before cEq (body (render_cont c a)) = render_pieces (ch_pieces c) ++ blanks (ch_trail c).
Proof.
  intros P.
  assert (NB : ~ In cBang (render_pieces (ch_pieces c) ++ blanks (ch_trail c) ++ [cEq] ++ blanks a)).
  { intros I. apply in_app_or in I. destruct I as [I | I]; [exact (pieces_notin _ cBang first P (or_introl eq_refl) I)|].
    apply in_app_or in I. destruct I as [I | I]; [apply (blanks_notin cBang _ ltac:(discriminate) I)|].
    apply in_app_or in I. destruct I as [[I | []] | I]; [discriminate I | apply (blanks_notin cBang _ ltac:(discriminate) I)]. }
  assert (B : body (render_cont c a) = render_pieces (ch_pieces c) ++ blanks (ch_trail c) ++ [cEq] ++ blanks a).
  { unfold body, before, render_cont. destruct (ch_comment c) as [t|]; cbn [render_comment].
    - rewrite !app_assoc. rewrite <- !app_assoc in NB. rewrite !app_assoc in NB.
      rewrite partition_found by exact NB. cbn [fst]. rewrite <- !app_assoc. reflexivity.
    - rewrite app_nil_r. rewrite !app_assoc. rewrite <- !app_assoc in NB. rewrite !app_assoc in NB.
      rewrite partition_absent by exact NB. cbn [fst]. rewrite <- !app_assoc. reflexivity. }
  split; [rewrite B; destruct (ch_comment c); rewrite ?app_nil_r; reflexivity|]. split.
  - unfold has_eq. rewrite B. apply existsb_exists. exists cEq. split; [|apply Ascii.eqb_refl].
    apply in_or_app. right. apply in_or_app. right. left. reflexivity.
  - rewrite B. unfold before. rewrite app_assoc. rewrite partition_found; [reflexivity|].
    intros I. apply in_app_or in I. destruct I as [I | I]; [exact (pieces_notin _ cEq first P (or_intror eq_refl) I)|].
    apply (blanks_notin cEq _ ltac:(discriminate) I).
Qed.

Lemma body_last c first : pieces_ok first (ch_pieces c) = true ->
  body (render_last c) = render_pieces (ch_pieces c) ++ blanks (ch_trail c) /\ has_eq (render_last c) = false
  /\ before cEq (body (render_last c)) = render_pieces (ch_pieces c) ++ blanks (ch_trail c).
Proof.
  intros P.
  assert (NB : ~ In cBang (render_pieces (ch_pieces c) ++ blanks (ch_trail c))).
  { intros I. apply in_app_or in I. destruct I as [I | I]; [exact (pieces_notin _ cBang first P (or_introl eq_refl) I)|].
    apply (blanks_notin cBang _ ltac:(discriminate) I). }
  assert (NE : ~ In cEq (render_pieces (ch_pieces c) ++ blanks (ch_trail c))).
  { intros I. apply in_app_or in I. destruct I as [I | I]; [exact (pieces_notin _ cEq first P (or_intror eq_refl) I)|].
    apply (blanks_notin cEq _ ltac:(discriminate) I). }
  assert (B : body (render_last c) = render_pieces (ch_pieces c) ++ blanks (ch_trail c)).
  { unfold body, before, render_last. destruct (ch_comment c) as [t|]; cbn [render_comment].
    - rewrite app_assoc. rewrite partition_found by exact NB. reflexivity.
    - rewrite app_nil_r. rewrite partition_absent by exact NB. reflexivity. }
  split; [exact B|]. split.
  - unfold has_eq. rewrite B. destruct (existsb (Ascii.eqb cEq) _) eqn:E; [|reflexivity].
    apply existsb_exists in E. destruct E as (x & I & E). apply Ascii.eqb_eq in E. subst x. contradiction.
  - rewrite B. unfold before. rewrite partition_absent by exact NE. reflexivity.
Qed.

(* ---------- gluing the chunks of one logical line ---------- *)
Lemma glue_chunks more : forall (acc : str) (c : chunk) (a : nat) (rest : list str),
  forallb (fun ac => cont_chunk_ok (snd ac)) more = true -> cont_chunk_ok c = true ->
  glue acc true (render_chunks c more a ++ rest) =
  (acc ++ concat (map (fun ch => render_pieces (ch_pieces ch) ++ blanks (ch_trail ch)) (c :: map snd more)), rest).
Proof.
  induction more as [|[a' c'] r IH]; intros acc c a rest M C.
  - cbn [render_chunks app glue map concat]. unfold cont_chunk_ok in C. apply andb_true_iff in C. destruct C as [P _].
    destruct (body_last c false P) as (_ & H & B). rewrite H, B. rewrite app_nil_r. reflexivity.
  - cbn [render_chunks app glue]. cbn [forallb snd] in M. apply andb_true_iff in M. destruct M as [C' M].
    pose proof C as C0. unfold cont_chunk_ok in C. apply andb_true_iff in C. destruct C as [P _].
    destruct (body_cont c a false P) as (_ & H & B). rewrite H, B.
    rewrite (IH _ c' a' rest M C'). cbn [map concat snd]. rewrite <- app_assoc. reflexivity.
Qed.

(* free-text test only looks at the first token *)
Lemma is_free_text_token t s : token_ok t = true -> ends_token s \/ (exists r, s = cEq :: r) \/ (exists r, s = cBang :: r) ->
  is_free_text (t ++ s) = is_free_text t.
Proof.
  intros T E.
  assert (H : forall p, (p = lit "REM" \/ p = lit "TITL") -> starts_with p (upper (t ++ s)) = starts_with p (upper t)).
  { intros p Hp. unfold upper. rewrite map_app.
    assert (S0 : match map upper_c s with [] => True | x :: _ => x = " "%char \/ x = cEq \/ x = cBang end).
    { destruct E as [[-> | (r & ->)] | [(r & ->) | (r & ->)]]; cbn; auto. }
    destruct (map upper_c t) as [|a [|b [|c [|d u]]]]; destruct (map upper_c s) as [|x xs];
      destruct Hp as [-> | ->]; cbn; try reflexivity;
      try (destruct S0 as [-> | [-> | ->]]; rewrite ?andb_false_r; reflexivity);
      try (rewrite ?andb_true_r; reflexivity).
    all: try (destruct (Ascii.eqb _ a), (Ascii.eqb _ b), (Ascii.eqb _ c); cbn; destruct S0 as [-> | [-> | ->]]; reflexivity).
    all: try (destruct (Ascii.eqb _ a), (Ascii.eqb _ b); cbn; destruct S0 as [-> | [-> | ->]]; reflexivity).
    all: try (destruct (Ascii.eqb _ a); cbn; destruct S0 as [-> | [-> | ->]]; reflexivity). }
  unfold is_free_text. rewrite (H _ (or_introl eq_refl)), (H _ (or_intror eq_refl)). reflexivity.
Qed.
