(* C05 — the line handling model recovers exactly the token lists of every rendering (Spec/LexSpec.v). *)
From SX Require Import Base.Str Model.Lex Spec.LexSpec.

Ltac ascii_cases c := destruct c as [[] [] [] [] [] [] [] []]; vm_compute; intros; try discriminate; try tauto; auto.

Lemma tok_char_bools c : tok_char c = true -> is_blank c = false /\ Ascii.eqb c cBang = false /\ Ascii.eqb c cEq = false
                                             /\ Ascii.eqb cEq c = false.
Proof. ascii_cases c. Qed.
Lemma tok_char_props c : tok_char c = true -> is_blank c = false /\ Ascii.eqb c cBang = false /\ Ascii.eqb c cEq = false
                                             /\ Ascii.eqb cEq c = false /\ c <> cBang /\ c <> cEq.
Proof.
  intros H. destruct (tok_char_bools c H) as (A & B & C & D). repeat split; try assumption.
  - apply Ascii.eqb_neq. exact B.
  - apply Ascii.eqb_neq. exact C.
Qed.

Lemma token_chars t : forallb tok_char t = true -> forall c, In c t -> tok_char c = true.
Proof. intros H c I. rewrite forallb_forall in H. exact (H c I). Qed.

(* ---------- split_ws ---------- *)
Lemma split_aux_token cur t s : forallb tok_char t = true -> split_aux cur (t ++ s) = split_aux (rev t ++ cur) s.
Proof.
  revert cur. induction t as [|c r IH]; intros cur H; cbn [app rev]; [reflexivity|].
  cbn [forallb] in H. apply andb_true_iff in H. destruct H as [Hc Hr].
  cbn [split_aux]. destruct (tok_char_props c Hc) as (B & _). rewrite B.
  rewrite IH by exact Hr. rewrite <- app_assoc. reflexivity.
Qed.

Lemma split_aux_blanks_nil n s : split_aux [] (blanks n ++ s) = split_aux [] s.
Proof. induction n as [|n IH]; cbn [blanks repeat app split_aux]; [reflexivity|]. change (is_blank " ") with true. cbv iota. exact IH. Qed.

Lemma split_aux_blanks_cur cur n s : cur <> [] -> (1 <= n)%nat -> split_aux cur (blanks n ++ s) = rev cur :: split_aux [] s.
Proof.
  intros NE L. destruct n as [|n]; [lia|]. cbn [blanks repeat app split_aux]. change (is_blank " ") with true. cbv iota.
  destruct cur; [contradiction|]. f_equal. apply split_aux_blanks_nil.
Qed.

(* splitting a rendered piece list followed by text that starts with a blank or is empty *)
Definition ends_token (s : str) : Prop := s = [] \/ exists r, s = " "%char :: r.

Lemma split_token_then t s : token_ok t = true -> ends_token s -> split_aux [] (t ++ s) = t :: split_aux [] s.
Proof.
  intros T E. unfold token_ok in T. apply andb_true_iff in T. destruct T as [Tc Tn].
  rewrite split_aux_token by exact Tc. rewrite app_nil_r.
  assert (NE : rev t <> []).
  { destruct t as [|c0 r0]; [cbn in Tn; discriminate Tn|]. intros Z. apply (f_equal (@length ascii)) in Z. rewrite rev_length in Z. discriminate Z. }
  destruct E as [-> | (r & ->)].
  - cbn [split_aux]. destruct (rev t) eqn:R; [contradiction|]. rewrite <- R, rev_involutive. reflexivity.
  - cbn [split_aux]. change (is_blank " ") with true. cbv iota. destruct (rev t) eqn:R; [contradiction|]. rewrite <- R, rev_involutive. reflexivity.
Qed.

Lemma render_pieces_ends l s : pieces_ok false l = true -> ends_token s -> ends_token (render_pieces l ++ s).
Proof.
  intros P E. destruct l as [|[n t] r]; [exact E|].
  cbn [pieces_ok piece_ok fst snd] in P. apply andb_true_iff in P. destruct P as [P _]. apply andb_true_iff in P. destruct P as [_ N].
  cbn [orb] in N. apply Nat.leb_le in N. cbn [fst] in N. right. unfold render_pieces. cbn [map concat]. unfold render_piece at 1. cbn [fst snd].
  destruct n as [|n]; [lia|]. cbn [blanks repeat app]. eexists. reflexivity.
Qed.

Lemma split_pieces l : forall first s, pieces_ok first l = true -> ends_token s ->
  split_aux [] (render_pieces l ++ s) = map snd l ++ split_aux [] s.
Proof.
  induction l as [|[n t] r IH]; intros first s P E; [reflexivity|].
  cbn [pieces_ok piece_ok fst snd] in P. apply andb_true_iff in P. destruct P as [P Pr]. apply andb_true_iff in P. destruct P as [T _].
  unfold render_pieces. cbn [map concat]. unfold render_piece at 1. cbn [fst snd]. rewrite <- !app_assoc. rewrite split_aux_blanks_nil.
  fold (render_pieces r). rewrite split_token_then; [|exact T | apply render_pieces_ends; assumption].
  cbn [app]. f_equal. apply (IH false); assumption.
Qed.

(* ---------- characters of rendered pieces: no '!' and no '=' ---------- *)
Lemma blanks_notin c n : c <> " "%char -> ~ In c (blanks n).
Proof. intros NE I. apply repeat_spec in I. congruence. Qed.

Lemma pieces_notin l c first : pieces_ok first l = true -> (c = cBang \/ c = cEq) -> ~ In c (render_pieces l).
Proof.
  revert first. induction l as [|[n t] r IH]; intros first P Hc I; [exact I|].
  cbn [pieces_ok piece_ok fst snd] in P. apply andb_true_iff in P. destruct P as [P Pr]. apply andb_true_iff in P. destruct P as [T _].
  unfold token_ok in T. apply andb_true_iff in T. destruct T as [Tc _].
  unfold render_pieces in I. cbn [map concat] in I. unfold render_piece at 1 in I. cbn [fst snd] in I.
  apply in_app_or in I. destruct I as [I | I]; [apply in_app_or in I; destruct I as [I | I]|].
  - apply (blanks_notin c n); [destruct Hc as [-> | ->]; discriminate | exact I].
  - pose proof (token_chars t Tc c I) as K. destruct (tok_char_props c K) as (_ & _ & _ & _ & N1 & N2). destruct Hc; contradiction.
  - exact (IH false Pr Hc I).
Qed.

Lemma body_cont c a first : pieces_ok first (ch_pieces c) = true ->
  body (render_cont c a) = render_pieces (ch_pieces c) ++ blanks (ch_trail c) ++ [cEq] ++ blanks a
                           ++ match ch_comment c with None => [] | Some _ => [] end
  /\ has_eq (render_cont c a) = true
  /\ before cEq (body (render_cont c a)) = render_pieces (ch_pieces c) ++ blanks (ch_trail c).
Proof.
  intros P.
  assert (NB : ~ In cBang (render_pieces (ch_pieces c) ++ blanks (ch_trail c) ++ [cEq] ++ blanks a)).
  { intros I. apply in_app_or in I. destruct I as [I | I]; [exact (pieces_notin _ cBang first P (or_introl eq_refl) I)|].
    apply in_app_or in I. destruct I as [I | I]; [apply (blanks_notin cBang _ ltac:(discriminate) I)|].
    apply in_app_or in I. destruct I as [[I | []] | I]; [discriminate I | apply (blanks_notin cBang _ ltac:(discriminate) I)]. }
  assert (B : body (render_cont c a) = render_pieces (ch_pieces c) ++ blanks (ch_trail c) ++ [cEq] ++ blanks a).
  { unfold body, before, render_cont.
    set (X := render_pieces (ch_pieces c) ++ blanks (ch_trail c) ++ [cEq] ++ blanks a) in *.
    replace (render_pieces (ch_pieces c) ++ blanks (ch_trail c) ++ [cEq] ++ blanks a ++ render_comment (ch_comment c))
      with (X ++ render_comment (ch_comment c)) by (unfold X; rewrite <- !app_assoc; reflexivity).
    destruct (ch_comment c) as [t|]; cbn [render_comment].
    - rewrite partition_found by exact NB. reflexivity.
    - rewrite app_nil_r. rewrite partition_absent by exact NB. reflexivity. }
  split; [rewrite B; destruct (ch_comment c); rewrite ?app_nil_r; reflexivity|]. split.
  - unfold has_eq. rewrite B. apply existsb_exists. exists cEq. split; [|apply Ascii.eqb_refl].
    apply in_or_app. right. apply in_or_app. right. left. reflexivity.
  - rewrite B. unfold before.
    replace (render_pieces (ch_pieces c) ++ blanks (ch_trail c) ++ [cEq] ++ blanks a)
      with ((render_pieces (ch_pieces c) ++ blanks (ch_trail c)) ++ cEq :: blanks a) by (rewrite <- !app_assoc; reflexivity).
    rewrite partition_found; [reflexivity|].
    intros I. apply in_app_or in I. destruct I as [I | I]; [exact (pieces_notin _ cEq first P (or_intror eq_refl) I)|].
    apply (blanks_notin cEq _ ltac:(discriminate) I).
Qed.

Lemma body_last c first : pieces_ok first (ch_pieces c) = true ->
  body (render_last c) = render_pieces (ch_pieces c) ++ blanks (ch_trail c) /\ has_eq (render_last c) = false
  /\ before cEq (body (render_last c)) = render_pieces (ch_pieces c) ++ blanks (ch_trail c).
Proof.
  intros P.
  assert (NB : ~ In cBang (render_pieces (ch_pieces c) ++ blanks (ch_trail c))).
  { intros I. apply in_app_or in I. destruct I as [I | I]; [exact (pieces_notin _ cBang first P (or_introl eq_refl) I)|].
    apply (blanks_notin cBang _ ltac:(discriminate) I). }
  assert (NE : ~ In cEq (render_pieces (ch_pieces c) ++ blanks (ch_trail c))).
  { intros I. apply in_app_or in I. destruct I as [I | I]; [exact (pieces_notin _ cEq first P (or_intror eq_refl) I)|].
    apply (blanks_notin cEq _ ltac:(discriminate) I). }
  assert (B : body (render_last c) = render_pieces (ch_pieces c) ++ blanks (ch_trail c)).
  { unfold body, before, render_last. destruct (ch_comment c) as [t|]; cbn [render_comment].
    - rewrite app_assoc. rewrite partition_found by exact NB. reflexivity.
    - rewrite app_nil_r. rewrite partition_absent by exact NB. reflexivity. }
  split; [exact B|]. split.
  - unfold has_eq. rewrite B. destruct (existsb (Ascii.eqb cEq) _) eqn:E; [|reflexivity].
    apply existsb_exists in E. destruct E as (x & I & E). apply Ascii.eqb_eq in E. subst x. contradiction.
  - rewrite B. unfold before. rewrite partition_absent by exact NE. reflexivity.
Qed.

(* ---------- gluing the chunks of one logical line ---------- *)
Lemma glue_false acc rest : glue acc false rest = (acc, rest).
Proof. destruct rest; reflexivity. Qed.

Lemma glue_chunks more : forall (acc : str) (c : chunk) (a : nat) (rest : list str),
  forallb (fun ac => cont_chunk_ok (snd ac)) more = true -> cont_chunk_ok c = true ->
  glue acc true (render_chunks c more a ++ rest) =
  (acc ++ concat (map (fun ch => render_pieces (ch_pieces ch) ++ blanks (ch_trail ch)) (c :: map snd more)), rest).
Proof.
  induction more as [|[a' c'] r IH]; intros acc c a rest M C.
  - cbn [render_chunks app glue map concat]. unfold cont_chunk_ok in C. apply andb_true_iff in C. destruct C as [P _].
    destruct (body_last c false P) as (_ & H & B). rewrite H, B. rewrite glue_false, app_nil_r. reflexivity.
  - cbn [render_chunks app glue]. cbn [forallb snd] in M. apply andb_true_iff in M. destruct M as [C' M].
    pose proof C as C0. unfold cont_chunk_ok in C. apply andb_true_iff in C. destruct C as [P _].
    destruct (body_cont c a false P) as (_ & H & B). rewrite H, B.
    rewrite (IH _ c' a' rest M C'). cbn [map concat snd]. rewrite <- app_assoc. reflexivity.
Qed.

(* free-text test only looks at the first token *)
Lemma is_free_text_token t s : token_ok t = true -> ends_token s \/ (exists r, s = cEq :: r) \/ (exists r, s = cBang :: r) ->
  is_free_text (t ++ s) = is_free_text t.
Proof.
  intros T E.
  assert (H : forall p, (p = lit "REM" \/ p = lit "TITL") -> starts_with p (upper (t ++ s)) = starts_with p (upper t)).
  { intros p Hp. unfold upper. rewrite map_app.
    assert (S0 : match map upper_c s with [] => True | x :: _ => x = " "%char \/ x = cEq \/ x = cBang end).
    { destruct E as [[-> | (r & ->)] | [(r & ->) | (r & ->)]]; cbn; auto. }
    destruct (map upper_c t) as [|a [|b [|c [|d u]]]]; destruct (map upper_c s) as [|x xs];
      destruct Hp as [-> | ->]; cbn; try reflexivity;
      try (destruct S0 as [-> | [-> | ->]]; rewrite ?andb_false_r; reflexivity);
      try (rewrite ?andb_true_r; reflexivity).
    all: try (destruct (Ascii.eqb _ a), (Ascii.eqb _ b), (Ascii.eqb _ c); cbn; destruct S0 as [-> | [-> | ->]]; reflexivity).
    all: try (destruct (Ascii.eqb _ a), (Ascii.eqb _ b); cbn; destruct S0 as [-> | [-> | ->]]; reflexivity).
    all: try (destruct (Ascii.eqb _ a); cbn; destruct S0 as [-> | [-> | ->]]; reflexivity). }
  unfold is_free_text. rewrite (H _ (or_introl eq_refl)), (H _ (or_intror eq_refl)). reflexivity.
Qed.

(* ---------- splitting the glued text of a logical line ---------- *)
Definition chunk_text (c : chunk) : str := render_pieces (ch_pieces c) ++ blanks (ch_trail c).

Lemma cont_text_ends (cs : list chunk) : forallb cont_chunk_ok cs = true -> ends_token (concat (map chunk_text cs)).
Proof.
  induction cs as [|c r IH]; intros H; [left; reflexivity|].
  cbn [forallb] in H. apply andb_true_iff in H. destruct H as [C R]. cbn [map concat].
  unfold cont_chunk_ok in C. apply andb_true_iff in C. destruct C as [P T]. unfold chunk_text at 1.
  destruct (ch_pieces c) as [|p ps] eqn:E.
  - apply Nat.leb_le in T. unfold render_pieces. cbn [map concat app]. destruct (ch_trail c) as [|n]; [lia|].
    right. cbn [blanks repeat app]. eexists. reflexivity.
  - rewrite <- app_assoc. apply render_pieces_ends; [exact P|].
    destruct (ch_trail c) as [|n]; [cbn [blanks repeat app]; exact (IH R) | right; cbn [blanks repeat app]; eexists; reflexivity].
Qed.

Lemma blanks_ends n s : ends_token s -> ends_token (blanks n ++ s).
Proof. intros E. destruct n as [|n]; [exact E | right; cbn [blanks repeat app]; eexists; reflexivity]. Qed.

Lemma split_cont_text (cs : list chunk) : forallb cont_chunk_ok cs = true ->
  split_aux [] (concat (map chunk_text cs)) = flat_map (fun c => map snd (ch_pieces c)) cs.
Proof.
  induction cs as [|c r IH]; intros H; [reflexivity|].
  cbn [forallb] in H. apply andb_true_iff in H. destruct H as [C R]. cbn [map concat flat_map].
  pose proof C as C0. unfold cont_chunk_ok in C. apply andb_true_iff in C. destruct C as [P _].
  unfold chunk_text at 1. rewrite <- app_assoc.
  rewrite (split_pieces _ false) by (try exact P; apply blanks_ends; apply cont_text_ends; exact R).
  rewrite split_aux_blanks_nil. rewrite IH by exact R. reflexivity.
Qed.

Lemma first_chunk_split (c : chunk) (cs : list chunk) : first_chunk_ok c = true -> forallb cont_chunk_ok cs = true ->
  split_ws (chunk_text c ++ concat (map chunk_text cs)) = map snd (ch_pieces c) ++ flat_map (fun c => map snd (ch_pieces c)) cs.
Proof.
  intros F R. unfold first_chunk_ok in F. destruct (ch_pieces c) as [|[[|n] t] ps] eqn:E; try discriminate.
  apply andb_true_iff in F. destruct F as [F _]. apply andb_true_iff in F. destruct F as [T P].
  unfold split_ws, chunk_text. rewrite E. rewrite <- app_assoc.
  assert (PO : pieces_ok true ((0%nat, t) :: ps) = true).
  { change (pieces_ok true ((0%nat, t) :: ps)) with (piece_ok true (0%nat, t) && pieces_ok false ps). unfold piece_ok. cbn [fst snd orb].
    rewrite T, P. reflexivity. }
  rewrite (split_pieces _ true) by (try exact PO; apply blanks_ends; apply cont_text_ends; exact R).
  rewrite split_aux_blanks_nil, split_cont_text by exact R. reflexivity.
Qed.

(* ---------- the first physical line of an instruction ---------- *)
Definition after_token (s : str) : Prop :=
  ends_token s \/ (exists r, s = cEq :: r) \/ (exists r, s = cBang :: r).

Lemma render_pieces_blank_first p ps s : pieces_ok false (p :: ps) = true -> exists r, render_pieces (p :: ps) ++ s = " "%char :: r.
Proof.
  intros P. destruct p as [n t].
  change (pieces_ok false ((n, t) :: ps)) with (piece_ok false (n, t) && pieces_ok false ps) in P.
  apply andb_true_iff in P. destruct P as [P _]. unfold piece_ok in P. cbn [fst snd orb] in P.
  apply andb_true_iff in P. destruct P as [_ N]. apply Nat.leb_le in N.
  unfold render_pieces. cbn [map concat]. unfold render_piece at 1. cbn [fst snd].
  destruct n as [|n]; [lia|]. cbn [blanks repeat app]. eexists. reflexivity.
Qed.

Lemma rest_shape ps n tail : pieces_ok false ps = true ->
  (tail = [] \/ (exists r, tail = cEq :: r) \/ (exists r, tail = cBang :: r)) ->
  after_token (render_pieces ps ++ blanks n ++ tail).
Proof.
  intros P Ht. destruct ps as [|p ps'].
  - unfold render_pieces. cbn [map concat app]. destruct n as [|n].
    + cbn [blanks repeat app]. destruct Ht as [-> | [H | H]]; [left; left; reflexivity | right; left; exact H | right; right; exact H].
    + left. right. cbn [blanks repeat app]. eexists. reflexivity.
  - left. right. apply render_pieces_blank_first. exact P.
Qed.

(* shape of the first physical line of an instruction: first character, free-text test *)
Lemma first_line_facts (c : chunk) (tail : str) : first_chunk_ok c = true ->
  (tail = [] \/ (exists r, tail = cEq :: r) \/ (exists r, tail = cBang :: r)) ->
  (exists x r, render_pieces (ch_pieces c) ++ blanks (ch_trail c) ++ tail = x :: r /\ is_blank x = false) /\
  is_free_text (render_pieces (ch_pieces c) ++ blanks (ch_trail c) ++ tail) = false /\ pieces_ok true (ch_pieces c) = true.
Proof.
  intros F Ht. unfold first_chunk_ok in F. destruct (ch_pieces c) as [|[[|n] t] ps] eqn:E; try discriminate.
  apply andb_true_iff in F. destruct F as [F NF]. apply andb_true_iff in F. destruct F as [T P].
  apply negb_true_iff in NF.
  assert (PO : pieces_ok true ((0%nat, t) :: ps) = true).
  { change (pieces_ok true ((0%nat, t) :: ps)) with (piece_ok true (0%nat, t) && pieces_ok false ps). unfold piece_ok. cbn [fst snd orb].
    rewrite T, P. reflexivity. }
  assert (R : render_pieces ((0%nat, t) :: ps) ++ blanks (ch_trail c) ++ tail = t ++ (render_pieces ps ++ blanks (ch_trail c) ++ tail)).
  { unfold render_pieces. cbn [map concat]. unfold render_piece at 1. cbn [fst snd blanks repeat app]. rewrite <- app_assoc. reflexivity. }
  split; [|split; [|exact PO]].
  - pose proof T as T0. cut (exists x r, t ++ (render_pieces ps ++ blanks (ch_trail c) ++ tail) = x :: r /\ is_blank x = false);
      [intros (x & r & Hx & Hb); exists x, r; split; [etransitivity; [exact R | exact Hx] | exact Hb]|]. unfold token_ok in T. apply andb_true_iff in T. destruct T as [Tc Tn].
    destruct t as [|x r]; [cbn in Tn; discriminate Tn|]. exists x. eexists. split; [reflexivity|].
    cbn [forallb] in Tc. apply andb_true_iff in Tc. destruct Tc as [Tx _]. apply (tok_char_props x Tx).
  - etransitivity; [apply (f_equal is_free_text R)|]. rewrite is_free_text_token; [exact NF | exact T | apply rest_shape; assumption].
Qed.

(* ---------- one logical line ---------- *)
Lemma lex_skip_junk f j r : junk_ok j = true -> lex_fuel (S f) (j :: r) = lex_fuel f r.
Proof. intros J. cbn [lex_fuel]. destruct j as [|c s]; [reflexivity|]. cbn [junk_ok] in J. rewrite J. reflexivity. Qed.

Lemma lex_skip_junks js : forall f r, forallb junk_ok js = true -> lex_fuel (length js + f) (js ++ r) = lex_fuel f r.
Proof.
  induction js as [|j js IH]; intros f r H; [reflexivity|].
  cbn [forallb] in H. apply andb_true_iff in H. destruct H as [J Js].
  cbn [length Nat.add app]. rewrite lex_skip_junk by exact J. apply IH. exact Js.
Qed.

Lemma comment_tail (c : option str) : render_comment c = [] \/ (exists r, render_comment c = cEq :: r) \/ (exists r, render_comment c = cBang :: r).
Proof. destruct c as [t|]; [right; right; eexists; reflexivity | left; reflexivity]. Qed.

Lemma lex_one_line f first more aeq rest :
  first_chunk_ok first = true -> forallb (fun ac => cont_chunk_ok (snd ac)) more = true ->
  lex_fuel (S f) (render_chunks first more aeq ++ rest) =
  (map snd (ch_pieces first) ++ flat_map (fun c => map snd (ch_pieces c)) (map snd more)) :: lex_fuel f rest.
Proof.
  intros F M. destruct more as [|[a c] r].
  - (* single physical line *)
    cbn [render_chunks app map flat_map]. rewrite app_nil_r.
    destruct (first_line_facts first (render_comment (ch_comment first)) F (comment_tail _)) as ((x & s & E & B) & NF & PO).
    unfold render_last. cbn [lex_fuel]. rewrite E, B. rewrite <- E.
    fold (render_last first).
    destruct (body_last first true PO) as (Bd & He & _).
    unfold continues. unfold render_last at 1 2. rewrite NF. fold (render_last first). rewrite He. cbn [negb andb].
    f_equal. rewrite Bd. unfold split_ws.
    rewrite <- (app_nil_r (blanks (ch_trail first))).
    rewrite (split_pieces _ true) by (try exact PO; apply blanks_ends; left; reflexivity).
    rewrite split_aux_blanks_nil. cbn [split_aux]. apply app_nil_r.
  - (* continued *)
    cbn [render_chunks app].
    assert (Tl : [cEq] ++ blanks aeq ++ render_comment (ch_comment first) = [] \/
                 (exists r0, [cEq] ++ blanks aeq ++ render_comment (ch_comment first) = cEq :: r0) \/
                 (exists r0, [cEq] ++ blanks aeq ++ render_comment (ch_comment first) = cBang :: r0))
      by (right; left; eexists; reflexivity).
    destruct (first_line_facts first _ F Tl) as ((x & s & E & B) & NF & PO).
    unfold render_cont. cbn [lex_fuel]. rewrite E, B. rewrite <- E.
    fold (render_cont first aeq).
    destruct (body_cont first aeq true PO) as (_ & He & Bf).
    unfold continues. unfold render_cont at 1 2. rewrite NF. fold (render_cont first aeq). rewrite He. cbn [negb andb].
    rewrite Bf.
    cbn [forallb snd] in M. apply andb_true_iff in M. destruct M as [Cc Mr].
    rewrite (glue_chunks r _ c a rest Mr Cc).
    f_equal. change (map snd ((a, c) :: r)) with (c :: map snd r).
    apply (first_chunk_split first (c :: map snd r)); [exact F|]. cbn [forallb]. rewrite Cc. cbn [andb].
    clear -Mr. induction r as [|[a' c'] r IH]; [reflexivity|]. cbn [forallb map snd] in *. apply andb_true_iff in Mr. destruct Mr as [A Bq].
    rewrite A, IH by exact Bq. reflexivity.
Qed.

Lemma render_chunks_length first more aeq : length (render_chunks first more aeq) = S (length more).
Proof. revert first aeq. induction more as [|[a c] r IH]; intros first aeq; cbn [render_chunks length]; [reflexivity|]. rewrite IH. reflexivity. Qed.

(* ---------- C05: the whole file ---------- *)
Lemma lex_fuel_file (f : list lline) : forall fuel, forallb lline_ok f = true -> (length (render_file f) <= fuel)%nat ->
  lex_fuel fuel (render_file f) = map tokens_of f.
Proof.
  induction f as [|l r IH]; intros fuel H L.
  - cbn [render_file flat_map map]. destruct fuel; reflexivity.
  - cbn [forallb] in H. apply andb_true_iff in H. destruct H as [Hl Hr].
    unfold lline_ok in Hl. apply andb_true_iff in Hl. destruct Hl as [Hl J]. apply andb_true_iff in Hl. destruct Hl as [F M].
    assert (L' : (Datatypes.length (ll_junk l) + (S (Datatypes.length (ll_more l)) + Datatypes.length (render_file r)) <= fuel)%nat).
    { change (render_file (l :: r)) with (render_line l ++ render_file r) in L. unfold render_line in L.
      rewrite !app_length, render_chunks_length in L. lia. }
    change (render_file (l :: r)) with (render_line l ++ render_file r). unfold render_line. rewrite <- app_assoc.
    set (nj := Datatypes.length (ll_junk l)) in *.
    replace fuel with (nj + (S (fuel - nj - 1)))%nat by lia.
    unfold nj at 1. rewrite lex_skip_junks by exact J.
    rewrite lex_one_line by assumption.
    cbn [map]. unfold tokens_of at 1, all_chunks. cbn [flat_map]. f_equal.
    apply IH; [exact Hr | lia].
Qed.

Theorem lex_render (f : list lline) : forallb lline_ok f = true -> lex (render_file f) = map tokens_of f.
Proof. intros H. unfold lex. apply lex_fuel_file; [exact H | lia]. Qed.

(* two layouts of the same instructions are read identically *)
Corollary lex_layout_independent (f1 f2 : list lline) :
  forallb lline_ok f1 = true -> forallb lline_ok f2 = true -> map tokens_of f1 = map tokens_of f2 ->
  lex (render_file f1) = lex (render_file f2).
Proof. intros H1 H2 E. rewrite !lex_render by assumption. exact E. Qed.

(* the dispatch word does not depend on the letter case of the keyword *)
Lemma upper_idem s : upper (upper s) = upper s.
Proof.
  unfold upper. rewrite map_map. apply map_ext. intros c.
  destruct c as [[] [] [] [] [] [] [] []]; vm_compute; reflexivity.
Qed.
Lemma dispatch_case_insensitive t r : dispatch_word (upper t :: r) = dispatch_word (t :: r).
Proof. unfold dispatch_word. rewrite upper_idem. reflexivity. Qed.

(* non-vacuity *)
Example lex_example :
  lex [lit "SADI 0.02 C1 C2 = ! first = part"; lit "   C3 C4"; lit ""; lit " indented comment"; lit "fvar 1.0 ! a=b"; lit "C1 1 0 0 0"]
  = [[lit "SADI"; lit "0.02"; lit "C1"; lit "C2"; lit "C3"; lit "C4"]; [lit "fvar"; lit "1.0"]; [lit "C1"; lit "1"; lit "0"; lit "0"; lit "0"]].
Proof. vm_compute. reflexivity. Qed.
