(* C20 — every proper rotation is the matrix q2mat builds from some unit quaternion (Euler-Rodrigues, constructive form of
   Shepperd's method), so that optimality over unit quaternions is optimality over ALL proper rotations. *)
From SX Require Import Base.RTac Gen.K_quat Spec.GeomSpec Spec.QuatSpec Proofs.QuatProofs.
Import ListNotations.
Open Scope R_scope.

Section Entries.
Variables a b c d e f g h i : R.  (* rows (a b c) (d e f) (g h i) *)
Hypothesis C11 : a*a + d*d + g*g = 1.
Hypothesis C22 : b*b + e*e + h*h = 1.
Hypothesis C33 : c*c + f*f + i*i = 1.
Hypothesis C12 : a*b + d*e + g*h = 0.
Hypothesis C13 : a*c + d*f + g*i = 0.
Hypothesis C23 : b*c + e*f + h*i = 0.
Hypothesis D : a*(e*i - f*h) + b*(f*g - d*i) + c*(d*h - e*g) = 1.

(* the entries of q2mat(q) as traced (checked against Qmat below) *)
Definition Mq (q0 q1 q2 q3 : R) : R*R*R*R*R*R*R*R*R :=
 (q0*q0+q1*q1-q2*q2-q3*q3, 2*(q2*q1+q0*q3), 2*(q3*q1-q0*q2),
  2*(q1*q2-q0*q3), q0*q0-q1*q1+q2*q2-q3*q3, 2*(q3*q2+q0*q1),
  2*(q1*q3+q0*q2), 2*(q2*q3-q0*q1), q0*q0-q1*q1-q2*q2+q3*q3).

Ltac fin w s Hw Hp := field_simplify_eq; [ | lra];
  try replace (w ^ 4) with (s * s) by (rewrite <- Hw; ring);
  try replace (w ^ 2) with s by (rewrite <- Hw; ring); clear Hw Hp; clear w; simpl; nsatz.

Lemma case0 w : 0 < w -> w*w = 1 + a + e + i ->
  let q0 := w/2 in let q1 := (f-h)/(2*w) in let q2 := (g-c)/(2*w) in let q3 := (b-d)/(2*w) in
  q0*q0+q1*q1+q2*q2+q3*q3 = 1 /\ Mq q0 q1 q2 q3 = (a,b,c,d,e,f,g,h,i).
Proof.
  intros Hp Hw q0 q1 q2 q3. unfold q0, q1, q2, q3. clear q0 q1 q2 q3. split.
  - fin w (1 + a + e + i) Hw Hp.
  - unfold Mq. repeat f_equal; fin w (1 + a + e + i) Hw Hp.
Qed.

Lemma case1 w : 0 < w -> w*w = 1 + a - e - i ->
  let q1 := w/2 in let q0 := (f-h)/(2*w) in let q2 := (b+d)/(2*w) in let q3 := (c+g)/(2*w) in
  q0*q0+q1*q1+q2*q2+q3*q3 = 1 /\ Mq q0 q1 q2 q3 = (a,b,c,d,e,f,g,h,i).
Proof.
  intros Hp Hw q1 q0 q2 q3. unfold q0, q1, q2, q3. clear q0 q1 q2 q3. split.
  - fin w (1 + a - e - i) Hw Hp.
  - unfold Mq. repeat f_equal; fin w (1 + a - e - i) Hw Hp.
Qed.

Lemma case2 w : 0 < w -> w*w = 1 - a + e - i ->
  let q2 := w/2 in let q0 := (g-c)/(2*w) in let q1 := (b+d)/(2*w) in let q3 := (f+h)/(2*w) in
  q0*q0+q1*q1+q2*q2+q3*q3 = 1 /\ Mq q0 q1 q2 q3 = (a,b,c,d,e,f,g,h,i).
Proof.
  intros Hp Hw q2 q0 q1 q3. unfold q0, q1, q2, q3. clear q0 q1 q2 q3. split.
  - fin w (1 - a + e - i) Hw Hp.
  - unfold Mq. repeat f_equal; fin w (1 - a + e - i) Hw Hp.
Qed.

Lemma case3 w : 0 < w -> w*w = 1 - a - e + i ->
  let q3 := w/2 in let q0 := (b-d)/(2*w) in let q1 := (c+g)/(2*w) in let q2 := (f+h)/(2*w) in
  q0*q0+q1*q1+q2*q2+q3*q3 = 1 /\ Mq q0 q1 q2 q3 = (a,b,c,d,e,f,g,h,i).
Proof.
  intros Hp Hw q3 q0 q1 q2. unfold q0, q1, q2, q3. clear q0 q1 q2 q3. split.
  - fin w (1 - a - e + i) Hw Hp.
  - unfold Mq. repeat f_equal; fin w (1 - a - e + i) Hw Hp.
Qed.

Lemma sqrt_case s : 0 < s -> exists w, 0 < w /\ w * w = s.
Proof. intros H. exists (sqrt s). split; [apply sqrt_lt_R0; exact H | apply sqrt_sqrt; lra]. Qed.

Lemma rodrigues_entries : exists q0 q1 q2 q3, q0*q0+q1*q1+q2*q2+q3*q3 = 1 /\ Mq q0 q1 q2 q3 = (a,b,c,d,e,f,g,h,i).
Proof.
  (* the four candidates 1 +- a +- e +- i add up to 4, so one of them is positive *)
  destruct (Rlt_dec 0 (1 + a + e + i)) as [P0 | N0].
  { destruct (sqrt_case _ P0) as (w & Hp & Hw). destruct (case0 w Hp Hw) as (A & B). do 4 eexists. split; [exact A | exact B]. }
  destruct (Rlt_dec 0 (1 + a - e - i)) as [P1 | N1].
  { destruct (sqrt_case _ P1) as (w & Hp & Hw). destruct (case1 w Hp Hw) as (A & B). do 4 eexists. split; [exact A | exact B]. }
  destruct (Rlt_dec 0 (1 - a + e - i)) as [P2 | N2].
  { destruct (sqrt_case _ P2) as (w & Hp & Hw). destruct (case2 w Hp Hw) as (A & B). do 4 eexists. split; [exact A | exact B]. }
  assert (P3 : 0 < 1 - a - e + i) by lra.
  destruct (sqrt_case _ P3) as (w & Hp & Hw). destruct (case3 w Hp Hw) as (A & B). do 4 eexists. split; [exact A | exact B].
Qed.
End Entries.

Lemma Qmat_entries q0 q1 q2 q3 :
  Qmat q0 q1 q2 q3 = (let '(a,b,c,d,e,f,g,h,i) := Mq q0 q1 q2 q3 in ((a,b,c),(d,e,f),(g,h,i))).
Proof. unfold Qmat, Mq. kunfold. reflexivity. Qed.

Theorem euler_rodrigues (m : mat) : orthogonal m -> mdet m = 1 ->
  exists q0 q1 q2 q3, qnorm2 q0 q1 q2 q3 = 1 /\ Qmat q0 q1 q2 q3 = m.
Proof.
  destruct m as [[[[a b] c] [[d e] f]] [[g h] i]]. intros O Dt.
  unfold orthogonal, mdet in *. vunfold. destruct O as (C11 & C22 & C33 & C12 & C13 & C23).
  assert (Dt' : a*(e*i - f*h) + b*(f*g - d*i) + c*(d*h - e*g) = 1) by (rewrite <- Dt; ring).
  destruct (rodrigues_entries a b c d e f g h i C11 C22 C33 C12 C13 C23 Dt') as (q0 & q1 & q2 & q3 & N & E).
  exists q0, q1, q2, q3. split; [exact N|]. rewrite Qmat_entries, E. reflexivity.
Qed.

(* residual of an arbitrary matrix *)
Definition resid_mat (m : mat) (l : list (vec * vec)) : R :=
  sum_pairs (fun s t => let d := vsub (mv m s) t in dot d d) l.

(* no proper rotation whatsoever gives a smaller residual than the unit quaternion that maximises the form *)
Theorem optimal_all_rotations q0 q1 q2 q3 l : qnorm2 q0 q1 q2 q3 = 1 ->
  (forall p0 p1 p2 p3, qnorm2 p0 p1 p2 p3 = 1 -> qf4 (form_n l) p0 p1 p2 p3 <= qf4 (form_n l) q0 q1 q2 q3) ->
  forall m, orthogonal m -> mdet m = 1 -> resid_mat (Qmat q0 q1 q2 q3) l <= resid_mat m l.
Proof.
  intros U Mx m O Dt. destruct (euler_rodrigues m O Dt) as (p0 & p1 & p2 & p3 & P & E). subst m.
  exact (optimal_given_max q0 q1 q2 q3 l U Mx p0 p1 p2 p3 P).
Qed.

(* and an exactly rotated copy (by ANY proper rotation) is fitted with residual zero *)
Theorem exact_copy_zero_all q0 q1 q2 q3 l m : qnorm2 q0 q1 q2 q3 = 1 -> orthogonal m -> mdet m = 1 ->
  (forall r0 r1 r2 r3, qnorm2 r0 r1 r2 r3 = 1 -> qf4 (form_n l) r0 r1 r2 r3 <= qf4 (form_n l) q0 q1 q2 q3) ->
  (forall s t, In (s, t) l -> t = mv m s) ->
  resid_mat (Qmat q0 q1 q2 q3) l = 0.
Proof.
  intros U O Dt Mx Cp. destruct (euler_rodrigues m O Dt) as (p0 & p1 & p2 & p3 & P & E). subst m.
  exact (exact_copy_zero q0 q1 q2 q3 p0 p1 p2 p3 l U P Mx Cp).
Qed.

(* non-vacuity: the half turn about z is a proper rotation and is the matrix of the unit quaternion (0,0,0,1) *)
Example half_turn_example :
  let m : mat := ((-1, 0, 0), (0, -1, 0), (0, 0, 1)) in orthogonal m /\ mdet m = 1 /\ Qmat 0 0 0 1 = m.
Proof.
  cbv zeta. unfold orthogonal, mdet, Qmat. vunfold. kunfold. repeat split; try ring. repeat f_equal; ring.
Qed.
