(* C12 — displacement tensors: U(cif) -> U(star) -> U(cart), Ueq (coq/Gen/K_adp.v, regenerated from /repo). *)
From SX Require Import Base.RTac Gen.K_cell Gen.K_adp Spec.CellSpec Proofs.CellProofs.
Import ListNotations.
Open Scope R_scope.

(* U*_ij = a*_i U_ij a*_j *)
Lemma ustar_correct u11 u22 u33 u23 u13 u12 a b c al be ga :
  let n0 := k_cell_recip_0 ROps a b c al be ga in
  let n1 := k_cell_recip_1 ROps a b c al be ga in
  let n2 := k_cell_recip_2 ROps a b c al be ga in
  k_ustar_0_0 ROps u11 u22 u33 u23 u13 u12 a b c al be ga = n0 * u11 * n0 /\
  k_ustar_1_1 ROps u11 u22 u33 u23 u13 u12 a b c al be ga = n1 * u22 * n1 /\
  k_ustar_2_2 ROps u11 u22 u33 u23 u13 u12 a b c al be ga = n2 * u33 * n2 /\
  k_ustar_0_1 ROps u11 u22 u33 u23 u13 u12 a b c al be ga = n0 * u12 * n1 /\
  k_ustar_1_0 ROps u11 u22 u33 u23 u13 u12 a b c al be ga = n1 * u12 * n0 /\
  k_ustar_0_2 ROps u11 u22 u33 u23 u13 u12 a b c al be ga = n0 * u13 * n2 /\
  k_ustar_2_0 ROps u11 u22 u33 u23 u13 u12 a b c al be ga = n2 * u13 * n0 /\
  k_ustar_1_2 ROps u11 u22 u33 u23 u13 u12 a b c al be ga = n1 * u23 * n2 /\
  k_ustar_2_1 ROps u11 u22 u33 u23 u13 u12 a b c al be ga = n2 * u23 * n1.
Proof.
  cbv zeta. kunfold.
  repeat match goal with |- context [?x / ?y] => generalize (x / y); intro end.
  repeat split; ring.
Qed.

Ltac gen_div := repeat match goal with |- context [?x / ?y] => generalize (x / y); intro end.

(* U(cart) = M U* M^T *)
Lemma ucart_correct u11 u22 u33 u23 u13 u12 a b c al be ga :
  let m := fun i j => nth j (nth i [[k_ortho_m_0_0 ROps a b c al be ga; k_ortho_m_0_1 ROps a b c al be ga; k_ortho_m_0_2 ROps a b c al be ga];
                                    [k_ortho_m_1_0 ROps a b c al be ga; k_ortho_m_1_1 ROps a b c al be ga; k_ortho_m_1_2 ROps a b c al be ga];
                                    [k_ortho_m_2_0 ROps a b c al be ga; k_ortho_m_2_1 ROps a b c al be ga; k_ortho_m_2_2 ROps a b c al be ga]] []) 0 in
  let us := fun i j => nth j (nth i
     [[k_ustar_0_0 ROps u11 u22 u33 u23 u13 u12 a b c al be ga; k_ustar_0_1 ROps u11 u22 u33 u23 u13 u12 a b c al be ga; k_ustar_0_2 ROps u11 u22 u33 u23 u13 u12 a b c al be ga];
      [k_ustar_1_0 ROps u11 u22 u33 u23 u13 u12 a b c al be ga; k_ustar_1_1 ROps u11 u22 u33 u23 u13 u12 a b c al be ga; k_ustar_1_2 ROps u11 u22 u33 u23 u13 u12 a b c al be ga];
      [k_ustar_2_0 ROps u11 u22 u33 u23 u13 u12 a b c al be ga; k_ustar_2_1 ROps u11 u22 u33 u23 u13 u12 a b c al be ga; k_ustar_2_2 ROps u11 u22 u33 u23 u13 u12 a b c al be ga]] []) 0 in
  let mum := fun i j =>
     m i 0%nat * (us 0%nat 0%nat * m j 0%nat + us 0%nat 1%nat * m j 1%nat + us 0%nat 2%nat * m j 2%nat) +
     m i 1%nat * (us 1%nat 0%nat * m j 0%nat + us 1%nat 1%nat * m j 1%nat + us 1%nat 2%nat * m j 2%nat) +
     m i 2%nat * (us 2%nat 0%nat * m j 0%nat + us 2%nat 1%nat * m j 1%nat + us 2%nat 2%nat * m j 2%nat) in
  k_ucart_0_0 ROps u11 u22 u33 u23 u13 u12 a b c al be ga = mum 0%nat 0%nat /\
  k_ucart_0_1 ROps u11 u22 u33 u23 u13 u12 a b c al be ga = mum 0%nat 1%nat /\
  k_ucart_0_2 ROps u11 u22 u33 u23 u13 u12 a b c al be ga = mum 0%nat 2%nat /\
  k_ucart_1_0 ROps u11 u22 u33 u23 u13 u12 a b c al be ga = mum 1%nat 0%nat /\
  k_ucart_1_1 ROps u11 u22 u33 u23 u13 u12 a b c al be ga = mum 1%nat 1%nat /\
  k_ucart_1_2 ROps u11 u22 u33 u23 u13 u12 a b c al be ga = mum 1%nat 2%nat /\
  k_ucart_2_0 ROps u11 u22 u33 u23 u13 u12 a b c al be ga = mum 2%nat 0%nat /\
  k_ucart_2_1 ROps u11 u22 u33 u23 u13 u12 a b c al be ga = mum 2%nat 1%nat /\
  k_ucart_2_2 ROps u11 u22 u33 u23 u13 u12 a b c al be ga = mum 2%nat 2%nat.
Proof.
  cbv zeta. cbn [nth]. kunfold. gen_div.
  repeat split; ring.
Qed.

(* the Cartesian tensor is symmetric *)
Lemma ucart_symmetric u11 u22 u33 u23 u13 u12 a b c al be ga :
  k_ucart_0_1 ROps u11 u22 u33 u23 u13 u12 a b c al be ga = k_ucart_1_0 ROps u11 u22 u33 u23 u13 u12 a b c al be ga /\
  k_ucart_0_2 ROps u11 u22 u33 u23 u13 u12 a b c al be ga = k_ucart_2_0 ROps u11 u22 u33 u23 u13 u12 a b c al be ga /\
  k_ucart_1_2 ROps u11 u22 u33 u23 u13 u12 a b c al be ga = k_ucart_2_1 ROps u11 u22 u33 u23 u13 u12 a b c al be ga.
Proof.
  kunfold. gen_div. repeat split; ring.
Qed.

(* Ueq of an anisotropic atom is one third of the trace of the Cartesian tensor *)
Lemma ueq_trace u11 u22 u33 u23 u13 u12 a b c al be ga :
  (~ 0 < u11 \/ u33 <> 0 \/ u23 <> 0 \/ u13 <> 0 \/ u12 <> 0) ->
  k_ueq ROps u11 u22 u33 u23 u13 u12 a b c al be ga =
  (k_ucart_0_0 ROps u11 u22 u33 u23 u13 u12 a b c al be ga + k_ucart_1_1 ROps u11 u22 u33 u23 u13 u12 a b c al be ga +
   k_ucart_2_2 ROps u11 u22 u33 u23 u13 u12 a b c al be ga) / 3.
Proof.
  intros H. kunfold.
  destruct (Rlt_dec 0 u11) as [L | L]; [|reflexivity].
  destruct (Req_EM_T u33 0) as [E3 | E3]; cbn [negb]; [|reflexivity].
  destruct (Req_EM_T u23 0) as [E4 | E4]; cbn [negb]; [|reflexivity].
  destruct (Req_EM_T u13 0) as [E5 | E5]; cbn [negb]; [|reflexivity].
  destruct (Req_EM_T u12 0) as [E6 | E6]; cbn [negb]; [|reflexivity].
  exfalso. destruct H as [H | [H | [H | [H | H]]]]; auto.
Qed.

(* an isotropic atom or Q-peak (U11 > 0, U33 = U23 = U13 = U12 = 0) has Ueq = U11 *)
Lemma ueq_iso u11 u22 a b c al be ga : 0 < u11 ->
  k_ueq ROps u11 u22 0 0 0 0 a b c al be ga = u11.
Proof.
  intros H. kunfold.
  destruct (Rlt_dec 0 u11) as [L | L]; [|contradiction].
  destruct (Req_EM_T 0 0) as [E | E]; [cbn [negb]; reflexivity | exfalso; apply E; reflexivity].
Qed.

(* ---- positive definiteness is preserved by the chain (congruence with the regular matrix M N) ---- *)

(* abstract statement: T upper triangular with non-zero diagonal, n_i non-zero *)
Section Congruence.
  Variables t00 t01 t02 t11 t12 t22 n0 n1 n2 : R.
  Hypothesis H00 : t00 <> 0. Hypothesis H11 : t11 <> 0. Hypothesis H22 : t22 <> 0.
  Hypothesis N0 : n0 <> 0. Hypothesis N1 : n1 <> 0. Hypothesis N2 : n2 <> 0.
  (* w = N T^T x *)
  Definition w0 (x y z : R) := n0 * (t00 * x).
  Definition w1 (x y z : R) := n1 * (t01 * x + t11 * y).
  Definition w2 (x y z : R) := n2 * (t02 * x + t12 * y + t22 * z).

  Lemma w_injective x y z : w0 x y z = 0 -> w1 x y z = 0 -> w2 x y z = 0 -> x = 0 /\ y = 0 /\ z = 0.
  Proof.
    unfold w0, w1, w2. intros A B C.
    assert (X : x = 0).
    { apply Rmult_integral in A. destruct A as [A | A]; [contradiction|].
      apply Rmult_integral in A. destruct A as [A | A]; [contradiction | exact A]. }
    subst x.
    assert (Y : y = 0).
    { apply Rmult_integral in B. destruct B as [B | B]; [contradiction|].
      rewrite Rmult_0_r, Rplus_0_l in B.
      apply Rmult_integral in B. destruct B as [B | B]; [contradiction | exact B]. }
    subst y.
    repeat split; try reflexivity.
    apply Rmult_integral in C. destruct C as [C | C]; [contradiction|].
    rewrite !Rmult_0_r, !Rplus_0_l in C.
    apply Rmult_integral in C. destruct C as [C | C]; [contradiction | exact C].
  Qed.

  Lemma w_surjective a b c : exists x y z, w0 x y z = a /\ w1 x y z = b /\ w2 x y z = c.
  Proof.
    set (x := a / (n0 * t00)).
    set (y := (b / n1 - t01 * x) / t11).
    set (z := (c / n2 - t02 * x - t12 * y) / t22).
    exists x, y, z. unfold w0, w1, w2, z, y, x. repeat split; field; repeat split; assumption.
  Qed.

  Variables u11 u22 u33 u23 u13 u12 : R.      (* U *)
  Variables c11 c22 c33 c23 c13 c12 : R.      (* U(cart) *)
  Hypothesis Hq : forall x y z, qform c11 c22 c33 c23 c13 c12 x y z = qform u11 u22 u33 u23 u13 u12 (w0 x y z) (w1 x y z) (w2 x y z).

  Lemma pd_congruence_abs : pos_def u11 u22 u33 u23 u13 u12 <-> pos_def c11 c22 c33 c23 c13 c12.
  Proof.
    unfold pos_def. split; intros P x y z Hnz.
    - rewrite Hq. apply P. intros (A & B & C). apply Hnz. apply w_injective; assumption.
    - destruct (w_surjective x y z) as (x' & y' & z' & A & B & C).
      rewrite <- A, <- B, <- C. rewrite <- Hq. apply P.
      intros (X & Y & Z). subst x' y' z'. apply Hnz.
      unfold w0, w1, w2 in A, B, C. rewrite <- A, <- B, <- C. repeat split; ring.
  Qed.
End Congruence.

(* quadratic form of the code's U(cart) in terms of U *)
Lemma ucart_qform u11 u22 u33 u23 u13 u12 a b c al be ga x y z :
  qform (k_ucart_0_0 ROps u11 u22 u33 u23 u13 u12 a b c al be ga) (k_ucart_1_1 ROps u11 u22 u33 u23 u13 u12 a b c al be ga)
        (k_ucart_2_2 ROps u11 u22 u33 u23 u13 u12 a b c al be ga) (k_ucart_1_2 ROps u11 u22 u33 u23 u13 u12 a b c al be ga)
        (k_ucart_0_2 ROps u11 u22 u33 u23 u13 u12 a b c al be ga) (k_ucart_0_1 ROps u11 u22 u33 u23 u13 u12 a b c al be ga) x y z =
  qform u11 u22 u33 u23 u13 u12
    (w0 (k_ortho_m_0_0 ROps a b c al be ga) (k_cell_recip_0 ROps a b c al be ga) x y z)
    (w1 (k_ortho_m_0_1 ROps a b c al be ga) (k_ortho_m_1_1 ROps a b c al be ga) (k_cell_recip_1 ROps a b c al be ga) x y z)
    (w2 (k_ortho_m_0_2 ROps a b c al be ga) (k_ortho_m_1_2 ROps a b c al be ga) (k_ortho_m_2_2 ROps a b c al be ga) (k_cell_recip_2 ROps a b c al be ga) x y z).
Proof.
  unfold qform, w0, w1, w2. kunfold. gen_div. ring.
Qed.

Lemma recip_pos a b c al be ga : valid_cell a b c al be ga ->
  0 < k_cell_recip_0 ROps a b c al be ga /\ 0 < k_cell_recip_1 ROps a b c al be ga /\ 0 < k_cell_recip_2 ROps a b c al be ga.
Proof.
  unfold valid_cell, Dcell, rad. intros (Ha & Hb & Hc & Hsa & Hsb & Hsg & HD). kunfold.
  assert (V : 0 < a * b * c * sqrt (1 + 2 * cos (al * PI / 180) * cos (be * PI / 180) * cos (ga * PI / 180) -
                 cos (al * PI / 180) * cos (al * PI / 180) - cos (be * PI / 180) * cos (be * PI / 180) -
                 cos (ga * PI / 180) * cos (ga * PI / 180))).
  { repeat apply Rmult_lt_0_compat; try assumption. apply sqrt_lt_R0. exact HD. }
  repeat split; apply Rdiv_lt_0_compat; try exact V; repeat apply Rmult_lt_0_compat; assumption.
Qed.

(* an atom's U tensor is positive definite exactly when the Cartesian tensor the library derives from it is *)
Lemma pd_congruence u11 u22 u33 u23 u13 u12 a b c al be ga : valid_cell a b c al be ga ->
  pos_def u11 u22 u33 u23 u13 u12 <->
  pos_def (k_ucart_0_0 ROps u11 u22 u33 u23 u13 u12 a b c al be ga) (k_ucart_1_1 ROps u11 u22 u33 u23 u13 u12 a b c al be ga)
          (k_ucart_2_2 ROps u11 u22 u33 u23 u13 u12 a b c al be ga) (k_ucart_1_2 ROps u11 u22 u33 u23 u13 u12 a b c al be ga)
          (k_ucart_0_2 ROps u11 u22 u33 u23 u13 u12 a b c al be ga) (k_ucart_0_1 ROps u11 u22 u33 u23 u13 u12 a b c al be ga).
Proof.
  intros V.
  destruct (ortho_conventional a b c al be ga V) as (_ & _ & _ & P0 & P1 & P2).
  destruct (recip_pos a b c al be ga V) as (R0 & R1 & R2).
  eapply pd_congruence_abs with
    (t00 := k_ortho_m_0_0 ROps a b c al be ga) (t01 := k_ortho_m_0_1 ROps a b c al be ga) (t02 := k_ortho_m_0_2 ROps a b c al be ga)
    (t11 := k_ortho_m_1_1 ROps a b c al be ga) (t12 := k_ortho_m_1_2 ROps a b c al be ga) (t22 := k_ortho_m_2_2 ROps a b c al be ga)
    (n0 := k_cell_recip_0 ROps a b c al be ga) (n1 := k_cell_recip_1 ROps a b c al be ga) (n2 := k_cell_recip_2 ROps a b c al be ga);
    try lra.
  intros x y z. apply ucart_qform.
Qed.

(* ---- is_npd(): Sylvester's criterion on the Cartesian tensor (traced kernel k_npd) ---- *)

Definition minor2 (u11 u22 u33 u23 u13 u12 : R) : R := u11 * u22 - u12 * u12.
Definition minor3 (u11 u22 u33 u23 u13 u12 : R) : R :=
  u11 * (u22 * u33 - u23 * u23) - u12 * (u12 * u33 - u23 * u13) + u13 * (u12 * u23 - u22 * u13).

(* a symmetric 3x3 tensor is positive definite exactly when its three leading principal minors are positive *)
Lemma sylvester3 u11 u22 u33 u23 u13 u12 :
  pos_def u11 u22 u33 u23 u13 u12 <->
  (0 < u11 /\ 0 < minor2 u11 u22 u33 u23 u13 u12 /\ 0 < minor3 u11 u22 u33 u23 u13 u12).
Proof.
  unfold pos_def, minor2, minor3, qform. split.
  - intros P.
    assert (H1 : 0 < u11).
    { specialize (P 1 0 0). lapply P; [intros Q; lra | intros (A & _ & _); lra]. }
    assert (H2 : 0 < u11 * u22 - u12 * u12).
    { specialize (P (- u12) u11 0). lapply P; [intros Q | intros (_ & A & _); lra].
      assert (E : u11 * (u11 * u22 - u12 * u12) =
                  u11 * - u12 * - u12 + u22 * u11 * u11 + u33 * 0 * 0 + 2 * u23 * u11 * 0 + 2 * u13 * - u12 * 0 + 2 * u12 * - u12 * u11) by ring.
      rewrite <- E in Q. nra. }
    repeat split; try assumption.
    pose (v0 := u12 * u23 - u22 * u13). pose (v1 := u12 * u13 - u11 * u23). pose (v2 := u11 * u22 - u12 * u12).
    specialize (P v0 v1 v2). lapply P; [intros Q | intros (_ & _ & A); unfold v2 in A; lra].
    assert (E : v2 * (u11 * (u22 * u33 - u23 * u23) - u12 * (u12 * u33 - u23 * u13) + u13 * (u12 * u23 - u22 * u13)) =
                u11 * v0 * v0 + u22 * v1 * v1 + u33 * v2 * v2 + 2 * u23 * v1 * v2 + 2 * u13 * v0 * v2 + 2 * u12 * v0 * v1)
      by (unfold v0, v1, v2; ring).
    rewrite <- E in Q. unfold v2 in Q. nra.
  - intros (H1 & H2 & H3) x y z Hnz.
    set (m2 := u11 * u22 - u12 * u12) in *.
    set (d := u11 * (u22 * u33 - u23 * u23) - u12 * (u12 * u33 - u23 * u13) + u13 * (u12 * u23 - u22 * u13)) in *.
    set (q := u11 * x * x + u22 * y * y + u33 * z * z + 2 * u23 * y * z + 2 * u13 * x * z + 2 * u12 * x * y).
    set (A := u11 * u23 - u12 * u13).
    assert (E : u11 * m2 * q = m2 * ((u11 * x + u12 * y + u13 * z) * (u11 * x + u12 * y + u13 * z))
                               + (m2 * y + A * z) * (m2 * y + A * z) + u11 * d * (z * z))
      by (unfold m2, q, A, d; ring).
    assert (S1 : 0 <= (u11 * x + u12 * y + u13 * z) * (u11 * x + u12 * y + u13 * z)) by apply Rle_0_sqr.
    assert (S2 : 0 <= (m2 * y + A * z) * (m2 * y + A * z)) by apply Rle_0_sqr.
    assert (S3 : 0 <= z * z) by apply Rle_0_sqr.
    assert (Pm : 0 < u11 * m2) by (apply Rmult_lt_0_compat; assumption).
    assert (Pd : 0 < u11 * d) by (apply Rmult_lt_0_compat; assumption).
    assert (G : 0 < u11 * m2 * q).
    { rewrite E.
      destruct (Req_dec z 0) as [Z | Z].
      - subst z. destruct (Req_dec y 0) as [Y | Y].
        + subst y. assert (X : x <> 0) by (intros X; apply Hnz; split; [exact X | split; reflexivity]).
          assert (0 < (u11 * x) * (u11 * x)) by (apply Rsqr_pos_lt; apply Rmult_integral_contrapositive_currified; lra).
          replace (u11 * x + u12 * 0 + u13 * 0) with (u11 * x) by ring.
          replace (m2 * 0 + A * 0) with 0 by ring. nra.
        + assert (0 < (m2 * y) * (m2 * y)) by (apply Rsqr_pos_lt; apply Rmult_integral_contrapositive_currified; lra).
          replace (m2 * y + A * 0) with (m2 * y) by ring. nra.
      - assert (0 < z * z) by (apply Rsqr_pos_lt; exact Z). nra. }
    fold q. nra.
Qed.

(* the decision tree of the last line of is_npd: 1 = "not (minor1 > 0 and minor2 > 0 and minor3 > 0)" *)
Definition npd_of_minors (m1 m2 m3 : R) : R :=
  if Rlt_dec 0 m1 then if Rlt_dec 0 m2 then if Rlt_dec 0 m3 then 0 else 1 else 1 else 1.

Lemma npd_of_minors_spec m1 m2 m3 :
  (npd_of_minors m1 m2 m3 = 0 <-> (0 < m1 /\ 0 < m2 /\ 0 < m3)) /\ (npd_of_minors m1 m2 m3 = 0 \/ npd_of_minors m1 m2 m3 = 1).
Proof.
  unfold npd_of_minors. destruct (Rlt_dec 0 m1); [destruct (Rlt_dec 0 m2); [destruct (Rlt_dec 0 m3)|]|];
    (split; [split; [intros E; try lra; repeat split; assumption | intros (? & ? & ?); try reflexivity; try contradiction] | auto]).
Qed.
