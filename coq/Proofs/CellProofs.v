(* C12 — proofs about the traced cell kernels (coq/Gen/K_cell.v, regenerated from /repo). *)
From SX Require Import Base.RTac Gen.K_cell Spec.CellSpec.
Import ListNotations.
Open Scope R_scope.

Ltac cell_start :=
  unfold valid_cell, metric_len2, Vcell, Dcell, G00, G11, G22, G01, G02, G12, rad;
  intros (Ha & Hb & Hc & Hsa & Hsb & Hsg & HD); kunfold; unfold rad.

Ltac cell_trig al be ga :=
  let sg := fresh "sg" in let cg := fresh "cg" in let Hg := fresh "Hg" in
  let sb := fresh "sb" in let cb := fresh "cb" in let Hbe := fresh "Hbe" in
  let sa := fresh "sa" in let ca := fresh "ca" in let Hal := fresh "Hal" in
  abstract_trig ga sg cg Hg; abstract_trig be sb cb Hbe; abstract_trig al sa ca Hal; intros.

(* closed forms of the orthogonalisation matrix as the code computes it *)
Lemma ortho_entries a b c al be ga :
  k_ortho_m_0_0 ROps a b c al be ga = a /\
  k_ortho_m_0_1 ROps a b c al be ga = b * cos (rad ga) /\
  k_ortho_m_0_2 ROps a b c al be ga = c * cos (rad be) /\
  k_ortho_m_1_0 ROps a b c al be ga = 0 /\
  k_ortho_m_1_1 ROps a b c al be ga = b * sin (rad ga) /\
  k_ortho_m_1_2 ROps a b c al be ga = c * (cos (rad al) - cos (rad be) * cos (rad ga)) / sin (rad ga) /\
  k_ortho_m_2_0 ROps a b c al be ga = 0 /\
  k_ortho_m_2_1 ROps a b c al be ga = 0 /\
  k_ortho_m_2_2 ROps a b c al be ga = Vcell a b c al be ga / (a * b * sin (rad ga)).
Proof.
  unfold Vcell, Dcell, rad. kunfold. repeat split; try reflexivity; try (unfold Rdiv; rewrite ?Rmult_0_l; lra).
Qed.

(* a along x, b in the xy plane, positive diagonal *)
Lemma ortho_conventional a b c al be ga : valid_cell a b c al be ga ->
  k_ortho_m_1_0 ROps a b c al be ga = 0 /\ k_ortho_m_2_0 ROps a b c al be ga = 0 /\
  k_ortho_m_2_1 ROps a b c al be ga = 0 /\
  0 < k_ortho_m_0_0 ROps a b c al be ga /\ 0 < k_ortho_m_1_1 ROps a b c al be ga /\
  0 < k_ortho_m_2_2 ROps a b c al be ga.
Proof.
  intros V. destruct (ortho_entries a b c al be ga) as (E00 & E01 & E02 & E10 & E11 & E12 & E20 & E21 & E22).
  rewrite E00, E10, E11, E20, E21, E22.
  destruct V as (Ha & Hb & Hc & Hsa & Hsb & Hsg & HD).
  repeat split; try reflexivity; try assumption.
  - apply Rmult_lt_0_compat; assumption.
  - unfold Vcell. apply Rdiv_lt_0_compat.
    + repeat apply Rmult_lt_0_compat; try assumption. apply sqrt_lt_R0. exact HD.
    + repeat apply Rmult_lt_0_compat; assumption.
Qed.

Ltac sqrt_elim :=
  match goal with
  | Hr : 0 <= ?d -> ?r * ?r = ?d |- _ =>
    let H := fresh "Hsq" in assert (H : r * r = d) by (apply Hr; lra); clear Hr
  end.

(* M^T M = G : lengths from Cartesian coordinates equal lengths from the metric tensor *)
Lemma ortho_metric a b c al be ga : valid_cell a b c al be ga ->
  let m := fun i j => nth j (nth i [[k_ortho_m_0_0 ROps a b c al be ga; k_ortho_m_0_1 ROps a b c al be ga; k_ortho_m_0_2 ROps a b c al be ga];
                                    [k_ortho_m_1_0 ROps a b c al be ga; k_ortho_m_1_1 ROps a b c al be ga; k_ortho_m_1_2 ROps a b c al be ga];
                                    [k_ortho_m_2_0 ROps a b c al be ga; k_ortho_m_2_1 ROps a b c al be ga; k_ortho_m_2_2 ROps a b c al be ga]] []) 0 in
  let mtm := fun i j => m 0%nat i * m 0%nat j + m 1%nat i * m 1%nat j + m 2%nat i * m 2%nat j in
  mtm 0%nat 0%nat = G00 a b c al be ga /\ mtm 1%nat 1%nat = G11 a b c al be ga /\ mtm 2%nat 2%nat = G22 a b c al be ga /\
  mtm 0%nat 1%nat = G01 a b c al be ga /\ mtm 0%nat 2%nat = G02 a b c al be ga /\ mtm 1%nat 2%nat = G12 a b c al be ga.
Proof.
  cbv zeta. cbn [nth]. cell_start. cell_trig al be ga.
  (let r := fresh "r" in let Hr0 := fresh "Hr0" in let Hr := fresh "Hr" in abstract_sqrt r Hr0 Hr). sqrt_elim.
  repeat split; field_simplify_eq; try (repeat split; lra); simpl; clear - Hg Hsq; nsatz.
Qed.

(* the library's own metric_matrix attribute is G *)
Lemma metric_matrix_code a b c al be ga : valid_cell a b c al be ga ->
  k_ortho_metric_0_0 ROps a b c al be ga = G00 a b c al be ga /\
  k_ortho_metric_1_1 ROps a b c al be ga = G11 a b c al be ga /\
  k_ortho_metric_2_2 ROps a b c al be ga = G22 a b c al be ga /\
  k_ortho_metric_0_1 ROps a b c al be ga = G01 a b c al be ga /\
  k_ortho_metric_1_0 ROps a b c al be ga = G01 a b c al be ga /\
  k_ortho_metric_0_2 ROps a b c al be ga = G02 a b c al be ga /\
  k_ortho_metric_2_0 ROps a b c al be ga = G02 a b c al be ga /\
  k_ortho_metric_1_2 ROps a b c al be ga = G12 a b c al be ga /\
  k_ortho_metric_2_1 ROps a b c al be ga = G12 a b c al be ga.
Proof.
  cell_start. cell_trig al be ga.
  (let r := fresh "r" in let Hr0 := fresh "Hr0" in let Hr := fresh "Hr" in abstract_sqrt r Hr0 Hr). sqrt_elim.
  repeat split; field_simplify_eq; try (repeat split; lra); simpl; clear - Hg Hsq; nsatz.
Qed.

(* determinant = volume; the four volume routines agree *)
Lemma det_volume a b c al be ga : valid_cell a b c al be ga ->
  k_det ROps (k_ortho_m_0_0 ROps a b c al be ga) (k_ortho_m_0_1 ROps a b c al be ga) (k_ortho_m_0_2 ROps a b c al be ga)
             (k_ortho_m_1_0 ROps a b c al be ga) (k_ortho_m_1_1 ROps a b c al be ga) (k_ortho_m_1_2 ROps a b c al be ga)
             (k_ortho_m_2_0 ROps a b c al be ga) (k_ortho_m_2_1 ROps a b c al be ga) (k_ortho_m_2_2 ROps a b c al be ga)
  = Vcell a b c al be ga.
Proof.
  cell_start. cell_trig al be ga. (let r := fresh "r" in let Hr0 := fresh "Hr0" in let Hr := fresh "Hr" in abstract_sqrt r Hr0 Hr).
  field. repeat split; lra.
Qed.

Lemma volumes_agree a b c al be ga :
  k_ortho_V ROps a b c al be ga = Vcell a b c al be ga /\
  k_cell_volume ROps a b c al be ga = Vcell a b c al be ga /\
  k_vol_unitcell ROps a b c al be ga = Vcell a b c al be ga.
Proof.
  unfold Vcell, Dcell, rad. kunfold. repeat split; f_equal; f_equal; lra.
Qed.

(* inverse of the orthogonalisation matrix *)
Lemma ortho_inverse a b c al be ga : valid_cell a b c al be ga ->
  let m := fun i j => nth j (nth i [[k_ortho_m_0_0 ROps a b c al be ga; k_ortho_m_0_1 ROps a b c al be ga; k_ortho_m_0_2 ROps a b c al be ga];
                                    [k_ortho_m_1_0 ROps a b c al be ga; k_ortho_m_1_1 ROps a b c al be ga; k_ortho_m_1_2 ROps a b c al be ga];
                                    [k_ortho_m_2_0 ROps a b c al be ga; k_ortho_m_2_1 ROps a b c al be ga; k_ortho_m_2_2 ROps a b c al be ga]] []) 0 in
  let v := fun i j => nth j (nth i [[k_ortho_inv_0_0 ROps a b c al be ga; k_ortho_inv_0_1 ROps a b c al be ga; k_ortho_inv_0_2 ROps a b c al be ga];
                                    [k_ortho_inv_1_0 ROps a b c al be ga; k_ortho_inv_1_1 ROps a b c al be ga; k_ortho_inv_1_2 ROps a b c al be ga];
                                    [k_ortho_inv_2_0 ROps a b c al be ga; k_ortho_inv_2_1 ROps a b c al be ga; k_ortho_inv_2_2 ROps a b c al be ga]] []) 0 in
  let p := fun i j => v i 0%nat * m 0%nat j + v i 1%nat * m 1%nat j + v i 2%nat * m 2%nat j in
  p 0%nat 0%nat = 1 /\ p 0%nat 1%nat = 0 /\ p 0%nat 2%nat = 0 /\
  p 1%nat 0%nat = 0 /\ p 1%nat 1%nat = 1 /\ p 1%nat 2%nat = 0 /\
  p 2%nat 0%nat = 0 /\ p 2%nat 1%nat = 0 /\ p 2%nat 2%nat = 1.
Proof.
  cbv zeta. cbn [nth]. cell_start. cell_trig al be ga.
  (let r := fresh "r" in let Hr0 := fresh "Hr0" in let Hr := fresh "Hr" in abstract_sqrt r Hr0 Hr). sqrt_elim.
  assert (Hr1 : 0 < r) by nra.
  repeat split; field; repeat split; try lra; try nra.
Qed.

(* the cofactor inverse of any regular 3x3 matrix *)
Lemma inverse_general m1 m2 m3 m4 m5 m6 m7 m8 m9 :
  k_det ROps m1 m2 m3 m4 m5 m6 m7 m8 m9 <> 0 ->
  let v := fun i j => nth j (nth i [[k_inv_0_0 ROps m1 m2 m3 m4 m5 m6 m7 m8 m9; k_inv_0_1 ROps m1 m2 m3 m4 m5 m6 m7 m8 m9; k_inv_0_2 ROps m1 m2 m3 m4 m5 m6 m7 m8 m9];
                                    [k_inv_1_0 ROps m1 m2 m3 m4 m5 m6 m7 m8 m9; k_inv_1_1 ROps m1 m2 m3 m4 m5 m6 m7 m8 m9; k_inv_1_2 ROps m1 m2 m3 m4 m5 m6 m7 m8 m9];
                                    [k_inv_2_0 ROps m1 m2 m3 m4 m5 m6 m7 m8 m9; k_inv_2_1 ROps m1 m2 m3 m4 m5 m6 m7 m8 m9; k_inv_2_2 ROps m1 m2 m3 m4 m5 m6 m7 m8 m9]] []) 0 in
  let m := fun i j => nth j (nth i [[m1; m2; m3]; [m4; m5; m6]; [m7; m8; m9]] []) 0 in
  let p := fun i j => v i 0%nat * m 0%nat j + v i 1%nat * m 1%nat j + v i 2%nat * m 2%nat j in
  p 0%nat 0%nat = 1 /\ p 0%nat 1%nat = 0 /\ p 0%nat 2%nat = 0 /\
  p 1%nat 0%nat = 0 /\ p 1%nat 1%nat = 1 /\ p 1%nat 2%nat = 0 /\
  p 2%nat 0%nat = 0 /\ p 2%nat 1%nat = 0 /\ p 2%nat 2%nat = 1.
Proof.
  cbv zeta. cbn [nth]. kunfold. intros Hd.
  repeat split; field; exact Hd.
Qed.

(* the stand-alone conversion frac_to_cart agrees with the orthogonalisation matrix *)
Lemma f2c_agree x y z a b c al be ga : valid_cell a b c al be ga ->
  k_f2c_0 ROps x y z a b c al be ga = k_cell_o_apply_0 ROps x y z a b c al be ga /\
  k_f2c_1 ROps x y z a b c al be ga = k_cell_o_apply_1 ROps x y z a b c al be ga /\
  k_f2c_2 ROps x y z a b c al be ga = k_cell_o_apply_2 ROps x y z a b c al be ga.
Proof.
  cell_start. cell_trig al be ga.
  split; [|split].
  - field_simplify_eq; try lra; try ring.
  - field_simplify_eq; try (repeat split; lra); try ring.
  - (* c sin(be) sin(alpha-star) = V over a b sin(ga) *)
    match goal with |- context [sqrt (1 - ?q * ?q)] => set (cas := q) end.
    assert (E : 1 - cas * cas = (1 + 2 * ca * cb * cg - ca * ca - cb * cb - cg * cg) / ((sb * sg) * (sb * sg))).
    { unfold cas. field_simplify_eq; try (repeat split; lra). simpl. clear - Hg Hbe. nsatz. }
    assert (Hp : 0 < sb * sg) by (apply Rmult_lt_0_compat; assumption).
    rewrite E. rewrite sqrt_div_alt by (apply Rmult_lt_0_compat; exact Hp). rewrite sqrt_square by lra.
    field. repeat split; lra.
Qed.

(* cart_to_frac inverts frac_to_cart *)
Lemma c2f_f2c x y z a b c al be ga : valid_cell a b c al be ga ->
  k_c2f_0 ROps (k_f2c_0 ROps x y z a b c al be ga) (k_f2c_1 ROps x y z a b c al be ga) (k_f2c_2 ROps x y z a b c al be ga) a b c al be ga = x /\
  k_c2f_1 ROps (k_f2c_0 ROps x y z a b c al be ga) (k_f2c_1 ROps x y z a b c al be ga) (k_f2c_2 ROps x y z a b c al be ga) a b c al be ga = y /\
  k_c2f_2 ROps (k_f2c_0 ROps x y z a b c al be ga) (k_f2c_1 ROps x y z a b c al be ga) (k_f2c_2 ROps x y z a b c al be ga) a b c al be ga = z.
Proof.
  cell_start. cell_trig al be ga.
  match goal with |- context [sqrt (1 - ?q * ?q)] => set (cas := q) end.
  assert (E : 1 - cas * cas = (1 + 2 * ca * cb * cg - ca * ca - cb * cb - cg * cg) / ((sb * sg) * (sb * sg))).
  { unfold cas. field_simplify_eq; try (repeat split; lra). simpl. clear - Hg Hbe. nsatz. }
  assert (P : 0 < sqrt (1 - cas * cas)).
  { assert (Hp : 0 < sb * sg) by (apply Rmult_lt_0_compat; assumption).
    apply sqrt_lt_R0. rewrite E. apply Rdiv_lt_0_compat; [lra | apply Rmult_lt_0_compat; exact Hp]. }
  set (sas := sqrt (1 - cas * cas)) in *. clearbody sas. clear E. clearbody cas.
  repeat split; field; repeat split; lra.
Qed.

(* metric distance = Euclidean length of the Cartesian difference vector *)
Lemma dist_metric x1 y1 z1 x2 y2 z2 a b c al be ga : valid_cell a b c al be ga ->
  k_dist_cell ROps x1 y1 z1 x2 y2 z2 a b c al be ga =
  sqrt (metric_len2 a b c al be ga (x1 - x2) (y1 - y2) (z1 - z2)) /\
  metric_len2 a b c al be ga (x1 - x2) (y1 - y2) (z1 - z2) =
  (k_cell_o_apply_0 ROps (x1 - x2) (y1 - y2) (z1 - z2) a b c al be ga) * (k_cell_o_apply_0 ROps (x1 - x2) (y1 - y2) (z1 - z2) a b c al be ga) +
  (k_cell_o_apply_1 ROps (x1 - x2) (y1 - y2) (z1 - z2) a b c al be ga) * (k_cell_o_apply_1 ROps (x1 - x2) (y1 - y2) (z1 - z2) a b c al be ga) +
  (k_cell_o_apply_2 ROps (x1 - x2) (y1 - y2) (z1 - z2) a b c al be ga) * (k_cell_o_apply_2 ROps (x1 - x2) (y1 - y2) (z1 - z2) a b c al be ga).
Proof.
  cell_start. split.
  - f_equal. ring.
  - cell_trig al be ga.
    (let r := fresh "r" in let Hr0 := fresh "Hr0" in let Hr := fresh "Hr" in abstract_sqrt r Hr0 Hr). sqrt_elim.
    field_simplify_eq; try (repeat split; lra). simpl. clear - Hg Hsq. nsatz.
Qed.

(* SDM.vector_length is the metric length *)
Lemma vector_length_metric x y z a b c al be ga :
  k_vector_length ROps x y z a b c al be ga = sqrt (metric_len2 a b c al be ga x y z).
Proof.
  unfold metric_len2, G00, G11, G22, G01, G02, G12, rad. kunfold. f_equal. ring.
Qed.

(* reciprocal axis lengths: a* = bc sin(al)/V and a*^2 is the (1,1) entry of G^-1 *)
Lemma recip_lengths a b c al be ga : valid_cell a b c al be ga ->
  let V := Vcell a b c al be ga in
  k_cell_recip_0 ROps a b c al be ga = b * c * sin (rad al) / V /\
  k_cell_recip_1 ROps a b c al be ga = a * c * sin (rad be) / V /\
  k_cell_recip_2 ROps a b c al be ga = a * b * sin (rad ga) / V /\
  0 < k_cell_recip_0 ROps a b c al be ga /\
  k_cell_recip_0 ROps a b c al be ga * k_cell_recip_0 ROps a b c al be ga =
    (G11 a b c al be ga * G22 a b c al be ga - G12 a b c al be ga * G12 a b c al be ga) / (V * V).
Proof.
  cbv zeta. cell_start. cell_trig al be ga.
  (let r := fresh "r" in let Hr0 := fresh "Hr0" in let Hr := fresh "Hr" in abstract_sqrt r Hr0 Hr). sqrt_elim.
  assert (Hr1 : 0 < r) by nra.
  split; [reflexivity|]. split; [reflexivity|]. split; [reflexivity|]. split.
  - apply Rdiv_lt_0_compat; repeat apply Rmult_lt_0_compat; assumption.
  - field_simplify_eq; try (repeat split; lra). simpl. clear - Hal. nsatz.
Qed.

(* non-vacuity: an orthorhombic cell and a hexagonal-type cell (gamma = 120) are valid cells *)
Lemma rad90 : rad 90 = PI / 2. Proof. unfold rad. field. Qed.
Example valid_cell_ortho : valid_cell 10 11 12 90 90 90.
Proof.
  unfold valid_cell, Dcell. rewrite rad90, cos_PI2, sin_PI2. repeat split; lra.
Qed.
Lemma rad120 : rad 120 = 2 * (PI / 3). Proof. unfold rad. field. Qed.
Example valid_cell_hex : valid_cell 10 10 15 90 90 120.
Proof.
  unfold valid_cell, Dcell. rewrite rad90, rad120, cos_PI2, sin_PI2, cos_2PI3, sin_2PI3.
  assert (0 < sqrt 3) by (apply sqrt_lt_R0; lra).
  repeat split; lra.
Qed.
