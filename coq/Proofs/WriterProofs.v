(* C07 — order and position of the written items, verbatim raw lines, include files do not accumulate. *)
From SX Require Import Base.Prelude Base.Str Model.Wrap Model.Writer Model.Fmt.
Local Open Scope nat_scope.

Lemma write_from_app a : forall i del b, write_from i del (a ++ b) = write_from i del a ++ write_from (i + length a) del b.
Proof.
  induction a as [|x a IH]; intros i del b; cbn [app write_from length].
  - rewrite Nat.add_0_r. reflexivity.
  - rewrite IH, <- app_assoc. replace (S i + length a) with (i + S (length a)) by lia. reflexivity.
Qed.

(* order: what is written is the concatenation, in list order, of what each kept item contributes *)
Theorem write_order del items : write_file del items =
  concat (map (fun p => if existsb (Nat.eqb (fst p)) del then [] else item_lines (snd p)) (combine (seq 0 (length items)) items)).
Proof.
  unfold write_file. generalize 0 as i. induction items as [|x r IH]; intros i; [reflexivity|].
  cbn [write_from length seq combine map concat fst snd]. rewrite IH. reflexivity.
Qed.

Lemma wrap_short s : length s <= 80 -> wrap_lines s = [s].
Proof. intros H. unfold wrap_lines. replace (length s <? 81) with true; [reflexivity|]. symmetry. apply Nat.ltb_lt. lia. Qed.

(* a raw line of at most 80 characters is written byte for byte, between what precedes and what follows it *)
Theorem raw_verbatim del a s b : s <> [] -> length s <= 80 -> existsb (Nat.eqb (length a)) del = false ->
  write_file del (a ++ IRaw s :: b) = write_from 0 del a ++ [s] ++ write_from (S (length a)) del b.
Proof.
  intros Hs Hl Hd. unfold write_file. rewrite write_from_app. cbn [write_from Nat.add]. rewrite Hd.
  destruct s as [|c s]; [exfalso; apply Hs; reflexivity|]. cbn [item_lines]. rewrite wrap_short by exact Hl. reflexivity.
Qed.

Theorem deleted_not_written del a it b : existsb (Nat.eqb (length a)) del = true ->
  write_file del (a ++ it :: b) = write_from 0 del a ++ write_from (S (length a)) del b.
Proof. intros Hd. unfold write_file. rewrite write_from_app. cbn [write_from Nat.add]. rewrite Hd. reflexivity. Qed.

(* ---------- include files ---------- *)
Lemma own_app a b : own (a ++ b) = own a ++ own b.
Proof. unfold own. rewrite filter_app, map_app. reflexivity. Qed.
Lemma own_marked inc : own (map (fun x : str => (x, true)) inc) = [].
Proof. unfold own. induction inc as [|x r IH]; [reflexivity | exact IH]. Qed.

Lemma expand_own fuel fs : forall lines, own (expand fuel fs lines) = own lines.
Proof.
  induction fuel as [|f IH]; intros lines; [reflexivity|]. destruct lines as [|[l m] r]; [reflexivity|].
  cbn [expand]. assert (E : forall t, own ((l, m) :: t) = (if m then [] else [l]) ++ own t) by (intros t; unfold own; cbn; destruct m; reflexivity).
  destruct (include_name l) as [name|].
  - destruct (fs name) as [inc|]; rewrite !E, IH; [|reflexivity]. rewrite own_app, own_marked. reflexivity.
  - rewrite !E, IH. reflexivity.
Qed.

(* the lines that are written after reading a file with include files are exactly the lines of the file itself *)
Theorem includes_not_written fuel fs main : own (read_with_includes fuel fs main) = main.
Proof.
  unfold read_with_includes. rewrite expand_own. unfold own. induction main as [|l r IH]; [reflexivity|]. cbn. f_equal. exact IH.
Qed.

(* so any number of read / write cycles of the raw lines leaves the file as it is *)
Fixpoint cycles (n : nat) (fuel : nat) (fs : str -> option (list str)) (main : list str) : list str :=
  match n with O => main | S k => cycles k fuel fs (own (read_with_includes fuel fs main)) end.
Theorem include_cycles n fuel fs main : cycles n fuel fs main = main.
Proof. induction n as [|k IH]; [reflexivity|]. cbn [cycles]. rewrite includes_not_written. exact IH. Qed.

(* every line of an included file is present (marked) in the list that is parsed, right behind its include line *)
Theorem include_inserted f fs l name inc r : include_name l = Some name -> fs name = Some inc ->
  expand (S f) fs ((l, false) :: r) = (l, false) :: expand f fs (map (fun x => (x, true)) (until_end inc) ++ r).
Proof. intros A B. cbn [expand]. rewrite A, B. reflexivity. Qed.

(* an END instruction ends an include file: what is spliced in is the part in front of the first END line, and no END line of an
   include file ever reaches the parser (where it would end the res file) *)
Theorem until_end_spec inc :
  Forall (fun l => is_end_line l = false) (until_end inc) /\
  (until_end inc = inc \/ exists e rest, inc = until_end inc ++ e :: rest /\ is_end_line e = true).
Proof.
  induction inc as [|l r [F P]]; cbn [until_end].
  - split; [constructor | left; reflexivity].
  - destruct (is_end_line l) eqn:E.
    + split; [constructor | right; exists l, r; split; [reflexivity | exact E]].
    + split; [constructor; assumption|]. destruct P as [P | (e & rest & P & Q)].
      * left. rewrite P. reflexivity.
      * right. exists e, rest. split; [cbn [app]; rewrite <- P; reflexivity | exact Q].
Qed.

Example until_end_example :
  until_end [lit "DFIX 1.4 C1 O1"; lit "ENDS"; lit "end "; lit "C9 1 0 0 0"] = [lit "DFIX 1.4 C1 O1"; lit "ENDS"]
  /\ is_end_line (lit "END") = true /\ is_end_line (lit "End") = true /\ is_end_line (lit " END") = false /\ is_end_line (lit "EN") = false.
Proof. vm_compute. repeat split. Qed.

Example include_name_example :
  include_name (lit "+a.txt") = Some (lit "a.txt") /\ include_name (lit "++a.txt  ") = Some (lit "a.txt") /\ include_name (lit "+ dir/a b.txt ") = Some (lit "dir/a b.txt")
  /\ include_name (lit " +a.txt") = None /\ include_name (lit "C1 1 0 0 0") = None.
Proof. vm_compute. repeat split. Qed.

(* ---------- a printed number is printed the same way again ---------- *)
Local Open Scope Q_scope.
Theorem scaled_denote k n : scaled k (denote k n) = n.
Proof.
  unfold scaled, denote. assert (P : (0 < pow10Z k)%Z) by (unfold pow10Z; apply Z.pow_pos_nonneg; lia).
  assert (PQ : ~ inject_Z (pow10Z k) == 0). { intro H. apply (f_equal Qnum) in H || idtac. unfold Qeq in H. cbn in H. lia. }
  assert (E : inject_Z n / inject_Z (pow10Z k) * inject_Z (pow10Z k) == inject_Z n) by (field; exact PQ).
  assert (F : Qfloor (inject_Z n / inject_Z (pow10Z k) * inject_Z (pow10Z k)) = n) by (rewrite E; apply Qfloor_Z).
  rewrite F. assert (R : inject_Z n / inject_Z (pow10Z k) * inject_Z (pow10Z k) - inject_Z n == 0) by (rewrite E; ring).
  destruct (Qcompare _ _) eqn:C; try reflexivity.
  - apply Qeq_alt in C. rewrite R in C. discriminate.
  - apply Qgt_alt in C. rewrite R in C. discriminate.
Qed.

Example expand_example :
  let fs := fun n : str => if name_eqb n (lit "a.txt") then Some [lit "C9 1 0 0 0"; lit "+b.txt"; lit "SADI C9 C1"]
                           else if name_eqb n (lit "b.txt") then Some [lit "C8 1 0 0 0"] else None in
  let main := [lit "FVAR 1"; lit "+a.txt"; lit "C1 1 0 0 0"; lit "+missing"; lit "HKLF 4"] in
  map fst (read_with_includes 50 fs main) = [lit "FVAR 1"; lit "+a.txt"; lit "C9 1 0 0 0"; lit "+b.txt"; lit "C8 1 0 0 0"; lit "SADI C9 C1"; lit "C1 1 0 0 0";
                                              lit "+missing"; lit "HKLF 4"]
  /\ marked_positions (read_with_includes 50 fs main) = [2; 3; 4; 5]%nat /\ own (read_with_includes 50 fs main) = main.
Proof. cbv zeta. repeat split; vm_compute; reflexivity. Qed.
