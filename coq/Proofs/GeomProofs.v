(* C15 — proofs about the traced angle / torsion / distance kernels (coq/Gen/K_geom.v, K_cell.v). *)
From SX Require Import Base.RTac Gen.K_geom Gen.K_cell Spec.GeomSpec.
Open Scope R_scope.

Ltac vunfold := cbv beta iota zeta delta [torsion_spec torsion_cos torsion_of angle_spec dist_spec det3 dot cross vsub vadd vneg
                       move mv mrow1 mrow2 mrow3 mcol1 mcol2 mcol3 vx vy vz fst snd] in *.

(* ---------- the code computes the textbook quantities ---------- *)

Lemma torsion_matches_spec x0 y0 z0 x1 y1 z1 x2 y2 z2 x3 y3 z3 :
  k_torsion ROps x0 y0 z0 x1 y1 z1 x2 y2 z2 x3 y3 z3 =
  torsion_spec (x0, y0, z0) (x1, y1, z1) (x2, y2, z2) (x3, y3, z3).
Proof.
  kunfold. vunfold.
  match goal with |- (if negb (if Rlt_dec ?d 0 then true else false) then _ else _) = (if Rle_dec 0 ?e then _ else _) =>
    assert (E : d = e) by ring; rewrite E; clear E; set (dd := e) end.
  destruct (Rlt_dec dd 0) as [L | L]; destruct (Rle_dec 0 dd) as [G | G]; cbn [negb]; try lra.
  - unfold deg. reflexivity.
  - unfold deg. reflexivity.
Qed.

Lemma angle_matches_spec x1 y1 z1 x2 y2 z2 x3 y3 z3 :
  k_angle ROps x1 y1 z1 x2 y2 z2 x3 y3 z3 = angle_spec (x1, y1, z1) (x2, y2, z2) (x3, y3, z3).
Proof.
  kunfold. vunfold. unfold deg. rewrite !Rplus_0_l. reflexivity.
Qed.

Lemma distance_matches_spec x1 y1 z1 x2 y2 z2 :
  k_dist_cart ROps x1 y1 z1 x2 y2 z2 = dist_spec (x1, y1, z1) (x2, y2, z2).
Proof. kunfold. vunfold. f_equal; ring. Qed.

(* ---------- algebra of rigid motions ---------- *)

Lemma vec_eq (a b c a' b' c' : R) : a = a' -> b = b' -> c = c' -> (a, b, c) = (a', b', c').
Proof. intros; subst; reflexivity. Qed.

Lemma move_sub m t p q : vsub (move m t p) (move m t q) = mv m (vsub p q).
Proof. destruct p as [[px py] pz], q as [[qx qy] qz], t as [[tx ty] tz], m as [[[[a b] c] [[d e] f]] [[g h] i]].
  vunfold. apply vec_eq; ring. Qed.

Lemma dot_orth m v w : orthogonal m -> dot (mv m v) (mv m w) = dot v w.
Proof.
  destruct v as [[v1 v2] v3], w as [[w1 w2] w3], m as [[[[a b] c] [[d e] f]] [[g h] i]].
  unfold orthogonal. vunfold. intros (C11 & C22 & C33 & C12 & C13 & C23).
  replace ((a * v1 + b * v2 + c * v3) * (a * w1 + b * w2 + c * w3) +
           (d * v1 + e * v2 + f * v3) * (d * w1 + e * w2 + f * w3) +
           (g * v1 + h * v2 + i * v3) * (g * w1 + h * w2 + i * w3))
    with (v1 * w1 * (a * a + d * d + g * g) + v2 * w2 * (b * b + e * e + h * h) + v3 * w3 * (c * c + f * f + i * i)
          + (v1 * w2 + v2 * w1) * (a * b + d * e + g * h) + (v1 * w3 + v3 * w1) * (a * c + d * f + g * i)
          + (v2 * w3 + v3 * w2) * (b * c + e * f + h * i)) by ring.
  rewrite C11, C22, C33, C12, C13, C23. ring.
Qed.

Lemma det_mv m a b c : det3 (mv m a) (mv m b) (mv m c) = mdet m * det3 a b c.
Proof.
  destruct a as [[a1 a2] a3], b as [[b1 b2] b3], c as [[c1 c2] c3], m as [[[[p q] r] [[s t] u]] [[v w] x]].
  unfold mdet. vunfold. ring.
Qed.

(* Lagrange identities: everything the torsion needs is a function of the Gram matrix *)
Lemma cross_dot_cross a b c : dot (cross a b) (cross b c) = dot a b * dot b c - dot a c * dot b b.
Proof. destruct a as [[a1 a2] a3], b as [[b1 b2] b3], c as [[c1 c2] c3]. vunfold. ring. Qed.
Lemma cross_norm a b : dot (cross a b) (cross a b) = dot a a * dot b b - dot a b * dot a b.
Proof. destruct a as [[a1 a2] a3], b as [[b1 b2] b3]. vunfold. ring. Qed.

Lemma torsion_cos_gram v1 v2 v3 :
  torsion_cos v1 v2 v3 =
  (dot v1 v2 * dot v2 v3 - dot v1 v3 * dot v2 v2) /
  (sqrt (dot v1 v1 * dot v2 v2 - dot v1 v2 * dot v1 v2) * sqrt (dot v2 v2 * dot v3 v3 - dot v2 v3 * dot v2 v3)).
Proof. unfold torsion_cos. cbv zeta. rewrite cross_dot_cross, !cross_norm. reflexivity. Qed.

Lemma torsion_cos_orth m v1 v2 v3 : orthogonal m ->
  torsion_cos (mv m v1) (mv m v2) (mv m v3) = torsion_cos v1 v2 v3.
Proof. intros O. rewrite !torsion_cos_gram, !(dot_orth m _ _ O). reflexivity. Qed.

(* ---------- C15 statements about the specification ---------- *)

(* invariance under rigid motion of all four atoms *)
Lemma torsion_rigid m t p1 p2 p3 p4 : orthogonal m -> mdet m = 1 ->
  torsion_spec (move m t p1) (move m t p2) (move m t p3) (move m t p4) = torsion_spec p1 p2 p3 p4.
Proof.
  intros O D. unfold torsion_spec. cbv zeta. rewrite !move_sub.
  rewrite torsion_cos_orth by exact O. rewrite det_mv, D, Rmult_1_l. reflexivity.
Qed.

Lemma deg_opp x : deg (- x) = - deg x.
Proof. unfold deg. field. apply PI_neq0. Qed.

(* the mirror image has the opposite torsion angle (non-planar arrangement) *)
Lemma torsion_mirror m t p1 p2 p3 p4 : orthogonal m -> mdet m = -1 ->
  det3 (vsub p2 p1) (vsub p3 p2) (vsub p4 p3) <> 0 ->
  torsion_spec (move m t p1) (move m t p2) (move m t p3) (move m t p4) = - torsion_spec p1 p2 p3 p4.
Proof.
  intros O D NZ. unfold torsion_spec. cbv zeta. rewrite !move_sub.
  rewrite torsion_cos_orth by exact O. rewrite det_mv, D.
  set (d := det3 _ _ _) in *. set (c := torsion_cos _ _ _).
  unfold torsion_of. destruct (Rle_dec 0 (-1 * d)) as [A | A]; destruct (Rle_dec 0 d) as [B | B]; try lra.
  - rewrite deg_opp. ring.
  - rewrite deg_opp. ring.
Qed.

(* the four atoms given in reverse order give the same torsion angle *)
Lemma torsion_reverse p1 p2 p3 p4 : torsion_spec p4 p3 p2 p1 = torsion_spec p1 p2 p3 p4.
Proof.
  unfold torsion_spec. cbv zeta.
  set (v1 := vsub p2 p1). set (v2 := vsub p3 p2). set (v3 := vsub p4 p3).
  assert (E1 : vsub p3 p4 = vneg v3) by (unfold v3; destruct p3 as [[? ?] ?], p4 as [[? ?] ?]; vunfold; apply vec_eq; ring).
  assert (E2 : vsub p2 p3 = vneg v2) by (unfold v2; destruct p3 as [[? ?] ?], p2 as [[? ?] ?]; vunfold; apply vec_eq; ring).
  assert (E3 : vsub p1 p2 = vneg v1) by (unfold v1; destruct p1 as [[? ?] ?], p2 as [[? ?] ?]; vunfold; apply vec_eq; ring).
  rewrite E1, E2, E3. clearbody v1 v2 v3.
  assert (C : torsion_cos (vneg v3) (vneg v2) (vneg v1) = torsion_cos v1 v2 v3).
  { rewrite !torsion_cos_gram.
    destruct v1 as [[a1 a2] a3], v2 as [[b1 b2] b3], v3 as [[c1 c2] c3]. vunfold.
    f_equal; [ring|]. rewrite Rmult_comm. f_equal; f_equal; ring. }
  assert (Dd : det3 (vneg v3) (vneg v2) (vneg v1) = det3 v1 v2 v3).
  { destruct v1 as [[a1 a2] a3], v2 as [[b1 b2] b3], v3 as [[c1 c2] c3]. vunfold. ring. }
  rewrite C, Dd. reflexivity.
Qed.

(* range: [-180, 180]; -180 itself is never returned for a planar arrangement *)
Lemma deg_range x : 0 <= x <= PI -> 0 <= deg x <= 180.
Proof.
  intros [A B]. unfold deg. pose proof PI_RGT_0 as P.
  split.
  - apply Rmult_le_reg_r with PI; [lra|]. unfold Rdiv. rewrite Rmult_assoc, Rinv_l by lra. lra.
  - apply Rmult_le_reg_r with PI; [lra|]. unfold Rdiv. rewrite Rmult_assoc, Rinv_l by lra. lra.
Qed.

Lemma torsion_range p1 p2 p3 p4 : -180 <= torsion_spec p1 p2 p3 p4 <= 180.
Proof.
  unfold torsion_spec. cbv zeta. unfold torsion_of.
  set (c := torsion_cos _ _ _). pose proof (acos_bound c) as B. pose proof (deg_range (acos c) B) as D.
  destruct (Rle_dec 0 _); [lra | rewrite deg_opp; lra].
Qed.

Lemma torsion_planar_nonneg p1 p2 p3 p4 :
  det3 (vsub p2 p1) (vsub p3 p2) (vsub p4 p3) = 0 -> 0 <= torsion_spec p1 p2 p3 p4 <= 180.
Proof.
  intros Z. unfold torsion_spec. cbv zeta. unfold torsion_of. rewrite Z.
  destruct (Rle_dec 0 0) as [A | A]; [|lra]. apply deg_range. apply acos_bound.
Qed.

(* sign convention: the sign is the sign of the triple product BA-reversed . (BC x CD) *)
Lemma torsion_sign p1 p2 p3 p4 :
  (0 < det3 (vsub p2 p1) (vsub p3 p2) (vsub p4 p3) -> 0 <= torsion_spec p1 p2 p3 p4) /\
  (det3 (vsub p2 p1) (vsub p3 p2) (vsub p4 p3) < 0 -> torsion_spec p1 p2 p3 p4 <= 0).
Proof.
  unfold torsion_spec. cbv zeta. unfold torsion_of.
  set (c := torsion_cos _ _ _). pose proof (acos_bound c) as B. pose proof (deg_range (acos c) B) as D.
  split; intros H; destruct (Rle_dec 0 _); try lra. rewrite deg_opp. lra.
Qed.

(* textbook configuration: B at the origin, C on +z, A on +x, D = C + y: viewed from B towards C the
   rotation from BA to CD is clockwise by 90 degrees *)
Example torsion_clockwise_90 : torsion_spec (1, 0, 0) (0, 0, 0) (0, 0, 1) (0, 1, 1) = 90.
Proof.
  unfold torsion_spec. cbv zeta. unfold torsion_of.
  assert (Dd : det3 (vsub (0, 0, 0) (1, 0, 0)) (vsub (0, 0, 1) (0, 0, 0)) (vsub (0, 1, 1) (0, 0, 1)) = 1) by (vunfold; ring).
  assert (C : torsion_cos (vsub (0, 0, 0) (1, 0, 0)) (vsub (0, 0, 1) (0, 0, 0)) (vsub (0, 1, 1) (0, 0, 1)) = 0).
  { vunfold. unfold Rdiv. apply Rmult_eq_0_compat_r. ring. }
  rewrite Dd, C. destruct (Rle_dec 0 1); [|lra]. rewrite acos_0. unfold deg. field. apply PI_neq0.
Qed.

(* angle: symmetric in its end atoms, within [0, 180], invariant under rigid motion and reflection *)
Lemma angle_symmetric p1 p2 p3 : angle_spec p3 p2 p1 = angle_spec p1 p2 p3.
Proof.
  unfold angle_spec. cbv zeta. f_equal. f_equal.
  set (u := vsub p2 p1). set (w := vsub p2 p3).
  f_equal; [destruct u as [[? ?] ?], w as [[? ?] ?]; vunfold; ring | apply Rmult_comm].
Qed.

Lemma angle_range p1 p2 p3 : 0 <= angle_spec p1 p2 p3 <= 180.
Proof. unfold angle_spec. cbv zeta. apply deg_range. apply acos_bound. Qed.

Lemma angle_rigid m t p1 p2 p3 : orthogonal m ->
  angle_spec (move m t p1) (move m t p2) (move m t p3) = angle_spec p1 p2 p3.
Proof.
  intros O. unfold angle_spec. cbv zeta. rewrite !move_sub, !(dot_orth m _ _ O). reflexivity.
Qed.

Lemma distance_rigid m t p q : orthogonal m -> dist_spec (move m t p) (move m t q) = dist_spec p q.
Proof. intros O. unfold dist_spec. rewrite !move_sub, (dot_orth m _ _ O). reflexivity. Qed.

(* non-vacuity: rotation by 90 degrees about z is a proper orthogonal matrix *)
Example rot90_orthogonal : orthogonal ((0, -1, 0), (1, 0, 0), (0, 0, 1)) /\ mdet ((0, -1, 0), (1, 0, 0), (0, 0, 1)) = 1.
Proof. unfold orthogonal, mdet. vunfold. repeat split; ring. Qed.
