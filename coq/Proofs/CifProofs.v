(* C18 — the CIF states the same structure as the model. *)
From SX Require Import Base.Prelude Base.Str Model.Symm Spec.SymmSpec Proofs.SymmProofs Model.Cif.

Lemma decorated_lower s : decorated s (lower s).
Proof. induction s as [|c s IH]; [constructor | apply dec_lower; exact IH]. Qed.

(* the xyz string of a component denotes exactly the coefficients and the translation it was printed from *)
Theorem cif_comp_denotes cx cy cz t :
  unit_coef cx = true -> unit_coef cy = true -> unit_coef cz = true -> printed_trans_wf t = true ->
  parse_component (cif_comp (cx, cy, cz) t) = Some (cx, cy, cz, trans_value t).
Proof.
  intros Hx Hy Hz Ht. unfold cif_comp, to_shelxl_comp.
  rewrite (parse_component_correct _ _ (print_comp_wf cx cy cz t Hx Hy Hz Ht) (decorated_lower _)).
  rewrite print_comp_denote by assumption. reflexivity.
Qed.

(* every atom that is not a Q-peak has its row, rows are in file order, Q-peaks have none *)
Theorem atom_loop_rows l : atom_loop l = map atom_row (filter (fun a => negb (ca_qpeak a)) l).
Proof. reflexivity. Qed.
Theorem atom_loop_complete l a : In a l -> ca_qpeak a = false -> In (atom_row a) (atom_loop l).
Proof. intros I Q. unfold atom_loop. apply in_map. apply filter_In. split; [exact I | rewrite Q; reflexivity]. Qed.
Theorem atom_loop_sound l r : In r (atom_loop l) -> exists a, In a l /\ ca_qpeak a = false /\ r = atom_row a.
Proof.
  unfold atom_loop. intros H. apply in_map_iff in H. destruct H as (a & <- & F). apply filter_In in F. destruct F as [I Q].
  exists a. split; [exact I|]. split; [destruct (ca_qpeak a); [discriminate | reflexivity] | reflexivity].
Qed.
Theorem atom_loop_count l : length (atom_loop l) = length (filter (fun a => negb (ca_qpeak a)) l).
Proof. unfold atom_loop. apply map_length. Qed.

Theorem aniso_loop_complete l a : In a l -> ca_qpeak a = false -> ca_iso a = false -> In (aniso_row a) (aniso_loop l).
Proof. intros I Q S. unfold aniso_loop. apply in_map. apply filter_In. split; [exact I | rewrite Q, S; reflexivity]. Qed.
Theorem aniso_loop_sound l r : In r (aniso_loop l) -> exists a, In a l /\ ca_qpeak a = false /\ ca_iso a = false /\ r = aniso_row a
                                                        /\ In (atom_row a) (atom_loop l).
Proof.
  unfold aniso_loop. intros H. apply in_map_iff in H. destruct H as (a & <- & F). apply filter_In in F. destruct F as [I B].
  apply andb_prop in B. destruct B as [Q S]. exists a.
  assert (Q' : ca_qpeak a = false) by (destruct (ca_qpeak a); [discriminate | reflexivity]).
  assert (S' : ca_iso a = false) by (destruct (ca_iso a); [discriminate | reflexivity]).
  repeat split; try assumption. apply atom_loop_complete; assumption.
Qed.

Example cif_comp_example :
  string_of_list_ascii (cif_comp (-1, 1, 0)%Z (Some (None, NFrac (lit "2") (lit "3")))) = "2/3-x+y"%string
  /\ parse_component (lit "2/3-x+y") = Some ((-1)%Z, 1%Z, 0%Z, 2 # 3).
Proof. split; vm_compute; reflexivity. Qed.
