(* C11 — proofs about the operator-list model (Model/Latt.v) against Spec/LattSpec.v. *)
From SX Require Import Base.Str Model.Symm Model.Latt Spec.LattSpec Proofs.SymmProofs.
From Coq Require Import QArith Qabs Permutation Lqa.

Lemma block_images n g : block (latt_vectors n) (0 <? n)%Z g = images n g.
Proof.
  unfold block, images. destruct (0 <? n)%Z; [|rewrite app_nil_r; reflexivity].
  f_equal.
Qed.

(* ---------- reflexivity of the comparison ---------- *)
Lemma row_eqb_refl r : row_eqb r r = true.
Proof. destruct r as [[a b] c]. unfold row_eqb. rewrite !Z.eqb_refl. reflexivity. Qed.
Lemma trans_close_refl a : trans_close a a = true.
Proof. apply (trans_close_sound a a 0). ring. Qed.
Lemma all2_refl {A} (f : A -> A -> bool) l : (forall x, f x x = true) -> all2 f l l = true.
Proof. intros R. induction l as [|x r IH]; cbn [all2]; [reflexivity|]. rewrite R, IH. reflexivity. Qed.
Lemma op_eqb_refl o : op_eqb o o = true.
Proof. unfold op_eqb. rewrite (all2_refl row_eqb _ row_eqb_refl), (all2_refl trans_close _ trans_close_refl). reflexivity. Qed.

(* ---------- insertion with duplicate suppression ---------- *)
Inductive NoDupEq : list symop -> Prop :=
| nde_nil : NoDupEq []
| nde_snoc l o : NoDupEq l -> existsb (fun x => op_eqb x o) l = false -> NoDupEq (l ++ [o]).

Lemma insert_sub acc o x : In x (insert_op acc o) -> In x acc \/ x = o.
Proof.
  unfold insert_op. destruct (existsb _ acc); intros I; [left; exact I|].
  apply in_app_or in I. destruct I as [I | [I | []]]; [left; exact I | right; symmetry; exact I].
Qed.
Lemma insert_keeps acc o x : In x acc -> In x (insert_op acc o).
Proof. unfold insert_op. destruct (existsb _ acc); intros I; [exact I | apply in_or_app; left; exact I]. Qed.
Lemma insert_covers acc o : exists x, In x (insert_op acc o) /\ op_eqb x o = true.
Proof.
  unfold insert_op. destruct (existsb (fun x => op_eqb x o) acc) eqn:E.
  - apply existsb_exists in E. exact E.
  - exists o. split; [apply in_or_app; right; left; reflexivity | apply op_eqb_refl].
Qed.
Lemma insert_nodupeq acc o : NoDupEq acc -> NoDupEq (insert_op acc o).
Proof. unfold insert_op. intros N. destruct (existsb _ acc) eqn:E; [exact N | constructor; assumption]. Qed.

Lemma fold_sub L : forall acc x, In x (fold_left insert_op L acc) -> In x acc \/ In x L.
Proof.
  induction L as [|o r IH]; intros acc x I; cbn [fold_left] in I; [left; exact I|].
  destruct (IH _ _ I) as [J | J]; [|right; right; exact J].
  destruct (insert_sub _ _ _ J) as [K | ->]; [left; exact K | right; left; reflexivity].
Qed.
Lemma fold_keeps L : forall acc x, In x acc -> In x (fold_left insert_op L acc).
Proof. induction L as [|o r IH]; intros acc x I; cbn [fold_left]; [exact I | apply IH; apply insert_keeps; exact I]. Qed.
Lemma fold_covers L : forall acc e, In e L -> exists x, In x (fold_left insert_op L acc) /\ op_eqb x e = true.
Proof.
  induction L as [|o r IH]; intros acc e I; [destruct I|]. cbn [fold_left]. destruct I as [-> | I].
  - destruct (insert_covers acc e) as (x & Ix & Ex). exists x. split; [apply fold_keeps; exact Ix | exact Ex].
  - apply IH. exact I.
Qed.
Lemma fold_nodupeq L : forall acc, NoDupEq acc -> NoDupEq (fold_left insert_op L acc).
Proof. induction L as [|o r IH]; intros acc N; cbn [fold_left]; [exact N | apply IH; apply insert_nodupeq; exact N]. Qed.

(* the same three facts for the fold over generators *)
Lemma gen_sub lt ce G : forall acc x, In x (fold_left (append_with_lattice lt ce) G acc) ->
  In x acc \/ In x (flat_map (block lt ce) G).
Proof.
  induction G as [|g r IH]; intros acc x I; cbn [fold_left flat_map] in *; [left; exact I|].
  destruct (IH _ _ I) as [J | J]; [|right; apply in_or_app; right; exact J].
  unfold append_with_lattice in J. destruct (fold_sub _ _ _ J) as [K | K]; [left; exact K | right; apply in_or_app; left; exact K].
Qed.
Lemma gen_keeps lt ce G : forall acc x, In x acc -> In x (fold_left (append_with_lattice lt ce) G acc).
Proof.
  induction G as [|g r IH]; intros acc x I; cbn [fold_left]; [exact I|]. apply IH. unfold append_with_lattice. apply fold_keeps. exact I.
Qed.
Lemma gen_covers lt ce G : forall acc e, In e (flat_map (block lt ce) G) ->
  exists x, In x (fold_left (append_with_lattice lt ce) G acc) /\ op_eqb x e = true.
Proof.
  induction G as [|g r IH]; intros acc e I; cbn [flat_map fold_left] in *; [destruct I|].
  apply in_app_or in I. destruct I as [I | I].
  - destruct (fold_covers _ acc e I) as (x & Ix & Ex). exists x. split; [apply gen_keeps; exact Ix | exact Ex].
  - apply IH. exact I.
Qed.
Lemma gen_nodupeq lt ce G : forall acc, NoDupEq acc -> NoDupEq (fold_left (append_with_lattice lt ce) G acc).
Proof.
  induction G as [|g r IH]; intros acc N; cbn [fold_left]; [exact N|]. apply IH. unfold append_with_lattice. apply fold_nodupeq. exact N.
Qed.

Lemma expected_blocks n symms : expected n symms = flat_map (block (latt_vectors n) (0 <? n)%Z) (identity :: symms).
Proof. unfold expected. apply flat_map_ext. intros g. symmetry. apply block_images. Qed.

Lemma start_in_expected n symms x :
  In x (if (0 <? n)%Z then [identity; inverted identity] else [identity]) -> In x (expected n symms).
Proof.
  intros I. unfold expected. cbn [flat_map]. apply in_or_app. left. unfold images.
  destruct (0 <? n)%Z.
  - destruct I as [<- | [<- | []]]; [left; reflexivity|]. apply in_or_app. right. cbn [map]. left. reflexivity.
  - destruct I as [<- | []]. left. reflexivity.
Qed.

Lemma start_nodupeq (c : bool) : NoDupEq (if c then [identity; inverted identity] else [identity]).
Proof.
  destruct c.
  - change [identity; inverted identity] with (([] ++ [identity]) ++ [inverted identity]).
    constructor; [constructor; [constructor | reflexivity] | vm_compute; reflexivity].
  - change [identity] with ([] ++ [identity]). constructor; [constructor | reflexivity].
Qed.

(* C11: every operator of the list is one of the expected operators *)
Theorem symmcards_sound n symms o : In o (symmcards n symms) -> In o (expected n symms).
Proof.
  unfold symmcards. intros I. destruct (gen_sub _ _ _ _ _ I) as [J | J].
  - apply start_in_expected. exact J.
  - rewrite expected_blocks. exact J.
Qed.

(* C11: every expected operator is present, modulo whole lattice translations *)
Theorem symmcards_complete n symms e : In e (expected n symms) ->
  exists o, In o (symmcards n symms) /\ op_eqb o e = true.
Proof. rewrite expected_blocks. unfold symmcards. apply gen_covers. Qed.

(* C11: no two operators of the list agree modulo whole lattice translations (each occurs once) *)
Theorem symmcards_nodup n symms : NoDupEq (symmcards n symms).
Proof. unfold symmcards. apply gen_nodupeq. apply start_nodupeq. Qed.

Lemma NoDup_snoc {A} (l : list A) (o : A) : NoDup l -> ~ In o l -> NoDup (l ++ [o]).
Proof.
  intros N NI. induction N as [|x r Hx N IH]; cbn [app].
  - constructor; [intros []|constructor].
  - constructor.
    + intros I. apply in_app_or in I. destruct I as [I | [I | []]]; [exact (Hx I)|]. subst. apply NI. left. reflexivity.
    + apply IH. intros I. apply NI. right. exact I.
Qed.

Lemma nodupeq_nodup l : NoDupEq l -> NoDup l.
Proof.
  induction 1 as [|l o N IH E]; [constructor|]. apply NoDup_snoc; [exact IH|].
  intros I. assert (T : existsb (fun x => op_eqb x o) l = true) by (apply existsb_exists; exists o; split; [exact I | apply op_eqb_refl]).
  congruence.
Qed.

(* C11: with distinct generators the list has exactly (1 + #SYMM) x centring multiplicity x (2 if centrosymmetric) members *)
Lemma expected_length n symms : length (expected n symms) = expected_count n symms.
Proof.
  unfold expected, expected_count, centring_mult.
  assert (L : forall g, length (images n g) = (S (length (latt_vectors n)) * (if (0 <? n)%Z then 2 else 1))%nat).
  { intros g. unfold images. rewrite app_length. cbn [length]. rewrite map_length.
    destruct (0 <? n)%Z; cbn [length]; rewrite ?map_length; cbn [length]; rewrite ?map_length; lia. }
  assert (F : forall G, length (flat_map (images n) G) = (length G * (S (length (latt_vectors n)) * (if (0 <? n)%Z then 2 else 1)))%nat).
  { induction G as [|g r IH]; cbn [flat_map length]; [reflexivity|]. rewrite app_length, L, IH. lia. }
  rewrite F. cbn [length]. reflexivity.
Qed.

Theorem symmcards_count n symms : generators_distinct n symms ->
  length (symmcards n symms) = expected_count n symms.
Proof.
  intros [ND H]. rewrite <- expected_length. apply Permutation_length. apply NoDup_Permutation.
  - apply nodupeq_nodup. apply symmcards_nodup.
  - exact ND.
  - intros x. split; [apply symmcards_sound|].
    intros I. destruct (symmcards_complete n symms x I) as (o & Io & E).
    rewrite <- (H o x (symmcards_sound _ _ _ Io) I E). exact Io.
Qed.

(* non-vacuity and regression witnesses *)
Definition two_one_screw : symop := {| so_rows := [(-1, 0, 0); (0, 1, 0); (0, 0, -1)]%Z; so_trans := [0; 1#2; 1#2] |}.
Example p21c_list : length (symmcards 1 [two_one_screw]) = 4%nat /\ length (symmcards 2 []) = 4%nat
                    /\ length (symmcards (-4) [two_one_screw]) = 8%nat.
Proof. vm_compute. repeat split. Qed.
