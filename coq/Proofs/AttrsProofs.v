(* C16 — the positional unpacking puts every numeric parameter into the slot the syntax assigns and reports an
   omitted parameter as its default; the L.S./CGLS setter changes the cycle number and nothing else. *)
From SX Require Import Base.Str Model.Attrs.
From Coq Require Import QArith.

Lemma unpack_length ds p : length (unpack ds p) = length ds.
Proof. revert p. induction ds as [|d r IH]; intros p; [reflexivity|]. destruct p; cbn [unpack length]; rewrite IH; reflexivity. Qed.

(* a parameter that was written is reported at its position *)
Theorem unpack_given ds p i x : nth_error p i = Some x -> (i < length ds)%nat -> nth_error (unpack ds p) i = Some (Some x).
Proof.
  revert p i. induction ds as [|d r IH]; intros p i H L; [cbn in L; lia|].
  destruct p as [|y q]; [destruct i; discriminate|]. destruct i as [|i]; cbn [unpack nth_error] in *.
  - injection H as ->. reflexivity.
  - apply IH; [exact H | cbn in L; lia].
Qed.

(* an omitted parameter is reported as its documented default (or as not given) *)
Theorem unpack_omitted ds p i d : (length p <= i)%nat -> nth_error ds i = Some d -> nth_error (unpack ds p) i = Some d.
Proof.
  revert p i. induction ds as [|d0 r IH]; intros p i L H; [destruct i; discriminate|].
  destruct p as [|y q].
  - destruct i as [|i]; cbn [unpack nth_error] in *; [exact H|]. apply (IH [] i); [cbn; lia | exact H].
  - destruct i as [|i]; [cbn in L; lia|]. cbn [unpack nth_error] in *. apply IH; [cbn in L; lia | exact H].
Qed.

(* HKLF with all thirteen numbers *)
(* set(text) on a used object gives what reading text gives, whatever the object held before *)
Theorem set_is_parse ds old p : set_again ds old p = unpack ds p.
Proof.
  unfold set_again. revert p. induction ds as [|d ds IH]; intros p; [reflexivity|].
  destruct p as [|x r]; cbn [assign_given unpack]; rewrite IH; reflexivity.
Qed.

(* ... which the constructors without defaults did not: ABIN 1.25 1.75 set to ABIN 0.75 kept n2 = 1.75 *)
Theorem stale_attribute_refuted : exists old p, assign_given old p <> unpack [None; None] p.
Proof. exists [Some (5 # 4); Some (7 # 4)], [3 # 4]. cbn. intros H. discriminate H. Qed.

Theorem hklf_full n s m1 m2 m3 m4 m5 m6 m7 m8 m9 sm m :
  hklf [n; s; m1; m2; m3; m4; m5; m6; m7; m8; m9; sm; m] =
  {| hk_n := n; hk_s := s; hk_matrix := [m1; m2; m3; m4; m5; m6; m7; m8; m9]; hk_sm := sm; hk_m := m |}.
Proof. reflexivity. Qed.
Theorem hklf_short n s : hklf [n; s] = {| hk_n := n; hk_s := s; hk_matrix := [1; 0; 0; 0; 1; 0; 0; 0; 1]; hk_sm := 1; hk_m := 0 |}
                         /\ hk_s (hklf [n]) = 1 /\ hk_n (hklf []) = 0.
Proof. repeat split. Qed.

Theorem twin_forms a b c d e f g h i n :
  twin [a; b; c; d; e; f; g; h; i; n] = ([a; b; c; d; e; f; g; h; i], n) /\
  twin [a; b; c; d; e; f; g; h; i] = ([a; b; c; d; e; f; g; h; i], 2) /\ twin [] = ([-1; 0; 0; 0; -1; 0; 0; 0; -1], 2).
Proof. repeat split. Qed.

Theorem zerr_slots z a b c al be ga : zerr [z; a; b; c; al; be; ga] = (z, [a; b; c; al; be; ga]).
Proof. reflexivity. Qed.

(* the setter: the text written afterwards denotes the new cycle number and the old nrf / nextra *)
Theorem ls_setter l n : ls_denote (ls_set_number l n) = (n, snd (fst (ls_denote l)), snd (ls_denote l)).
Proof.
  unfold ls_set_number, ls_denote, ls_tokens, ls_parse. cbn [ls_n ls_nrf ls_nextra].
  destruct (ls_nrf l) as [r|], (ls_nextra l) as [e|]; cbn [nth nth_error fst snd]; try reflexivity.
  destruct (Z.eqb_spec r 0); cbn [nth nth_error fst snd]; [subst; reflexivity | reflexivity].
Qed.

(* DEFS: the defaults of the restraints it governs follow sd, sf, su, ss *)
Theorem defs_defaults d :
  restraint_defaults "DFIX" (Some d) = [None; Some (sd d)] /\ restraint_defaults "SADI" (Some d) = [Some (sd d)] /\
  restraint_defaults "SAME" (Some d) = [Some (sd d); Some (sd d * 2)] /\ restraint_defaults "CHIV" (Some d) = [Some 0; Some (sf d)] /\
  restraint_defaults "FLAT" (Some d) = [Some (sf d)] /\ restraint_defaults "DELU" (Some d) = [Some (su d); Some (su d)] /\
  restraint_defaults "SIMU" (Some d) = [Some (ss d); Some (ss d * 2); Some 2].
Proof. repeat split. Qed.
