(* C06 — wrap_line / the writer produce well-formed SHELXL lines (Spec/WrapSpec.v) for every text. *)
From SX Require Import Base.Prelude Base.Str Model.Lex Model.Wrap Spec.WrapSpec.
Local Open Scope nat_scope.

(* ---------- runs ---------- *)
Definition chunk_ok (k : bool) (c : str) : Prop := c <> [] /\ Forall (fun x => is_blank x = k) c.
Fixpoint alt_from (k : bool) (cs : list str) : Prop :=
  match cs with [] => True | c :: r => chunk_ok k c /\ alt_from (negb k) r end.

Lemma chunks_nil s : chunks s = [] -> s = [].
Proof.
  destruct s as [|c r]; [reflexivity|]. cbn [chunks]. destruct (chunks r) as [|[|d q] rest]; try discriminate.
  destruct (Bool.eqb _ _); discriminate.
Qed.

Lemma chunks_concat s : concat (chunks s) = s.
Proof.
  induction s as [|c r IH]; [reflexivity|]. cbn [chunks].
  destruct (chunks r) as [|[|d q] rest] eqn:E.
  - apply chunks_nil in E. subst. reflexivity.
  - cbn [concat app] in *. rewrite <- IH. reflexivity.
  - destruct (Bool.eqb _ _); cbn [concat app] in *; rewrite <- IH; reflexivity.
Qed.

Lemma chunks_cons c r : chunks (c :: r) =
  match chunks r with
  | (d :: q) :: rest => if Bool.eqb (is_blank c) (is_blank d) then (c :: d :: q) :: rest else [c] :: (d :: q) :: rest
  | [] :: rest => [c] :: rest
  | [] => [[c]]
  end.
Proof. reflexivity. Qed.

Lemma chunks_alt c r : alt_from (is_blank c) (chunks (c :: r)).
Proof.
  revert c. induction r as [|d r IH]; intros c.
  - cbn. repeat split; [discriminate | constructor; [reflexivity | constructor]].
  - specialize (IH d). rewrite chunks_cons. destruct (chunks (d :: r)) as [|ch rest].
    { cbn. repeat split; [discriminate | constructor; [reflexivity | constructor]]. }
    destruct IH as [[Hne Hall] Hrest].
    destruct ch as [|d' q]; [exfalso; apply Hne; reflexivity|].
    assert (Hd : is_blank d' = is_blank d) by (inversion Hall; assumption).
    destruct (Bool.eqb (is_blank c) (is_blank d')) eqn:B.
    + apply Bool.eqb_prop in B. cbn [alt_from]. split.
      * split; [discriminate|]. constructor; [reflexivity|]. rewrite B, Hd. exact Hall.
      * rewrite B, Hd. exact Hrest.
    + cbn [alt_from]. split; [split; [discriminate | constructor; [reflexivity | constructor]]|].
      assert (N : negb (is_blank c) = is_blank d).
      { rewrite <- Hd. destruct (is_blank c), (is_blank d'); try reflexivity; discriminate. }
      rewrite N. split; [split; assumption | exact Hrest].
Qed.

Lemma chunks_alt_ex s : exists k, alt_from k (chunks s).
Proof. destruct s as [|c r]; [exists true; exact I | exists (is_blank c); apply chunks_alt]. Qed.

Lemma alt_app k xs ys : alt_from k (xs ++ ys) -> alt_from k xs /\ exists k', alt_from k' ys.
Proof.
  revert k. induction xs as [|x xs IH]; intros k H; cbn [app alt_from] in *.
  - split; [exact I | exists k; exact H].
  - destruct H as [Hx Hr]. destruct (IH _ Hr) as [A B]. split; [split; assumption | exact B].
Qed.

(* ---------- split_ws on runs ---------- *)
Definition nonblank_chunk (c : str) : bool := match c with x :: _ => negb (is_blank x) | [] => false end.

Lemma is_blank_eq x : is_blank x = true -> x = " "%char.
Proof. unfold is_blank. intros H. apply Ascii.eqb_eq in H. exact H. Qed.

Lemma split_aux_blank_run c cur s : Forall (fun x => is_blank x = true) c -> c <> [] -> cur <> [] ->
  split_aux cur (c ++ s) = rev cur :: split_aux [] s.
Proof.
  intros H. revert cur. induction H as [|x c Hx Hc IH]; intros cur Hne Hcur; [exfalso; apply Hne; reflexivity|].
  cbn [app split_aux]. rewrite Hx. destruct cur as [|y cur]; [exfalso; apply Hcur; reflexivity|].
  f_equal. clear IH Hne. induction Hc as [|z c Hz Hc IH2]; [reflexivity|]. cbn [app split_aux]. rewrite Hz. exact IH2.
Qed.

Lemma split_blank_run c s : Forall (fun x => is_blank x = true) c -> split_aux [] (c ++ s) = split_aux [] s.
Proof. intros H. induction H as [|x c Hx Hc IH]; [reflexivity|]. cbn [app split_aux]. rewrite Hx. exact IH. Qed.

Lemma split_aux_token_run c cur s : Forall (fun x => is_blank x = false) c -> split_aux cur (c ++ s) = split_aux (rev c ++ cur) s.
Proof.
  intros H. revert cur. induction H as [|x c Hx Hc IH]; intros cur; [reflexivity|].
  cbn [app split_aux]. rewrite Hx. rewrite IH. cbn [rev]. rewrite <- app_assoc. reflexivity.
Qed.

Definition ends_token (s : str) : Prop := s = [] \/ exists r, s = " "%char :: r.

Lemma split_token_run c s : Forall (fun x => is_blank x = false) c -> c <> [] -> ends_token s ->
  split_aux [] (c ++ s) = c :: split_aux [] s.
Proof.
  intros H Hne E. rewrite split_aux_token_run by exact H. rewrite app_nil_r.
  assert (R : rev c <> []). { intro Z. apply Hne. rewrite <- (rev_involutive c), Z. reflexivity. }
  destruct E as [-> | [r ->]].
  - cbn [split_aux]. destruct (rev c) eqn:Q; [exfalso; apply R; reflexivity|]. rewrite <- Q, rev_involutive. reflexivity.
  - cbn [split_aux]. change (is_blank " "%char) with true. cbn iota.
    destruct (rev c) eqn:Q; [exfalso; apply R; reflexivity|]. rewrite <- Q, rev_involutive. reflexivity.
Qed.

Lemma alt_true_ends r : alt_from true r -> ends_token (concat r).
Proof.
  destruct r as [|c r]; [left; reflexivity|]. intros [[Hne Hall] _]. right.
  destruct c as [|x c]; [exfalso; apply Hne; reflexivity|]. inversion Hall as [|? ? Hx ?]; subst.
  apply is_blank_eq in Hx. subst. cbn [concat app]. eexists. reflexivity.
Qed.

Lemma split_chunks cs : forall k, alt_from k cs -> split_ws (concat cs) = filter nonblank_chunk cs.
Proof.
  unfold split_ws. induction cs as [|c r IH]; intros k H; [reflexivity|].
  destruct H as [[Hne Hall] Hr]. cbn [concat filter]. destruct k.
  - rewrite split_blank_run by exact Hall. destruct c as [|x c]; [exfalso; apply Hne; reflexivity|].
    inversion Hall as [|? ? Hx ?]; subst. cbn [nonblank_chunk]. rewrite Hx. cbn [negb]. exact (IH _ Hr).
  - rewrite split_token_run; [|exact Hall | exact Hne | apply alt_true_ends; exact Hr].
    destruct c as [|x c]; [exfalso; apply Hne; reflexivity|].
    inversion Hall as [|? ? Hx ?]; subst. cbn [nonblank_chunk]. rewrite Hx. cbn [negb]. f_equal. exact (IH _ Hr).
Qed.

Lemma split_aux_app_blank a b : forall cur, split_aux cur (a ++ " "%char :: b) = split_aux cur a ++ split_aux [] b.
Proof.
  induction a as [|x a IH]; intros cur.
  - cbn [app split_aux]. change (is_blank " "%char) with true. cbn iota. destruct cur; reflexivity.
  - cbn [app split_aux]. destruct (is_blank x); [destruct cur|]; rewrite ?IH; reflexivity.
Qed.
Lemma split_app_blank a b : split_ws (a ++ " "%char :: b) = split_ws a ++ split_ws b.
Proof. apply split_aux_app_blank. Qed.

(* ---------- greedy filling ---------- *)
Definition total (p : list str) : nat := length (concat p).
Lemma total_cons c p : total (c :: p) = length c + total p.
Proof. unfold total. cbn [concat]. rewrite app_length. reflexivity. Qed.
Lemma total_rev p : total (rev p) = total p.
Proof.
  unfold total. induction p as [|c p IH]; [reflexivity|]. cbn [rev concat]. rewrite concat_app, !app_length, IH. cbn [concat].
  rewrite app_nil_r. lia.
Qed.

Lemma fill_concat cs : forall w w' cur len, concat (fill w w' cur len cs) = rev cur ++ cs.
Proof.
  induction cs as [|c r IH]; intros w w' cur len; cbn [fill].
  - destruct cur; [reflexivity|]. cbn [concat]. rewrite !app_nil_r. reflexivity.
  - destruct (len + length c <=? w).
    + rewrite IH. cbn [rev]. rewrite <- app_assoc. reflexivity.
    + destruct cur as [|d cur].
      * cbn [concat]. rewrite IH. reflexivity.
      * cbn [concat]. destruct (length c <=? w'); [|cbn [concat]]; rewrite IH; reflexivity.
Qed.

Definition bounded (w w' : nat) (l : list (list str)) : Prop :=
  match l with [] => True | p :: r => total p <= w /\ Forall (fun q => total q <= w') r end.
Lemma bounded_all w' l : bounded w' w' l -> Forall (fun q => total q <= w') l.
Proof. destruct l; [constructor|]. intros [A B]. constructor; assumption. Qed.

Lemma fill_bound cs : forall w w' cur len, Forall (fun c => length c <= w') cs -> w' <= w -> len = total cur -> len <= w ->
  bounded w w' (fill w w' cur len cs).
Proof.
  induction cs as [|c r IH]; intros w w' cur len Hall Hw Hlen Hle; cbn [fill].
  - destruct cur; [exact I|]. cbn [bounded]. rewrite total_rev. split; [lia | constructor].
  - pose proof (Forall_inv Hall) as Hc. pose proof (Forall_inv_tail Hall) as Hr. cbv beta in Hc. destruct (len + length c <=? w) eqn:E.
    + apply Nat.leb_le in E. apply IH; try assumption. rewrite total_cons. lia.
    + destruct cur as [|d cur].
      * split; [unfold total; cbn [concat]; rewrite app_nil_r; lia|].
        apply bounded_all. apply IH; [exact Hr | lia | reflexivity | lia].
      * cbn [bounded]. rewrite total_rev. split; [lia|]. apply Nat.leb_le in Hc. rewrite Hc. cbv iota. apply Nat.leb_le in Hc.
        apply bounded_all. apply IH; [exact Hr | lia | unfold total; cbn [concat]; rewrite app_nil_r; reflexivity | exact Hc].
Qed.

Lemma fill_nonempty cs : forall w w' cur len, Forall (fun p => p <> []) (fill w w' cur len cs).
Proof.
  induction cs as [|c r IH]; intros w w' cur len; cbn [fill].
  - destruct cur as [|d cur]; constructor; [|constructor]. intro Z. apply (f_equal (@length _)) in Z.
    rewrite rev_length in Z. discriminate.
  - destruct (len + length c <=? w); [apply IH|]. destruct cur as [|d cur].
    + constructor; [discriminate | apply IH].
    + constructor.
      * intro Z. apply (f_equal (@length _)) in Z. rewrite rev_length in Z. discriminate.
      * destruct (length c <=? w'); [apply IH | constructor; [discriminate | apply IH]].
Qed.

(* ---------- the physical lines ---------- *)
Definition pre (first : bool) : str := if first then [] else " "%char :: indent.

Lemma mark_lines_length ps : forall first, Forall (fun q => total q <= 75) ps ->
  (first = true -> match ps with [] => True | p :: _ => total p <= 77 end) ->
  Forall (fun l => length l <= 80) (mark_lines first ps).
Proof.
  induction ps as [|p r IH]; intros first Hall H1; [constructor|].
  inversion Hall as [|? ? Hp Hr]; subst. cbn [mark_lines]. destruct r as [|p2 r].
  - constructor; [|constructor]. rewrite app_length. fold (total p). destruct first; cbn [length indent lit]; [specialize (H1 eq_refl)|]; cbn in *; lia.
  - constructor.
    + rewrite !app_length. fold (total p). destruct first; cbn [length]; [specialize (H1 eq_refl)|]; cbn in *; lia.
    + apply IH; [exact Hr | discriminate].
Qed.

Lemma mark_lines_cont ps : forall first, cont_ok first (mark_lines first ps).
Proof.
  induction ps as [|p r IH]; intros first; [exact I|]. cbn [mark_lines]. destruct r as [|p2 r].
  - cbn [cont_ok]. destruct first; [left; reflexivity | right; eexists; reflexivity].
  - specialize (IH false). remember (mark_lines false (p2 :: r)) as rest eqn:R.
    assert (N : rest <> []). { subst rest. cbn [mark_lines]. destruct r; discriminate. }
    destruct rest as [|l2 rest]; [exfalso; apply N; reflexivity|]. cbn [cont_ok]. repeat split.
    + destruct first; [left; reflexivity | right; eexists; reflexivity].
    + exists ((if first then [] else " "%char :: indent) ++ concat p). rewrite <- app_assoc. reflexivity.
    + exact IH.
Qed.

Lemma before_absent c s : ~ In c s -> before c s = s.
Proof. intros H. unfold before. rewrite partition_absent by exact H. reflexivity. Qed.
Lemma before_found c a b : ~ In c a -> before c (a ++ c :: b) = a.
Proof. intros H. unfold before. rewrite partition_found by exact H. reflexivity. Qed.

Lemma before_cont x : ~ In cEq x -> before cEq (x ++ cont_mark) = x ++ [" "%char].
Proof.
  intros H. change cont_mark with ([" "%char] ++ cEq :: []). rewrite app_assoc. apply before_found.
  rewrite in_app_iff. intros [A|[A|[]]]; [exact (H A) | discriminate].
Qed.

Lemma pre_no_eq first : ~ In cEq (pre first).
Proof. destruct first; cbn; intros H; [exact H|]. repeat (destruct H as [H|H]; [discriminate|]). exact H. Qed.

Lemma logical_mark ps : forall first, ~ In cEq (concat (concat ps)) ->
  split_ws (logical (mark_lines first ps)) = flat_map (fun p => split_ws (concat p)) ps.
Proof.
  induction ps as [|p r IH]; intros first H; [reflexivity|].
  cbn [concat] in H. rewrite concat_app, in_app_iff in H.
  assert (Hp : ~ In cEq (pre first ++ concat p)).
  { rewrite in_app_iff. intros [A|A]; [exact (pre_no_eq first A) | apply H; left; exact A]. }
  cbn [mark_lines flat_map]. destruct r as [|p2 r].
  - unfold logical. cbn [map concat]. rewrite app_nil_r. fold (pre first). rewrite before_absent by exact Hp.
    rewrite app_nil_r. destruct first; cbn [pre app]; [reflexivity|].
    change (" "%char :: indent ++ concat p) with ((" "%char :: indent) ++ concat p).
    unfold split_ws. rewrite split_blank_run; [reflexivity|]. repeat constructor.
  - unfold logical. cbn [map concat]. fold (pre first). rewrite (app_assoc (pre first)). rewrite before_cont by exact Hp.
    fold (logical (mark_lines false (p2 :: r))).
    rewrite <- !app_assoc. cbn [app]. rewrite app_assoc. rewrite split_app_blank. f_equal.
    + destruct first; cbn [pre app]; [reflexivity|].
      change (" "%char :: indent ++ concat p) with ((" "%char :: indent) ++ concat p).
      unfold split_ws. rewrite split_blank_run; [reflexivity|]. repeat constructor.
    + apply IH. intro A. apply H. right. exact A.
Qed.

Lemma pieces_tokens ps : forall k, alt_from k (concat ps) ->
  flat_map (fun p => split_ws (concat p)) ps = filter nonblank_chunk (concat ps).
Proof.
  induction ps as [|p r IH]; intros k H; [reflexivity|]. cbn [flat_map concat] in *.
  destruct (alt_app _ _ _ H) as [A [k' B]]. rewrite filter_app. f_equal; [exact (split_chunks _ _ A) | exact (IH _ B)].
Qed.

(* ---------- wrap_line ---------- *)
Lemma pieces_concat s : concat (pieces s) = chunks s.
Proof. unfold pieces. rewrite fill_concat. reflexivity. Qed.

Theorem wrap_breaks_between_runs s : concat (pieces s) = chunks s /\ concat (chunks s) = s /\ exists k, alt_from k (chunks s).
Proof. split; [apply pieces_concat | split; [apply chunks_concat | apply chunks_alt_ex]]. Qed.

Lemma mark_tokens s : ~ In cEq s -> split_ws (logical (mark_lines true (pieces s))) = split_ws s.
Proof.
  intros H. destruct (chunks_alt_ex s) as [k K].
  rewrite logical_mark by (rewrite pieces_concat, chunks_concat; exact H).
  rewrite (pieces_tokens _ k) by (rewrite pieces_concat; exact K).
  rewrite pieces_concat. rewrite <- (split_chunks _ k K), chunks_concat. reflexivity.
Qed.

Theorem wrap_tokens s : ~ In cEq s -> tokens (wrap_lines s) = split_ws s.
Proof.
  intros H. unfold tokens, wrap_lines. destruct (length s <? 81).
  - unfold logical. cbn [map concat]. rewrite app_nil_r, before_absent by exact H. reflexivity.
  - destruct (pieces s) as [|p ps] eqn:E.
    + assert (Z : chunks s = []) by (rewrite <- pieces_concat, E; reflexivity). apply chunks_nil in Z. subst. reflexivity.
    + rewrite <- E. apply mark_tokens. exact H.
Qed.

Theorem wrap_length s : runs_short s -> Forall (fun l => length l <= max_columns) (wrap_lines s).
Proof.
  intros H. unfold wrap_lines. destruct (length s <? 81) eqn:L.
  - apply Nat.ltb_lt in L. constructor; [unfold max_columns; lia | constructor].
  - change (pieces s) with (fill 77 75 [] 0 (chunks s)).
    assert (B : bounded 77 75 (fill 77 75 [] 0 (chunks s))) by (apply fill_bound; [exact H | lia | reflexivity | lia]).
    destruct (fill 77 75 [] 0 (chunks s)) as [|p ps] eqn:E; [constructor; [cbn; unfold max_columns; lia | constructor]|].
    destruct B as [B1 B2]. destruct ps as [|p2 ps].
    + cbn [mark_lines]. constructor; [|constructor]. cbn [app]. fold (total p). unfold max_columns. lia.
    + cbn [mark_lines]. constructor.
      * cbn [app]. rewrite app_length. fold (total p). cbn. unfold max_columns. lia.
      * apply (mark_lines_length (p2 :: ps) false); [exact B2 | discriminate].
Qed.

Theorem wrap_cont s : cont_ok true (wrap_lines s).
Proof.
  unfold wrap_lines. destruct (length s <? 81); [left; reflexivity|].
  destruct (pieces s) eqn:E; [left; reflexivity | rewrite <- E; apply mark_lines_cont].
Qed.

Theorem wrap_wellformed s : runs_short s -> ~ In cEq s -> wellformed s (wrap_lines s).
Proof. intros A B. split; [apply wrap_length; exact A | split; [apply wrap_cont | apply wrap_tokens; exact B]]. Qed.

(* the writer: all physical lines of a written file *)
Theorem write_length items : Forall (fun parts => Forall runs_short parts) items ->
  Forall (fun l => length l <= max_columns) (write_lines items).
Proof.
  intros H. unfold write_lines. induction H as [|parts items Hp _ IH]; [constructor|]. cbn [flat_map].
  apply Forall_app. split; [|exact IH]. unfold write_item. induction Hp as [|s parts Hs _ IH2]; [constructor|].
  cbn [flat_map]. apply Forall_app. split; [apply wrap_length; exact Hs | exact IH2].
Qed.

Example wrap_example :
  let s := lit "SADI 0.02 C1 C2 C3 C4 C5 C6 C7 C8 C9 C10 C11 C12 C13 C14 C15 C16 C17 C18 C19 C20 C21 C22 C23 C24" in
  wrap_lines s = [lit "SADI 0.02 C1 C2 C3 C4 C5 C6 C7 C8 C9 C10 C11 C12 C13 C14 C15 C16 C17 C18 C19  =";
                  lit "   C20 C21 C22 C23 C24"] /\ runs_short s /\ ~ In cEq s.
Proof.
  cbv zeta. split; [vm_compute; reflexivity|]. split.
  - unfold runs_short, run_limit. apply Forall_forall. intros c Hc. vm_compute in Hc.
    repeat (destruct Hc as [Hc|Hc]; [subst c; cbn; lia|]). destruct Hc.
  - intro H. vm_compute in H. repeat (destruct H as [H|H]; [discriminate|]). exact H.
Qed.

(* ---------- multi-line objects: no bare numbers, no empty keyword lines ---------- *)
Lemma groups_fuel_spec {A} n : (1 <= n) -> forall fuel (l : list A), length l <= fuel ->
  concat (groups_fuel fuel n l) = l /\ Forall (fun g => 1 <= length g <= n) (groups_fuel fuel n l).
Proof.
  intros Hn. induction fuel as [|f IH]; intros l Hl.
  - destruct l; [split; [reflexivity | constructor] | cbn in Hl; lia].
  - destruct l as [|x l]; [split; [reflexivity | constructor]|].
    cbn [groups_fuel]. destruct (IH (skipn n (x :: l))) as [C F].
    { rewrite skipn_length. cbn [length] in *. lia. }
    split.
    + cbn [concat]. rewrite C. apply firstn_skipn.
    + constructor; [|exact F]. rewrite firstn_length. cbn [length]. lia.
Qed.

Theorem fvar_lines_shape vals :
  exists gs, fvar_lines vals = map (fun g => lit "FVAR   " ++ join (lit "   ") g) gs /\ concat gs = vals
             /\ Forall (fun g => (1 <= length g <= 7)%nat) gs.
Proof.
  exists (groups 7 vals). split; [reflexivity|]. unfold groups. apply groups_fuel_spec; lia.
Qed.

(* with include files: exactly the free variables of the file itself, in order, whatever the positions of the included ones *)
Theorem fvars_written_shape fv :
  exists gs, fvars_written fv = map (fun g => lit "FVAR   " ++ join (lit "   ") g) gs
             /\ concat gs = map fst (filter (fun x => negb (snd x)) fv)
             /\ Forall (fun g => (1 <= length g <= 7)%nat) gs.
Proof. unfold fvars_written. apply fvar_lines_shape. Qed.

Theorem fvars_written_ignores_included fv1 fv2 :
  map fst (filter (fun x => negb (snd x)) fv1) = map fst (filter (fun x => negb (snd x)) fv2) -> fvars_written fv1 = fvars_written fv2.
Proof. unfold fvars_written. intros E. rewrite E. reflexivity. Qed.

Example fvars_written_example :
  fvars_written [(lit "0.5", false); (lit "0.61", false); (lit "0.31", true); (lit "0.32", true); (lit "0.71", false)]
  = [lit "FVAR   0.5   0.61   0.71"].
Proof. vm_compute. reflexivity. Qed.

Definition sfac_params (e : sfac_entry) : list str := match e with SPlain x => [x] | SExp v => v end.
Definition sfac_line (g : list str) : str := lit "SFAC " ++ join (lit "  ") g.

Lemma rev_cons_nonnil {A} (c : A) cur : rev (c :: cur) <> [].
Proof. intro Z. apply (f_equal (@length _)) in Z. rewrite rev_length in Z. discriminate. Qed.

Lemma sfac_lines_aux_shape es : forall cur, Forall (fun e => sfac_params e <> []) es ->
  exists gs, sfac_lines_aux cur es = map sfac_line gs /\ concat gs = rev cur ++ flat_map sfac_params es /\ Forall (fun g => g <> []) gs.
Proof.
  induction es as [|e es IH]; intros cur H.
  - cbn [sfac_lines_aux flat_map]. destruct cur as [|c cur].
    + exists []. split; [reflexivity | split; [reflexivity | constructor]].
    + exists [rev (c :: cur)]. split; [reflexivity | split].
      * cbn [concat]. rewrite !app_nil_r. reflexivity.
      * constructor; [apply rev_cons_nonnil | constructor].
  - pose proof (Forall_inv H) as He. pose proof (Forall_inv_tail H) as Ht. destruct e as [x|v]; cbn [sfac_lines_aux flat_map sfac_params].
    + destruct (IH (x :: cur) Ht) as (gs & A & B & C). exists gs. split; [exact A | split; [|exact C]].
      rewrite B. cbn [rev]. rewrite <- app_assoc. reflexivity.
    + destruct (IH [] Ht) as (gs & A & B & C). destruct cur as [|c cur].
      * exists (v :: gs). cbn [app map]. rewrite A. split; [reflexivity | split].
        -- cbn [concat rev app]. rewrite B. reflexivity.
        -- constructor; [exact He | exact C].
      * exists (rev (c :: cur) :: v :: gs). cbn [app map]. rewrite A. split; [reflexivity | split].
        -- cbn [concat]. rewrite B. reflexivity.
        -- constructor; [apply rev_cons_nonnil | constructor; [exact He | exact C]].
Qed.

Theorem sfac_lines_shape es : Forall (fun e => sfac_params e <> []) es ->
  exists gs, sfac_lines es = map sfac_line gs /\ concat gs = flat_map sfac_params es /\ Forall (fun g => g <> []) gs.
Proof. intros H. destruct (sfac_lines_aux_shape es [] H) as (gs & A & B & C). exists gs. repeat split; assumption. Qed.
