(* Tactics for theorems about traced kernels over the reals. *)
From Coq Require Export Reals Lra Lia Psatz Nsatz List.
From SX Require Export Base.Num.
Open Scope R_scope.

Ltac kunfold :=
  autounfold with kern;
  cbv beta delta [o_add o_sub o_mul o_div o_neg o_abs o_const o_sqrt o_cos o_sin o_acos o_rad o_deg
                  o_floor o_ltb o_eqb ROps Rconst] iota zeta.

(* replace sin/cos of x*PI/180 by variables s, c with s*s + c*c = 1 *)
Ltac abstract_trig x s c H :=
  pose proof (sin2_cos2 (x * PI / 180)) as H; unfold Rsqr in H;
  generalize dependent (sin (x * PI / 180)); intro s;
  generalize dependent (cos (x * PI / 180)); intro c.

(* replace sqrt d (d syntactically in the goal) by a variable r with 0 <= r and (0 <= d -> r*r = d) *)
Ltac abstract_sqrt r Hr0 Hr :=
  match goal with
  | |- context [sqrt ?d] =>
    pose proof (sqrt_pos d) as Hr0; pose proof (sqrt_sqrt d) as Hr;
    generalize dependent (sqrt d); intro r; intros
  end.

Ltac nsatz_pow := simpl; nsatz.

Lemma sq_eq_nonneg (x y : R) : 0 <= x -> 0 <= y -> x * x = y * y -> x = y.
Proof. intros Hx Hy H. nra. Qed.
