(* Shared imports and small list helpers used by all models. *)
From Coq Require Export ZArith QArith Qabs Qround List Bool Lia.
Export ListNotations.
#[global] Open Scope Z_scope.

(* Python list indexing: negative indices count from the end; out of range = None (IndexError). *)
Definition py_index {A} (l : list A) (i : Z) : option A :=
  let n := Z.of_nat (length l) in
  if i <? 0 then (if 0 <=? n + i then nth_error l (Z.to_nat (n + i)) else None)
  else nth_error l (Z.to_nat i).

Definition Qeqb_tol (tol a b : Q) : bool := Qle_bool (Qabs (a - b)) tol.

Fixpoint bad_indices_from {A} (chk : A -> bool) (l : list A) (i : nat) : list nat :=
  match l with
  | [] => []
  | x :: r => if chk x then bad_indices_from chk r (S i) else i :: bad_indices_from chk r (S i)
  end.
Definition bad_indices {A} (chk : A -> bool) (l : list A) : list nat := bad_indices_from chk l 0%nat.
