(* Ops instance over primitive (IEEE binary64) floats, used only to execute the numeric models on the
   implementation's inputs inside Coq (mirrored execution for the correspondence checks); never in a theorem.
   Trigonometric functions are not available: models that need them take the values as data. *)
From Coq Require Import ZArith PrimFloat Uint63 List.
From SX Require Import Base.Num.

Definition f_two52 : float := 4503599627370496%float.
(* floor for |x| < 2^51: round to nearest integer by adding and subtracting 2^52, then correct *)
Definition f_floor (x : float) : float :=
  if PrimFloat.ltb x 0%float then
    let r := PrimFloat.sub (PrimFloat.add (PrimFloat.opp x) f_two52) f_two52 in   (* round(-x) *)
    let r := if PrimFloat.ltb r (PrimFloat.opp x) then PrimFloat.add r 1%float else r in   (* ceil(-x) *)
    PrimFloat.opp r
  else
    let r := PrimFloat.sub (PrimFloat.add x f_two52) f_two52 in
    if PrimFloat.ltb x r then PrimFloat.sub r 1%float else r.

Definition f_of_Z (n : Z) : float :=
  match n with
  | Z0 => 0%float
  | Zpos p => PrimFloat.of_uint63 (Uint63.of_Z (Zpos p))
  | Zneg p => PrimFloat.opp (PrimFloat.of_uint63 (Uint63.of_Z (Zpos p)))
  end.
Definition f_const (n : Z) (d : positive) : float :=
  match d with xH => f_of_Z n | _ => PrimFloat.div (f_of_Z n) (f_of_Z (Zpos d)) end.
Definition f_nan : float := PrimFloat.div 0%float 0%float.

Definition FOps : Ops float := {|
  o_add := PrimFloat.add; o_sub := PrimFloat.sub; o_mul := PrimFloat.mul; o_div := PrimFloat.div;
  o_neg := PrimFloat.opp; o_abs := PrimFloat.abs; o_const := f_const; o_sqrt := PrimFloat.sqrt;
  o_cos := fun _ => f_nan; o_sin := fun _ => f_nan; o_acos := fun _ => f_nan;
  o_rad := fun _ => f_nan; o_deg := fun _ => f_nan; o_floor := f_floor;
  o_ltb := PrimFloat.ltb; o_eqb := PrimFloat.eqb |}.
