(* The numeric interface over which the trace translator (harness/trace.py) emits the arithmetic
   kernels of /repo, with two instances: real numbers (theorems) and rationals with oracle tables
   for the irrational functions (validation of the translator's printer against Python). *)
From Coq Require Import ZArith QArith Qabs Qround Reals List.
Import ListNotations.

Record Ops (T : Type) := {
  o_add : T -> T -> T; o_sub : T -> T -> T; o_mul : T -> T -> T; o_div : T -> T -> T;
  o_neg : T -> T; o_abs : T -> T; o_const : Z -> positive -> T;
  o_sqrt : T -> T; o_cos : T -> T; o_sin : T -> T; o_acos : T -> T;
  o_rad : T -> T; o_deg : T -> T; o_floor : T -> T;
  o_ltb : T -> T -> bool; o_eqb : T -> T -> bool }.
Arguments o_add {T}. Arguments o_sub {T}. Arguments o_mul {T}. Arguments o_div {T}.
Arguments o_neg {T}. Arguments o_abs {T}. Arguments o_const {T}. Arguments o_sqrt {T}.
Arguments o_cos {T}. Arguments o_sin {T}. Arguments o_acos {T}. Arguments o_rad {T}.
Arguments o_deg {T}. Arguments o_floor {T}. Arguments o_ltb {T}. Arguments o_eqb {T}.

(* real numbers *)
Definition Rconst (n : Z) (d : positive) : R :=
  match d with xH => IZR n | _ => (IZR n / IZR (Zpos d))%R end.
Definition Rfloor (x : R) : R := IZR (Int_part x).
Definition ROps : Ops R := {|
  o_add := Rplus; o_sub := Rminus; o_mul := Rmult; o_div := Rdiv; o_neg := Ropp; o_abs := Rabs;
  o_const := Rconst; o_sqrt := sqrt; o_cos := cos; o_sin := sin; o_acos := acos;
  o_rad := fun x => (x * PI / 180)%R; o_deg := fun x => (x * 180 / PI)%R; o_floor := Rfloor;
  o_ltb := fun x y => if Rlt_dec x y then true else false;
  o_eqb := fun x y => if Req_EM_T x y then true else false |}.

(* rationals; irrational functions looked up in a table (tag, argument, value) produced by the
   Python side of the translator validation; a missing entry yields a poison value *)
Definition otable := list (nat * Q * Q).
Fixpoint olookup (t : otable) (tag : nat) (x : Q) : Q :=
  match t with
  | [] => (-424242 # 1)%Q
  | (g, a, v) :: r => if Nat.eqb g tag && Qeq_bool a x then v else olookup r tag x
  end.
Definition QOps (t : otable) : Ops Q := {|
  (* results are reduced to lowest terms after every operation: without it the unreduced numerators of a deep DAG explode *)
  o_add := fun x y => Qred (Qplus x y); o_sub := fun x y => Qred (Qminus x y); o_mul := fun x y => Qred (Qmult x y);
  o_div := fun x y => Qred (Qdiv x y); o_neg := Qopp; o_abs := Qabs;
  o_const := fun n d => (n # d)%Q;
  o_sqrt := olookup t 0; o_cos := olookup t 1; o_sin := olookup t 2; o_acos := olookup t 3;
  o_rad := olookup t 4; o_deg := olookup t 5; o_floor := fun x => inject_Z (Qfloor x);
  o_ltb := fun x y => negb (Qle_bool y x); o_eqb := Qeq_bool |}.
