(* Character / string helpers shared by the text-level models.  Strings are lists of ascii.
   Domain: printable ASCII and blank (see DESIGN.md section 5). *)
From Coq Require Export Ascii String List Bool Arith ZArith Lia.
Export ListNotations.

Definition str := list ascii.
Definition lit (s : string) : str := list_ascii_of_string s.

Definition is_blank (c : ascii) : bool := Ascii.eqb c " "%char.
Definition is_lower (c : ascii) : bool := let n := nat_of_ascii c in (97 <=? n)%nat && (n <=? 122)%nat.
Definition is_upper (c : ascii) : bool := let n := nat_of_ascii c in (65 <=? n)%nat && (n <=? 90)%nat.
Definition is_digit (c : ascii) : bool := let n := nat_of_ascii c in (48 <=? n)%nat && (n <=? 57)%nat.
Definition upper_c (c : ascii) : ascii := if is_lower c then ascii_of_nat (nat_of_ascii c - 32) else c.
Definition lower_c (c : ascii) : ascii := if is_upper c then ascii_of_nat (nat_of_ascii c + 32) else c.
Definition upper (s : str) : str := map upper_c s.

Definition digit_val (c : ascii) : N := N.of_nat (nat_of_ascii c - 48).
(* value of a digit string, most significant first *)
Definition digits_val (s : str) : N := fold_left (fun acc c => (acc * 10 + digit_val c)%N) s 0%N.
Definition all_digits (s : str) : bool := forallb is_digit s.

(* str.partition(c): text before the first c, whether c was found, text after it *)
Fixpoint partition (c : ascii) (s : str) : str * bool * str :=
  match s with
  | [] => ([], false, [])
  | x :: r => if Ascii.eqb x c then ([], true, r)
              else let '(b, f, a) := partition c r in (x :: b, f, a)
  end.

Lemma partition_found c pre post : ~ In c pre -> partition c (pre ++ c :: post) = (pre, true, post).
Proof.
  induction pre as [|x r IH]; intros H; cbn [app partition].
  - rewrite Ascii.eqb_refl. reflexivity.
  - destruct (Ascii.eqb x c) eqn:E.
    + apply Ascii.eqb_eq in E. subst. exfalso. apply H. left. reflexivity.
    + rewrite IH; [reflexivity|]. intro I. apply H. right. exact I.
Qed.

Lemma partition_absent c s : ~ In c s -> partition c s = (s, false, []).
Proof.
  induction s as [|x r IH]; intros H; cbn [partition]; [reflexivity|].
  destruct (Ascii.eqb x c) eqn:E.
  - apply Ascii.eqb_eq in E. subst. exfalso. apply H. left. reflexivity.
  - rewrite IH; [reflexivity|]. intro I. apply H. right. exact I.
Qed.

Definition last_char (s : str) : option ascii := match rev s with [] => None | c :: _ => Some c end.
Lemma last_char_app s c : last_char (s ++ [c]) = Some c.
Proof. unfold last_char. rewrite rev_app_distr. reflexivity. Qed.
Lemma last_char_app2 s t : t <> [] -> last_char (s ++ t) = last_char t.
Proof.
  intros H. unfold last_char. rewrite rev_app_distr. destruct (rev t) eqn:E.
  - exfalso. apply H. apply (f_equal (@rev ascii)) in E. rewrite rev_involutive in E. exact E.
  - reflexivity.
Qed.
Lemma removelast_app1 (s : str) c : removelast (s ++ [c]) = s.
Proof. rewrite removelast_app by discriminate. cbn. apply app_nil_r. Qed.
