(* What C09 demands, written from the property text (SHELXL free-variable rule), not from the code. *)
From SX Require Import Base.Prelude.
#[local] Open Scope Q_scope.

(* occupation code 10m+p ; fv : free variable number -> value *)
Definition occ_spec (m : Z) (p : Q) (fv : Z -> Q) : Q :=
  if ((m =? 0) || (m =? 1))%Z then p
  else if (1 <? m)%Z then p * fv m
  else p * (fv (- m)%Z - 1).

Definition code (m : Z) (p : Q) : Q := inject_Z (10 * m) + p.

(* the decomposition is unambiguous when p carries the sign of the code and |p| < 5 (SHELXL) *)
Definition code_wf (m : Z) (p : Q) : Prop :=
  Qabs p < 5 /\ ((0 < m)%Z -> 0 <= p) /\ ((m < 0)%Z -> p <= 0).

Record atom_spec := { as_elem : nat; as_m : Z; as_p : Q; as_qpeak : bool }.

Fixpoint sum_spec (fv : Z -> Q) (atoms : list atom_spec) (el : nat) : Q :=
  match atoms with
  | [] => 0
  | a :: r => (if Nat.eqb (as_elem a) el && negb (as_qpeak a) then occ_spec (as_m a) (as_p a) fv else 0) + sum_spec fv r el
  end.
