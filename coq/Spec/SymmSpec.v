(* What C10 demands of the operator parser: the abstract syntax of one operator component in SHELXL
   notation (signed x, y, z terms in any order, a fractional or decimal translation anywhere among
   them), how it may be spelled, and what it denotes.  Written from the syntax, not from the code. *)
From SX Require Import Base.Str Model.Symm.
From Coq Require Import QArith.

Inductive axis := AX | AY | AZ.
Definition axis_char (a : axis) : ascii := match a with AX => cX | AY => cY | AZ => cZ end.
Definition axis_eqb (a b : axis) : bool :=
  match a, b with AX, AX | AY, AY | AZ, AZ => true | _, _ => false end.

Inductive sgn := Plus | Minus.
Definition sgn_str (s : option sgn) : str :=
  match s with None => [] | Some Plus => [cPlus] | Some Minus => [cMinus] end.
Definition sgn_val (s : option sgn) : Z := match s with Some Minus => (-1)%Z | _ => 1%Z end.

(* numerals: n/d (digit strings) or decimal ip.fp (either part may be empty, not both) or integer ip *)
Inductive numeral :=
| NFrac (n d : str)
| NDec (ip fp : str)          (* with a decimal point *)
| NInt (ip : str).
Definition num_str (n : numeral) : str :=
  match n with
  | NFrac a b => a ++ cSlash :: b
  | NDec ip fp => ip ++ cDot :: fp
  | NInt ip => ip
  end.
Definition num_wf (n : numeral) : bool :=
  match n with
  | NFrac a b => all_digits a && all_digits b && negb (Nat.eqb (length a) 0) && negb (Nat.eqb (length b) 0)
                 && negb (N.eqb (digits_val b) 0)
  | NDec ip fp => all_digits ip && all_digits fp && negb (Nat.eqb (length ip + length fp) 0)
  | NInt ip => all_digits ip && negb (Nat.eqb (length ip) 0)
  end.
Definition num_val (n : numeral) : Q :=
  match n with
  | NFrac a b => (Z.of_N (digits_val a) # 1) / (Z.of_N (digits_val b) # 1)
  | NDec ip fp => dec_value ip fp
  | NInt ip => dec_value ip []
  end.

Inductive item :=
| ITerm (s : option sgn) (a : axis)
| ITrans (s : option sgn) (n : numeral).
Definition item_str (i : item) : str :=
  match i with
  | ITerm s a => sgn_str s ++ [axis_char a]
  | ITrans s n => sgn_str s ++ num_str n
  end.
Definition rend (l : list item) : str := concat (map item_str l).

Definition item_axis (i : item) : option axis := match i with ITerm _ a => Some a | _ => None end.
Definition is_trans (i : item) : bool := match i with ITrans _ _ => true | _ => false end.

(* coefficient of an axis / translation denoted by a component *)
Fixpoint coef (a : axis) (l : list item) : Z :=
  match l with
  | [] => 0%Z
  | ITerm s b :: r => if axis_eqb a b then sgn_val s else coef a r
  | _ :: r => coef a r
  end.
Fixpoint transl (l : list item) : Q :=
  match l with
  | [] => 0
  | ITrans s n :: r => (if Z.eqb (sgn_val s) 1 then num_val n else - num_val n)
  | _ :: r => transl r
  end.
Definition denote (l : list item) : Z * Z * Z * Q := (coef AX l, coef AY l, coef AZ l, transl l).

(* well-formed component: every axis at most once, at most one translation, numerals well formed,
   every item except the first carries an explicit sign *)
Fixpoint axes_of (l : list item) : list axis :=
  match l with [] => [] | ITerm _ a :: r => a :: axes_of r | _ :: r => axes_of r end.
Fixpoint nodup_axes (l : list axis) : bool :=
  match l with [] => true | a :: r => negb (existsb (axis_eqb a) r) && nodup_axes r end.
Definition item_signed (i : item) : bool :=
  match i with ITerm (Some _) _ | ITrans (Some _) _ => true | _ => false end.
Definition item_numwf (i : item) : bool := match i with ITrans _ n => num_wf n | _ => true end.
Definition comp_wf (l : list item) : bool :=
  nodup_axes (axes_of l) && (length (filter is_trans l) <=? 1)%nat && forallb item_numwf l &&
  match l with [] => true | _ :: r => forallb item_signed r end.

(* spelling freedom: blanks anywhere, letters in either case *)
Inductive decorated : str -> str -> Prop :=
| dec_nil : decorated [] []
| dec_blank s s' : decorated s s' -> decorated s (" "%char :: s')
| dec_char c s s' : decorated s s' -> decorated (c :: s) (c :: s')
| dec_lower c s s' : decorated s s' -> decorated (c :: s) (lower_c c :: s').
