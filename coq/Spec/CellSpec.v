(* Reference notions for C12, written from the textbook definitions (metric tensor), not from the code. *)
From Coq Require Import Reals List.
Import ListNotations.
Open Scope R_scope.

Definition rad (x : R) : R := x * PI / 180.

(* 1 + 2 cos a cos b cos g - cos^2 a - cos^2 b - cos^2 g  (= V^2 / (abc)^2) *)
Definition Dcell (al be ga : R) : R :=
  1 + 2 * cos (rad al) * cos (rad be) * cos (rad ga)
  - cos (rad al) * cos (rad al) - cos (rad be) * cos (rad be) - cos (rad ga) * cos (rad ga).

Definition Vcell (a b c al be ga : R) : R := a * b * c * sqrt (Dcell al be ga).

(* a physically valid cell: positive axes, angles with positive sine, positive volume *)
Definition valid_cell (a b c al be ga : R) : Prop :=
  0 < a /\ 0 < b /\ 0 < c /\ 0 < sin (rad al) /\ 0 < sin (rad be) /\ 0 < sin (rad ga) /\ 0 < Dcell al be ga.

(* metric tensor G_ij = a_i . a_j *)
Definition G00 (a b c al be ga : R) := a * a.
Definition G11 (a b c al be ga : R) := b * b.
Definition G22 (a b c al be ga : R) := c * c.
Definition G01 (a b c al be ga : R) := a * b * cos (rad ga).
Definition G02 (a b c al be ga : R) := a * c * cos (rad be).
Definition G12 (a b c al be ga : R) := b * c * cos (rad al).

(* squared length of a fractional vector from the metric tensor *)
Definition metric_len2 (a b c al be ga x y z : R) : R :=
  G00 a b c al be ga * x * x + G11 a b c al be ga * y * y + G22 a b c al be ga * z * z
  + 2 * G01 a b c al be ga * x * y + 2 * G02 a b c al be ga * x * z + 2 * G12 a b c al be ga * y * z.

(* quadratic form of a symmetric tensor given by its six SHELXL components U11 U22 U33 U23 U13 U12 *)
Definition qform (u11 u22 u33 u23 u13 u12 x y z : R) : R :=
  u11 * x * x + u22 * y * y + u33 * z * z + 2 * u23 * y * z + 2 * u13 * x * z + 2 * u12 * x * y.
Definition pos_def (u11 u22 u33 u23 u13 u12 : R) : Prop :=
  forall x y z, ~ (x = 0 /\ y = 0 /\ z = 0) -> 0 < qform u11 u22 u33 u23 u13 u12 x y z.
