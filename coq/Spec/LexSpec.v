(* C05: the abstract syntax of an instruction file as far as layout is concerned, and its rendering.
   A logical line is a non-empty token list; a layout chooses how it is cut into physical lines
   (continuation: " =" at the end, the next line starting with blanks), how many blanks separate tokens,
   which '!' comments are attached, and which blank / indented lines surround it. *)
From SX Require Import Base.Str Model.Lex.

Definition tok_char (c : ascii) : bool := negb (is_blank c) && negb (Ascii.eqb c cBang) && negb (Ascii.eqb c cEq).
Definition token_ok (t : str) : bool := forallb tok_char t && negb (Nat.eqb (length t) 0).

Definition blanks (n : nat) : str := repeat " "%char n.

(* a token preceded by its separating blanks (at least one, except possibly the first token of a physical line) *)
Definition piece := (nat * str)%type.
Definition render_piece (p : piece) : str := blanks (fst p) ++ snd p.
Definition render_pieces (l : list piece) : str := concat (map render_piece l).

Record chunk := { ch_pieces : list piece; ch_trail : nat; ch_comment : option str }.
(* text of a comment: anything (it may contain '=' and '!') *)
Definition render_comment (c : option str) : str := match c with None => [] | Some t => cBang :: t end.

(* a physical line that continues: tokens, blanks, '=', optionally blanks and a comment *)
Definition render_cont (c : chunk) (after_eq : nat) : str :=
  render_pieces (ch_pieces c) ++ blanks (ch_trail c) ++ [cEq] ++ blanks after_eq ++ render_comment (ch_comment c).
(* the last physical line of an instruction *)
Definition render_last (c : chunk) : str :=
  render_pieces (ch_pieces c) ++ blanks (ch_trail c) ++ render_comment (ch_comment c).

(* a logical line: first chunk, further continuation chunks *)
Record lline := { ll_first : chunk; ll_more : list (nat * chunk) (* blanks after the previous '=' *); ll_after_eq : nat;
                  ll_junk : list str (* blank or indented lines in front of it *) }.

Definition all_chunks (l : lline) : list chunk := ll_first l :: map snd (ll_more l).
Definition tokens_of (l : lline) : list str := flat_map (fun c => map snd (ch_pieces c)) (all_chunks l).

Fixpoint render_chunks (first : chunk) (more : list (nat * chunk)) (aeq : nat) : list str :=
  match more with
  | [] => [render_last first]
  | (a, c) :: r => render_cont first aeq :: render_chunks c r a
  end.
Definition render_line (l : lline) : list str := ll_junk l ++ render_chunks (ll_first l) (ll_more l) (ll_after_eq l).
Definition render_file (f : list lline) : list str := flat_map render_line f.

(* well-formedness of a layout *)
Definition piece_ok (first : bool) (p : piece) : bool := token_ok (snd p) && (first || (1 <=? fst p)%nat).
Fixpoint pieces_ok (first : bool) (l : list piece) : bool :=
  match l with [] => true | p :: r => piece_ok first p && pieces_ok false r end.
(* continuation chunks start with at least one blank (their first piece has >= 1 leading blank, or, if they
   carry no token, the trailing blanks do) *)
Definition cont_chunk_ok (c : chunk) : bool :=
  pieces_ok false (ch_pieces c) && match ch_pieces c with [] => (1 <=? ch_trail c)%nat | _ => true end.
Definition first_chunk_ok (c : chunk) : bool :=
  match ch_pieces c with
  | (0%nat, t) :: r => token_ok t && pieces_ok false r && negb (is_free_text t)
  | _ => false
  end.
Definition junk_ok (s : str) : bool := match s with [] => true | c :: _ => is_blank c end.
Definition lline_ok (l : lline) : bool :=
  first_chunk_ok (ll_first l) && forallb (fun ac => cont_chunk_ok (snd ac)) (ll_more l) && forallb junk_ok (ll_junk l).
