(* Reference notions for C20: quaternion quadratic form, residual of a point-set fit. *)
From Coq Require Import Reals List.
From SX Require Import Spec.GeomSpec.
Import ListNotations.
Open Scope R_scope.

(* symmetric 4x4 matrix by its upper triangle n00 n01 n02 n03 n11 n12 n13 n22 n23 n33 *)
Definition sym4 := (R * R * R * R * R * R * R * R * R * R)%type.
Definition qf4 (n : sym4) (q0 q1 q2 q3 : R) : R :=
  let '(n00, n01, n02, n03, n11, n12, n13, n22, n23, n33) := n in
  n00 * q0 * q0 + n11 * q1 * q1 + n22 * q2 * q2 + n33 * q3 * q3 +
  2 * (n01 * q0 * q1 + n02 * q0 * q2 + n03 * q0 * q3 + n12 * q1 * q2 + n13 * q1 * q3 + n23 * q2 * q3).
Definition sym4_add (a b : sym4) : sym4 :=
  let '(a0, a1, a2, a3, a4, a5, a6, a7, a8, a9) := a in
  let '(b0, b1, b2, b3, b4, b5, b6, b7, b8, b9) := b in
  (a0 + b0, a1 + b1, a2 + b2, a3 + b3, a4 + b4, a5 + b5, a6 + b6, a7 + b7, a8 + b8, a9 + b9).
Definition sym4_zero : sym4 := (0, 0, 0, 0, 0, 0, 0, 0, 0, 0).

Definition qnorm2 (q0 q1 q2 q3 : R) : R := q0 * q0 + q1 * q1 + q2 * q2 + q3 * q3.

(* sum over a list of (source, target) pairs *)
Fixpoint sum_pairs (f : vec -> vec -> R) (l : list (vec * vec)) : R :=
  match l with [] => 0 | (s, t) :: r => f s t + sum_pairs f r end.
