(* C06 — what "well-formed SHELXL text" means for the lines the writer emits for one instruction. *)
From SX Require Import Base.Prelude Base.Str Model.Lex Model.Wrap.

Definition starts_blank (l : str) : Prop := exists r, l = " "%char :: r.
Definition ends_cont (l : str) : Prop := exists b, l = b ++ lit " =".

(* every line but the last ends in ' =', every line but the first begins with a blank *)
Fixpoint cont_ok (first : bool) (ls : list str) : Prop :=
  match ls with
  | [] => True
  | [l] => first = true \/ starts_blank l
  | l :: r => (first = true \/ starts_blank l) /\ ends_cont l /\ cont_ok false r
  end.

(* the independent continuation-joining lexer: the text before '=' of every physical line, joined, split at blanks *)
Definition logical (ls : list str) : str := concat (map (before cEq) ls).
Definition tokens (ls : list str) : list str := split_ws (logical ls).

Definition max_columns : nat := 80.
Definition run_limit : nat := 75.      (* longest token or run of blanks that can still be placed: 80 - 3 - 2 *)
Definition runs_short (s : str) : Prop := Forall (fun c => (length c <= run_limit)%nat) (chunks s).

Definition wellformed (s : str) (ls : list str) : Prop :=
  Forall (fun l => (length l <= max_columns)%nat) ls /\ cont_ok true ls /\ tokens ls = split_ws s.
