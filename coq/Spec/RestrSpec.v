(* What C17 demands: which residues a restraint addresses and when an atom of it is unknown. *)
From SX Require Import Base.Str Model.Restr.

(* residues addressed by an atom item: its own _n suffix, else the keyword's number, all residues of the keyword's
   class, else residue 0 (a keyword suffix _* is read as residue 0 here, see DESIGN.md C17) *)
Definition addressed (fi : file_index) (s : suffix) (own : option Z) : list Z :=
  match own with
  | Some n => [n]
  | None => match s with
            | SNum n => [n]
            | SClass c => map fst (filter (fun r => str_eqb (snd r) c) (fi_residues fi))
            | SNone | SStar => [0%Z]
            end
  end.

(* an atom item must be reported when its name exists in none of the addressed residues, and must not be reported
   when it exists in all of them; wildcards and range operators are never reported *)
Definition must_report (fi : file_index) (s : suffix) (a : ratom) : Prop :=
  match a with
  | AName name own => addressed fi s own <> [] /\ forall n, In n (addressed fi s own) -> has_atom fi name n = false
  | _ => False
  end.
Definition must_not_report (fi : file_index) (s : suffix) (a : ratom) : Prop :=
  match a with
  | AName name own => addressed fi s own <> [] /\ forall n, In n (addressed fi s own) -> has_atom fi name n = true
  | _ => True
  end.
