(* What C17 demands: which residues a restraint addresses and when an atom of it is unknown. *)
From SX Require Import Base.Str Model.Restr.

(* residues addressed by an atom item: its own _n suffix, else the keyword's number, all residues of the keyword's
   class, all residues of the file for the keyword suffix _*, else residue 0 *)
Definition addressed (fi : file_index) (s : suffix) (own : option Z) : list Z :=
  match own with
  | Some n => [n]
  | None => match s with
            | SNum n => [n]
            | SClass c => map fst (filter (fun r => str_eqb (snd r) c) (fi_residues fi))
            | SStar => map fst (fi_residues fi)
            | SNone => [0%Z]
            end
  end.

(* an atom item must be reported when its name exists in none of the addressed residues, and must not be reported
   when it exists in all of them; wildcards and range operators are never reported *)
Definition all_residues (fi : file_index) : list Z := map fst (fi_residues fi).

Definition must_report (fi : file_index) (s : suffix) (a : ratom) : Prop :=
  match a with
  | AName name own => addressed fi s own <> [] /\ forall n, In n (addressed fi s own) -> has_atom fi name n = false
  | AStar name => all_residues fi <> [] /\ forall n, In n (all_residues fi) -> has_atom fi name n = false
  | _ => False
  end.
Definition must_not_report (fi : file_index) (s : suffix) (a : ratom) : Prop :=
  match a with
  | AName name own => addressed fi s own <> [] /\ forall n, In n (addressed fi s own) -> has_atom fi name n = true
  | AStar name => forall n, In n (all_residues fi) -> has_atom fi name n = true
  | _ => True
  end.

(* The per-residue reading, which is the one the library follows: the (name, residue) pairs an item asks for.  A class
   that no residue of the file carries falls back to residue 0 (the library says so in a separate message). *)
Definition asked (fi : file_index) (s : suffix) (a : ratom) : list (str * Z) :=
  match a with
  | AName name own => map (pair name) (match addressed fi s own with [] => [0%Z] | l => l end)
  | AStar name => map (pair name) (all_residues fi)
  | ARange | AElem _ => []
  end.
(* the residue a message names: NAME_n names residue n, a bare NAME residue 0 *)
Definition res_of (o : option Z) : Z := match o with Some n => n | None => 0%Z end.
