(* C04 — what an edit must do, stated without positions: every stored item carries its own flag "absorbed, never written";
   an edit inserts one entry, removes one or changes the text of one.  Nothing else changes. *)
From SX Require Import Base.Prelude Base.Str Model.Wrap Model.Writer Model.Edit.
Local Open Scope nat_scope.

Definition entry := (item * bool)%type.
Definition write_tagged (l : list entry) : list str := flat_map (fun p : entry => if snd p then [] else item_lines (fst p)) l.

Definition spec_apply (l : list entry) (o : op) : list entry :=
  match o with
  | OIns k it => insert_at k (it, false) l
  | ODel k => remove_at k l
  | OUpd k it => match nth_error l k with Some (_, f) => replace_at k (it, f) l | None => l end
  end.

(* the tagged view of an implementation state *)
Definition mem (i : nat) (d : list nat) : bool := existsb (Nat.eqb i) d.
Fixpoint tag_from (i : nat) (d : list nat) (items : list item) : list entry :=
  match items with [] => [] | it :: r => (it, mem i d) :: tag_from (S i) d r end.
Definition abs (s : est) : list entry := tag_from 0 (e_del s) (e_items s).

Fixpoint valid_ops (n : nat) (ops : list op) : bool :=
  match ops with
  | [] => true
  | o :: r => op_valid n o && valid_ops (match o with OIns _ _ => S n | ODel _ => pred n | OUpd _ _ => n end) r
  end.
