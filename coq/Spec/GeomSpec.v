(* Textbook geometry for C15: vectors in R^3, angle, torsion (IUPAC sign), rigid motions. *)
From Coq Require Import Reals.
Open Scope R_scope.

Definition vec := (R * R * R)%type.
Definition vx (v : vec) := fst (fst v).
Definition vy (v : vec) := snd (fst v).
Definition vz (v : vec) := snd v.
Definition vsub (a b : vec) : vec := (vx a - vx b, vy a - vy b, vz a - vz b).
Definition vadd (a b : vec) : vec := (vx a + vx b, vy a + vy b, vz a + vz b).
Definition vneg (a : vec) : vec := (- vx a, - vy a, - vz a).
Definition dot (a b : vec) : R := vx a * vx b + vy a * vy b + vz a * vz b.
Definition cross (a b : vec) : vec :=
  (vy a * vz b - vz a * vy b, vz a * vx b - vx a * vz b, vx a * vy b - vy a * vx b).
Definition det3 (a b c : vec) : R := dot a (cross b c).        (* triple product = determinant of rows a b c *)
Definition deg (x : R) : R := x * 180 / PI.

(* 3x3 matrices as three rows *)
Definition mat := (vec * vec * vec)%type.
Definition mrow1 (m : mat) := fst (fst m).
Definition mrow2 (m : mat) := snd (fst m).
Definition mrow3 (m : mat) := snd m.
Definition mv (m : mat) (v : vec) : vec := (dot (mrow1 m) v, dot (mrow2 m) v, dot (mrow3 m) v).
Definition mcol1 (m : mat) : vec := (vx (mrow1 m), vx (mrow2 m), vx (mrow3 m)).
Definition mcol2 (m : mat) : vec := (vy (mrow1 m), vy (mrow2 m), vy (mrow3 m)).
Definition mcol3 (m : mat) : vec := (vz (mrow1 m), vz (mrow2 m), vz (mrow3 m)).
(* orthogonal: columns orthonormal (R^T R = I) *)
Definition orthogonal (m : mat) : Prop :=
  dot (mcol1 m) (mcol1 m) = 1 /\ dot (mcol2 m) (mcol2 m) = 1 /\ dot (mcol3 m) (mcol3 m) = 1 /\
  dot (mcol1 m) (mcol2 m) = 0 /\ dot (mcol1 m) (mcol3 m) = 0 /\ dot (mcol2 m) (mcol3 m) = 0.
Definition mdet (m : mat) : R := det3 (mrow1 m) (mrow2 m) (mrow3 m).
(* rigid motion (or, with mdet = -1, a reflection) of a point *)
Definition move (m : mat) (t : vec) (p : vec) : vec := vadd (mv m p) t.

(* angle at p2 between p1 and p3, in degrees *)
Definition angle_spec (p1 p2 p3 : vec) : R :=
  let u := vsub p2 p1 in let w := vsub p2 p3 in
  deg (acos (dot u w / (sqrt (dot u u) * sqrt (dot w w)))).

(* torsion angle A-B-C-D: angle between the plane normals, sign of the triple product
   (positive = clockwise rotation from BA to CD viewed down BC) *)
Definition torsion_of (c d : R) : R := if Rle_dec 0 d then deg (acos c) else deg (- acos c).
Definition torsion_cos (v1 v2 v3 : vec) : R :=
  let a := cross v1 v2 in let b := cross v2 v3 in dot a b / (sqrt (dot a a) * sqrt (dot b b)).
Definition torsion_spec (p1 p2 p3 p4 : vec) : R :=
  let v1 := vsub p2 p1 in let v2 := vsub p3 p2 in let v3 := vsub p4 p3 in
  torsion_of (torsion_cos v1 v2 v3) (det3 v1 v2 v3).

Definition dist_spec (p q : vec) : R := sqrt (dot (vsub p q) (vsub p q)).
