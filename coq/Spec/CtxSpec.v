(* What C03 demands, as a direct structural recursion over the lines of the file: each atom has the PART, AFIX and
   residue in force at its line (each lasting until the next such instruction or HKLF/END), its own occupation code
   unless the enclosing PART supplies one, Q-peak status only after HKLF, and the lines of a FRAG...FEND block are
   not atoms. *)
From SX Require Import Base.Str Model.Ctx.
From Coq Require Import QArith.

Fixpoint spec_atoms (evs : list event) (pn : Z) (psof : option Q) (afix : Z) (rnum : Z) (rcls : str)
         (after_hklf after_end in_frag : bool) : list atom_attr :=
  match evs with
  | [] => []
  | EResi r :: t => spec_atoms t pn psof afix (r_num r) (r_class r) after_hklf after_end in_frag
  | EPart p :: t => spec_atoms t (p_n p) (p_sof p) afix rnum rcls after_hklf after_end in_frag
  | EAfix mn :: t => spec_atoms t pn psof mn rnum rcls after_hklf after_end in_frag
  | EAtom n s own u2 u3 :: t =>
    if in_frag then spec_atoms t pn psof afix rnum rcls after_hklf after_end in_frag
    else {| a_name := n; a_sfac := s; a_part := pn; a_afix := afix; a_resinum := rnum; a_resiclass := rcls;
            a_sof := match psof with Some x => x | None => match own with Some x => x | None => 11 end end;
            a_qpeak := (u2 && u3 && after_hklf) || after_end |}
         :: spec_atoms t pn psof afix rnum rcls after_hklf after_end in_frag
  | EHklf :: t => spec_atoms t 0 None 0 0 [] true after_end in_frag
  | EEnd :: t => spec_atoms t 0 None 0 0 [] after_hklf true in_frag
  | EFrag :: t => spec_atoms t pn psof afix rnum rcls after_hklf after_end true
  | EFend :: t => spec_atoms t pn psof afix rnum rcls after_hklf after_end false
  | EOther :: t => spec_atoms t pn psof afix rnum rcls after_hklf after_end in_frag
  end.

Definition expected_atoms (evs : list event) : list atom_attr := spec_atoms evs 0 None 0 0 [] false false false.

(* the file is well formed when an AFIX number is never negative and "AFIX 0" is how an AFIX ends *)
Definition event_ok (e : event) : bool :=
  match e with
  | EAfix mn => Z.leb 0 mn
  | EPart p => match p_sof p with Some s => negb (Z.eqb (p_n p) 0) | None => true end     (* "PART 0" carries no sof *)
  | _ => true
  end.
