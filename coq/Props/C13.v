(* C13 — the shortest-distance matrix reports true symmetry-shortest distances.
   Statements only (copied from Proofs/SdmProofs.v by harness/mkprops.py).  Model: Model/Sdm.v, generic over the
   numeric interface; these theorems are about its real-number instance, the float instance is executed inside Coq
   against SDM.calc_sdm on the same numbers (mirrored execution, harness/props/c13.py).  vlen is tied to the source
   by C13_vlen_matches_traced (k_vector_length is re-traced from /repo on every run).
   Proved: range of the wrap; the reported distance is the least (biased) wrapped length over the qualifying
   operators and the reported operator realises it; the bond label is exactly the library's rule; the wrapped vector
   is the shortest of all its lattice translates when shorter than half the shortest lattice vector (minimum image).
   Molecule numbers (C13_molindex_components, Proofs/MolProofs.v, for every numeric interpretation, every item list and any
   number of atoms): the label propagation of calc_molindex ends within the fuel of the model, numbers every atom, and
   gives two atoms the same number exactly when they are connected by bonded pairs (conn = equivalence closure). *)
From SX Require Import Base.RTac Model.Sdm Spec.GeomSpec Gen.K_cell Proofs.SdmProofs Proofs.MolProofs.
Import ListNotations.
Open Scope R_scope.

Theorem C13_wrap1_range d :
  let fw := wrap1 ROps d in
  (exists k : Z, fst fw = IZR k) /\ - (1 / 2) <= snd fw < 1 / 2 /\ d = snd fw + fst fw.
Proof. exact (wrap1_range d). Qed.
Print Assumptions C13_wrap1_range.

Theorem C13_pair_min_correct (m : metric (T:=R)) (same : bool) (a1 a2 : satom (T:=R)) (ops : list (sop (T:=R))) :
  match pair_min ROps m ops same a1 a2 with
  | Some (d, n) => exists s, nth_error ops n = Some s /\ qualifies m same a1 a2 n s /\ d = biased n (dk_of m a1 a2 s) /\
                             forall n' s', nth_error ops n' = Some s' -> qualifies m same a1 a2 n' s' -> d <= biased n' (dk_of m a1 a2 s')
  | None => forall n' s', nth_error ops n' = Some s' -> ~ qualifies m same a1 a2 n' s'
  end.
Proof. exact (pair_min_correct m same a1 a2 ops). Qed.
Print Assumptions C13_pair_min_correct.

Theorem C13_bond_rule (a1 a2 : satom (T:=R)) (d : R) : 0 < d ->
  (ltb ROps d (bond_limit ROps a1 a2) = true <->
   d < (sa_radius a1 + sa_radius a2) * (12 / 10) /\
   ((sa_h a1 = false /\ sa_h a2 = false /\ (sa_part a1 * sa_part a2 = 0)%Z) \/ sa_part a1 = sa_part a2)).
Proof. exact (bond_rule a1 a2 d). Qed.
Print Assumptions C13_bond_rule.

Theorem C13_min_image (M : mat) (w k : vec) (L : R) :
  cell_norm M w < L / 2 -> L <= cell_norm M k -> cell_norm M w <= cell_norm M (vadd w k).
Proof. exact (min_image M w k L). Qed.
Print Assumptions C13_min_image.

Theorem C13_vlen_is_cell_norm M x y z : vlen ROps (metric_of_mat M) x y z = cell_norm M (x, y, z).
Proof. exact (vlen_is_cell_norm M x y z). Qed.
Print Assumptions C13_vlen_is_cell_norm.

Theorem C13_wrapped_is_shortest (M : mat) (L : R) (wx wy wz : R) (kx ky kz : Z) :
  (forall a b c : Z, (a, b, c) <> (0, 0, 0)%Z -> L <= cell_norm M (IZR a, IZR b, IZR c)) ->
  vlen ROps (metric_of_mat M) wx wy wz < L / 2 ->
  vlen ROps (metric_of_mat M) wx wy wz <= vlen ROps (metric_of_mat M) (wx + IZR kx) (wy + IZR ky) (wz + IZR kz).
Proof. exact (wrapped_is_shortest M L wx wy wz kx ky kz). Qed.
Print Assumptions C13_wrapped_is_shortest.

Theorem C13_vlen_matches_traced x y z a b c al be ga :
  vlen ROps (metric_of_cell a b c al be ga) x y z = k_vector_length ROps x y z a b c al be ga.
Proof. exact (vlen_matches_traced x y z a b c al be ga). Qed.
Print Assumptions C13_vlen_matches_traced.

Theorem C13_cubic_lattice_bound : forall a b c : Z, (a, b, c) <> (0, 0, 0)%Z ->
  10 <= cell_norm ((10, 0, 0), (0, 10, 0), (0, 0, 10)) (IZR a, IZR b, IZR c).
Proof. exact (cubic_lattice_bound ). Qed.
Print Assumptions C13_cubic_lattice_bound.

Theorem C13_wrap1_of_small (v : R) (k : Z) : - (1 / 2) <= v < 1 / 2 -> wrap1 ROps (v + IZR k) = (IZR k, v).
Proof. exact (wrap1_of_small v k). Qed.
Print Assumptions C13_wrap1_of_small.

Theorem C13_component_bound (M Minv : mat) (v : vec) : mv Minv (mv M v) = v ->
  Rabs (vx v) <= norm (mrow1 Minv) * cell_norm M v /\
  Rabs (vy v) <= norm (mrow2 Minv) * cell_norm M v /\
  Rabs (vz v) <= norm (mrow3 Minv) * cell_norm M v.
Proof. exact (component_bound M Minv v). Qed.
Print Assumptions C13_component_bound.

Theorem C13_min_image_spacing (M Minv : mat) (v : vec) (kx ky kz : Z) :
  mv Minv (mv M v) = v ->
  norm (mrow1 Minv) * cell_norm M v < 1 / 2 -> norm (mrow2 Minv) * cell_norm M v < 1 / 2 ->
  norm (mrow3 Minv) * cell_norm M v < 1 / 2 ->
  snd (wrap1 ROps (vx v + IZR kx)) = vx v /\ snd (wrap1 ROps (vy v + IZR ky)) = vy v /\ snd (wrap1 ROps (vz v + IZR kz)) = vz v.
Proof. exact (min_image_spacing M Minv v kx ky kz). Qed.
Print Assumptions C13_min_image_spacing.

Theorem C13_molindex_components (T : Type) (items : list (sitem (T:=T))) (atoms : list (satom (T:=T))) :
  atoms <> [] ->
  (forall i j, In (i, j) (cov_edges items) -> (i < length atoms)%nat /\ (j < length atoms)%nat) ->
  let idx := molindex items atoms in
  length idx = length atoms /\
  (forall i, (i < length atoms)%nat -> (1 <= get_idx idx i)%Z) /\
  (forall i j, (i < length atoms)%nat -> (j < length atoms)%nat ->
     (get_idx idx i = get_idx idx j <-> conn (cov_edges items) i j)).
Proof. exact (molindex_components items atoms). Qed.
Print Assumptions C13_molindex_components.

Theorem C13_molindex_example :
  let it := fun a b c => {| it_a1 := a; it_a2 := b; it_dist := tt; it_n := 0%nat; it_cov := c |} in
  let at_ := {| sa_x := tt; sa_y := tt; sa_z := tt; sa_h := false; sa_part := 0%Z; sa_radius := tt; sa_qpeak := false; sa_an := 6%Z |} in
  molindex [it 0 2 true; it 2 0 true; it 0 1 false; it 3 1 true; it 1 3 true]%nat [at_; at_; at_; at_; at_] = [1; 2; 1; 2; 3]%Z.
Proof. exact molindex_example. Qed.
Print Assumptions C13_molindex_example.
