(* C20 — the quaternion fit returns the optimal proper rotation and places fragments.
   Statements only (copied from Proofs/QuatProofs.v by harness/mkprops.py).  k_q2mat, k_rotmol1, k_form1..3,
   k_centroid*, k_rmsd*, k_minus_vect, k_plus_vect are the expression DAGs traced from shelxfile/fit/quatfit.py
   in /repo's current source (coq/Gen/K_quat.v).  Every proper rotation is the matrix q2mat builds from some unit
   quaternion (C20_euler_rodrigues), so optimality holds against ALL proper rotations (C20_optimal_all_rotations).
   Not proved: convergence of the Jacobi sweeps (the eigen certificate assumed by C20_eigen_max is checked numerically
   per sample by the harness). *)
From SX Require Import Base.RTac Gen.K_quat Spec.GeomSpec Spec.QuatSpec Proofs.QuatProofs Proofs.RodriguesProofs.
Import ListNotations.
Open Scope R_scope.

Theorem C20_rot_code_is_mv q0 q1 q2 q3 x : rot_code q0 q1 q2 q3 x = mv (Qmat q0 q1 q2 q3) x.
Proof. exact (rot_code_is_mv q0 q1 q2 q3 x). Qed.
Print Assumptions C20_rot_code_is_mv.

Theorem C20_q2mat_proper q0 q1 q2 q3 : qnorm2 q0 q1 q2 q3 = 1 ->
  orthogonal (Qmat q0 q1 q2 q3) /\ mdet (Qmat q0 q1 q2 q3) = 1.
Proof. exact (q2mat_proper q0 q1 q2 q3). Qed.
Print Assumptions C20_q2mat_proper.

Theorem C20_form1_identity q0 q1 q2 q3 s t :
  dot t (mv (Qmat q0 q1 q2 q3) s) = qf4 (form1 s t) q0 q1 q2 q3.
Proof. exact (form1_identity q0 q1 q2 q3 s t). Qed.
Print Assumptions C20_form1_identity.

Theorem C20_rot_norm q0 q1 q2 q3 s :
  dot (mv (Qmat q0 q1 q2 q3) s) (mv (Qmat q0 q1 q2 q3) s) = qnorm2 q0 q1 q2 q3 * qnorm2 q0 q1 q2 q3 * dot s s.
Proof. exact (rot_norm q0 q1 q2 q3 s). Qed.
Print Assumptions C20_rot_norm.

Theorem C20_form2_additive s0 t0 s1 t1 : form2 s0 t0 s1 t1 = sym4_add (form1 s0 t0) (form1 s1 t1).
Proof. exact (form2_additive s0 t0 s1 t1). Qed.
Print Assumptions C20_form2_additive.

Theorem C20_form3_additive s0 t0 s1 t1 s2 t2 :
  form3 s0 t0 s1 t1 s2 t2 = sym4_add (sym4_add (form1 s0 t0) (form1 s1 t1)) (form1 s2 t2).
Proof. exact (form3_additive s0 t0 s1 t1 s2 t2). Qed.
Print Assumptions C20_form3_additive.

Theorem C20_residual_identity q0 q1 q2 q3 l : qnorm2 q0 q1 q2 q3 = 1 ->
  resid q0 q1 q2 q3 l = sum_pairs (fun s t => dot s s + dot t t) l - 2 * qf4 (form_n l) q0 q1 q2 q3.
Proof. exact (residual_identity q0 q1 q2 q3 l). Qed.
Print Assumptions C20_residual_identity.

Theorem C20_optimal_given_max q0 q1 q2 q3 l : qnorm2 q0 q1 q2 q3 = 1 ->
  (forall p0 p1 p2 p3, qnorm2 p0 p1 p2 p3 = 1 -> qf4 (form_n l) p0 p1 p2 p3 <= qf4 (form_n l) q0 q1 q2 q3) ->
  forall p0 p1 p2 p3, qnorm2 p0 p1 p2 p3 = 1 -> resid q0 q1 q2 q3 l <= resid p0 p1 p2 p3 l.
Proof. exact (optimal_given_max q0 q1 q2 q3 l). Qed.
Print Assumptions C20_optimal_given_max.

Theorem C20_exact_copy_zero q0 q1 q2 q3 p0 p1 p2 p3 l :
  qnorm2 q0 q1 q2 q3 = 1 -> qnorm2 p0 p1 p2 p3 = 1 ->
  (forall r0 r1 r2 r3, qnorm2 r0 r1 r2 r3 = 1 -> qf4 (form_n l) r0 r1 r2 r3 <= qf4 (form_n l) q0 q1 q2 q3) ->
  (forall s t, In (s, t) l -> t = mv (Qmat p0 p1 p2 p3) s) ->
  resid q0 q1 q2 q3 l = 0.
Proof. exact (exact_copy_zero q0 q1 q2 q3 p0 p1 p2 p3 l). Qed.
Print Assumptions C20_exact_copy_zero.

Theorem C20_code_place_is_fit_place q0 q1 q2 q3 pc qc f :
  (* matrix_plus_vect (rotmol (matrix_minus_vect f pc) U) qc, piece by piece as traced *)
  let m := (k_minus_vect_0 ROps (vx f) (vy f) (vz f) (vx pc) (vy pc) (vz pc), k_minus_vect_1 ROps (vx f) (vy f) (vz f) (vx pc) (vy pc) (vz pc),
            k_minus_vect_2 ROps (vx f) (vy f) (vz f) (vx pc) (vy pc) (vz pc)) in
  let r := rot_code q0 q1 q2 q3 m in
  (k_plus_vect_0 ROps (vx r) (vy r) (vz r) (vx qc) (vy qc) (vz qc), k_plus_vect_1 ROps (vx r) (vy r) (vz r) (vx qc) (vy qc) (vz qc),
   k_plus_vect_2 ROps (vx r) (vy r) (vz r) (vx qc) (vy qc) (vz qc)) = fit_place q0 q1 q2 q3 pc qc f.
Proof. exact (code_place_is_fit_place q0 q1 q2 q3 pc qc f). Qed.
Print Assumptions C20_code_place_is_fit_place.

Theorem C20_fit_fragment_places q0 q1 q2 q3 pc qc l :
  resid q0 q1 q2 q3 (centred pc qc l) = 0 ->
  forall s t, In (s, t) l -> fit_place q0 q1 q2 q3 pc qc s = t.
Proof. exact (fit_fragment_places q0 q1 q2 q3 pc qc l). Qed.
Print Assumptions C20_fit_fragment_places.

Theorem C20_rmsd2_is_rms s0 t0 s1 t1 :
  k_rmsd2 ROps (vx s0) (vy s0) (vz s0) (vx t0) (vy t0) (vz t0) (vx s1) (vy s1) (vz s1) (vx t1) (vy t1) (vz t1) =
  sqrt ((dot (vsub s0 t0) (vsub s0 t0) + dot (vsub s1 t1) (vsub s1 t1)) / 2).
Proof. exact (rmsd2_is_rms s0 t0 s1 t1). Qed.
Print Assumptions C20_rmsd2_is_rms.

Theorem C20_centroid3_is_mean p0 p1 p2 :
  (k_centroid3_0 ROps (vx p0) (vy p0) (vz p0) (vx p1) (vy p1) (vz p1) (vx p2) (vy p2) (vz p2),
   k_centroid3_1 ROps (vx p0) (vy p0) (vz p0) (vx p1) (vy p1) (vz p1) (vx p2) (vy p2) (vz p2),
   k_centroid3_2 ROps (vx p0) (vy p0) (vz p0) (vx p1) (vy p1) (vz p1) (vx p2) (vy p2) (vz p2)) =
  ((vx p0 + vx p1 + vx p2) / 3, (vy p0 + vy p1 + vy p2) / 3, (vz p0 + vz p1 + vz p2) / 3).
Proof. exact (centroid3_is_mean p0 p1 p2). Qed.
Print Assumptions C20_centroid3_is_mean.

Theorem C20_unit_quaternion_example : qnorm2 1 0 0 0 = 1 /\ mv (Qmat 1 0 0 0) (1, 2, 3) = (1, 2, 3).
Proof. exact (unit_quaternion_example ). Qed.
Print Assumptions C20_unit_quaternion_example.

Theorem C20_euler_rodrigues (m : mat) : orthogonal m -> mdet m = 1 ->
  exists q0 q1 q2 q3, qnorm2 q0 q1 q2 q3 = 1 /\ Qmat q0 q1 q2 q3 = m.
Proof. exact (euler_rodrigues m). Qed.
Print Assumptions C20_euler_rodrigues.

Theorem C20_optimal_all_rotations q0 q1 q2 q3 l : qnorm2 q0 q1 q2 q3 = 1 ->
  (forall p0 p1 p2 p3, qnorm2 p0 p1 p2 p3 = 1 -> qf4 (form_n l) p0 p1 p2 p3 <= qf4 (form_n l) q0 q1 q2 q3) ->
  forall m, orthogonal m -> mdet m = 1 -> resid_mat (Qmat q0 q1 q2 q3) l <= resid_mat m l.
Proof. exact (optimal_all_rotations q0 q1 q2 q3 l). Qed.
Print Assumptions C20_optimal_all_rotations.

Theorem C20_exact_copy_zero_all q0 q1 q2 q3 l m : qnorm2 q0 q1 q2 q3 = 1 -> orthogonal m -> mdet m = 1 ->
  (forall r0 r1 r2 r3, qnorm2 r0 r1 r2 r3 = 1 -> qf4 (form_n l) r0 r1 r2 r3 <= qf4 (form_n l) q0 q1 q2 q3) ->
  (forall s t, In (s, t) l -> t = mv m s) ->
  resid_mat (Qmat q0 q1 q2 q3) l = 0.
Proof. exact (exact_copy_zero_all q0 q1 q2 q3 l m). Qed.
Print Assumptions C20_exact_copy_zero_all.

Theorem C20_half_turn_example :
  let m : mat := ((-1, 0, 0), (0, -1, 0), (0, 0, 1)) in orthogonal m /\ mdet m = 1 /\ Qmat 0 0 0 1 = m.
Proof. exact (half_turn_example ). Qed.
Print Assumptions C20_half_turn_example.

Theorem C20_eigen_max : forall v00 v01 v02 v03 v10 v11 v12 v13 v20 v21 v22 v23 v30 v31 v32 v33 d0 d1 d2 d3 : R,
  v00 * v00 + v01 * v01 + v02 * v02 + v03 * v03 = 1 -> v10 * v10 + v11 * v11 + v12 * v12 + v13 * v13 = 1 ->
  v20 * v20 + v21 * v21 + v22 * v22 + v23 * v23 = 1 -> v30 * v30 + v31 * v31 + v32 * v32 + v33 * v33 = 1 ->
  v00 * v10 + v01 * v11 + v02 * v12 + v03 * v13 = 0 -> v00 * v20 + v01 * v21 + v02 * v22 + v03 * v23 = 0 ->
  v00 * v30 + v01 * v31 + v02 * v32 + v03 * v33 = 0 -> v10 * v20 + v11 * v21 + v12 * v22 + v13 * v23 = 0 ->
  v10 * v30 + v11 * v31 + v12 * v32 + v13 * v33 = 0 -> v20 * v30 + v21 * v31 + v22 * v32 + v23 * v33 = 0 ->
  v03 * v03 + v13 * v13 + v23 * v23 + v33 * v33 = 1 -> v00 * v03 + v10 * v13 + v20 * v23 + v30 * v33 = 0 ->
  v01 * v03 + v11 * v13 + v21 * v23 + v31 * v33 = 0 -> v02 * v03 + v12 * v13 + v22 * v23 + v32 * v33 = 0 ->
  d0 <= d3 -> d1 <= d3 -> d2 <= d3 ->
  forall p0 p1 p2 p3, qnorm2 p0 p1 p2 p3 = 1 ->
  qf4 (Ndec v00 v01 v02 v03 v10 v11 v12 v13 v20 v21 v22 v23 v30 v31 v32 v33 d0 d1 d2 d3) p0 p1 p2 p3 <=
  qf4 (Ndec v00 v01 v02 v03 v10 v11 v12 v13 v20 v21 v22 v23 v30 v31 v32 v33 d0 d1 d2 d3) v03 v13 v23 v33.
Proof. exact eigen_max. Qed.
Print Assumptions C20_eigen_max.
