(* C12 — cell-derived geometry and tensor transforms are mutually consistent.
   Statements only (copied verbatim from Proofs/CellProofs.v and Proofs/AdpProofs.v by harness/mkprops.py);
   every k_* function is the expression DAG recorded by the trace translator from /repo's current
   source (coq/Gen/K_cell.v, K_adp.v), so these theorems are re-checked against the code on every run.
   Reference notions (metric tensor, valid cell, quadratic form): Spec/CellSpec.v.
   is_npd(): the traced kernel k_npd is, by conversion, the decision tree of Model/Npd.v on the traced Cartesian tensor
   (C12_k_npd_is_model, for every interpretation of the operations); Sylvester's criterion (C12_sylvester3) and the
   congruence U ~ U(cart) then give: reported non-positive-definite exactly when U is not positive definite. *)
From SX Require Import Base.RTac Gen.K_cell Gen.K_adp Spec.CellSpec Proofs.CellProofs Proofs.AdpProofs Model.Npd Proofs.NpdKernel Proofs.NpdProofs.
Import ListNotations.
Open Scope R_scope.

Theorem C12_ortho_conventional a b c al be ga : valid_cell a b c al be ga ->
  k_ortho_m_1_0 ROps a b c al be ga = 0 /\ k_ortho_m_2_0 ROps a b c al be ga = 0 /\
  k_ortho_m_2_1 ROps a b c al be ga = 0 /\
  0 < k_ortho_m_0_0 ROps a b c al be ga /\ 0 < k_ortho_m_1_1 ROps a b c al be ga /\
  0 < k_ortho_m_2_2 ROps a b c al be ga.
Proof. exact (ortho_conventional a b c al be ga). Qed.
Print Assumptions C12_ortho_conventional.

Theorem C12_ortho_metric a b c al be ga : valid_cell a b c al be ga ->
  let m := fun i j => nth j (nth i [[k_ortho_m_0_0 ROps a b c al be ga; k_ortho_m_0_1 ROps a b c al be ga; k_ortho_m_0_2 ROps a b c al be ga];
                                    [k_ortho_m_1_0 ROps a b c al be ga; k_ortho_m_1_1 ROps a b c al be ga; k_ortho_m_1_2 ROps a b c al be ga];
                                    [k_ortho_m_2_0 ROps a b c al be ga; k_ortho_m_2_1 ROps a b c al be ga; k_ortho_m_2_2 ROps a b c al be ga]] []) 0 in
  let mtm := fun i j => m 0%nat i * m 0%nat j + m 1%nat i * m 1%nat j + m 2%nat i * m 2%nat j in
  mtm 0%nat 0%nat = G00 a b c al be ga /\ mtm 1%nat 1%nat = G11 a b c al be ga /\ mtm 2%nat 2%nat = G22 a b c al be ga /\
  mtm 0%nat 1%nat = G01 a b c al be ga /\ mtm 0%nat 2%nat = G02 a b c al be ga /\ mtm 1%nat 2%nat = G12 a b c al be ga.
Proof. exact (ortho_metric a b c al be ga). Qed.
Print Assumptions C12_ortho_metric.

Theorem C12_metric_matrix_code a b c al be ga : valid_cell a b c al be ga ->
  k_ortho_metric_0_0 ROps a b c al be ga = G00 a b c al be ga /\
  k_ortho_metric_1_1 ROps a b c al be ga = G11 a b c al be ga /\
  k_ortho_metric_2_2 ROps a b c al be ga = G22 a b c al be ga /\
  k_ortho_metric_0_1 ROps a b c al be ga = G01 a b c al be ga /\
  k_ortho_metric_1_0 ROps a b c al be ga = G01 a b c al be ga /\
  k_ortho_metric_0_2 ROps a b c al be ga = G02 a b c al be ga /\
  k_ortho_metric_2_0 ROps a b c al be ga = G02 a b c al be ga /\
  k_ortho_metric_1_2 ROps a b c al be ga = G12 a b c al be ga /\
  k_ortho_metric_2_1 ROps a b c al be ga = G12 a b c al be ga.
Proof. exact (metric_matrix_code a b c al be ga). Qed.
Print Assumptions C12_metric_matrix_code.

Theorem C12_det_volume a b c al be ga : valid_cell a b c al be ga ->
  k_det ROps (k_ortho_m_0_0 ROps a b c al be ga) (k_ortho_m_0_1 ROps a b c al be ga) (k_ortho_m_0_2 ROps a b c al be ga)
             (k_ortho_m_1_0 ROps a b c al be ga) (k_ortho_m_1_1 ROps a b c al be ga) (k_ortho_m_1_2 ROps a b c al be ga)
             (k_ortho_m_2_0 ROps a b c al be ga) (k_ortho_m_2_1 ROps a b c al be ga) (k_ortho_m_2_2 ROps a b c al be ga)
  = Vcell a b c al be ga.
Proof. exact (det_volume a b c al be ga). Qed.
Print Assumptions C12_det_volume.

Theorem C12_volumes_agree a b c al be ga :
  k_ortho_V ROps a b c al be ga = Vcell a b c al be ga /\
  k_cell_volume ROps a b c al be ga = Vcell a b c al be ga /\
  k_vol_unitcell ROps a b c al be ga = Vcell a b c al be ga.
Proof. exact (volumes_agree a b c al be ga). Qed.
Print Assumptions C12_volumes_agree.

Theorem C12_ortho_inverse a b c al be ga : valid_cell a b c al be ga ->
  let m := fun i j => nth j (nth i [[k_ortho_m_0_0 ROps a b c al be ga; k_ortho_m_0_1 ROps a b c al be ga; k_ortho_m_0_2 ROps a b c al be ga];
                                    [k_ortho_m_1_0 ROps a b c al be ga; k_ortho_m_1_1 ROps a b c al be ga; k_ortho_m_1_2 ROps a b c al be ga];
                                    [k_ortho_m_2_0 ROps a b c al be ga; k_ortho_m_2_1 ROps a b c al be ga; k_ortho_m_2_2 ROps a b c al be ga]] []) 0 in
  let v := fun i j => nth j (nth i [[k_ortho_inv_0_0 ROps a b c al be ga; k_ortho_inv_0_1 ROps a b c al be ga; k_ortho_inv_0_2 ROps a b c al be ga];
                                    [k_ortho_inv_1_0 ROps a b c al be ga; k_ortho_inv_1_1 ROps a b c al be ga; k_ortho_inv_1_2 ROps a b c al be ga];
                                    [k_ortho_inv_2_0 ROps a b c al be ga; k_ortho_inv_2_1 ROps a b c al be ga; k_ortho_inv_2_2 ROps a b c al be ga]] []) 0 in
  let p := fun i j => v i 0%nat * m 0%nat j + v i 1%nat * m 1%nat j + v i 2%nat * m 2%nat j in
  p 0%nat 0%nat = 1 /\ p 0%nat 1%nat = 0 /\ p 0%nat 2%nat = 0 /\
  p 1%nat 0%nat = 0 /\ p 1%nat 1%nat = 1 /\ p 1%nat 2%nat = 0 /\
  p 2%nat 0%nat = 0 /\ p 2%nat 1%nat = 0 /\ p 2%nat 2%nat = 1.
Proof. exact (ortho_inverse a b c al be ga). Qed.
Print Assumptions C12_ortho_inverse.

Theorem C12_inverse_general m1 m2 m3 m4 m5 m6 m7 m8 m9 :
  k_det ROps m1 m2 m3 m4 m5 m6 m7 m8 m9 <> 0 ->
  let v := fun i j => nth j (nth i [[k_inv_0_0 ROps m1 m2 m3 m4 m5 m6 m7 m8 m9; k_inv_0_1 ROps m1 m2 m3 m4 m5 m6 m7 m8 m9; k_inv_0_2 ROps m1 m2 m3 m4 m5 m6 m7 m8 m9];
                                    [k_inv_1_0 ROps m1 m2 m3 m4 m5 m6 m7 m8 m9; k_inv_1_1 ROps m1 m2 m3 m4 m5 m6 m7 m8 m9; k_inv_1_2 ROps m1 m2 m3 m4 m5 m6 m7 m8 m9];
                                    [k_inv_2_0 ROps m1 m2 m3 m4 m5 m6 m7 m8 m9; k_inv_2_1 ROps m1 m2 m3 m4 m5 m6 m7 m8 m9; k_inv_2_2 ROps m1 m2 m3 m4 m5 m6 m7 m8 m9]] []) 0 in
  let m := fun i j => nth j (nth i [[m1; m2; m3]; [m4; m5; m6]; [m7; m8; m9]] []) 0 in
  let p := fun i j => v i 0%nat * m 0%nat j + v i 1%nat * m 1%nat j + v i 2%nat * m 2%nat j in
  p 0%nat 0%nat = 1 /\ p 0%nat 1%nat = 0 /\ p 0%nat 2%nat = 0 /\
  p 1%nat 0%nat = 0 /\ p 1%nat 1%nat = 1 /\ p 1%nat 2%nat = 0 /\
  p 2%nat 0%nat = 0 /\ p 2%nat 1%nat = 0 /\ p 2%nat 2%nat = 1.
Proof. exact (inverse_general m1 m2 m3 m4 m5 m6 m7 m8 m9). Qed.
Print Assumptions C12_inverse_general.

Theorem C12_f2c_agree x y z a b c al be ga : valid_cell a b c al be ga ->
  k_f2c_0 ROps x y z a b c al be ga = k_cell_o_apply_0 ROps x y z a b c al be ga /\
  k_f2c_1 ROps x y z a b c al be ga = k_cell_o_apply_1 ROps x y z a b c al be ga /\
  k_f2c_2 ROps x y z a b c al be ga = k_cell_o_apply_2 ROps x y z a b c al be ga.
Proof. exact (f2c_agree x y z a b c al be ga). Qed.
Print Assumptions C12_f2c_agree.

Theorem C12_c2f_f2c x y z a b c al be ga : valid_cell a b c al be ga ->
  k_c2f_0 ROps (k_f2c_0 ROps x y z a b c al be ga) (k_f2c_1 ROps x y z a b c al be ga) (k_f2c_2 ROps x y z a b c al be ga) a b c al be ga = x /\
  k_c2f_1 ROps (k_f2c_0 ROps x y z a b c al be ga) (k_f2c_1 ROps x y z a b c al be ga) (k_f2c_2 ROps x y z a b c al be ga) a b c al be ga = y /\
  k_c2f_2 ROps (k_f2c_0 ROps x y z a b c al be ga) (k_f2c_1 ROps x y z a b c al be ga) (k_f2c_2 ROps x y z a b c al be ga) a b c al be ga = z.
Proof. exact (c2f_f2c x y z a b c al be ga). Qed.
Print Assumptions C12_c2f_f2c.

Theorem C12_dist_metric x1 y1 z1 x2 y2 z2 a b c al be ga : valid_cell a b c al be ga ->
  k_dist_cell ROps x1 y1 z1 x2 y2 z2 a b c al be ga =
  sqrt (metric_len2 a b c al be ga (x1 - x2) (y1 - y2) (z1 - z2)) /\
  metric_len2 a b c al be ga (x1 - x2) (y1 - y2) (z1 - z2) =
  (k_cell_o_apply_0 ROps (x1 - x2) (y1 - y2) (z1 - z2) a b c al be ga) * (k_cell_o_apply_0 ROps (x1 - x2) (y1 - y2) (z1 - z2) a b c al be ga) +
  (k_cell_o_apply_1 ROps (x1 - x2) (y1 - y2) (z1 - z2) a b c al be ga) * (k_cell_o_apply_1 ROps (x1 - x2) (y1 - y2) (z1 - z2) a b c al be ga) +
  (k_cell_o_apply_2 ROps (x1 - x2) (y1 - y2) (z1 - z2) a b c al be ga) * (k_cell_o_apply_2 ROps (x1 - x2) (y1 - y2) (z1 - z2) a b c al be ga).
Proof. exact (dist_metric x1 y1 z1 x2 y2 z2 a b c al be ga). Qed.
Print Assumptions C12_dist_metric.

Theorem C12_vector_length_metric x y z a b c al be ga :
  k_vector_length ROps x y z a b c al be ga = sqrt (metric_len2 a b c al be ga x y z).
Proof. exact (vector_length_metric x y z a b c al be ga). Qed.
Print Assumptions C12_vector_length_metric.

Theorem C12_recip_lengths a b c al be ga : valid_cell a b c al be ga ->
  let V := Vcell a b c al be ga in
  k_cell_recip_0 ROps a b c al be ga = b * c * sin (rad al) / V /\
  k_cell_recip_1 ROps a b c al be ga = a * c * sin (rad be) / V /\
  k_cell_recip_2 ROps a b c al be ga = a * b * sin (rad ga) / V /\
  0 < k_cell_recip_0 ROps a b c al be ga /\
  k_cell_recip_0 ROps a b c al be ga * k_cell_recip_0 ROps a b c al be ga =
    (G11 a b c al be ga * G22 a b c al be ga - G12 a b c al be ga * G12 a b c al be ga) / (V * V).
Proof. exact (recip_lengths a b c al be ga). Qed.
Print Assumptions C12_recip_lengths.

Theorem C12_ustar_correct u11 u22 u33 u23 u13 u12 a b c al be ga :
  let n0 := k_cell_recip_0 ROps a b c al be ga in
  let n1 := k_cell_recip_1 ROps a b c al be ga in
  let n2 := k_cell_recip_2 ROps a b c al be ga in
  k_ustar_0_0 ROps u11 u22 u33 u23 u13 u12 a b c al be ga = n0 * u11 * n0 /\
  k_ustar_1_1 ROps u11 u22 u33 u23 u13 u12 a b c al be ga = n1 * u22 * n1 /\
  k_ustar_2_2 ROps u11 u22 u33 u23 u13 u12 a b c al be ga = n2 * u33 * n2 /\
  k_ustar_0_1 ROps u11 u22 u33 u23 u13 u12 a b c al be ga = n0 * u12 * n1 /\
  k_ustar_1_0 ROps u11 u22 u33 u23 u13 u12 a b c al be ga = n1 * u12 * n0 /\
  k_ustar_0_2 ROps u11 u22 u33 u23 u13 u12 a b c al be ga = n0 * u13 * n2 /\
  k_ustar_2_0 ROps u11 u22 u33 u23 u13 u12 a b c al be ga = n2 * u13 * n0 /\
  k_ustar_1_2 ROps u11 u22 u33 u23 u13 u12 a b c al be ga = n1 * u23 * n2 /\
  k_ustar_2_1 ROps u11 u22 u33 u23 u13 u12 a b c al be ga = n2 * u23 * n1.
Proof. exact (ustar_correct u11 u22 u33 u23 u13 u12 a b c al be ga). Qed.
Print Assumptions C12_ustar_correct.

Theorem C12_ucart_correct u11 u22 u33 u23 u13 u12 a b c al be ga :
  let m := fun i j => nth j (nth i [[k_ortho_m_0_0 ROps a b c al be ga; k_ortho_m_0_1 ROps a b c al be ga; k_ortho_m_0_2 ROps a b c al be ga];
                                    [k_ortho_m_1_0 ROps a b c al be ga; k_ortho_m_1_1 ROps a b c al be ga; k_ortho_m_1_2 ROps a b c al be ga];
                                    [k_ortho_m_2_0 ROps a b c al be ga; k_ortho_m_2_1 ROps a b c al be ga; k_ortho_m_2_2 ROps a b c al be ga]] []) 0 in
  let us := fun i j => nth j (nth i
     [[k_ustar_0_0 ROps u11 u22 u33 u23 u13 u12 a b c al be ga; k_ustar_0_1 ROps u11 u22 u33 u23 u13 u12 a b c al be ga; k_ustar_0_2 ROps u11 u22 u33 u23 u13 u12 a b c al be ga];
      [k_ustar_1_0 ROps u11 u22 u33 u23 u13 u12 a b c al be ga; k_ustar_1_1 ROps u11 u22 u33 u23 u13 u12 a b c al be ga; k_ustar_1_2 ROps u11 u22 u33 u23 u13 u12 a b c al be ga];
      [k_ustar_2_0 ROps u11 u22 u33 u23 u13 u12 a b c al be ga; k_ustar_2_1 ROps u11 u22 u33 u23 u13 u12 a b c al be ga; k_ustar_2_2 ROps u11 u22 u33 u23 u13 u12 a b c al be ga]] []) 0 in
  let mum := fun i j =>
     m i 0%nat * (us 0%nat 0%nat * m j 0%nat + us 0%nat 1%nat * m j 1%nat + us 0%nat 2%nat * m j 2%nat) +
     m i 1%nat * (us 1%nat 0%nat * m j 0%nat + us 1%nat 1%nat * m j 1%nat + us 1%nat 2%nat * m j 2%nat) +
     m i 2%nat * (us 2%nat 0%nat * m j 0%nat + us 2%nat 1%nat * m j 1%nat + us 2%nat 2%nat * m j 2%nat) in
  k_ucart_0_0 ROps u11 u22 u33 u23 u13 u12 a b c al be ga = mum 0%nat 0%nat /\
  k_ucart_0_1 ROps u11 u22 u33 u23 u13 u12 a b c al be ga = mum 0%nat 1%nat /\
  k_ucart_0_2 ROps u11 u22 u33 u23 u13 u12 a b c al be ga = mum 0%nat 2%nat /\
  k_ucart_1_0 ROps u11 u22 u33 u23 u13 u12 a b c al be ga = mum 1%nat 0%nat /\
  k_ucart_1_1 ROps u11 u22 u33 u23 u13 u12 a b c al be ga = mum 1%nat 1%nat /\
  k_ucart_1_2 ROps u11 u22 u33 u23 u13 u12 a b c al be ga = mum 1%nat 2%nat /\
  k_ucart_2_0 ROps u11 u22 u33 u23 u13 u12 a b c al be ga = mum 2%nat 0%nat /\
  k_ucart_2_1 ROps u11 u22 u33 u23 u13 u12 a b c al be ga = mum 2%nat 1%nat /\
  k_ucart_2_2 ROps u11 u22 u33 u23 u13 u12 a b c al be ga = mum 2%nat 2%nat.
Proof. exact (ucart_correct u11 u22 u33 u23 u13 u12 a b c al be ga). Qed.
Print Assumptions C12_ucart_correct.

Theorem C12_ucart_symmetric u11 u22 u33 u23 u13 u12 a b c al be ga :
  k_ucart_0_1 ROps u11 u22 u33 u23 u13 u12 a b c al be ga = k_ucart_1_0 ROps u11 u22 u33 u23 u13 u12 a b c al be ga /\
  k_ucart_0_2 ROps u11 u22 u33 u23 u13 u12 a b c al be ga = k_ucart_2_0 ROps u11 u22 u33 u23 u13 u12 a b c al be ga /\
  k_ucart_1_2 ROps u11 u22 u33 u23 u13 u12 a b c al be ga = k_ucart_2_1 ROps u11 u22 u33 u23 u13 u12 a b c al be ga.
Proof. exact (ucart_symmetric u11 u22 u33 u23 u13 u12 a b c al be ga). Qed.
Print Assumptions C12_ucart_symmetric.

Theorem C12_ueq_trace u11 u22 u33 u23 u13 u12 a b c al be ga :
  (~ 0 < u11 \/ u33 <> 0 \/ u23 <> 0 \/ u13 <> 0 \/ u12 <> 0) ->
  k_ueq ROps u11 u22 u33 u23 u13 u12 a b c al be ga =
  (k_ucart_0_0 ROps u11 u22 u33 u23 u13 u12 a b c al be ga + k_ucart_1_1 ROps u11 u22 u33 u23 u13 u12 a b c al be ga +
   k_ucart_2_2 ROps u11 u22 u33 u23 u13 u12 a b c al be ga) / 3.
Proof. exact (ueq_trace u11 u22 u33 u23 u13 u12 a b c al be ga). Qed.
Print Assumptions C12_ueq_trace.

Theorem C12_ueq_iso u11 u22 a b c al be ga : 0 < u11 ->
  k_ueq ROps u11 u22 0 0 0 0 a b c al be ga = u11.
Proof. exact (ueq_iso u11 u22 a b c al be ga). Qed.
Print Assumptions C12_ueq_iso.

Theorem C12_pd_congruence u11 u22 u33 u23 u13 u12 a b c al be ga : valid_cell a b c al be ga ->
  pos_def u11 u22 u33 u23 u13 u12 <->
  pos_def (k_ucart_0_0 ROps u11 u22 u33 u23 u13 u12 a b c al be ga) (k_ucart_1_1 ROps u11 u22 u33 u23 u13 u12 a b c al be ga)
          (k_ucart_2_2 ROps u11 u22 u33 u23 u13 u12 a b c al be ga) (k_ucart_1_2 ROps u11 u22 u33 u23 u13 u12 a b c al be ga)
          (k_ucart_0_2 ROps u11 u22 u33 u23 u13 u12 a b c al be ga) (k_ucart_0_1 ROps u11 u22 u33 u23 u13 u12 a b c al be ga).
Proof. exact (pd_congruence u11 u22 u33 u23 u13 u12 a b c al be ga). Qed.
Print Assumptions C12_pd_congruence.

Theorem C12_sylvester3 u11 u22 u33 u23 u13 u12 :
  pos_def u11 u22 u33 u23 u13 u12 <->
  (0 < u11 /\ 0 < minor2 u11 u22 u33 u23 u13 u12 /\ 0 < minor3 u11 u22 u33 u23 u13 u12).
Proof. exact (sylvester3 u11 u22 u33 u23 u13 u12). Qed.
Print Assumptions C12_sylvester3.

Theorem C12_k_npd_is_model (T : Type) (O : Ops T) u11 u22 u33 u23 u13 u12 a b c al be ga :
  k_npd O u11 u22 u33 u23 u13 u12 a b c al be ga =
  npd_model O u11 u22 u33 u23 u13 u12
    (k_ucart_0_0 O u11 u22 u33 u23 u13 u12 a b c al be ga) (k_ucart_0_1 O u11 u22 u33 u23 u13 u12 a b c al be ga) (k_ucart_0_2 O u11 u22 u33 u23 u13 u12 a b c al be ga)
    (k_ucart_1_0 O u11 u22 u33 u23 u13 u12 a b c al be ga) (k_ucart_1_1 O u11 u22 u33 u23 u13 u12 a b c al be ga) (k_ucart_1_2 O u11 u22 u33 u23 u13 u12 a b c al be ga)
    (k_ucart_2_0 O u11 u22 u33 u23 u13 u12 a b c al be ga) (k_ucart_2_1 O u11 u22 u33 u23 u13 u12 a b c al be ga) (k_ucart_2_2 O u11 u22 u33 u23 u13 u12 a b c al be ga).
Proof. exact (k_npd_is_model T O u11 u22 u33 u23 u13 u12 a b c al be ga). Qed.
Print Assumptions C12_k_npd_is_model.

Theorem C12_npd_aniso_correct u11 u22 u33 u23 u13 u12 a b c al be ga : valid_cell a b c al be ga ->
  (u33 <> 0 \/ u23 <> 0 \/ u13 <> 0 \/ u12 <> 0) ->
  (k_npd ROps u11 u22 u33 u23 u13 u12 a b c al be ga = 0 <-> pos_def u11 u22 u33 u23 u13 u12) /\
  (k_npd ROps u11 u22 u33 u23 u13 u12 a b c al be ga = 1 <-> ~ pos_def u11 u22 u33 u23 u13 u12).
Proof. exact (npd_aniso_correct u11 u22 u33 u23 u13 u12 a b c al be ga). Qed.
Print Assumptions C12_npd_aniso_correct.

Theorem C12_npd_iso_correct u11 h a b c al be ga :
  (0 < u11 -> k_npd ROps u11 h 0 0 0 0 a b c al be ga = 0) /\
  (-1 / 2 < u11 <= 0 -> k_npd ROps u11 h 0 0 0 0 a b c al be ga = 1) /\
  (u11 <= -1 / 2 -> k_npd ROps u11 h 0 0 0 0 a b c al be ga = 0).
Proof. exact (npd_iso_correct u11 h a b c al be ga). Qed.
Print Assumptions C12_npd_iso_correct.

Theorem C12_npd_example_pd : pos_def 1 1 1 0 0 0.
Proof. exact (npd_example_pd ). Qed.
Print Assumptions C12_npd_example_pd.

Theorem C12_npd_example_npd : ~ pos_def 1 1 1 0 0 2.
Proof. exact (npd_example_npd ). Qed.
Print Assumptions C12_npd_example_npd.

Theorem C12_valid_cell_ortho : valid_cell 10 11 12 90 90 90.
Proof. exact (valid_cell_ortho ). Qed.
Print Assumptions C12_valid_cell_ortho.

Theorem C12_valid_cell_hex : valid_cell 10 10 15 90 90 120.
Proof. exact (valid_cell_hex ). Qed.
Print Assumptions C12_valid_cell_hex.
