(* C16 — instruction objects expose the parameters the SHELXL syntax assigns.
   Statements only (copied from Proofs/AttrsProofs.v by harness/mkprops.py).  Model: Model/Attrs.v (the positional
   unpacking pattern of the instruction classes, the HKLF / TWIN / ZERR slices, the DEFS-dependent defaults of
   restraints, LSCycles._as_str and re-initialisation), compared with the implementation's objects for every keyword
   and arity by harness/props/c16.py. *)
From SX Require Import Base.Str Model.Attrs Proofs.AttrsProofs.
From Coq Require Import QArith.

Theorem C16_unpack_given ds p i x : nth_error p i = Some x -> (i < length ds)%nat -> nth_error (unpack ds p) i = Some (Some x).
Proof. exact (unpack_given ds p i x). Qed.
Print Assumptions C16_unpack_given.

Theorem C16_unpack_omitted ds p i d : (length p <= i)%nat -> nth_error ds i = Some d -> nth_error (unpack ds p) i = Some d.
Proof. exact (unpack_omitted ds p i d). Qed.
Print Assumptions C16_unpack_omitted.

Theorem C16_set_is_parse ds old p : set_again ds old p = unpack ds p.
Proof. exact (set_is_parse ds old p). Qed.
Print Assumptions C16_set_is_parse.

Theorem C16_stale_attribute_refuted : exists old p, assign_given old p <> unpack [None; None] p.
Proof. exact (stale_attribute_refuted ). Qed.
Print Assumptions C16_stale_attribute_refuted.

Theorem C16_hklf_full n s m1 m2 m3 m4 m5 m6 m7 m8 m9 sm m :
  hklf [n; s; m1; m2; m3; m4; m5; m6; m7; m8; m9; sm; m] =
  {| hk_n := n; hk_s := s; hk_matrix := [m1; m2; m3; m4; m5; m6; m7; m8; m9]; hk_sm := sm; hk_m := m |}.
Proof. exact (hklf_full n s m1 m2 m3 m4 m5 m6 m7 m8 m9 sm m). Qed.
Print Assumptions C16_hklf_full.

Theorem C16_hklf_short n s : hklf [n; s] = {| hk_n := n; hk_s := s; hk_matrix := [1; 0; 0; 0; 1; 0; 0; 0; 1]; hk_sm := 1; hk_m := 0 |}
                         /\ hk_s (hklf [n]) = 1 /\ hk_n (hklf []) = 0.
Proof. exact (hklf_short n s). Qed.
Print Assumptions C16_hklf_short.

Theorem C16_twin_forms a b c d e f g h i n :
  twin [a; b; c; d; e; f; g; h; i; n] = ([a; b; c; d; e; f; g; h; i], n) /\
  twin [a; b; c; d; e; f; g; h; i] = ([a; b; c; d; e; f; g; h; i], 2) /\ twin [] = ([-1; 0; 0; 0; -1; 0; 0; 0; -1], 2).
Proof. exact (twin_forms a b c d e f g h i n). Qed.
Print Assumptions C16_twin_forms.

Theorem C16_zerr_slots z a b c al be ga : zerr [z; a; b; c; al; be; ga] = (z, [a; b; c; al; be; ga]).
Proof. exact (zerr_slots z a b c al be ga). Qed.
Print Assumptions C16_zerr_slots.

Theorem C16_ls_setter l n : ls_denote (ls_set_number l n) = (n, snd (fst (ls_denote l)), snd (ls_denote l)).
Proof. exact (ls_setter l n). Qed.
Print Assumptions C16_ls_setter.

Theorem C16_defs_defaults d :
  restraint_defaults "DFIX" (Some d) = [None; Some (sd d)] /\ restraint_defaults "SADI" (Some d) = [Some (sd d)] /\
  restraint_defaults "SAME" (Some d) = [Some (sd d); Some (sd d * 2)] /\ restraint_defaults "CHIV" (Some d) = [Some 0; Some (sf d)] /\
  restraint_defaults "FLAT" (Some d) = [Some (sf d)] /\ restraint_defaults "DELU" (Some d) = [Some (su d); Some (su d)] /\
  restraint_defaults "SIMU" (Some d) = [Some (ss d); Some (ss d * 2); Some 2].
Proof. exact (defs_defaults d). Qed.
Print Assumptions C16_defs_defaults.
