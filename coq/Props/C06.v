(* C06 — written files are well-formed SHELXL: bounded line length, sound continuation.
   Statements only (copied from Proofs/WrapProofs.v by harness/mkprops.py).  Model: Model/Wrap.v (misc.wrap_line as
   repaired, the writer loop, FVARs.__str__, SFACTable.__repr__); spec: Spec/WrapSpec.v.  The 80-column bound holds
   for texts whose tokens and blank runs have at most 75 characters (a longer token fits on no SHELXL line). *)
From SX Require Import Base.Prelude Base.Str Model.Lex Model.Wrap Spec.WrapSpec Proofs.WrapProofs.
Local Open Scope nat_scope.

Theorem C06_wrap_wellformed s : runs_short s -> ~ In cEq s -> wellformed s (wrap_lines s).
Proof. exact (wrap_wellformed s). Qed.
Print Assumptions C06_wrap_wellformed.

Theorem C06_wrap_length s : runs_short s -> Forall (fun l => length l <= max_columns) (wrap_lines s).
Proof. exact (wrap_length s). Qed.
Print Assumptions C06_wrap_length.

Theorem C06_wrap_cont s : cont_ok true (wrap_lines s).
Proof. exact (wrap_cont s). Qed.
Print Assumptions C06_wrap_cont.

Theorem C06_wrap_tokens s : ~ In cEq s -> tokens (wrap_lines s) = split_ws s.
Proof. exact (wrap_tokens s). Qed.
Print Assumptions C06_wrap_tokens.

Theorem C06_wrap_breaks_between_runs s : concat (pieces s) = chunks s /\ concat (chunks s) = s /\ exists k, alt_from k (chunks s).
Proof. exact (wrap_breaks_between_runs s). Qed.
Print Assumptions C06_wrap_breaks_between_runs.

Theorem C06_write_length items : Forall (fun parts => Forall runs_short parts) items ->
  Forall (fun l => length l <= max_columns) (write_lines items).
Proof. exact (write_length items). Qed.
Print Assumptions C06_write_length.

Theorem C06_fvar_lines_shape vals :
  exists gs, fvar_lines vals = map (fun g => lit "FVAR   " ++ join (lit "   ") g) gs /\ concat gs = vals
             /\ Forall (fun g => (1 <= length g <= 7)%nat) gs.
Proof. exact (fvar_lines_shape vals). Qed.
Print Assumptions C06_fvar_lines_shape.

Theorem C06_sfac_lines_shape es : Forall (fun e => sfac_params e <> []) es ->
  exists gs, sfac_lines es = map sfac_line gs /\ concat gs = flat_map sfac_params es /\ Forall (fun g => g <> []) gs.
Proof. exact (sfac_lines_shape es). Qed.
Print Assumptions C06_sfac_lines_shape.

Theorem C06_wrap_example :
  let s := lit "SADI 0.02 C1 C2 C3 C4 C5 C6 C7 C8 C9 C10 C11 C12 C13 C14 C15 C16 C17 C18 C19 C20 C21 C22 C23 C24" in
  wrap_lines s = [lit "SADI 0.02 C1 C2 C3 C4 C5 C6 C7 C8 C9 C10 C11 C12 C13 C14 C15 C16 C17 C18 C19  =";
                  lit "   C20 C21 C22 C23 C24"] /\ runs_short s /\ ~ In cEq s.
Proof. exact (wrap_example ). Qed.
Print Assumptions C06_wrap_example.
