(* C04 — API edits change exactly what they say - nothing else is lost, moved or altered.
   Statements only (copied from Proofs/EditProofs.v by harness/mkprops.py).  Model: Model/Edit.v (the list bookkeeping of
   the editing API as repaired, with delete_on_write as a set of absolute positions); specification: Spec/EditSpec.v
   (entries carrying their own "absorbed" flag; an edit inserts, removes or re-texts one entry). *)
From SX Require Import Base.Prelude Base.Str Model.Wrap Model.Writer Model.Edit Spec.EditSpec Proofs.EditProofs.
Local Open Scope nat_scope.

Theorem C04_edits_refine ops : forall s, valid_ops (length (e_items s)) ops = true ->
  written (fold_left apply ops s) = write_tagged (fold_left spec_apply ops (abs s)).
Proof. exact (edits_refine ops). Qed.
Print Assumptions C04_edits_refine.

Theorem C04_abs_step s o : op_valid (length (e_items s)) o = true -> abs (apply s o) = spec_apply (abs s) o.
Proof. exact (abs_step s o). Qed.
Print Assumptions C04_abs_step.

Theorem C04_written_abs s : written s = write_tagged (abs s).
Proof. exact (written_abs s). Qed.
Print Assumptions C04_written_abs.

Theorem C04_insert_local k it l : write_tagged (insert_at k (it, false) l) = write_tagged (firstn k l) ++ item_lines it ++ write_tagged (skipn k l).
Proof. exact (insert_local k it l). Qed.
Print Assumptions C04_insert_local.

Theorem C04_remove_local k l : write_tagged (remove_at k l) = write_tagged (firstn k l) ++ write_tagged (skipn (S k) l).
Proof. exact (remove_local k l). Qed.
Print Assumptions C04_remove_local.

Theorem C04_replace_local k it f l : write_tagged (replace_at k (it, f) l) =
  write_tagged (firstn k l) ++ (if f then [] else item_lines it) ++ write_tagged (skipn (S k) l).
Proof. exact (replace_local k it f l). Qed.
Print Assumptions C04_replace_local.

Theorem C04_edit_example :
  let s := {| e_items := [IObj [lit "FVAR 1 2"]; IRaw (lit "FVAR 3"); IObj [lit "C1 1 0 0 0"]; IObj [lit "HKLF 4"]]; e_del := [1] |} in
  written s = [lit "FVAR 1 2"; lit "C1 1 0 0 0"; lit "HKLF 4"]
  /\ written (apply s (OIns 0 (IRaw (lit "ANIS")))) = [lit "ANIS"; lit "FVAR 1 2"; lit "C1 1 0 0 0"; lit "HKLF 4"]
  /\ written (apply (apply s (OIns 0 (IRaw (lit "ANIS")))) (ODel 3)) = [lit "ANIS"; lit "FVAR 1 2"; lit "HKLF 4"].
Proof. exact (edit_example ). Qed.
Print Assumptions C04_edit_example.
