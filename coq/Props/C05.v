(* C05 — parsing depends on instruction content only, not on layout, comments or case.
   Statements only (copied from Proofs/LexProofs.v by harness/mkprops.py).  Model: Model/Lex.v (the line handling at
   the top of Shelxfile._parse_cards and misc.multiline_test as repaired: skipping of blank / indented lines,
   continuation, comment stripping, splitting); spec: Spec/LexSpec.v (logical lines = token lists; layouts = cuts
   into continuation lines, runs of blanks, '!' comments that may contain '=' and '!', blank and indented lines).
   C05_lex_render is universally quantified over files and layouts. *)
From SX Require Import Base.Str Model.Lex Spec.LexSpec Proofs.LexProofs.

Theorem C05_lex_render (f : list lline) : forallb lline_ok f = true -> lex (render_file f) = map tokens_of f.
Proof. exact (lex_render f). Qed.
Print Assumptions C05_lex_render.

Theorem C05_lex_layout_independent (f1 f2 : list lline) :
  forallb lline_ok f1 = true -> forallb lline_ok f2 = true -> map tokens_of f1 = map tokens_of f2 ->
  lex (render_file f1) = lex (render_file f2).
Proof. exact (lex_layout_independent f1 f2). Qed.
Print Assumptions C05_lex_layout_independent.

Theorem C05_dispatch_case_insensitive t r : dispatch_word (upper t :: r) = dispatch_word (t :: r).
Proof. exact (dispatch_case_insensitive t r). Qed.
Print Assumptions C05_dispatch_case_insensitive.

Theorem C05_split_pieces l : forall first s, pieces_ok first l = true -> ends_token s ->
  split_aux [] (render_pieces l ++ s) = map snd l ++ split_aux [] s.
Proof. exact (split_pieces l). Qed.
Print Assumptions C05_split_pieces.

Theorem C05_glue_chunks more : forall (acc : str) (c : chunk) (a : nat) (rest : list str),
  forallb (fun ac => cont_chunk_ok (snd ac)) more = true -> cont_chunk_ok c = true ->
  glue acc true (render_chunks c more a ++ rest) =
  (acc ++ concat (map (fun ch => render_pieces (ch_pieces ch) ++ blanks (ch_trail ch)) (c :: map snd more)), rest).
Proof. exact (glue_chunks more). Qed.
Print Assumptions C05_glue_chunks.

Theorem C05_lex_example :
  lex [lit "SADI 0.02 C1 C2 = ! first = part"; lit "   C3 C4"; lit ""; lit " indented comment"; lit "fvar 1.0 ! a=b"; lit "C1 1 0 0 0"]
  = [[lit "SADI"; lit "0.02"; lit "C1"; lit "C2"; lit "C3"; lit "C4"]; [lit "fvar"; lit "1.0"]; [lit "C1"; lit "1"; lit "0"; lit "0"; lit "0"]].
Proof. exact (lex_example ). Qed.
Print Assumptions C05_lex_example.
