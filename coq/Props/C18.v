(* C18 — the CIF export states the same structure as the model.
   Statements only (copied from Proofs/CifProofs.v by harness/mkprops.py).  Model: Model/Cif.v; the operator strings are read
   back by the character-level parser of SymmetryElement (Model/Symm.v), proved correct for the whole grammar in C10. *)
From SX Require Import Base.Prelude Base.Str Model.Symm Spec.SymmSpec Proofs.SymmProofs Model.Cif Proofs.CifProofs.

Theorem C18_cif_comp_denotes cx cy cz t :
  unit_coef cx = true -> unit_coef cy = true -> unit_coef cz = true -> printed_trans_wf t = true ->
  parse_component (cif_comp (cx, cy, cz) t) = Some (cx, cy, cz, trans_value t).
Proof. exact (cif_comp_denotes cx cy cz t). Qed.
Print Assumptions C18_cif_comp_denotes.

Theorem C18_atom_loop_complete l a : In a l -> ca_qpeak a = false -> In (atom_row a) (atom_loop l).
Proof. exact (atom_loop_complete l a). Qed.
Print Assumptions C18_atom_loop_complete.

Theorem C18_atom_loop_sound l r : In r (atom_loop l) -> exists a, In a l /\ ca_qpeak a = false /\ r = atom_row a.
Proof. exact (atom_loop_sound l r). Qed.
Print Assumptions C18_atom_loop_sound.

Theorem C18_atom_loop_count l : length (atom_loop l) = length (filter (fun a => negb (ca_qpeak a)) l).
Proof. exact (atom_loop_count l). Qed.
Print Assumptions C18_atom_loop_count.

Theorem C18_aniso_loop_complete l a : In a l -> ca_qpeak a = false -> ca_iso a = false -> In (aniso_row a) (aniso_loop l).
Proof. exact (aniso_loop_complete l a). Qed.
Print Assumptions C18_aniso_loop_complete.

Theorem C18_aniso_loop_sound l r : In r (aniso_loop l) -> exists a, In a l /\ ca_qpeak a = false /\ ca_iso a = false /\ r = aniso_row a
                                                        /\ In (atom_row a) (atom_loop l).
Proof. exact (aniso_loop_sound l r). Qed.
Print Assumptions C18_aniso_loop_sound.

Theorem C18_cif_comp_example :
  string_of_list_ascii (cif_comp (-1, 1, 0)%Z (Some (None, NFrac (lit "2") (lit "3")))) = "2/3-x+y"%string
  /\ parse_component (lit "2/3-x+y") = Some ((-1)%Z, 1%Z, 0%Z, 2 # 3).
Proof. exact (cif_comp_example ). Qed.
Print Assumptions C18_cif_comp_example.
