(* C10 — symmetry-operator strings are parsed and printed exactly.
   Statements only (copied from Proofs/SymmProofs.v by harness/mkprops.py).  Model: Model/Symm.v, a character-level
   transcription of SymmetryElement._parse_line/_partition/_float/to_shelxl/__eq__ tied to /repo by the
   correspondence check harness/props/c10.py (exhaustive over a bounded grammar).  Spec: Spec/SymmSpec.v —
   components are lists of items (signed axis terms in any order, one translation numeral anywhere), `rend` spells
   them canonically, `decorated` adds blanks and lower case, `denote` gives the rotation row and translation. *)
From SX Require Import Base.Str Model.Symm Spec.SymmSpec Proofs.SymmProofs.
From Coq Require Import QArith Qabs.

Theorem C10_parse_component_correct l s' : comp_wf l = true -> decorated (rend l) s' ->
  parse_component s' = Some (denote l).
Proof. exact (parse_component_correct l s'). Qed.
Print Assumptions C10_parse_component_correct.

Theorem C10_parse_op_correct l1 l2 l3 s1 s2 s3 :
  comp_wf l1 = true -> comp_wf l2 = true -> comp_wf l3 = true ->
  decorated (rend l1) s1 -> decorated (rend l2) s2 -> decorated (rend l3) s3 ->
  parse_op [s1; s2; s3] false =
  Some {| so_rows := [fst (denote l1); fst (denote l2); fst (denote l3)];
          so_trans := [snd (denote l1); snd (denote l2); snd (denote l3)] |}.
Proof. exact (parse_op_correct l1 l2 l3 s1 s2 s3). Qed.
Print Assumptions C10_parse_op_correct.

Theorem C10_print_parse_component cx cy cz t :
  unit_coef cx = true -> unit_coef cy = true -> unit_coef cz = true -> printed_trans_wf t = true ->
  parse_component (to_shelxl_comp (cx, cy, cz) t) = Some (cx, cy, cz, trans_value t).
Proof. exact (print_parse_component cx cy cz t). Qed.
Print Assumptions C10_print_parse_component.

Theorem C10_trans_close_sound a b (k : Z) : a - b == inject_Z k -> trans_close a b = true.
Proof. exact (trans_close_sound a b k). Qed.
Print Assumptions C10_trans_close_sound.

Theorem C10_trans_close_complete a b : trans_close a b = true -> exists k : Z, Qabs (a - b - inject_Z k) < tol.
Proof. exact (trans_close_complete a b). Qed.
Print Assumptions C10_trans_close_complete.

Theorem C10_trans_close_grid a b (m : Z) : a - b == m # 24 -> (trans_close a b = true <-> (24 | m)%Z).
Proof. exact (trans_close_grid a b m). Qed.
Print Assumptions C10_trans_close_grid.

Theorem C10_eq_two_thirds : trans_close (2 # 3) (- (1 # 3)) = true.
Proof. exact (eq_two_thirds ). Qed.
Print Assumptions C10_eq_two_thirds.

Theorem C10_parse_example : parse_component (lit " 1/2 - x + Y") = Some ((-1)%Z, 1%Z, 0%Z, 1 # 2).
Proof. exact (parse_example ). Qed.
Print Assumptions C10_parse_example.
