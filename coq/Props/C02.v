(* C02 — valid input is parsed to the end; no valid instruction truncates the model.
   Statements only (copied from Proofs/CardsProofs.v by harness/mkprops.py).  Model: Model/Cards.v (numeric / word
   classification of Command._parse_line and Restraint._parse_line, float() on the numeral grammar, and for every
   keyword the condition under which its constructor or its branch of _parse_cards raises); syntax table:
   Spec/Syntax.v, generated from the table the generators use and compared on every run with the syntax summary
   documented in shelxfile/shelx/cards.py.  Modes: C02_parse_modes_agree - for valid input every mode processes every line and
   none raises; C02_quiet_never_raises - outside debug mode the card loop of the model never raises (a model of the one
   try/except; that the implementation swallows every exception there, also on malformed text, is checked by mutation fuzzing
   in harness/props/c02.py, not proved). *)
From SX Require Import Base.Str Model.Symm Model.Cards Spec.Syntax Proofs.CardsProofs.
From Coq Require Import QArith.

Theorem C02_handle_valid (e : syn) (nums words : list str) :
  In e syntax_table -> valid_instr e nums words -> handle (sy_kw e) (nums ++ words) = true.
Proof. exact (handle_valid e nums words). Qed.
Print Assumptions C02_handle_valid.

Theorem C02_parse_reaches_end (ls : list (string * list str)) : Forall valid_line ls -> parse_lines ls = length ls.
Proof. exact (parse_reaches_end ls). Qed.
Print Assumptions C02_parse_reaches_end.

Theorem C02_accepts_table (e : syn) (ns : list Q) (ws : list str) :
  In e syntax_table -> In (length ns) (sy_arities e) -> (sy_minwords e <= length ws)%nat -> (sy_words e = false -> ws = []) ->
  values_ok (sy_kw e) ns = true -> accepts (sy_kw e) ns ws = true.
Proof. exact (accepts_table e ns ws). Qed.
Print Assumptions C02_accepts_table.

Theorem C02_cmd_params_valid ns ws : forallb num_ok ns = true -> forallb word_ok ws = true ->
  cmd_params (ns ++ ws) = Some (map num_val ns, ws).
Proof. exact (cmd_params_valid ns ws). Qed.
Print Assumptions C02_cmd_params_valid.

Theorem C02_rst_params_valid ns ws : forallb num_ok ns = true -> forallb word_ok ws = true ->
  rst_params (ns ++ ws) = (map num_val ns, ws).
Proof. exact (rst_params_valid ns ws). Qed.
Print Assumptions C02_rst_params_valid.

Theorem C02_name_is_word c r : name_start c = true -> word_ok (c :: r) = true.
Proof. exact (name_is_word c r). Qed.
Print Assumptions C02_name_is_word.

Theorem C02_sadi_valid : exists e, In e syntax_table /\ sy_kw e = "SADI"%string /\
  valid_instr e [lit "0.02"] [lit "C1"; lit "C2"].
Proof. exact (sadi_valid ). Qed.
Print Assumptions C02_sadi_valid.

Theorem C02_parse_modes_agree (ls : list (string * list str)) : Forall valid_line ls -> forall m k, parse_mode m ls k = Done (k + length ls).
Proof. exact (parse_modes_agree ls). Qed.
Print Assumptions C02_parse_modes_agree.

Theorem C02_quiet_never_raises (ls : list (string * list str)) m : m <> Debug -> forall k, exists n, parse_mode m ls k = Done n.
Proof. exact (quiet_never_raises ls m). Qed.
Print Assumptions C02_quiet_never_raises.
