(* C15 — angles, torsions, named distances and neighbour search match textbook geometry.
   Statements only (copied from Proofs/GeomProofs.v by harness/mkprops.py).  k_torsion, k_angle and
   k_dist_cart are the expression DAGs traced from Atoms.torsion_angle, Atoms.angle and atomic_distance
   in /repo's current source (coq/Gen/K_geom.v, K_cell.v); the *_matches_spec theorems identify them with
   the textbook definitions of Spec/GeomSpec.v, for which the remaining statements are proved. *)
From SX Require Import Base.RTac Gen.K_geom Gen.K_cell Spec.GeomSpec Proofs.GeomProofs Model.Around.
Open Scope R_scope.

Theorem C15_torsion_matches_spec x0 y0 z0 x1 y1 z1 x2 y2 z2 x3 y3 z3 :
  k_torsion ROps x0 y0 z0 x1 y1 z1 x2 y2 z2 x3 y3 z3 =
  torsion_spec (x0, y0, z0) (x1, y1, z1) (x2, y2, z2) (x3, y3, z3).
Proof. exact (torsion_matches_spec x0 y0 z0 x1 y1 z1 x2 y2 z2 x3 y3 z3). Qed.
Print Assumptions C15_torsion_matches_spec.

Theorem C15_angle_matches_spec x1 y1 z1 x2 y2 z2 x3 y3 z3 :
  k_angle ROps x1 y1 z1 x2 y2 z2 x3 y3 z3 = angle_spec (x1, y1, z1) (x2, y2, z2) (x3, y3, z3).
Proof. exact (angle_matches_spec x1 y1 z1 x2 y2 z2 x3 y3 z3). Qed.
Print Assumptions C15_angle_matches_spec.

Theorem C15_distance_matches_spec x1 y1 z1 x2 y2 z2 :
  k_dist_cart ROps x1 y1 z1 x2 y2 z2 = dist_spec (x1, y1, z1) (x2, y2, z2).
Proof. exact (distance_matches_spec x1 y1 z1 x2 y2 z2). Qed.
Print Assumptions C15_distance_matches_spec.

Theorem C15_torsion_rigid m t p1 p2 p3 p4 : orthogonal m -> mdet m = 1 ->
  torsion_spec (move m t p1) (move m t p2) (move m t p3) (move m t p4) = torsion_spec p1 p2 p3 p4.
Proof. exact (torsion_rigid m t p1 p2 p3 p4). Qed.
Print Assumptions C15_torsion_rigid.

Theorem C15_torsion_mirror m t p1 p2 p3 p4 : orthogonal m -> mdet m = -1 ->
  det3 (vsub p2 p1) (vsub p3 p2) (vsub p4 p3) <> 0 ->
  torsion_spec (move m t p1) (move m t p2) (move m t p3) (move m t p4) = - torsion_spec p1 p2 p3 p4.
Proof. exact (torsion_mirror m t p1 p2 p3 p4). Qed.
Print Assumptions C15_torsion_mirror.

Theorem C15_torsion_reverse p1 p2 p3 p4 : torsion_spec p4 p3 p2 p1 = torsion_spec p1 p2 p3 p4.
Proof. exact (torsion_reverse p1 p2 p3 p4). Qed.
Print Assumptions C15_torsion_reverse.

Theorem C15_torsion_range p1 p2 p3 p4 : -180 <= torsion_spec p1 p2 p3 p4 <= 180.
Proof. exact (torsion_range p1 p2 p3 p4). Qed.
Print Assumptions C15_torsion_range.

Theorem C15_torsion_planar_nonneg p1 p2 p3 p4 :
  det3 (vsub p2 p1) (vsub p3 p2) (vsub p4 p3) = 0 -> 0 <= torsion_spec p1 p2 p3 p4 <= 180.
Proof. exact (torsion_planar_nonneg p1 p2 p3 p4). Qed.
Print Assumptions C15_torsion_planar_nonneg.

Theorem C15_torsion_sign p1 p2 p3 p4 :
  (0 < det3 (vsub p2 p1) (vsub p3 p2) (vsub p4 p3) -> 0 <= torsion_spec p1 p2 p3 p4) /\
  (det3 (vsub p2 p1) (vsub p3 p2) (vsub p4 p3) < 0 -> torsion_spec p1 p2 p3 p4 <= 0).
Proof. exact (torsion_sign p1 p2 p3 p4). Qed.
Print Assumptions C15_torsion_sign.

Theorem C15_torsion_clockwise_90 : torsion_spec (1, 0, 0) (0, 0, 0) (0, 0, 1) (0, 1, 1) = 90.
Proof. exact (torsion_clockwise_90 ). Qed.
Print Assumptions C15_torsion_clockwise_90.

Theorem C15_angle_symmetric p1 p2 p3 : angle_spec p3 p2 p1 = angle_spec p1 p2 p3.
Proof. exact (angle_symmetric p1 p2 p3). Qed.
Print Assumptions C15_angle_symmetric.

Theorem C15_angle_range p1 p2 p3 : 0 <= angle_spec p1 p2 p3 <= 180.
Proof. exact (angle_range p1 p2 p3). Qed.
Print Assumptions C15_angle_range.

Theorem C15_angle_rigid m t p1 p2 p3 : orthogonal m ->
  angle_spec (move m t p1) (move m t p2) (move m t p3) = angle_spec p1 p2 p3.
Proof. exact (angle_rigid m t p1 p2 p3). Qed.
Print Assumptions C15_angle_rigid.

Theorem C15_distance_rigid m t p q : orthogonal m -> dist_spec (move m t p) (move m t q) = dist_spec p q.
Proof. exact (distance_rigid m t p q). Qed.
Print Assumptions C15_distance_rigid.

Theorem C15_rot90_orthogonal : orthogonal ((0, -1, 0), (1, 0, 0), (0, 0, 1)) /\ mdet ((0, -1, 0), (1, 0, 0), (0, 0, 1)) = 1.
Proof. exact (rot90_orthogonal ). Qed.
Print Assumptions C15_rot90_orthogonal.

Theorem C15_find_around : forall (A : Type) (close same qpeak : A -> bool) (part : A -> Z) (only_part : Z) (atoms : list A) (x : A),
  In x (find_around A close same qpeak part only_part atoms) <->
  In x atoms /\ close x = true /\ same x = false /\ part x = only_part /\ qpeak x = false.
Proof. exact find_around_spec. Qed.
Print Assumptions C15_find_around.
