(* C08 — the object model stays self-consistent over any history of reads and edits.
   Statements only (copied from Proofs/EditProofs.v by harness/mkprops.py).  Positions are found by identity
   (Shelxfile.index_of as repaired); the position bookkeeping under edits is the refinement step of C04.  The reset of all
   state by re-reading is a statement about object initialisation and is checked by differential runs only. *)
From SX Require Import Base.Prelude Base.Str Model.Wrap Model.Writer Model.Edit Spec.EditSpec Proofs.EditProofs.
Local Open Scope nat_scope.

Theorem C08_index_of_id_correct x ids : In x ids -> exists k, index_of_id x ids = Some k /\ nth_error ids k = Some x.
Proof. exact (index_of_id_correct x ids). Qed.
Print Assumptions C08_index_of_id_correct.

Theorem C08_index_of_id_unique x ids k : NoDup ids -> nth_error ids k = Some x -> index_of_id x ids = Some k.
Proof. exact (index_of_id_unique x ids k). Qed.
Print Assumptions C08_index_of_id_unique.

Theorem C08_index_of_id_absent x ids : ~ In x ids -> index_of_id x ids = None.
Proof. exact (index_of_id_absent x ids). Qed.
Print Assumptions C08_index_of_id_absent.

Theorem C08_remove_at_ids k (ids : list nat) x : NoDup ids -> nth_error ids k = Some x ->
  ~ In x (remove_at k ids) /\ (forall y, y <> x -> In y ids -> In y (remove_at k ids)) /\ NoDup (remove_at k ids).
Proof. exact (remove_at_ids k ids x). Qed.
Print Assumptions C08_remove_at_ids.

Theorem C08_abs_step s o : op_valid (length (e_items s)) o = true -> abs (apply s o) = spec_apply (abs s) o.
Proof. exact (abs_step s o). Qed.
Print Assumptions C08_abs_step.

Theorem C08_edit_example :
  let s := {| e_items := [IObj [lit "FVAR 1 2"]; IRaw (lit "FVAR 3"); IObj [lit "C1 1 0 0 0"]; IObj [lit "HKLF 4"]]; e_del := [1] |} in
  written s = [lit "FVAR 1 2"; lit "C1 1 0 0 0"; lit "HKLF 4"]
  /\ written (apply s (OIns 0 (IRaw (lit "ANIS")))) = [lit "ANIS"; lit "FVAR 1 2"; lit "C1 1 0 0 0"; lit "HKLF 4"]
  /\ written (apply (apply s (OIns 0 (IRaw (lit "ANIS")))) (ODel 3)) = [lit "ANIS"; lit "FVAR 1 2"; lit "HKLF 4"].
Proof. exact (edit_example ). Qed.
Print Assumptions C08_edit_example.
