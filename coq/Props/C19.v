(* C19 — a refinement run never loses the user's model, whatever SHELXL does.
   Statements only (copied from Proofs/RefineProofs.v by harness/mkprops.py).  Model: Model/Refine.v.  SHELXL, the parser, the
   writer and the recognition of ACTA / UNIT / the cycles instruction are universally quantified functions; the only
   hypothesis on SHELXL is that it leaves the backup copy alone.  Crash points: C19_refine_crash_safe quantifies over every state
   the file system passes through during refine() - after each file operation of the protocol and at every moment of the SHELXL
   run - and shows that the user's model is then on disk in the .res file or in the backup file (a file copy is taken as atomic). *)
From SX Require Import Base.Prelude Base.Str Model.Refine Proofs.RefineProofs.

Theorem C19_refine_failure_restores (shelxl : fs -> Z * fs) (parse : str -> list str) (render : list str -> str) (is_acta is_unit : str -> bool)
  (set_cycles : nat -> list str -> list str) (cycles : option nat) (lines : list str) (f f' : fs) (o : outcome) (ins : str) :
  (forall g, snd (shelxl g) FBak = g FBak) ->
  refine shelxl parse render is_acta is_unit set_cycles cycles lines f = (o, f', ins) -> o = Failed -> f' FRes = f FRes.
Proof. exact (refine_failure_restores shelxl parse render is_acta is_unit set_cycles cycles lines f f' o ins). Qed.
Print Assumptions C19_refine_failure_restores.

Theorem C19_refine_failed_iff (code : Z) (f : fs) :
  result_ok code f = false <-> (code <> 0%Z \/ f FRes = None \/ exists s, f FRes = Some s /\ (length s < 10)%nat).
Proof. exact (refine_failed_iff code f). Qed.
Print Assumptions C19_refine_failed_iff.

Theorem C19_refine_ins_is_model (shelxl : fs -> Z * fs) (parse : str -> list str) (render : list str -> str) (is_acta is_unit : str -> bool)
  (set_cycles : nat -> list str -> list str) (cycles : option nat) (lines : list str) (f f' : fs) (o : outcome) (ins : str) :
  refine shelxl parse render is_acta is_unit set_cycles cycles lines f = (o, f', ins) ->
  ins = render (without_acta is_acta (match cycles with Some n => set_cycles n lines | None => lines end))
  /\ forall x, In x (without_acta is_acta (match cycles with Some n => set_cycles n lines | None => lines end)) -> is_acta x = false.
Proof. exact (refine_ins_is_model shelxl parse render is_acta is_unit set_cycles cycles lines f f' o ins). Qed.
Print Assumptions C19_refine_ins_is_model.

Theorem C19_refine_success_reloads (shelxl : fs -> Z * fs) (parse : str -> list str) (render : list str -> str) (is_acta is_unit : str -> bool)
  (set_cycles : nat -> list str -> list str) (cycles : option nat) (lines : list str) (f f' : fs) (m : list str) (ins a s : str) (pre : list str) (u : str) (post : list str) :
  refine shelxl parse render is_acta is_unit set_cycles cycles lines f = (Refined m, f', ins) ->
  find_acta is_acta (match cycles with Some n => set_cycles n lines | None => lines end) = Some a ->
  f' FRes = Some s -> parse s = pre ++ u :: post -> Forall (fun x => is_unit x = false) pre -> is_unit u = true ->
  m = pre ++ u :: a :: post.
Proof. exact (refine_success_reloads shelxl parse render is_acta is_unit set_cycles cycles lines f f' m ins a s pre u post). Qed.
Print Assumptions C19_refine_success_reloads.

Theorem C19_refine_example :
  let shelxl := fun g : fs => (1%Z, upd_fs g FRes (Some [])) in
  let f0 : fs := fun n => match n with FRes => Some (lit "TITL x / UNIT 1 / ACTA / L.S. 4 / HKLF 4") | _ => None end in
  let is_acta := fun x : str => if list_eq_dec Ascii.ascii_dec x (lit "ACTA") then true else false in
  let r := refine shelxl (fun s => [s]) (fun l => concat l) is_acta (fun _ => false) (fun _ l => l) (Some 5%nat) [lit "UNIT 1"; lit "ACTA"; lit "L.S. 4"] f0 in
  fst (fst r) = Failed /\ snd (fst r) FRes = f0 FRes /\ snd (fst r) FBak = None /\ snd r = lit "UNIT 1L.S. 4".
Proof. exact (refine_example ). Qed.
Print Assumptions C19_refine_example.

Theorem C19_refine_crash_safe (shelxl : fs -> Z * fs) (during : fs -> list fs) (parse : str -> list str) (render : list str -> str)
  (is_acta is_unit : str -> bool) (set_cycles : nat -> list str -> list str) (cycles : option nat) (lines : list str) (f : fs) (old : str) :
  (forall g, snd (shelxl g) FBak = g FBak) -> (forall g h, In h (during g) -> h FBak = g FBak) ->
  f FRes = Some old ->
  forall g, In g (refine_trace shelxl during render is_acta set_cycles cycles lines f) -> g FRes = Some old \/ g FBak = Some old.
Proof. exact (refine_crash_safe shelxl during parse render is_acta is_unit set_cycles cycles lines f old). Qed.
Print Assumptions C19_refine_crash_safe.

Theorem C19_refine_trace_ends (shelxl : fs -> Z * fs) (during : fs -> list fs) (parse : str -> list str) (render : list str -> str)
  (is_acta is_unit : str -> bool) (set_cycles : nat -> list str -> list str) (cycles : option nat) (lines : list str) (f : fs) :
  last (refine_trace shelxl during render is_acta set_cycles cycles lines f) f =
  snd (fst (refine shelxl parse render is_acta is_unit set_cycles cycles lines f)).
Proof. exact (refine_trace_ends shelxl during parse render is_acta is_unit set_cycles cycles lines f). Qed.
Print Assumptions C19_refine_trace_ends.

Theorem C19_crash_example :
  let old := lit "TITL x / UNIT 1 / L.S. 4 / HKLF 4" in
  let f0 : fs := fun n => match n with FRes => Some old | _ => None end in
  let shelxl := fun g : fs => ((-9)%Z, upd_fs g FRes None) in
  let during := fun g : fs => [upd_fs g FRes (Some []); upd_fs g FRes None] in
  forallb (fun g : fs => match g FRes, g FBak with
                         | Some s, _ => if list_eq_dec Ascii.ascii_dec s old then true else match g FBak with Some b => if list_eq_dec Ascii.ascii_dec b old then true else false | None => false end
                         | None, Some b => if list_eq_dec Ascii.ascii_dec b old then true else false
                         | None, None => false end)
          (refine_trace shelxl during (fun l => concat l) (fun _ => false) (fun _ l => l) None [lit "UNIT 1"] f0) = true
  /\ length (refine_trace shelxl during (fun l => concat l) (fun _ => false) (fun _ l => l) None [lit "UNIT 1"] f0) = 9%nat.
Proof. exact (crash_example ). Qed.
Print Assumptions C19_crash_example.

Theorem C19_refine_b_backup_is_refine (shelxl : fs -> Z * fs) (parse : str -> list str) (render : list str -> str) (is_acta is_unit : str -> bool)
  (set_cycles : nat -> list str -> list str) (cycles : option nat) (lines : list str) (f : fs) :
  let '(o, f', ins, _) := refine_b shelxl parse render is_acta is_unit set_cycles true cycles lines f in
  refine shelxl parse render is_acta is_unit set_cycles cycles lines f = (o, f', ins).
Proof. exact (refine_b_backup_is_refine shelxl parse render is_acta is_unit set_cycles cycles lines f). Qed.
Print Assumptions C19_refine_b_backup_is_refine.

Theorem C19_refine_nobackup_failure_restores_nothing (shelxl : fs -> Z * fs) (parse : str -> list str) (render : list str -> str) (is_acta is_unit : str -> bool)
  (set_cycles : nat -> list str -> list str) (cycles : option nat) (lines : list str) (f f' : fs) (o : outcome) (ins : str) (mem : list str) :
  refine_b shelxl parse render is_acta is_unit set_cycles false cycles lines f = (o, f', ins, mem) -> o = Failed ->
  f' = snd (shelxl (upd_fs f FIns (Some ins))).
Proof. exact (refine_nobackup_failure_restores_nothing shelxl parse render is_acta is_unit set_cycles cycles lines f f' o ins mem). Qed.
Print Assumptions C19_refine_nobackup_failure_restores_nothing.

Theorem C19_refine_failure_keeps_model (shelxl : fs -> Z * fs) (parse : str -> list str) (render : list str -> str) (is_acta is_unit : str -> bool)
  (set_cycles : nat -> list str -> list str) (cycles : option nat) (lines : list str) (f f' : fs) (o : outcome) (ins : str) (mem : list str) (backup : bool) :
  refine_b shelxl parse render is_acta is_unit set_cycles backup cycles lines f = (o, f', ins, mem) -> o = Failed ->
  let lines1 := match cycles with Some n => set_cycles n lines | None => lines end in
  (forall x, In x lines1 -> is_acta x = false -> In x mem) /\
  (forall a, find_acta is_acta lines1 = Some a -> existsb is_unit (without_acta is_acta lines1) = true -> In a mem).
Proof. exact (refine_failure_keeps_model shelxl parse render is_acta is_unit set_cycles cycles lines f f' o ins mem backup). Qed.
Print Assumptions C19_refine_failure_keeps_model.

Theorem C19_nobackup_example :
  let shelxl := fun g : fs => (1%Z, upd_fs g FRes (Some [])) in
  let f0 : fs := fun n => match n with FRes => Some (lit "RESULT OF THE FIRST RUN") | FBak => Some (lit "OLDER") | _ => None end in
  let is_acta := fun x : str => if list_eq_dec Ascii.ascii_dec x (lit "ACTA") then true else false in
  let is_unit := fun x : str => if list_eq_dec Ascii.ascii_dec x (lit "UNIT 1") then true else false in
  let r := refine_b shelxl (fun s => [s]) (fun l => concat l) is_acta is_unit (fun _ l => l) false None [lit "TITL"; lit "UNIT 1"; lit "L.S. 4"; lit "ACTA"] f0 in
  fst (fst (fst r)) = Failed /\ snd (fst (fst r)) FRes = Some [] /\ snd (fst (fst r)) FBak = Some (lit "OLDER")
  /\ snd r = [lit "TITL"; lit "UNIT 1"; lit "ACTA"; lit "L.S. 4"].
Proof. exact (nobackup_example ). Qed.
Print Assumptions C19_nobackup_example.
