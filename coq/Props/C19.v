(* C19 — a refinement run never loses the user's model, whatever SHELXL does.
   Statements only (copied from Proofs/RefineProofs.v by harness/mkprops.py).  Model: Model/Refine.v.  SHELXL, the parser, the
   writer and the recognition of ACTA / UNIT / the cycles instruction are universally quantified functions; the only
   hypothesis on SHELXL is that it leaves the backup copy alone. *)
From SX Require Import Base.Prelude Base.Str Model.Refine Proofs.RefineProofs.

Theorem C19_refine_failure_restores (shelxl : fs -> Z * fs) (parse : str -> list str) (render : list str -> str) (is_acta is_unit : str -> bool)
  (set_cycles : nat -> list str -> list str) (cycles : option nat) (lines : list str) (f f' : fs) (o : outcome) (ins : str) :
  (forall g, snd (shelxl g) FBak = g FBak) ->
  refine shelxl parse render is_acta is_unit set_cycles cycles lines f = (o, f', ins) -> o = Failed -> f' FRes = f FRes.
Proof. exact (refine_failure_restores shelxl parse render is_acta is_unit set_cycles cycles lines f f' o ins). Qed.
Print Assumptions C19_refine_failure_restores.

Theorem C19_refine_failed_iff (code : Z) (f : fs) :
  result_ok code f = false <-> (code <> 0%Z \/ f FRes = None \/ exists s, f FRes = Some s /\ (length s < 10)%nat).
Proof. exact (refine_failed_iff code f). Qed.
Print Assumptions C19_refine_failed_iff.

Theorem C19_refine_ins_is_model (shelxl : fs -> Z * fs) (parse : str -> list str) (render : list str -> str) (is_acta is_unit : str -> bool)
  (set_cycles : nat -> list str -> list str) (cycles : option nat) (lines : list str) (f f' : fs) (o : outcome) (ins : str) :
  refine shelxl parse render is_acta is_unit set_cycles cycles lines f = (o, f', ins) ->
  ins = render (without_acta is_acta (match cycles with Some n => set_cycles n lines | None => lines end))
  /\ forall x, In x (without_acta is_acta (match cycles with Some n => set_cycles n lines | None => lines end)) -> is_acta x = false.
Proof. exact (refine_ins_is_model shelxl parse render is_acta is_unit set_cycles cycles lines f f' o ins). Qed.
Print Assumptions C19_refine_ins_is_model.

Theorem C19_refine_success_reloads (shelxl : fs -> Z * fs) (parse : str -> list str) (render : list str -> str) (is_acta is_unit : str -> bool)
  (set_cycles : nat -> list str -> list str) (cycles : option nat) (lines : list str) (f f' : fs) (m : list str) (ins a s : str) (pre : list str) (u : str) (post : list str) :
  refine shelxl parse render is_acta is_unit set_cycles cycles lines f = (Refined m, f', ins) ->
  find_acta is_acta (match cycles with Some n => set_cycles n lines | None => lines end) = Some a ->
  f' FRes = Some s -> parse s = pre ++ u :: post -> Forall (fun x => is_unit x = false) pre -> is_unit u = true ->
  m = pre ++ u :: a :: post.
Proof. exact (refine_success_reloads shelxl parse render is_acta is_unit set_cycles cycles lines f f' m ins a s pre u post). Qed.
Print Assumptions C19_refine_success_reloads.

Theorem C19_refine_example :
  let shelxl := fun g : fs => (1%Z, upd_fs g FRes (Some [])) in
  let f0 : fs := fun n => match n with FRes => Some (lit "TITL x / UNIT 1 / ACTA / L.S. 4 / HKLF 4") | _ => None end in
  let is_acta := fun x : str => if list_eq_dec Ascii.ascii_dec x (lit "ACTA") then true else false in
  let r := refine shelxl (fun s => [s]) (fun l => concat l) is_acta (fun _ => false) (fun _ l => l) (Some 5%nat) [lit "UNIT 1"; lit "ACTA"; lit "L.S. 4"] f0 in
  fst (fst r) = Failed /\ snd (fst r) FRes = f0 FRes /\ snd (fst r) FBak = None /\ snd r = lit "UNIT 1L.S. 4".
Proof. exact (refine_example ). Qed.
Print Assumptions C19_refine_example.
