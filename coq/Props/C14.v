(* C14 — grow() returns the asymmetric unit plus exact, bonded symmetry images.
   Statements only (copied from Proofs/GrowProofs.v by harness/mkprops.py).  Model: Model/Sdm.v (collect_needed_symmetry,
   packer); these theorems are about its real-number instance; the float instance is executed inside Coq against
   SDM.packer on the same numbers (harness/props/c14.py).
   Proved: every appended atom is S a + k for an operator S of the list, an original non-Q-peak atom a of the same
   PART and an integral translation k, and its fragment number is that of the first atom of a bonded SDM item; the
   needed-symmetry entries carry integral shifts; no appended atom lies within 0.2 A of an atom of the same
   non-negative PART placed before it.  Completeness, for the model: every image (operator, lattice shift) of the first atom
   of a bonded item of a numbered fragment that lies within the bonding limit of the second atom is in the needed-symmetry list
   (C14_needed_symmetry_complete), and for every entry of that list every non-Q-peak atom of the fragment is appended unless an
   atom of the same non-negative PART is already within 0.2 A of that place (C14_packer_complete).  What the theorems do not
   cover: contacts the component-wise wrap cannot see (known finding) - checked per sample against a brute-force search. *)
From SX Require Import Base.RTac Model.Sdm Proofs.SdmProofs Proofs.GrowProofs.
Import ListNotations.
Open Scope R_scope.

Theorem C14_needed_symmetry_good m ops atoms items idx :
  Forall (need_good ops items idx) (needed_symmetry ROps m ops atoms items idx).
Proof. exact (needed_symmetry_good m ops atoms items idx). Qed.
Print Assumptions C14_needed_symmetry_good.

Theorem C14_packer_good m ops atoms idx needs wq :
  Forall (grown_good ops atoms idx needs) (packer ROps m ops atoms idx needs wq).
Proof. exact (packer_good m ops atoms idx needs wq). Qed.
Print Assumptions C14_packer_good.

Theorem C14_grow_images_exact m ops atoms wq g :
  In g (grow ROps m ops atoms wq) ->
  exists s a (kx ky kz : Z),
    nth_error ops (g_n g) = Some s /\ nth_error atoms (g_src g) = Some a /\ sa_qpeak a = false /\ g_part g = sa_part a /\
    let p := apply ROps s (sa_x a) (sa_y a) (sa_z a) in
    g_x g = fst (fst p) + IZR kx /\ g_y g = snd (fst p) + IZR ky /\ g_z g = snd p + IZR kz /\
    exists it, In it (sdm_list ROps m ops atoms) /\ it_cov it = true /\
               get_idx (molindex (sdm_list ROps m ops atoms) atoms) (g_src g) =
               get_idx (molindex (sdm_list ROps m ops atoms) atoms) (it_a1 it).
Proof. exact (grow_images_exact m ops atoms wq g). Qed.
Print Assumptions C14_grow_images_exact.

Theorem C14_packer_no_coincide m ops atoms idx needs wq :
  let init := omap (fun a => if sa_qpeak a then None else Some (sa_part a, (sa_x a, sa_y a, sa_z a))) atoms in
  exists pl, fst (fold_left (fun st nd => fold_left (pack_one ROps m ops wq idx nd) (number_from 0 atoms) st) needs (init, [])) = init ++ pl
             /\ placed_ok m init pl.
Proof. exact (packer_no_coincide m ops atoms idx needs wq). Qed.
Print Assumptions C14_packer_no_coincide.

Theorem C14_needed_symmetry_complete m ops atoms items idx it a1 a2 n s fx fy fz dk :
  In it items -> it_cov it = true -> (1 <= get_idx idx (it_a1 it))%Z ->
  nth_error atoms (it_a1 it) = Some a1 -> nth_error atoms (it_a2 it) = Some a2 -> nth_error ops n = Some s ->
  (sa_part a1 = 0 \/ sa_part a2 = 0 \/ sa_part a1 = sa_part a2)%Z ->        (* not in two different non-zero PARTs *)
  ~ (sa_an a1 = sa_an a2 /\ sa_h a1 = true) ->                               (* not a hydrogen - hydrogen contact *)
  candidate ROps m s a1 a2 = ((fx, fy, fz), dk) ->
  ~ (n = 0%nat /\ fx = 0 /\ fy = 0 /\ fz = 0) ->                              (* not the atom itself *)
  1 / 1000 < dk -> dk <= (if sa_h a1 && sa_h a2 then 18 / 10 else bond_limit ROps a1 a2) ->
  exists nd, In nd (needed_symmetry ROps m ops atoms items idx) /\
             nd_n nd = n /\ nd_fx nd = fx /\ nd_fy nd = fy /\ nd_fz nd = fz /\ nd_mol nd = get_idx idx (it_a1 it).
Proof. exact (needed_symmetry_complete m ops atoms items idx it a1 a2 n s fx fy fz dk). Qed.
Print Assumptions C14_needed_symmetry_complete.

Theorem C14_packer_complete m ops atoms idx needs wq nd i a s px py pz :
  In nd needs -> nth_error atoms i = Some a -> sa_qpeak a = false -> get_idx idx i = nd_mol nd ->
  nth_error ops (nd_n nd) = Some s -> apply ROps s (sa_x a) (sa_y a) (sa_z a) = (px, py, pz) ->
  placed_or_there m i (nd_n nd) (sa_part a) (px + (5 - nd_fx nd - 5)) (py + (5 - nd_fy nd - 5)) (pz + (5 - nd_fz nd - 5))
    (fold_left (fun st nd => fold_left (pack_one ROps m ops wq idx nd) (number_from 0 atoms) st) needs
               (omap (fun a => if sa_qpeak a then None else Some (sa_part a, (sa_x a, sa_y a, sa_z a))) atoms, [])).
Proof. exact (packer_complete m ops atoms idx needs wq nd i a s px py pz). Qed.
Print Assumptions C14_packer_complete.

Theorem C14_packer_compares_with_atoms_only m ops atoms idx needs wq :
  let final := fold_left (fun st nd => fold_left (pack_one ROps m ops wq idx nd) (number_from 0 atoms) st) needs
                 (omap (fun a => if sa_qpeak a then None else Some (sa_part a, (sa_x a, sa_y a, sa_z a))) atoms, []) in
  forall p, In p (fst final) -> real_site atoms p \/ grown_site (snd final) p.
Proof. exact (packer_compares_with_atoms_only m ops atoms idx needs wq). Qed.
Print Assumptions C14_packer_compares_with_atoms_only.
