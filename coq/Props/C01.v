(* C01 — reading a file and writing it back loses nothing.
   Statements only (copied from Proofs/EchoProofs.v, Proofs/FmtProofs.v and Proofs/WrapProofs.v by harness/mkprops.py).
   The writer model (Model/Wrap.v) composed with the reader model (Model/Lex.v): the physical lines written for the
   stored tokens of any list of instructions are read back as exactly those tokens; the fixed-precision numerals of a
   written atom denote the stored values to 5e-7 (coordinates) and 5e-6 (occupation code, U); FVAR and SFAC lines keep
   every value in order; the short form of WGHT denotes the same six values. *)
From SX Require Import Base.Prelude Base.Str Model.Lex Model.Wrap Model.Fmt Spec.WrapSpec Proofs.WrapProofs Proofs.EchoProofs Proofs.FmtProofs.

Theorem C01_passthrough_roundtrip items : Forall instr_tokens_ok items -> lex (echo_file (map join_sp items)) = items.
Proof. exact (passthrough_roundtrip items). Qed.
Print Assumptions C01_passthrough_roundtrip.

Theorem C01_echo_lex items : Forall instr_text items -> lex (echo_file items) = map split_ws items.
Proof. exact (echo_lex items). Qed.
Print Assumptions C01_echo_lex.

Theorem C01_lex_wrap s f rest : instr_text s -> lex_fuel (S f) (wrap_lines s ++ rest) = split_ws s :: lex_fuel f rest.
Proof. exact (lex_wrap s f rest). Qed.
Print Assumptions C01_lex_wrap.

Theorem C01_join_tokens toks : Forall tok_plain toks -> split_ws (join_sp toks) = toks.
Proof. exact (join_tokens toks). Qed.
Print Assumptions C01_join_tokens.

Theorem C01_coordinate_precision q : Qabs (denote 6 (scaled 6 q) - q) <= 1 # 2000000.
Proof. exact (coordinate_precision q). Qed.
Print Assumptions C01_coordinate_precision.

Theorem C01_sof_u_precision q : Qabs (denote 5 (scaled 5 q) - q) <= 1 # 200000.
Proof. exact (sof_u_precision q). Qed.
Print Assumptions C01_sof_u_precision.

Theorem C01_denote_scaled_close k q : Qabs (denote k (scaled k q) - q) <= (1 # 2) / inject_Z (pow10Z k).
Proof. exact (denote_scaled_close k q). Qed.
Print Assumptions C01_denote_scaled_close.

Theorem C01_wght_written_denotes v : length v = 6%nat ->
  Forall2 Qeq (pad_defaults wght_defaults (wght_written v)) v.
Proof. exact (wght_written_denotes v). Qed.
Print Assumptions C01_wght_written_denotes.

Theorem C01_fvar_lines_shape vals :
  exists gs, fvar_lines vals = map (fun g => lit "FVAR   " ++ join (lit "   ") g) gs /\ concat gs = vals
             /\ Forall (fun g => (1 <= length g <= 7)%nat) gs.
Proof. exact (fvar_lines_shape vals). Qed.
Print Assumptions C01_fvar_lines_shape.

Theorem C01_sfac_lines_shape es : Forall (fun e => sfac_params e <> []) es ->
  exists gs, sfac_lines es = map sfac_line gs /\ concat gs = flat_map sfac_params es /\ Forall (fun g => g <> []) gs.
Proof. exact (sfac_lines_shape es). Qed.
Print Assumptions C01_sfac_lines_shape.

Theorem C01_u_lossless u i : length u = 6%nat -> (aniso_line u = false -> scaled 5 (nth 1 u 0) = 0%Z) -> (i < 6)%nat ->
  Qabs (nth i (u_read (u_written u)) 0 - nth i u 0) <= 1 # 200000.
Proof. exact (u_lossless u i). Qed.
Print Assumptions C01_u_lossless.

Theorem C01_u_flat_refuted : exists u, length u = 6%nat /\ aniso_line u = false /\
  Qabs (nth 1 (u_read (u_written u)) 0 - nth 1 u 0) == 1 # 25.
Proof. exact (u_flat_refuted ). Qed.
Print Assumptions C01_u_flat_refuted.

Theorem C01_old_threshold_refuted : exists u, length u = 6%nat /\ aniso_line_old u = false /\ aniso_line u = true /\ scaled 5 (nth 1 u 0) = 0%Z /\
  ~ Qabs (0 - nth 3 u 0) <= 1 # 200000.
Proof. exact (old_threshold_refuted ). Qed.
Print Assumptions C01_old_threshold_refuted.

Theorem C01_u_written_examples :
  u_written [1 # 20; 4 # 1000000; 4 # 1000000; 4 # 1000000; 4 # 1000000; 4 # 1000000] = [5000%Z]
  /\ u_written [1 # 20; 1 # 25; 3 # 100; 0; -12 # 1000000; 0] = [5000; 4000; 3000; 0; -1; 0]%Z
  /\ Forall2 Qeq (u_read [5000%Z]) [1 # 20; 0; 0; 0; 0; 0].
Proof. exact (u_written_examples ). Qed.
Print Assumptions C01_u_written_examples.

Theorem C01_roundtrip_example :
  let items := [[lit "SADI"; lit "0.02"; lit "C1"; lit "C2"]; map lit ["FLAT"; "C1_$1"; "C2"; "C3"; "C4"; "C5"; "C6"; "C7"; "C8"; "C9"; "C10"; "C11"; "C12";
                 "C13"; "C14"; "C15"; "C16"; "C17"; "C18"; "C19"; "C20"; "C21"; "C22"]%string] in
  length (echo_file (map join_sp items)) = 3%nat /\ lex (echo_file (map join_sp items)) = items.
Proof. exact (roundtrip_example ). Qed.
Print Assumptions C01_roundtrip_example.

Theorem C01_scaled_examples :
  scaled 6 (123456789 # 1000000000) = 123457%Z /\ scaled 5 (-21) = (-2100000)%Z /\ scaled 0 (5 # 2) = 2%Z /\ scaled 0 (7 # 2) = 4%Z
  /\ scaled 6 (- (1 # 3)) = (-333333)%Z.
Proof. exact (scaled_examples ). Qed.
Print Assumptions C01_scaled_examples.
