(* C07 — writing preserves order, keeps unknown lines verbatim, and is a fixed point.
   Statements only (copied from Proofs/WriterProofs.v, Proofs/EchoProofs.v and Proofs/FmtProofs.v by harness/mkprops.py).  Model:
   Model/Writer.v (the item loop of write_shelx_file, _find_included_files as repaired), Model/Wrap.v, Model/Lex.v. *)
From SX Require Import Base.Prelude Base.Str Model.Lex Model.Wrap Model.Writer Model.Fmt Proofs.WrapProofs Proofs.EchoProofs Proofs.WriterProofs Proofs.FmtProofs.
Local Open Scope nat_scope.

Theorem C07_write_order del items : write_file del items =
  concat (map (fun p => if existsb (Nat.eqb (fst p)) del then [] else item_lines (snd p)) (combine (seq 0 (length items)) items)).
Proof. exact (write_order del items). Qed.
Print Assumptions C07_write_order.

Theorem C07_raw_verbatim del a s b : s <> [] -> length s <= 80 -> existsb (Nat.eqb (length a)) del = false ->
  write_file del (a ++ IRaw s :: b) = write_from 0 del a ++ [s] ++ write_from (S (length a)) del b.
Proof. exact (raw_verbatim del a s b). Qed.
Print Assumptions C07_raw_verbatim.

Theorem C07_deleted_not_written del a it b : existsb (Nat.eqb (length a)) del = true ->
  write_file del (a ++ it :: b) = write_from 0 del a ++ write_from (S (length a)) del b.
Proof. exact (deleted_not_written del a it b). Qed.
Print Assumptions C07_deleted_not_written.

Theorem C07_includes_not_written fuel fs main : own (read_with_includes fuel fs main) = main.
Proof. exact (includes_not_written fuel fs main). Qed.
Print Assumptions C07_includes_not_written.

Theorem C07_include_cycles n fuel fs main : cycles n fuel fs main = main.
Proof. exact (include_cycles n fuel fs main). Qed.
Print Assumptions C07_include_cycles.

Theorem C07_include_inserted f fs l name inc r : include_name l = Some name -> fs name = Some inc ->
  expand (S f) fs ((l, false) :: r) = (l, false) :: expand f fs (map (fun x => (x, true)) (until_end inc) ++ r).
Proof. exact (include_inserted f fs l name inc r). Qed.
Print Assumptions C07_include_inserted.

Theorem C07_until_end_spec inc :
  Forall (fun l => is_end_line l = false) (until_end inc) /\
  (until_end inc = inc \/ exists e rest, inc = until_end inc ++ e :: rest /\ is_end_line e = true).
Proof. exact (until_end_spec inc). Qed.
Print Assumptions C07_until_end_spec.

Theorem C07_until_end_example :
  until_end [lit "DFIX 1.4 C1 O1"; lit "ENDS"; lit "end "; lit "C9 1 0 0 0"] = [lit "DFIX 1.4 C1 O1"; lit "ENDS"]
  /\ is_end_line (lit "END") = true /\ is_end_line (lit "End") = true /\ is_end_line (lit " END") = false /\ is_end_line (lit "EN") = false.
Proof. exact (until_end_example ). Qed.
Print Assumptions C07_until_end_example.

Theorem C07_include_name_example :
  include_name (lit "+a.txt") = Some (lit "a.txt") /\ include_name (lit "++a.txt  ") = Some (lit "a.txt") /\ include_name (lit "+ dir/a b.txt ") = Some (lit "dir/a b.txt")
  /\ include_name (lit " +a.txt") = None /\ include_name (lit "C1 1 0 0 0") = None.
Proof. exact (include_name_example ). Qed.
Print Assumptions C07_include_name_example.

Theorem C07_passthrough_fixpoint items : Forall instr_tokens_ok items ->
  echo_file (map join_sp (lex (echo_file (map join_sp items)))) = echo_file (map join_sp items).
Proof. exact (passthrough_fixpoint items). Qed.
Print Assumptions C07_passthrough_fixpoint.

Theorem C07_scaled_denote k n : scaled k (denote k n) = n.
Proof. exact (scaled_denote k n). Qed.
Print Assumptions C07_scaled_denote.

Theorem C07_u_fixed_point u : length u = 6%nat -> u_written (u_read (u_written u)) = u_written u.
Proof. exact (u_fixed_point u). Qed.
Print Assumptions C07_u_fixed_point.

Theorem C07_fvars_written_shape fv :
  exists gs, fvars_written fv = map (fun g => lit "FVAR   " ++ join (lit "   ") g) gs
             /\ concat gs = map fst (filter (fun x => negb (snd x)) fv)
             /\ Forall (fun g => (1 <= length g <= 7)%nat) gs.
Proof. exact (fvars_written_shape fv). Qed.
Print Assumptions C07_fvars_written_shape.

Theorem C07_fvars_written_ignores_included fv1 fv2 :
  map fst (filter (fun x => negb (snd x)) fv1) = map fst (filter (fun x => negb (snd x)) fv2) -> fvars_written fv1 = fvars_written fv2.
Proof. exact (fvars_written_ignores_included fv1 fv2). Qed.
Print Assumptions C07_fvars_written_ignores_included.

Theorem C07_fvars_written_example :
  fvars_written [(lit "0.5", false); (lit "0.61", false); (lit "0.31", true); (lit "0.32", true); (lit "0.71", false)]
  = [lit "FVAR   0.5   0.61   0.71"].
Proof. exact (fvars_written_example ). Qed.
Print Assumptions C07_fvars_written_example.

Theorem C07_expand_example :
  let fs := fun n : str => if name_eqb n (lit "a.txt") then Some [lit "C9 1 0 0 0"; lit "+b.txt"; lit "SADI C9 C1"]
                           else if name_eqb n (lit "b.txt") then Some [lit "C8 1 0 0 0"] else None in
  let main := [lit "FVAR 1"; lit "+a.txt"; lit "C1 1 0 0 0"; lit "+missing"; lit "HKLF 4"] in
  map fst (read_with_includes 50 fs main) = [lit "FVAR 1"; lit "+a.txt"; lit "C9 1 0 0 0"; lit "+b.txt"; lit "C8 1 0 0 0"; lit "SADI C9 C1"; lit "C1 1 0 0 0";
                                              lit "+missing"; lit "HKLF 4"]
  /\ marked_positions (read_with_includes 50 fs main) = [2; 3; 4; 5]%nat /\ own (read_with_includes 50 fs main) = main.
Proof. exact (expand_example ). Qed.
Print Assumptions C07_expand_example.
