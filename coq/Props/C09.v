(* C09 — occupancies and sum formulae follow the SHELXL free-variable rule.
   Statements only; proofs are in Proofs/OccProofs.v.  Model: Model/Occ.v (tied to
   /repo by the correspondence check harness/props/c09.py); spec: Spec/OccSpec.v. *)
From SX Require Import Base.Prelude Model.Occ Spec.OccSpec Proofs.OccProofs.
#[local] Open Scope Q_scope.

(* the library's occupancy of occupation code 10m+p is p for m in {0,1}, p*fv(m) for m > 1,
   p*(fv(-m) - 1) for m < -1, for every free-variable list that defines fv(|m|) *)
Theorem C09_occupancy : forall (m : Z) (p : Q) (fvs : list Q),
  code_wf m p -> m <> (-1)%Z -> (Z.abs m <= Z.of_nat (length fvs))%Z ->
  occupancy (code m p) fvs == occ_spec m p (fv_of fvs).
Proof. exact occupancy_correct. Qed.
Print Assumptions C09_occupancy.

(* codes 10m+p and -(10m+p) always sum to p *)
Theorem C09_complement : forall (m : Z) (p : Q) (fvs : list Q),
  (1 < m)%Z -> 0 <= p -> p < 5 -> (m <= Z.of_nat (length fvs))%Z ->
  occupancy (code m p) fvs + occupancy (code (- m) (- p)) fvs == p.
Proof. exact occupancy_complement. Qed.
Print Assumptions C09_complement.

(* the library splits a code into exactly (m, p) *)
Theorem C09_split_nonneg : forall (k : Z) (r : Q), (0 <= k)%Z -> 0 <= r -> r < 10 ->
  fst (split_fvar (code k r)) = k /\ snd (split_fvar (code k r)) == r.
Proof. exact split_nonneg. Qed.
Print Assumptions C09_split_nonneg.

Theorem C09_split_neg : forall (k : Z) (r : Q), (0 <= k)%Z -> 0 <= r -> r < 10 -> ~ (k = 0%Z /\ r == 0) ->
  fst (split_fvar (code (- k) (- r))) = (- k)%Z /\ snd (split_fvar (code (- k) (- r))) == - r.
Proof. exact split_neg. Qed.
Print Assumptions C09_split_neg.

(* the 'exact' sum formula is, per element, the sum of the rule's occupancies over non-Q-peak atoms *)
Theorem C09_sum_formula : forall (fvs : list Q) (atoms : list atom_spec) (el : nat),
  Forall (atom_wf (length fvs)) atoms ->
  sum_for fvs (map to_model atoms) el == sum_spec (fv_of fvs) atoms el.
Proof. exact sum_formula_correct. Qed.
Print Assumptions C09_sum_formula.

(* UNIT-based formula: entry i is UNIT_i / Z, in SFAC order *)
Theorem C09_unit_formula : forall (unit : list Q) (z : Q) (i : nat) (u : Q),
  nth_error unit i = Some u -> nth_error (unit_formula unit z) i = Some (u / z).
Proof. exact unit_formula_correct. Qed.
Print Assumptions C09_unit_formula.

(* record of the defect repaired by the fix: commit (see known_findings.txt) *)
Theorem C09_pinned_refuted :
  exists m p fvs, code_wf m p /\ m <> (-1)%Z /\ (Z.abs m <= Z.of_nat (length fvs))%Z /\
                  ~ occupancy_pinned (code m p) fvs == occ_spec m p (fv_of fvs).
Proof. exact occupancy_pinned_refuted. Qed.
Print Assumptions C09_pinned_refuted.
