(* C03 — every atom carries exactly the attributes the SHELXL rules assign to it.
   Statements only (copied from Proofs/CtxProofs.v by harness/mkprops.py).  Model: Model/Ctx.v (the running
   PART/AFIX/RESI objects of Shelxfile._parse_cards with their HKLF/END resets, FRAG mode, and the attribute
   assignment of Atom.parse_line as repaired); spec: Spec/CtxSpec.v (direct recursion over the lines of the file).
   Element lookup, numeric reading, include-file splicing and the derived views are checked on the implementation
   against the by-construction model (harness/props/c03.py); of the splicing one fact is a theorem here (Model/Writer.v):
   what is spliced in for an include file ends in front of its first END line, so that the END of an include file
   never ends the res file (C03_include_file_ends_at_END). *)
From SX Require Import Base.Str Model.Ctx Spec.CtxSpec Proofs.CtxProofs Model.Writer Proofs.WriterProofs.
From Coq Require Import QArith.

Theorem C03_atoms_correct evs : forallb event_ok evs = true -> atoms_of evs = expected_atoms evs.
Proof. exact (atoms_correct evs). Qed.
Print Assumptions C03_atoms_correct.

Theorem C03_qpeaks_only_after_hklf evs a : forallb event_ok evs = true -> In a (atoms_of evs) -> a_qpeak a = true ->
  exists pre post, evs = pre ++ post /\ (In EHklf pre \/ In EEnd pre).
Proof. exact (qpeaks_only_after_hklf evs a). Qed.
Print Assumptions C03_qpeaks_only_after_hklf.

Theorem C03_reset_facts c : inv c ->
  p_n (c_part (reset_ctx c)) = 0%Z /\ p_sof (c_part (reset_ctx c)) = None /\ afix_val (c_afix (reset_ctx c)) = 0%Z /\
  r_num (c_resi (reset_ctx c)) = 0%Z /\ r_class (c_resi (reset_ctx c)) = [] /\
  c_hklf (reset_ctx c) = c_hklf c /\ c_end (reset_ctx c) = c_end c /\ c_frag (reset_ctx c) = c_frag c.
Proof. exact (reset_facts c). Qed.
Print Assumptions C03_reset_facts.

Theorem C03_atoms_in_file_order evs : map a_name (atoms_of evs) = atom_lines false evs.
Proof. exact (atoms_in_file_order evs). Qed.
Print Assumptions C03_atoms_in_file_order.

Theorem C03_atoms_count evs : length (atoms_of evs) = length (atom_lines false evs).
Proof. exact (atoms_count evs). Qed.
Print Assumptions C03_atoms_count.

Theorem C03_include_file_ends_at_END inc :
  Forall (fun l => is_end_line l = false) (until_end inc) /\
  (until_end inc = inc \/ exists e rest, inc = until_end inc ++ e :: rest /\ is_end_line e = true).
Proof. exact (until_end_spec inc). Qed.
Print Assumptions C03_include_file_ends_at_END.

Theorem C03_ctx_example :
  map (fun a => (a_part a, a_afix a, a_resinum a, a_sof a, a_qpeak a))
      (atoms_of [EResi {| r_num := 2; r_class := lit "TOL" |}; EPart {| p_n := 1; p_sof := Some (21 # 1) |}; EAfix 43;
                 EAtom (lit "H1") 2 (Some (11 # 1)) false true; EHklf; EAtom (lit "Q1") 1 (Some (11 # 1)) true true])
  = [(1%Z, 43%Z, 2%Z, 21 # 1, false); (0%Z, 0%Z, 0%Z, 11 # 1, true)].
Proof. exact (ctx_example ). Qed.
Print Assumptions C03_ctx_example.
