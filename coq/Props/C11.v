(* C11 — LATT + SYMM expand to the complete space group, each operator exactly once.
   Statements only (copied from Proofs/LattProofs.v by harness/mkprops.py).  Model: Model/Latt.v (SymmCards as
   repaired: identity, inversion for LATT > 0, lattice operators, one block per SYMM line, duplicate suppression
   by SymmetryElement.__eq__ = Model/Symm.v op_eqb); spec: Spec/LattSpec.v (list comprehension over exact
   rationals).  Closure under composition is a property of the SYMM lines given (they must generate a group
   modulo centring and inversion); it is checked per sample by the harness in exact rational arithmetic, not proved. *)
From SX Require Import Base.Str Model.Symm Model.Latt Spec.LattSpec Proofs.SymmProofs Proofs.LattProofs.
From Coq Require Import QArith.

Theorem C11_symmcards_sound n symms o : In o (symmcards n symms) -> In o (expected n symms).
Proof. exact (symmcards_sound n symms o). Qed.
Print Assumptions C11_symmcards_sound.

Theorem C11_symmcards_complete n symms e : In e (expected n symms) ->
  exists o, In o (symmcards n symms) /\ op_eqb o e = true.
Proof. exact (symmcards_complete n symms e). Qed.
Print Assumptions C11_symmcards_complete.

Theorem C11_symmcards_nodup n symms : NoDupEq (symmcards n symms).
Proof. exact (symmcards_nodup n symms). Qed.
Print Assumptions C11_symmcards_nodup.

Theorem C11_expected_length n symms : length (expected n symms) = expected_count n symms.
Proof. exact (expected_length n symms). Qed.
Print Assumptions C11_expected_length.

Theorem C11_symmcards_count n symms : generators_distinct n symms ->
  length (symmcards n symms) = expected_count n symms.
Proof. exact (symmcards_count n symms). Qed.
Print Assumptions C11_symmcards_count.

Theorem C11_op_eqb_refl o : op_eqb o o = true.
Proof. exact (op_eqb_refl o). Qed.
Print Assumptions C11_op_eqb_refl.

Theorem C11_p21c_list : length (symmcards 1 [two_one_screw]) = 4%nat /\ length (symmcards 2 []) = 4%nat
                    /\ length (symmcards (-4) [two_one_screw]) = 8%nat.
Proof. exact (p21c_list ). Qed.
Print Assumptions C11_p21c_list.
