(* C17 — restraint diagnostics name exactly the atoms that do not exist.
   Statements only (copied from Proofs/RestrProofs.v by harness/mkprops.py).  Model: Model/Restr.v
   (_assign_atoms_to_restraints, does_atom_exist incl. the NAME_* branch, Residue.residue_number, the NAME_RESIDUE
   index, as repaired); spec: Spec/RestrSpec.v.  Where a restraint addresses several residues and the atom exists in
   some of them, the property text can be read per residue or for the whole set.  C17_reported_exactly is the complete
   characterisation in the per-residue reading (the one the library follows: a message names NAME_n exactly when an item
   asks for NAME in residue n and no such atom exists); the other theorems state what both readings demand: silence when
   the atom exists in every addressed residue, a message when it exists in none, only absent atoms in messages, never
   wildcards / range operators.  A keyword suffix _* is read by the library as residue 0. *)
From SX Require Import Base.Str Model.Restr Spec.RestrSpec Proofs.RestrProofs.

Theorem C17_never_reports_wildcards fi s : report_atom fi s ARange = [] /\ forall e, report_atom fi s (AElem e) = [].
Proof. exact (never_reports_wildcards fi s). Qed.
Print Assumptions C17_never_reports_wildcards.

Theorem C17_complete_restraint_silent fi s atoms : suffix_ok fi s ->
  (forall a, In a atoms -> must_not_report fi s a) -> reported fi s atoms = [].
Proof. exact (complete_restraint_silent fi s atoms). Qed.
Print Assumptions C17_complete_restraint_silent.

Theorem C17_missing_atom_reported fi s a atoms : suffix_ok fi s -> In a atoms -> must_report fi s a -> reported fi s atoms <> [].
Proof. exact (missing_atom_reported fi s a atoms). Qed.
Print Assumptions C17_missing_atom_reported.

Theorem C17_reported_are_absent fi s atoms name n :
  In (name, Some n) (reported fi s atoms) -> has_atom fi name n = false.
Proof. exact (reported_are_absent fi s atoms name n). Qed.
Print Assumptions C17_reported_are_absent.

Theorem C17_reported_bare_absent fi s atoms name :
  In (name, None) (reported fi s atoms) -> has_atom fi name 0 = false.
Proof. exact (reported_bare_absent fi s atoms name). Qed.
Print Assumptions C17_reported_bare_absent.

Theorem C17_reported_exactly fi s atoms name n : suffix_ok fi s ->
  (exists o, res_of o = n /\ In (name, o) (reported fi s atoms)) <->
  (exists a, In a atoms /\ In (name, n) (asked fi s a) /\ has_atom fi name n = false).
Proof. exact (reported_exactly fi s atoms name n). Qed.
Print Assumptions C17_reported_exactly.

Theorem C17_restr_example :
  let fi := {| fi_atoms := [(lit "C1", 0%Z); (lit "C1", 1%Z); (lit "C3", 1%Z); (lit "C1", 2%Z)]; fi_residues := [(1%Z, lit "TOL"); (2%Z, lit "TOL")] |} in
  reported fi (SClass (lit "TOL")) [AName (lit "C1") None; ARange; AName (lit "C3") None; AElem (lit "C")] = [(lit "C3", Some 2%Z)]
  /\ reported fi SNone [AName (lit "C1") None; AName (lit "C9") None] = [(lit "C9", None)].
Proof. exact (restr_example ). Qed.
Print Assumptions C17_restr_example.

Theorem C17_star_example :
  let fi := {| fi_atoms := [(lit "C2", 1%Z); (lit "N1", 1%Z); (lit "N1", 2%Z); (lit "C2", 3%Z); (lit "N1", 3%Z)];
               fi_residues := [(1%Z, lit "TOL"); (2%Z, lit "TOL"); (3%Z, lit "")] |} in
  reported fi SNone [AStar (lit "N1"); AStar (lit "C2")] = [(lit "C2", Some 2%Z)].
Proof. exact (star_example ). Qed.
Print Assumptions C17_star_example.

Theorem C17_keyword_star_example :
  let fi := {| fi_atoms := [(lit "O1", 0%Z); (lit "N1", 1%Z); (lit "C2", 1%Z); (lit "N1", 2%Z)];
               fi_residues := [(1%Z, lit "TOL"); (2%Z, lit "TOL")] |} in
  reported fi SStar [AName (lit "N1") None; AName (lit "C2") None] = [(lit "C2", Some 2%Z)]
  /\ suffix_ok fi SStar.
Proof. exact (keyword_star_example ). Qed.
Print Assumptions C17_keyword_star_example.
