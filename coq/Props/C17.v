(* C17 — restraint diagnostics name exactly the atoms that do not exist.
   Statements only (copied from Proofs/RestrProofs.v by harness/mkprops.py).  Model: Model/Restr.v
   (_assign_atoms_to_restraints, does_atom_exist, Residue.residue_number, the NAME_RESIDUE index, as repaired);
   spec: Spec/RestrSpec.v.  Where a restraint addresses several residues and the atom exists in some of them, the
   property text can be read per residue or for the whole set; the theorems state what both readings demand:
   silence when the atom exists in every addressed residue, a message when it exists in none, only absent atoms in
   messages, never wildcards / range operators.  A keyword suffix _* is read by the library as residue 0. *)
From SX Require Import Base.Str Model.Restr Spec.RestrSpec Proofs.RestrProofs.

Theorem C17_never_reports_wildcards fi s : report_atom fi s ARange = [] /\ forall e, report_atom fi s (AElem e) = [].
Proof. exact (never_reports_wildcards fi s). Qed.
Print Assumptions C17_never_reports_wildcards.

Theorem C17_complete_restraint_silent fi s atoms : suffix_ok s ->
  (forall a, In a atoms -> must_not_report fi s a) -> reported fi s atoms = [].
Proof. exact (complete_restraint_silent fi s atoms). Qed.
Print Assumptions C17_complete_restraint_silent.

Theorem C17_missing_atom_reported fi s a atoms : suffix_ok s -> In a atoms -> must_report fi s a -> reported fi s atoms <> [].
Proof. exact (missing_atom_reported fi s a atoms). Qed.
Print Assumptions C17_missing_atom_reported.

Theorem C17_reported_are_absent fi s atoms name n :
  In (name, Some n) (reported fi s atoms) -> has_atom fi name n = false.
Proof. exact (reported_are_absent fi s atoms name n). Qed.
Print Assumptions C17_reported_are_absent.

Theorem C17_reported_bare_absent fi s atoms name :
  In (name, None) (reported fi s atoms) -> has_atom fi name 0 = false.
Proof. exact (reported_bare_absent fi s atoms name). Qed.
Print Assumptions C17_reported_bare_absent.

Theorem C17_restr_example :
  let fi := {| fi_atoms := [(lit "C1", 0%Z); (lit "C1", 1%Z); (lit "C3", 1%Z); (lit "C1", 2%Z)]; fi_residues := [(1%Z, lit "TOL"); (2%Z, lit "TOL")] |} in
  reported fi (SClass (lit "TOL")) [AName (lit "C1") None; ARange; AName (lit "C3") None; AElem (lit "C")] = [(lit "C3", Some 2%Z)]
  /\ reported fi SNone [AName (lit "C1") None; AName (lit "C9") None] = [(lit "C9", None)].
Proof. exact (restr_example ). Qed.
Print Assumptions C17_restr_example.
