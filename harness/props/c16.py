"""C16 — instruction objects expose the parameters the SHELXL syntax assigns.  Theorems: coq/Props/C16.v (Model/Attrs.v:
positional unpacking with defaults, HKLF/TWIN/ZERR slices, DEFS-dependent restraint defaults, the L.S. setter).
Tie B: the model is evaluated inside Coq on every keyword x arity and compared with the attributes of the
implementation's objects.  Failing-input search: attributes against the syntax table (pairwise distinct values that
differ from all defaults, so that a shifted slot is visible), with and without a preceding DEFS; setters."""
from fractions import Fraction

import common
from common import clist, cq, cz, copt
from gen import resfile as rf
import impl_model as im

THEOREMS = ['C16_unpack_given', 'C16_unpack_omitted', 'C16_set_is_parse', 'C16_stale_attribute_refuted', 'C16_hklf_full', 'C16_hklf_short', 'C16_twin_forms', 'C16_zerr_slots',
            'C16_ls_setter', 'C16_defs_defaults']
IMPORTS = 'From SX Require Import Base.Prelude Base.Str Model.Attrs.\nFrom Coq Require Import QArith.\nOpen Scope Q_scope.\n'
HEAD = ['TITL test', 'CELL 0.71073 10.5 11.2 12.3 90 95.5 90', 'ZERR 4 0.001 0.002 0.003 0.01 0.02 0.03', 'LATT 1', 'SYMM -X, 1/2+Y, 1/2-Z',
        'SFAC C H O N', 'UNIT 16 20 4 2', 'FVAR 1.0 0.6']
ATOMS = ['C1 1 0.1 0.2 0.3 11.0 0.04', 'O1 3 0.2 0.3 0.4 11.0 0.05', 'N1 4 0.3 0.3 0.4 11.0 0.05', 'C2 1 0.4 0.2 0.3 11.0 0.04']
TAIL = ['HKLF 4', 'END']
NOT_GIVEN = ('notgiven',)

# keyword -> attribute names in parameter order (objects that declare a slot per parameter)
ATTRS = {
    'ABIN': ['n1', 'n2'], 'AFIX': ['mn', 'd', 'sof', 'U'], 'ANIS': ['n'], 'BLOC': ['n1', 'n2'], 'BUMP': ['s'], 'CHIV': ['V', 's'],
    'DAMP': ['damp', 'limse'], 'DANG': ['d', 's'], 'DEFS': ['sd', 'sf', 'su', 'ss', 'maxsof'], 'DELU': ['s1', 's2'], 'DFIX': ['d', 's'],
    'FLAT': ['s'], 'FMAP': ['code', 'axis', 'nl'], 'GRID': ['sl', 'sa', 'sd', 'dl', 'da', 'dd'], 'HTAB': ['dh'], 'ISOR': ['s', 'st'],
    'MERG': ['n'], 'MORE': ['m'], 'MPLA': ['na'], 'NCSY': ['DN', 'sd', 'su'], 'PLAN': ['npeaks', 'd1', 'd2'], 'PRIG': ['p'],
    'RIGU': ['s1', 's2'], 'SADI': ['s'], 'SAME': ['s1', 's2'], 'SHEL': ['lowres', 'highres'], 'SIMU': ['s', 'st', 'dmax'],
    'SIZE': ['dx', 'dy', 'dz'], 'SPEC': ['d'], 'STIR': ['sres', 'step'], 'SWAT': ['g', 'U'], 'TWST': ['N'],
    'WGHT': ['a', 'b', 'c', 'd', 'e', 'f'], 'WIGL': ['d', 'dU'], 'WPDB': ['n'], 'XNPD': ['Umin'],
}
DEFAULTS = {'AFIX': [None, None, 11, 10.08], 'DANG': [None, 0.04], 'DFIX': [None, 0.02], 'NCSY': [None, 0.1, 0.05], 'STIR': [None, 0.01],
            'SHEL': [None, 0], 'FMAP': [2, None, 53], 'PLAN': [20, None, None]}
DEFS_MAP = {'DFIX': lambda d: [None, d[0]], 'SADI': lambda d: [d[0]], 'SAME': lambda d: [d[0], 2 * d[0]], 'CHIV': lambda d: [0, d[1]],
            'FLAT': lambda d: [d[1]], 'DELU': lambda d: [d[2], d[2]], 'SIMU': lambda d: [d[3], 2 * d[3], 2.0]}


def defaults_of(kw):
    if kw in DEFAULTS:
        return DEFAULTS[kw]
    d = rf.SYNTAX[kw][4]
    n = len(ATTRS[kw])
    return (list(d) if d else [None] * n) + [None] * (n - (len(d) if d else 0))


def find_object(shx, line_index):
    x = shx._reslist[line_index]
    return None if isinstance(x, str) else x


def value_of(obj, name):
    if not hasattr(obj, name):
        return NOT_GIVEN
    v = getattr(obj, name)
    if v is None or v == '' or v == []:
        return NOT_GIVEN
    return v


def same(a, b):
    if a is NOT_GIVEN or b is NOT_GIVEN:
        return a is b
    try:
        return abs(float(a) - float(b)) < 1e-9
    except (TypeError, ValueError):
        return a == b


def run_attrs(ctx):
    rng = ctx.rng
    ev = 0
    coq_cases = []
    for kw, names in ATTRS.items():
        lo, hi, words, sfx, _ = rf.SYNTAX[kw]
        ar = rf.ARITIES.get(kw, list(range(lo, hi + 1)))
        for n in ar:
            variants = [(False, None, False, None)] + [(False, None, False, k) for k in range(4)] + [(False, None, False, 'zero')]
            if kw in DEFS_MAP:
                variants.append((True, None, False, None))
            if sfx:     # restraints: with a residue number / class on the keyword, in lower case
                variants += [(d, sf, low, None) for d in ([False, True] if kw in DEFS_MAP else [False]) for sf, low in (('2', False), ('TOL', False), (None, True), ('tol', True))]
            for with_defs, suffix, lower, spell in variants:
                toks, nums, ws = rf.instr_tokens(rng, kw, ['C1', 'O1', 'N1', 'C2'], arity=n, suffix=suffix)
                if lower:
                    toks = [toks[0].lower()] + toks[1:]
                if kw in ('AFIX',):
                    toks = [kw] + [rf.fmt_num(v) for v in ([43, 0.98, 10.5, -1.5][:n])]
                    nums = [43, 0.98, 10.5, -1.5][:n]
                if spell == 'zero':         # explicit zeros are values, not omissions: 'DAMP 0 0' is not 'DAMP'
                    if not nums or kw in ('DFIX', 'DANG', 'NCSY', 'HFIX', 'AFIX', 'MPLA', 'SUMP', 'L.S.', 'CGLS', 'HKLF', 'TWIN', 'PART', 'LATT', 'FMAP', 'LIST', 'MOVE', 'STIR'):
                        continue
                    nums = [0] * len(nums)
                    toks = [toks[0]] + ['0'] * len(nums) + toks[1 + len(nums):]
                    spell = None
                if spell is not None:       # the same numbers in other legal spellings: '.5', '-.5', '+.5', '+0.5', '0.50'
                    if not nums:
                        continue
                    if spell >= 2:          # make sure a negative fraction without leading digit occurs
                        for i, v in enumerate(nums):
                            if isinstance(v, float) and 0 < abs(v) < 1 and kw not in ('DANG', 'DFIX', 'WGHT', 'DEFS', 'NCSY', 'SUMP') and i > 0:
                                nums = nums[:i] + [-abs(v)] + nums[i + 1:]
                                toks = toks[:1 + i] + [rf.fmt_num(-abs(v))] + toks[2 + i:]
                                break
                    toks = [toks[0]] + [rf.respell(t, spell + i) for i, t in enumerate(toks[1:1 + len(nums)])] + toks[1 + len(nums):]
                defs_vals = [0.013, 0.27, 0.017, 0.053]
                pre = ['DEFS ' + ' '.join(str(v) for v in defs_vals)] if with_defs else []
                lines = HEAD + pre + [' '.join(toks)] + ATOMS + TAIL
                text = '\n'.join(lines) + '\n'
                status, inner, shx = im.read_text(text, 'quiet')
                ev += 1
                case = {'instruction': ' '.join(toks), 'text': text, 'defs': with_defs}
                obj = find_object(shx, len(HEAD) + len(pre))
                if status == 'ok' and not inner and obj is None and n == 0:
                    continue        # an instruction without parameters may be left as text: everything is "not given"
                if status != 'ok' or inner or obj is None:
                    common.add_violation(ctx, 'instruction is not turned into an object', case, 'object', '%s %s' % (status, inner))
                    continue
                dfl = list(defaults_of(kw))
                if with_defs:
                    dfl = DEFS_MAP[kw](defs_vals)
                exp = []
                for i, nm in enumerate(names):
                    if i < len(nums):
                        exp.append(nums[i])
                    else:
                        exp.append(dfl[i] if i < len(dfl) and dfl[i] is not None else NOT_GIVEN)
                got = [value_of(obj, nm) for nm in names]
                for i, (nm, e, g) in enumerate(zip(names, exp, got)):
                    if i >= len(nums) and g is NOT_GIVEN:
                        continue        # an omitted parameter may be reported as "not given"
                    if not same(e, g):
                        common.add_violation(ctx, 'named attribute differs from the value at its position in the file / its documented default',
                                             dict(case, attribute=nm), None if e is NOT_GIVEN else e, None if g is NOT_GIVEN else g)
                coq_cases.append((kw, with_defs, dfl, nums, got, len(names)))
    return ev, coq_cases


def q(v):
    return cq(Fraction(repr(float(v))))


def run_coq(ctx, coq_cases):
    defs, terms = [], []
    for i, (kw, with_defs, dfl, nums, got, n) in enumerate(coq_cases):
        d = clist([copt(None if (k >= len(dfl) or dfl[k] is None) else q(dfl[k])) for k in range(n)])
        p = clist([q(v) for v in nums[:n]])
        g = clist([copt(None if v is NOT_GIVEN else q(v)) for v in got])
        terms.append('same_opts_given %d (unpack %s %s) %s' % (min(len(nums), n), d, p, g))
    pre = ('Definition same_opt (a b : option Q) : bool := match a, b with Some x, Some y => Qeqb_tol (1 # 1000000000) x y | None, None => true | _, _ => false end.\n'
           'Fixpoint same_opts (a b : list (option Q)) : bool := match a, b with x :: r, y :: s => same_opt x y && same_opts r s | [], [] => true | _, _ => false end.\n'
           '(* the first k slots (given parameters) must agree exactly; an omitted slot agrees when the implementation reports the default or nothing *)\n'
           'Fixpoint same_opts_given (k : nat) (a b : list (option Q)) : bool := match a, b with\n'
           '  | x :: r, y :: s => match k with S k1 => same_opt x y && same_opts_given k1 r s | O => (match y with None => true | _ => same_opt x y end) && same_opts_given O r s end\n'
           '  | [], [] => true | _, _ => false end.\n')
    res = common.coq_eval(ctx, 'c16', IMPORTS, pre, terms)
    bad = [coq_cases[i][0] for i, r in enumerate(res) if not common.parse_bool(r)]
    if bad:
        ctx.broken.append('correspondence Model/Attrs.v unpack differs from the implementation for %s' % sorted(set(bad)))


def run_special(ctx):
    """HKLF, TWIN, ZERR, SUMP, L.S./CGLS, BASF, ACTA, MOVE, restraint atoms / residues; setters"""
    ev = 0
    terms = []

    def read(line, pre=()):
        lines = HEAD + list(pre) + [line] + ATOMS + TAIL
        text = '\n'.join(lines) + '\n'
        status, inner, shx = im.read_text(text, 'quiet')
        return text, status, inner, shx, len(HEAD) + len(pre)

    def expect(what, case, exp, got):
        nonlocal ev
        ev += 1
        ok = exp == got
        if not ok and isinstance(exp, (int, float)) and isinstance(got, (int, float)):
            ok = abs(exp - got) < 1e-9
        if not ok and isinstance(exp, list) and isinstance(got, (list, tuple)) and len(exp) == len(got):
            try:
                ok = all(abs(float(a) - float(b)) < 1e-9 for a, b in zip(exp, got))
            except (TypeError, ValueError):
                ok = False          # something that is not a number where a number is expected
        if not ok:
            common.add_violation(ctx, what, case, exp, got)
    # HKLF forms
    for nums in ([], [4], [4, 2.5], [4, 1, 0, 1, 0, 1, 0, 0, 0, 0, -1], [4, 1.5, 0, 1, 0, 1, 0, 0, 0, 0, -1, 0.5], [3, 1.5, 0, 1, 0, 1, 0, 0, 0, 0, -1, 0.5, 2]):
        lines = HEAD + ATOMS + ['HKLF ' + ' '.join(str(v) for v in nums), 'END']
        text = '\n'.join(lines) + '\n'
        status, inner, shx = im.read_text(text, 'quiet')
        h = shx.hklf
        case = {'instruction': lines[-2], 'text': text}
        if h is None:
            common.add_violation(ctx, 'HKLF is not turned into an object', case, 'object', None)
            continue
        expect('HKLF N differs', case, nums[0] if nums else 0, h.n)
        expect('HKLF S differs', case, nums[1] if len(nums) > 1 else 1, h.s)
        expect('HKLF matrix differs', case, nums[2:11] if len(nums) > 10 else [1, 0, 0, 0, 1, 0, 0, 0, 1], list(h.matrix))
        expect('HKLF sm differs', case, nums[11] if len(nums) > 11 else 1, h.sm)
        expect('HKLF m differs', case, nums[12] if len(nums) > 12 else 0, h.m)
        terms.append('let h := hklf %s in Qeqb_tol (1#1000000000) (hk_n h) %s && Qeqb_tol (1#1000000000) (hk_s h) %s && Qeqb_tol (1#1000000000) (hk_sm h) %s && Qeqb_tol (1#1000000000) (hk_m h) %s' % (
            clist([q(v) for v in nums]), q(h.n), q(h.s), q(h.sm), q(h.m)))
    # TWIN
    for nums in ([], [0, 1, 0, 1, 0, 0, 0, 0, -1], [0, 1, 0, 1, 0, 0, 0, 0, -1, -4]):
        text, status, inner, shx, pos = read('TWIN ' + ' '.join(str(v) for v in nums))
        t = shx.twin
        case = {'instruction': 'TWIN', 'text': text}
        if t is None:
            common.add_violation(ctx, 'TWIN is not turned into an object', case, 'object', None)
            continue
        expect('TWIN matrix differs', case, nums[:9] if nums else [-1, 0, 0, 0, -1, 0, 0, 0, -1], list(t.matrix))
        expect('TWIN N differs', case, nums[9] if len(nums) > 9 else 2, t.n_value)
    # ZERR, CELL, LATT
    text, status, inner, shx, pos = read('REM x')
    case = {'instruction': HEAD[2], 'text': text}
    z = shx.zerr
    expect('ZERR Z differs', case, 4, z.Z)
    expect('ZERR esds differ', case, [0.001, 0.002, 0.003, 0.01, 0.02, 0.03], [z.esd_a, z.esd_b, z.esd_c, z.esd_al, z.esd_be, z.esd_ga])
    expect('CELL parameters differ', case, [0.71073, 10.5, 11.2, 12.3, 90, 95.5, 90], [shx.cell.wavelen, shx.cell.a, shx.cell.b, shx.cell.c, shx.cell.alpha, shx.cell.beta, shx.cell.gamma])
    expect('LATT N differs', case, 1, shx.latt.N)
    # SUMP, BASF, ACTA, MOVE, L.S.
    text, status, inner, shx, pos = read('SUMP 1.5 0.01 0.5 2 0.25 3')
    s = shx.sump[0] if shx.sump else None
    case = {'instruction': 'SUMP', 'text': text}
    if s is None:
        common.add_violation(ctx, 'SUMP is not turned into an object', case, 'object', None)
    else:
        expect('SUMP c differs', case, 1.5, s.c); expect('SUMP sigma differs', case, 0.01, s.sigma)
        expect('SUMP coefficient / free variable pairs differ', case, [[0.5, 2], [0.25, 3]], [list(x) for x in s.fvars])
    text, status, inner, shx, pos = read('BASF 0.31 0.22')
    case = {'instruction': 'BASF', 'text': text}
    expect('BASF scale factors differ (Shelxfile.basf)', case, [0.31, 0.22], list(shx.basf.scale_factors) if shx.basf else None)
    text, status, inner, shx, pos = read('ACTA 52.5')
    expect('ACTA 2theta differs', {'instruction': 'ACTA', 'text': text}, [52.5], list(shx.acta.twotheta) if shx.acta else None)
    text, status, inner, shx, pos = read('MOVE 0.5 0.25 0.75 -1')
    expect('MOVE shift differs', {'instruction': 'MOVE', 'text': text}, [0.5, 0.25, 0.75], list(shx.move.dxdydz) if shx.move else None)
    expect('MOVE sign differs', {'instruction': 'MOVE', 'text': text}, -1, shx.move.sign if shx.move else None)
    for kw in ('L.S.', 'CGLS'):
        for nums in ([], [10], [10, 2], [10, 0, 5], [10, 2, 5]):
            text, status, inner, shx, pos = read(kw + ' ' + ' '.join(str(v) for v in nums))
            c = shx.cycles
            case = {'instruction': kw + ' ' + ' '.join(str(v) for v in nums), 'text': text}
            if c is None:
                common.add_violation(ctx, 'L.S./CGLS is not turned into an object', case, 'object', None)
                continue
            expect('number of cycles differs', case, nums[0] if nums else 0, c.number)
            expect('CGLS flag differs', case, kw == 'CGLS', c.cgls)
            # the setter: written text denotes exactly the new values
            c.number = 7
            toks = str(c).split()
            den = [int(x) for x in toks[1:]] + [0, 0, 0]
            exp = [7, nums[1] if len(nums) > 1 else 0, nums[2] if len(nums) > 2 else 0]
            expect('text after setting the number of cycles does not denote the new values', case, exp, den[:3])
            expect('keyword after setting the number of cycles', case, kw, toks[0])
            terms.append('let l := ls_set_number (ls_parse %s) 7 in let \'(a, b, c) := ls_denote l in Z.eqb a %s && Z.eqb b %s && Z.eqb c %s' % (
                clist([cz(v) for v in nums]), cz(den[0]), cz(den[1]), cz(den[2])))
    # set() with fewer parameters than the instruction had: what is left out is the documented default (or "not given"), not the old value
    for kw, names in ATTRS.items():
        lo, hi, words, sfx, _ = rf.SYNTAX[kw]
        if sfx or words or hi < 2 or kw in ('AFIX', 'STIR', 'NCSY', 'DANG', 'DFIX', 'SUMP'):
            continue
        full = [1.25 + 0.5 * i for i in range(min(hi, len(names)))]
        if kw in rf.INT_KW:
            full = [3 + i for i in range(len(full))]
        text, status, inner, shx, pos = read(kw + ' ' + ' '.join(str(v) for v in full))
        obj = find_object(shx, pos)
        if status != 'ok' or inner or obj is None or not hasattr(obj, 'set'):
            continue
        first = 7 if kw in rf.INT_KW else 0.75
        try:
            obj.set('%s %s' % (kw, first))
        except Exception as ex:
            common.add_violation(ctx, 'set() raises', {'instruction': '%s -> set(%s %s)' % (kw, kw, first), 'text': text}, 'no exception', repr(ex))
            continue
        dfl = list(defaults_of(kw))
        case = {'instruction': '%s %s -> set(%s %s)' % (kw, ' '.join(str(v) for v in full), kw, first), 'text': text}
        got = [value_of(obj, nm) for nm in names]
        ev += 1
        if not same(first, got[0]):
            common.add_violation(ctx, 'the parameter given to set() is not reported', dict(case, attribute=names[0]), first, None if got[0] is NOT_GIVEN else got[0])
        for i in range(1, len(names)):
            d_ = dfl[i] if i < len(dfl) and dfl[i] is not None else NOT_GIVEN
            if got[i] is NOT_GIVEN or same(d_, got[i]):
                continue
            common.add_violation(ctx, 'a parameter left out in set() is reported with the old value instead of its documented default',
                                 dict(case, attribute=names[i]), None if d_ is NOT_GIVEN else d_, got[i])
    # set(text) leaves the object exactly as a fresh parse of text does: every attribute, for every object-backed keyword, from the form with
    # all parameters to each shorter form (numbers only, names only, bare keyword)
    def public(o):
        out = {}
        for k_, v_ in vars(o).items():
            if k_.startswith('_') or k_ in ('shx',) or callable(v_):
                continue
            out[k_] = repr(v_) if not isinstance(v_, (list, tuple)) else repr([str(x) for x in v_])
        return out
    names4 = ['C1', 'O1', 'N1', 'C2', 'C1', 'O1']
    for kw, (lo, hi, words, sfx, _) in sorted(rf.SYNTAX.items()):
        if kw in ('HKLF', 'SUMP', 'FRAG', 'FEND', 'END', 'TITL', 'CELL', 'ZERR', 'SFAC', 'UNIT', 'LATT', 'SYMM', 'FVAR', 'RESI', 'PART', 'AFIX', 'EQIV', 'REM'):
            continue
        nums_full = [3 + i for i in range(hi)] if kw in rf.INT_KW else [1.25 + 0.5 * i for i in range(hi)]
        wmax = names4[:words[1]] if words else []
        wmin = names4[:words[0]] if words else []
        full = ' '.join([kw] + [str(v) for v in nums_full] + wmax)
        shorter = []
        for nn in range(lo, hi + 1):
            for ww in ([wmin, wmax] if words and wmin != wmax else [wmax]):
                t_ = ' '.join([kw] + [str(v) for v in ([7 + i for i in range(nn)] if kw in rf.INT_KW else [0.75 + 0.25 * i for i in range(nn)])] + ww)
                if t_ != full:
                    shorter.append(t_)
        for t_ in shorter:
            text, status, inner, shx, pos = read(full)
            obj = find_object(shx, pos)
            if status != 'ok' or inner or obj is None or not hasattr(obj, 'set'):
                break
            text2, status2, inner2, shx2, pos2 = read(t_)
            fresh = find_object(shx2, pos2)
            if status2 != 'ok' or inner2 or fresh is None or type(fresh) is not type(obj):
                continue
            case = {'instruction': '%s -> set(%s)' % (full, t_), 'text': text}
            try:
                obj.set(t_)
            except Exception as ex:
                common.add_violation(ctx, 'set() raises', case, 'no exception', repr(ex))
                continue
            ev += 1
            a_, b_ = public(obj), public(fresh)
            diff = sorted(k_ for k_ in set(a_) | set(b_) if a_.get(k_) != b_.get(k_))
            if diff:
                common.add_violation(ctx, 'after set(text) an attribute differs from what reading text gives (a value of the old instruction is left over)',
                                     dict(case, attributes=diff), {k_: b_.get(k_) for k_ in diff}, {k_: a_.get(k_) for k_ in diff})
    # UNIT: values as written, and after a value was set (also values of 1000 and more): the text denotes the values
    for vals in ([16, 20, 4, 2], [640, 1536, 64, 1], [1200.5, 2400, 16, 2], [16, 20, 4, 1000]):
        lines_ = HEAD[:6] + ['UNIT ' + ' '.join(str(v) for v in vals)] + HEAD[7:] + ATOMS + TAIL
        text = '\n'.join(lines_) + '\n'
        status, inner, shx = im.read_text(text, 'quiet')
        if status != 'ok' or inner or shx.unit is None:
            common.add_violation(ctx, 'a valid UNIT instruction raises', {'instruction': lines_[6], 'text': text}, 'ok', '%s %s' % (status, inner))
            continue
        case = {'instruction': lines_[6], 'text': text}
        expect('UNIT: values', case, [float(v) for v in vals], [float(v) for v in shx.unit.values])
        for new in (1536, 7, 2000.5):
            shx.unit[1] = new
            want = [float(vals[0]), float(new)] + [float(v) for v in vals[2:]]
            toks = str(shx.unit).split()
            try:
                den = [float(t) for t in toks[1:]]
            except ValueError:
                den = toks[1:]
            expect('UNIT: text after a value was set', dict(case, set='unit[1] = %s' % new), want, den)
            written = [l for l in im.write_text(shx).split('\n') if l.upper().startswith('UNIT')]
            try:
                wden = [float(t) for t in written[0].split()[1:]]
            except (ValueError, IndexError):
                wden = written
            expect('UNIT: written file after a value was set', dict(case, set='unit[1] = %s' % new), want, wden)
    # FVAR: free variable m read and set through fvars[m] (counted from one): the written text denotes the new values
    for m_, new in ((2, 0.9), (1, 0.75), (3, 0.125)):
        lines_ = HEAD[:7] + ['FVAR 1.0 0.6 0.3'] + ATOMS + TAIL
        text = '\n'.join(lines_) + '\n'
        status, inner, shx = im.read_text(text, 'quiet')
        case = {'instruction': 'FVAR 1.0 0.6 0.3 -> fvars[%d] = %s' % (m_, new), 'text': text}
        want = [1.0, 0.6, 0.3]
        expect('FVAR: value of free variable %d' % m_, case, want[m_ - 1], shx.fvars[m_])
        try:
            shx.fvars[m_] = new
            want[m_ - 1] = new
            got_ = [float(t) for t in str(shx.fvars).split()[1:]]
            back_ = shx.fvars[m_]
            wr_ = [l for l in im.write_text(shx).split('\n') if l.upper().startswith('FVAR')]
            wden_ = [float(t) for t in wr_[0].split()[1:]] if wr_ else wr_
        except Exception as ex:
            common.add_violation(ctx, 'setting a free variable through fvars[m] raises (or leaves an object that cannot be written)', case, 'no exception', repr(ex))
            continue
        expect('FVAR: text after fvars[m] = value', case, want, got_)
        expect('FVAR: fvars[m] after fvars[m] = value', case, new, back_)
        expect('FVAR: written file after fvars[m] = value', case, want, wden_)
    # FRAG code[17] a[1] b[1] c[1] alpha[90] beta[90] gamma[90]: every prefix of the parameter list
    from shelxfile.shelx.cards import FRAG as _FRAG
    from shelxfile.shelx.shelx import Shelxfile as _Shx
    full_ = [17, 12.5, 8.25, 10.125, 95.5, 101.25, 88.75]
    dfl_ = [17, 1.0, 1.0, 1.0, 90.0, 90.0, 90.0]
    for n_ in range(0, 8):
        line = ' '.join(['FRAG'] + [str(v) for v in full_[:n_]])
        try:
            fr = _FRAG(_Shx(), line.split())
        except Exception as ex:
            common.add_violation(ctx, 'a valid FRAG instruction raises', {'instruction': line}, 'no exception', repr(ex))
            continue
        want = full_[:n_] + dfl_[n_:]
        expect('FRAG: code', {'instruction': line}, want[0], fr.code)
        expect('FRAG: cell (omitted parameters have their defaults)', {'instruction': line}, [float(v) for v in want[1:]], [float(v) for v in fr.cell])
        fr2 = _FRAG(_Shx(), ('FRAG ' + ' '.join(str(v) for v in full_)).split())
        fr2.set(line)
        expect('FRAG: cell after set()', {'instruction': 'FRAG (full) -> set(%s)' % line}, [float(v) for v in want[1:]], [float(v) for v in fr2.cell])
    # MOVE dx[0] dy[0] dz[0] sign[1] and DISP E f' f" mu: attributes that are lists / words
    for line, exp_shift, exp_sign in (('MOVE', None, None), ('MOVE 0.5', [0.5, 0, 0], None), ('MOVE 0.5 0.25', [0.5, 0.25, 0], None), ('MOVE 0.5 0.25 -0.75', [0.5, 0.25, -0.75], None),
                                      ('MOVE 1 1 1 -1', [1, 1, 1], -1)):
        text, status, inner, shx, pos = read(line)
        obj = find_object(shx, pos)
        if status != 'ok' or inner or obj is None:
            continue
        case = {'instruction': line, 'text': text}
        got = getattr(obj, 'dxdydz', None)
        if exp_shift is None:
            expect('MOVE without parameters: shifts', case, None, None if not got else list(got))
        else:
            expect('MOVE: the shifts written in the file (omitted ones are 0)', case, exp_shift, None if got is None else list(got))
        if exp_sign is not None:
            expect('MOVE: sign', case, exp_sign, getattr(obj, 'sign', None))
    for line, el, nums in (('DISP C 0.0033 0.0016 11.5', 'C', [0.0033, 0.0016, 11.5]), ('DISP O 0.0106 0.006', 'O', [0.0106, 0.006])):
        lines_ = HEAD[:6] + [line] + HEAD[6:] + ATOMS + TAIL
        text = '\n'.join(lines_) + '\n'
        status, inner, shx = im.read_text(text, 'quiet')
        obj = find_object(shx, 6) if status == 'ok' and not inner else None
        if obj is None or type(obj).__name__ != 'DISP':
            continue
        case = {'instruction': line, 'text': text}
        e_ = getattr(obj, 'element', None)
        expect('DISP: element', case, el, e_ if isinstance(e_, str) else (list(e_) if isinstance(e_, (list, tuple)) else e_))
        p_ = getattr(obj, 'parameter', None)
        expect('DISP: f\', f\'\' and mu', case, nums, list(p_) if isinstance(p_, (list, tuple)) else p_)
    text, status, inner, shx, pos = read('REM x')
    h_lines = HEAD + ATOMS + ['HKLF 4 0.5 0 1 0 1 0 0 0 0 -1 2 3', 'END']
    st_, in_, shx_h = im.read_text('\n'.join(h_lines) + '\n', 'quiet')
    if shx_h.hklf is not None:
        shx_h.hklf.set('HKLF 4')
        hcase = {'instruction': 'HKLF 4 0.5 0 1 0 1 0 0 0 0 -1 2 3 -> set(HKLF 4)', 'text': '\n'.join(h_lines)}
        expect('HKLF S after set(HKLF 4)', hcase, 1, shx_h.hklf.s)
        expect('HKLF matrix after set(HKLF 4)', hcase, [1, 0, 0, 0, 1, 0, 0, 0, 1], list(shx_h.hklf.matrix))
        expect('HKLF sm, m after set(HKLF 4)', hcase, [1, 0], [shx_h.hklf.sm, shx_h.hklf.m])
    # generic setter Command.set and update_weight
    text, status, inner, shx, pos = read('PLAN 20')
    shx.plan.set('PLAN 35 1.5 2.5')
    case = {'instruction': 'PLAN 20 -> set(PLAN 35 1.5 2.5)', 'text': text}
    expect('PLAN text after set()', case, ['PLAN', '35', '1.5', '2.5'], str(shx.plan).split())
    expect('PLAN attributes after set()', case, [35, 1.5, 2.5], [shx.plan.npeaks, shx.plan.d1, shx.plan.d2])
    # WGHT: the text denotes the six values whatever was given, set or assigned
    import itertools
    wd = [0.1, 0.0, 0.0, 0.0, 0.0, 0.33333]
    pools = [[0.1, 0.0543], [0.0, 1.2345], [0.0, 0.1, -0.5], [0.0, 0.23333], [0.0, 0.7], [0.33333, 0.23333, 0.83333, 0.5]]
    text, status, inner, shx, pos = read('WGHT 0.1')
    for vals in itertools.product(*pools):
        for how in ('set', 'assign'):
            if how == 'set':
                shx.wght.set('WGHT ' + ' '.join(str(v) for v in vals))
            else:
                for nm, v in zip('abcdef', vals):
                    setattr(shx.wght, nm, v)
            toks = str(shx.wght).split()
            den = [float(x) for x in toks[1:]]
            den = den + wd[len(den):]
            case = {'instruction': 'WGHT %s via %s' % (' '.join(str(v) for v in vals), how), 'text': text}
            if how == 'set':
                expect('WGHT attributes after set()', case, list(vals), [getattr(shx.wght, nm) for nm in 'abcdef'])
            expect('WGHT text does not denote the values of the object', case, list(vals), den)
    lines = HEAD + ['WGHT 0.1 0.2'] + ATOMS + TAIL + ['WGHT 0.0543 1.2345']
    text = '\n'.join(lines) + '\n'
    status, inner, shx = im.read_text(text, 'quiet')
    case = {'instruction': 'update_weight', 'text': text}
    if shx.wght_suggested is None:
        common.add_violation(ctx, 'WGHT after END is not recorded as the suggested weighting scheme', case, 'object', None)
    else:
        shx.update_weight()
        toks = str(shx.wght).split()
        expect('WGHT text after update_weight', case, [0.0543, 1.2345], [float(x) for x in toks[1:3]])
        # the instruction in the file is the one that was updated
        wl = [l.split() for l in im.write_text(shx).split('\n') if l.upper().startswith('WGHT')]
        expect('WGHT instruction in the written file after update_weight (the first WGHT line)', case, [0.0543, 1.2345], [float(x) for x in wl[0][1:3]] if wl else None)
        try:
            pos_ok = shx._reslist[shx.wght.index] is shx.wght
        except Exception as ex:
            pos_ok = 'raised %s' % type(ex).__name__
        expect('Shelxfile.wght is the object the file holds after update_weight', case, True, pos_ok)
        # ... and setting the instruction back to the text it was read from must take effect again
        shx.wght.set('WGHT 0.1 0.2')
        toks = str(shx.wght).split()
        case = {'instruction': "update_weight(), then wght.set('WGHT 0.1 0.2') (the original text)", 'text': text}
        expect('WGHT attributes after set() following update_weight()', case, [0.1, 0.2], [shx.wght.a, shx.wght.b])
        expect('WGHT text after set() following update_weight()', case, [0.1, 0.2], [float(x) for x in toks[1:3]])
        for nm, v in zip('ab', (0.07, 0.9)):
            setattr(shx.wght, nm, v)
        shx.wght.set('WGHT 0.1 0.2')
        expect('WGHT attributes after assignment and set() to the original text', case, [0.1, 0.2], [shx.wght.a, shx.wght.b])
    # a second DEFS that leaves parameters out: they take the documented defaults, not the values of the first DEFS
    lines = HEAD + ['DEFS 0.03 0.2 0.02 0.05 0.9', 'SADI C1 O1 N1 C2', 'DEFS 0.011', 'FLAT C1 O1 N1 C2', 'DELU C1 O1', 'SIMU C1 O1'] + ATOMS + TAIL
    text = '\n'.join(lines) + '\n'
    status, inner, shx = im.read_text(text, 'quiet')
    case = {'instruction': 'DEFS 0.03 0.2 0.02 0.05 0.9 ... DEFS 0.011', 'text': text}
    d2 = find_object(shx, len(HEAD) + 2)
    if d2 is None:
        common.add_violation(ctx, 'DEFS is not turned into an object', case, 'object', None)
    else:
        expect('second DEFS: omitted parameters are the documented defaults', case, [0.011, 0.1, 0.01, 0.04, 1], [d2.sd, d2.sf, d2.su, d2.ss, d2.maxsof])
        rs = list(shx.restraints)
        got_defaults = {type(r).__name__: getattr(r, 's', getattr(r, 's1', None)) for r in rs}
        expect('restraints after the second DEFS take its defaults (FLAT s = sf = 0.1, DELU s1 = su = 0.01, SIMU s = ss = 0.04), the SADI before it those of the first (0.03)',
               case, [0.03, 0.1, 0.01, 0.04], [got_defaults.get('SADI'), got_defaults.get('FLAT'), got_defaults.get('DELU'), got_defaults.get('SIMU')])
    # restraints: atoms, residue class, resolved residue numbers
    pre = ['RESI 1 TOL', 'C5 1 0.5 0.5 0.5 11.0 0.04', 'RESI 2 TOL', 'C5 1 0.6 0.5 0.5 11.0 0.04', 'RESI 0']
    for line, atoms, cls, nums in (('SADI_TOL 0.03 C5 C6', ['C5', 'C6'], 'TOL', [1, 2]), ('SADI_2 C5 C6', ['C5', 'C6'], '', [2]),
                                   ('DFIX 1.5 C1 O1', ['C1', 'O1'], '', [0]), ('FLAT_tol C1 O1 N1 C2', ['C1', 'O1', 'N1', 'C2'], 'TOL', [1, 2])):
        lines = HEAD + ATOMS + pre + [line] + TAIL
        text = '\n'.join(lines) + '\n'
        status, inner, shx = im.read_text(text, 'quiet')
        r = shx.restraints[-1] if len(list(shx.restraints)) else None
        case = {'instruction': line, 'text': text}
        if r is None:
            common.add_violation(ctx, 'restraint is not turned into an object', case, 'object', None)
            continue
        expect('restraint atoms differ', case, atoms, list(r.atoms))
        expect('restraint residue class differs', case, cls, (r.residue_class or '').upper())
        expect('resolved residue numbers differ', case, nums, sorted(r.residue_number))
    if terms:
        res = common.coq_eval(ctx, 'c16s', IMPORTS, '', terms)
        for t, r in zip(terms, res):
            if not common.parse_bool(r):
                ctx.broken.append('correspondence Model/Attrs.v differs from the implementation: %s' % t[:80])
    return ev


def run(ctx):
    common.check_obligations(ctx, THEOREMS)
    ev, coq_cases = run_attrs(ctx)
    run_coq(ctx, coq_cases)
    ev += run_special(ctx)
    ctx.cov['evaluations'] = ev
    ctx.cov['distinct_nontrivial'] = ev
    ctx.cov['exhaustive'] = True
    ctx.cov['rule'] = ('every keyword whose object declares named slots x every admissible number of numeric parameters (pairwise distinct values different '
                       'from all defaults), with and without a preceding DEFS for the restraints it governs; HKLF / TWIN / ZERR / CELL / LATT / SUMP / BASF / ACTA / MOVE '
                       'forms; L.S. and CGLS in five forms with the setter; Command.set; update_weight; restraint atoms and residue resolution')
    common.sample(ctx, {'instruction': 'PLAN 13 78 32', 'expected': {'npeaks': 13, 'd1': 78, 'd2': 32}})
    ctx.assumptions += ['the DEFS mapping checked is the one the library implements (sd: DFIX/SADI/SAME, sf: CHIV/FLAT, su: DELU, ss: SIMU)',
                        'attribute names per keyword are transcribed by hand (harness/props/c16.py ATTRS)']


def replay(ctx, rp):
    c = rp['violation']['case']
    st, inn, shx = im.read_text(c['text'], 'quiet')
    print('replay:', st, inn, c.get('instruction'))
    return 0
