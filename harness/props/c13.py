"""C13 — shortest-distance matrix.  Theorems: coq/Props/C13.v (real instance of Model/Sdm.v; vlen tied to the
re-traced SDM.vector_length).  Tie B: the float instance of the model is executed inside Coq on the
implementation's own numbers (items, molecule numbers).  Failing-input search: SDM.calc_sdm against brute force over
operators x translations in [-3,3]^3, the bond rule as the property words it, and a union-find over the bond graph."""
import math

import common
import trace_kernels as TK
from gen import structures as gs
from gen import spacegroups as sg
from props import sdm_common as sc

THEOREMS = ['C13_min_image_spacing', 'C13_component_bound', 'C13_wrap1_of_small', 'C13_wrap1_range', 'C13_pair_min_correct', 'C13_bond_rule', 'C13_min_image', 'C13_vlen_is_cell_norm',
            'C13_wrapped_is_shortest', 'C13_vlen_matches_traced', 'C13_cubic_lattice_bound', 'C13_molindex_components', 'C13_molindex_example']
GEN_FILES = ['K_cell']


def exact_ops(st):
    return sg.expected(st['latt'], [sg.parse_op(s) for s in st['symm']])


def union_find(n, edges):
    p = list(range(n))

    def f(x):
        while p[x] != x:
            p[x] = p[p[x]]
            x = p[x]
        return x
    for a, b in edges:
        p[f(a)] = f(b)
    return [f(i) for i in range(n)]


def oracle(ctx, st, ob):
    atoms = ob['atoms']
    G = sc.metric_of(st['cell'])
    case = {'name': st['name'], 'text': ob['text']}
    # the implementation's operator list is the subject of C11; here the reference uses the list it iterates over
    ops = []
    for o in ob['ops']:
        ops.append(([[o.matrix[i, j] for j in range(3)] for i in range(3)], [float(t) for t in o.trans]))
    # the reference distances are taken over the operators of the space group as constructed (exact table), so that an operator the
    # library failed to generate shows up here as a distance that is too long
    exact = [([[float(v) for v in row] for row in o[0]], [float(t) for t in o[1]]) for o in exact_ops(st)]
    items = {(a1, a2): (d, n, c) for a1, a2, d, n, c in ob['items']}
    n = len(atoms)
    ev = 0
    # half the smallest interplanar spacing 1/a*: below it the component-wise wrap is the minimum image
    # (C13_min_image_spacing); beyond it the library can miss the nearest image in oblique cells (known finding)
    from props.c12 import inv_diag
    spacing = min(1.0 / math.sqrt(g) for g in inv_diag(G))
    edges = []
    for i in range(n):
        for j in range(n):
            xi, xj = [atoms[i].x, atoms[i].y, atoms[i].z], [atoms[j].x, atoms[j].y, atoms[j].z]
            d, nop = sc.true_min(G, exact, xi, xj, same=(i == j))
            ev += 1
            it = items.get((i, j))
            if it is not None and it[2]:
                edges.append((i, j))
            limit = 5.3 - 1e-3
            known = 'long_contact_beyond_half_interplanar_spacing' if d >= spacing / 2 - 1e-3 else None
            if d < limit:
                if it is None:
                    common.add_violation(ctx, 'no SDM item for a pair whose shortest symmetry distance is below the cut-off',
                                         dict(case, pair=[atoms[i].name, atoms[j].name], half_spacing=spacing / 2), d, None, cls=known)
                    continue
                # reported distance = true minimum (+0.0001 bias for operators other than the identity)
                if abs(it[0] - d) > 2.5e-4:
                    common.add_violation(ctx, 'reported distance is not the shortest symmetry distance',
                                         dict(case, pair=[atoms[i].name, atoms[j].name], half_spacing=spacing / 2), d, it[0], cls=known)
                    continue
                # the reported operator realises it
                R, t = ops[it[1]]
                p = [sum(R[r][k] * xi[k] for k in range(3)) + t[r] for r in range(3)]
                base = [p[r] - xj[r] for r in range(3)]
                base = [v - math.floor(v + 0.5) for v in base]
                dr = min(sc.glen(G, [base[r] + s[r] for r in range(3)]) for s in sc.SHIFTS)
                if abs(dr - d) > 2.5e-4:
                    common.add_violation(ctx, 'reported operator does not realise the reported distance',
                                         dict(case, pair=[atoms[i].name, atoms[j].name], operator=it[1]), d, dr)
            if it is not None:
                a1, a2 = atoms[i], atoms[j]
                p1, p2 = a1.part.n, a2.part.n
                allowed = (p1 == p2) or ((p1 == 0 or p2 == 0) and not (sc.is_h(a1) or sc.is_h(a2)))       # hydrogen = H, D or T by element symbol
                lim = 1.2 * (gs.radius(a1.element) + gs.radius(a2.element))       # by element symbol from the table, not through the atom object
                want = allowed and it[0] < lim
                if abs(it[0] - lim) > 1e-6 and bool(it[2]) != want:
                    common.add_violation(ctx, 'bonded label differs from the bonding rule (1.2 x radii, PART and hydrogen rules)',
                                         dict(case, pair=[a1.name, a2.name], dist=it[0], parts=[p1, p2]), want, it[2])
    # molecule numbers = connected components of the bond graph
    comp = union_find(n, edges)
    mol = ob['molindex']
    for i in range(n):
        for j in range(i + 1, n):
            same_c = comp[i] == comp[j]
            same_m = mol[i] == mol[j]
            if same_c != same_m:
                common.add_violation(ctx, 'molecule numbers do not partition the atoms into the components of the bond graph',
                                     dict(case, atoms=[atoms[i].name, atoms[j].name], molindex=[mol[i], mol[j]]),
                                     'same component' if same_c else 'different components', 'same number' if same_m else 'different numbers')
    return ev


def resdm(ctx, st):
    """the matrix built again after an edit on the same object (an element changed) is the matrix of a fresh object reading the edited
    file: no radius, distance or bond flag of the earlier matrix survives"""
    import contextlib, io
    import impl_model as im
    from shelxfile.shelx.shelx import Shelxfile
    from shelxfile.shelx.sdm import SDM
    text = gs.to_text(st)
    shx = Shelxfile()

    def table(s):
        with contextlib.redirect_stdout(io.StringIO()):
            sdm = SDM(s)
            sdm.calc_sdm()
        return (sorted((it.a1, it.a2, round(it.dist, 6), bool(it.covalent)) for it in sdm.sdm_list), [a.molindex for a in s.atoms.all_atoms])
    with contextlib.redirect_stdout(io.StringIO()):
        shx.read_string(text)
    table(shx)
    real = [a for a in shx.atoms.all_atoms if not a.qpeak]
    if not real:
        return 0
    victim = ctx.rng.choice(real)
    new = ctx.rng.choice([e for e in gs.ELEMENTS if e.upper() != victim.element.upper()])
    with contextlib.redirect_stdout(io.StringIO()):
        victim.element = new
    edited = table(shx)
    fresh = Shelxfile()
    with contextlib.redirect_stdout(io.StringIO()):
        fresh.read_string(im.write_text(shx))
    ref = table(fresh)
    if edited[0] != ref[0]:
        diff = [x for x in edited[0] if x not in ref[0]][:3]
        common.add_violation(ctx, 'the distance matrix built after changing an element differs from the matrix of a fresh object reading the edited file',
                             {'text': text, 'atom': victim.name, 'new_element': new}, str([x for x in ref[0] if x not in edited[0]][:3]), str(diff))
    elif [[i for i, m in enumerate(edited[1]) if m == k] for k in sorted(set(edited[1]))] != [[i for i, m in enumerate(ref[1]) if m == k] for k in sorted(set(ref[1]))]:
        common.add_violation(ctx, 'molecule numbers after changing an element differ from those of a fresh object reading the edited file',
                             {'text': text, 'atom': victim.name, 'new_element': new}, ref[1], edited[1])
    return 1


def run(ctx):
    TK.stage(ctx, GEN_FILES, THEOREMS)
    rng = ctx.rng
    nstruct = 1500 if ctx.thorough() else 120
    shards, meta = [], []
    defs, terms, chunk = [], [], []
    ev = 0
    hist = {}
    for k in range(nstruct):
        # every sixth structure starts with an atom on exact quarters in a centrosymmetric triclinic or monoclinic cell (differences of exactly -1.5)
        if k % 6 == 2:
            st = gs.gen_structure(rng, name=rng.choice([g for g in ('P-1', 'P21/c', 'C2/c') if g in gs.sg.TABLE]), force_mode='on_quarter')
        else:
            st = gs.gen_structure(rng, name=rng.choice(['P-1', 'P-1', 'P1']) if k % 6 == 5 else None)
        hist[st['name']] = hist.get(st['name'], 0) + 1
        try:
            ob = sc.observe(st)
        except Exception as ex:
            common.add_violation(ctx, 'calc_sdm / packer raised on a valid structure', {'name': st['name'], 'text': gs.to_text(st)}, 'no exception', repr(ex))
            continue
        ev += oracle(ctx, st, ob)
        if k % 4 == 0:
            ev += resdm(ctx, st)
        mc = sc.metric_constants_ok(ob)
        if mc and not any('metric constants' in x for x in ctx.broken):
            ctx.broken.append('correspondence: metric constants of the SDM object differ from the cell: ' + mc)
        defs.append(sc.coq_defs(ob, k))
        t = sc.coq_checks(ob, k)
        terms += t[:2]
        chunk.append(st)
        if k < 2:
            common.sample(ctx, {'space_group': st['name'], 'cell': st['cell'], 'atoms': [(a['name'], a['xyz'], a['part']) for a in st['atoms'][:4]],
                                'items': len(ob['items']), 'molindex': ob['molindex']})
        if len(chunk) == 10:
            shards.append((sc.PRE + '\n'.join(defs), terms)); meta.append(chunk)
            defs, terms, chunk = [], [], []
    if chunk:
        shards.append((sc.PRE + '\n'.join(defs), terms)); meta.append(chunk)
    results = common.coq_eval_sharded(ctx, 'c13', sc.IMPORTS, None, shards)
    nbad = 0
    for ch, res in zip(meta, results):
        for i, st in enumerate(ch):
            for j, what in enumerate(('sdm items (pair, distance, operator, bonded)', 'molecule numbers')):
                if not common.parse_bool(res[2 * i + j]):
                    nbad += 1
                    if nbad <= 5:
                        ctx.broken.append('correspondence Model/Sdm.v (float instance) differs from SDM.calc_sdm: %s, structure %s' % (what, st['name']))
                        ctx.notes.setdefault('broken_cases', []).append({'what': what, 'text': gs.to_text(st)})
    ctx.cov['evaluations'] = ev
    ctx.cov['distinct_nontrivial'] = ev
    ctx.cov['rule'] = ('random structures (2-9 atoms in 1-3 bonded clusters, some on or near inversion centres / axes, elements C N O H Cl S, PARTs, '
                       'Q-peaks) in the tabulated space groups with metrically compatible cells (axes >= 7.5 A); every ordered atom pair is one '
                       'evaluation against brute force over operators x translations in [-3,3]^3; all random, hence distinct')
    ctx.notes.setdefault('coverage_extra', {})['space_groups'] = hist
    ctx.notes['coverage_extra']['structures'] = nstruct
    ctx.assumptions += ['the operator list iterated over is the subject of C11 (here taken from the implementation)',
                        'rounding is not modelled in the theorems; the float instance of the model is executed on the same doubles (PrimFloat, bit-level mirror up to pow/sum differences, tolerance 2^-30)',
                        'reported distances carry the library\'s +0.0001 bias for operators other than the identity (tolerance 2.5e-4 against the true minimum)',
                        'molecule numbering: proved for the model (C13_molindex_components: termination within the fuel, every atom numbered, same number <=> connected by bonded pairs); the model\'s numbers are compared exactly with Atom.molindex on every structure, and the implementation additionally with a union-find reference']


def replay(ctx, rp):
    print('replay: structure text is stored in the replay file; re-run ./check C13 with the same seed')
    return 0
