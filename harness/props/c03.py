"""C03 — every atom carries exactly the attributes the SHELXL rules assign to it.  Theorems: coq/Props/C03.v
(Model/Ctx.v against Spec/CtxSpec.v).  Tie B: the context model is evaluated inside Coq on the event sequence of each
generated file and compared with Shelxfile.atoms.  Failing-input search: the implementation against the
by-construction atom table (context, occupation code, element, U values, Q-peak flag, include files, FRAG blocks,
coded coordinates) and the derived views."""
import os
import shutil
import tempfile
from fractions import Fraction

import common
from common import clist, cstr, cz, cq, cbool
from gen import resfile as rf
import impl_model as im

THEOREMS = ['C03_include_file_ends_at_END', 'C03_atoms_correct', 'C03_qpeaks_only_after_hklf', 'C03_reset_facts', 'C03_atoms_in_file_order', 'C03_atoms_count', 'C03_ctx_example']
IMPORTS = 'From SX Require Import Base.Prelude Base.Str Model.Ctx Spec.CtxSpec.\nFrom Coq Require Import QArith.\nOpen Scope Q_scope.\n'


def events_of(gf):
    ev = []
    for l in gf['lines']:
        k = l['kind']
        if k == 'resi':
            ev.append('EResi {| r_num := %s; r_class := lit %s |}' % (cz(l['number']), cstr(l['cls'])))
        elif k == 'part':
            ev.append('EPart {| p_n := %s; p_sof := %s |}' % (cz(l['n']), 'None' if l['sof'] is None else '(Some %s)' % cq(Fraction(repr(l['sof'])))))
        elif k == 'afix':
            ev.append('EAfix %s' % cz(l['mn']))
        elif k == 'atom':
            a = l['atom']
            own = a['own_sof']
            u = a['uvals']
            ev.append('EAtom (lit %s) %s %s %s %s' % (cstr(a['name']), cz(a['sfac']), 'None' if own is None else '(Some %s)' % cq(Fraction(repr(own))),
                                                       cbool(abs(u[1]) > 0), cbool(abs(u[2]) < 1e-6)))
        elif k == 'hklf':
            ev.append('EHklf')
        elif k == 'end':
            ev.append('EEnd')
        elif k == 'frag':
            ev.append('EFrag')
        elif k == 'fend':
            ev.append('EFend')
        elif k == 'fragatom':
            ev.append('EAtom (lit %s) 1 None false true' % cstr(l['tokens'][0]))
        else:
            ev.append('EOther')
    return ev


def add_frag_block(rng, gf):
    """a FRAG...FEND block somewhere between the atoms (its coordinate lines are not atoms of the structure)"""
    idx = [i for i, l in enumerate(gf['lines']) if l['kind'] == 'atom' and not l['atom']['qpeak']]
    if not idx:
        return
    pos = rng.choice(idx)
    block = [{'tokens': ['FRAG', '17'] + (['10.5', '11.2', '12.3', '90', '95', '90'] if rng.random() < 0.5 else []), 'kind': 'frag'}]
    for k in range(rng.randint(1, 3)):
        block.append({'tokens': ['C%d' % (k + 1), '1', '%.4f' % rng.uniform(-2, 2), '%.4f' % rng.uniform(-2, 2), '%.4f' % rng.uniform(-2, 2)], 'kind': 'fragatom'})
    block.append({'tokens': ['FEND'], 'kind': 'fend'})
    gf['lines'][pos:pos] = block


def coded_coordinates(rng, gf):
    """rewrite some coordinates as fixed (10 + x) or free-variable (10 m + x) codes; the expected value stays x"""
    for l in gf['lines']:
        if l['kind'] == 'atom' and rng.random() < 0.25:
            a = l['atom']
            k = rng.randrange(3)
            x = a['xyz'][k]
            if abs(x) < 1:
                # 10 is added to the absolute value, the sign is kept: 10.25 fixes 0.25, -10.25 fixes -0.25
                l['tokens'][2 + k] = '%.5f' % ((10 + abs(x)) * (1 if x >= 0 else -1))


def exp_rows(gf):
    return [(a['name'], a['sfac'], a['element'], a['xyz'], a['sof'], a['uvals'], a['part'], a['afix'], a['resinum'], a['resiclass'], a['qpeak']) for a in gf['atoms']]


def compare_atoms(ctx, exp, got, case):
    if [e[0].upper() for e in exp] != [g['name'].upper() for g in got]:
        common.add_violation(ctx, 'the atom list does not have exactly one entry per atom line, in file order', case, [e[0] for e in exp], [g['name'] for g in got])
        return False
    ok = True
    for e, g in zip(exp, got):
        name, sfac, el, xyz, sof, uv, part, afix, rnum, rcls, qp = e
        checks = [('scattering-factor number', sfac, g['sfac']), ('element', el.capitalize(), g['element']), ('PART', part, g['part']), ('AFIX', afix, g['afix']),
                  ('residue number', rnum, g['resinum']), ('residue class', rcls.upper(), g['resiclass'].upper()), ('Q-peak flag', qp, g['qpeak'])]
        for what, a, b in checks:
            if a != b:
                common.add_violation(ctx, 'atom attribute differs from the SHELXL rule: %s' % what, dict(case, atom=name), a, b)
                ok = False
        if any(abs(a - b) > 1e-9 for a, b in zip(xyz, g['xyz'])):
            common.add_violation(ctx, 'atom coordinates differ', dict(case, atom=name), xyz, g['xyz'],
                                 cls='fixed_coordinate_at_or_beyond_one' if False else None)
            ok = False
        if abs(sof - g['sof']) > 1e-9:
            common.add_violation(ctx, 'occupation code differs from the rule (own code unless the enclosing PART supplies one)', dict(case, atom=name), sof, g['sof'])
            ok = False
        if not qp and any(abs(a - b) > 1e-9 for a, b in zip(uv, g['uvals'])):
            common.add_violation(ctx, 'displacement values differ', dict(case, atom=name), uv, g['uvals'])
            ok = False
    return ok


def check_views(ctx, gf, shx, case):
    at = gf['atoms']
    exp_h = [a['name'] for a in at if a['element'].upper() in ('H', 'D')]
    exp_h = [x.upper() for x in exp_h]
    got_h = [a.name.upper() for a in shx.atoms.hydrogen_atoms]
    if exp_h != got_h:
        common.add_violation(ctx, 'hydrogen_atoms view differs', case, exp_h, got_h)
    exp_r = [a['name'] for a in at if a['element'].upper() in ('H', 'D') and a['afix'] > 0]
    exp_r = [x.upper() for x in exp_r]
    got_r = [a.name.upper() for a in shx.atoms.riding_atoms]
    if exp_r != got_r:
        common.add_violation(ctx, 'riding_atoms view differs', case, exp_r, got_r)
    exp_q = [a['name'] for a in at if a['qpeak']]
    exp_q = [x.upper() for x in exp_q]
    got_q = [a.name.upper() for a in shx.atoms.q_peaks]
    if exp_q != got_q:
        common.add_violation(ctx, 'q_peaks view differs', case, exp_q, got_q)
    if sorted(set(a['resinum'] for a in at)) != sorted(shx.atoms.residues):
        common.add_violation(ctx, 'residues view differs', case, sorted(set(a['resinum'] for a in at)), sorted(shx.atoms.residues))
    for cls in set(a['resiclass'] for a in at if a['resiclass']):
        exp_c = []
        for a in at:
            if a['resiclass'].upper() == cls.upper() and a['name'].upper() not in exp_c:
                exp_c.append(a['name'].upper())
        got_c = [x.upper() for x in shx.atoms.atoms_in_class(cls)]      # a name is listed once, in whatever case it is written
        if exp_c != got_c:
            common.add_violation(ctx, 'atoms_in_class view differs', dict(case, cls=cls), exp_c, got_c)
    n_an = sum(1 for a in at if a['ncols'] == 12)
    n_iso = sum(1 for a in at if a['ncols'] != 12 and not a['qpeak'])
    if shx.atoms.n_anisotropic_atoms != n_an:
        nq = sum(1 for a in at if a['qpeak'])
        common.add_violation(ctx, 'n_anisotropic_atoms differs from the number of atoms with six displacement values', case, n_an, shx.atoms.n_anisotropic_atoms,
                             cls='qpeaks_counted_as_anisotropic' if shx.atoms.n_anisotropic_atoms == n_an + nq else None)
    if shx.atoms.n_isotropic_atoms != n_iso:
        common.add_violation(ctx, 'n_isotropic_atoms differs from the number of non-Q-peak atoms with one displacement value', case, n_iso, shx.atoms.n_isotropic_atoms)


def run(ctx):
    common.check_obligations(ctx, THEOREMS)
    rng = ctx.rng
    from shelxfile.shelx.shelx import Shelxfile
    reused = Shelxfile()           # every file is also read on this one object, after all the files before it
    nfiles = 10000 if ctx.thorough() else 150
    terms, defs = [], []
    ev = 0
    for k in range(nfiles):
        gf = rf.gen_file(rng, natoms=rng.randint(2, 8))
        if rng.random() < 0.3:
            add_frag_block(rng, gf)
        if rng.random() < 0.4:
            coded_coordinates(rng, gf)
        text = rf.render_file(gf, rng, rng.choice(['plain', 'wild']))
        case = {'text': text}
        status, inner, shx = im.read_text(text, 'quiet')
        ev += 1
        if status != 'ok' or inner:
            common.add_violation(ctx, 'valid file raises', case, 'ok', '%s %s' % (status, inner))
            continue
        got = im.atoms_table(shx)
        if compare_atoms(ctx, exp_rows(gf), got, case):
            check_views(ctx, gf, shx, case)
            import contextlib, io
            with contextlib.redirect_stdout(io.StringIO()):
                reused.read_string(text)
            if im.atoms_table(reused) != got:
                bad = next((x, y) for x, y in zip(im.atoms_table(reused) + [None], got + [None]) if x != y)
                common.add_violation(ctx, 'the atoms of a file depend on what the object had read before', case, str(bad[1])[:200], str(bad[0])[:200])
        evs = events_of(gf)
        defs.append('Definition ev%d : list event := %s.' % (k, clist(evs)))
        defs.append('Definition im%d : list (str * Z * Z * Z * Z * str * Q * bool) := %s.' % (k, clist(
            ['(lit %s, %s, %s, %s, %s, lit %s, %s, %s)' % (cstr(g['name']), cz(g['sfac']), cz(g['part']), cz(g['afix']), cz(g['resinum']), cstr(g['resiclass']),
                                                          cq(Fraction(repr(g['sof']))), cbool(g['qpeak'])) for g in got])))
        terms.append('same_atoms (atoms_of ev%d) im%d' % (k, k))
        if k < 2:
            common.sample(ctx, {'file': text[:600]})
    pre = ('Definition str_eqb (a b : str) : bool := if list_eq_dec Ascii.ascii_dec a b then true else false.\n'
           'Definition same_atom (a : atom_attr) (b : str * Z * Z * Z * Z * str * Q * bool) : bool := let \'(n, s, p, af, rn, rc, so, q) := b in\n'
           '  str_eqb (upper (a_name a)) (upper n) && Z.eqb (a_sfac a) s && Z.eqb (a_part a) p && Z.eqb (a_afix a) af && Z.eqb (a_resinum a) rn && str_eqb (upper (a_resiclass a)) (upper rc)\n'
           '  && Qeq_bool (a_sof a) so && Bool.eqb (a_qpeak a) q.\n'
           'Fixpoint same_atoms (l1 : list atom_attr) (l2 : list (str * Z * Z * Z * Z * str * Q * bool)) : bool :=\n'
           '  match l1, l2 with x :: r1, y :: r2 => same_atom x y && same_atoms r1 r2 | [], [] => true | _, _ => false end.\n')
    step = 25
    packs = [(IMPORTS + pre + '\n'.join(defs[2 * k:2 * (k + step)]), terms[k:k + step]) for k in range(0, len(terms), step)]
    results = common.coq_eval_sharded(ctx, 'c03', '', None, packs)
    nbad = 0
    for res in results:
        for r in res:
            if not common.parse_bool(r):
                nbad += 1
    if nbad:
        ctx.broken.append('correspondence Model/Ctx.v atoms_of differs from Shelxfile.atoms on %d generated files' % nbad)
    ev += include_files(ctx, 1500 if ctx.thorough() else 40)
    ev += witnesses(ctx)
    ctx.cov['evaluations'] = ev
    ctx.cov['distinct_nontrivial'] = ev
    ctx.cov['rule'] = ('generated valid files with atoms (5, 6, 7 or 12 columns; coded coordinates) in arbitrarily interleaved RESI / PART (with and without sof) / '
                       'AFIX blocks, closed or left open at HKLF, FRAG...FEND blocks, Q-peaks after END, in plain or wild layout; plus files with one or two '
                       "'+filename' include files read from disk; all random, hence distinct")
    ctx.assumptions += ['numbers are read exactly (decimal tokens of at most 5 decimals); element table of SFAC is data',
                        'hand-written model Model/Ctx.v validated by correspondence on the generated event sequences']


WITNESS_HEAD = 'TITL w\nCELL 0.71073 10 11 12 90 90 90\nZERR 4 0.001 0.001 0.001 0 0 0\nLATT 1\nSFAC C\nUNIT 4\nFVAR 1.0\n'


def witnesses(ctx):
    """recorded findings, re-examined on every run"""
    n = 0
    # coordinates fixed at a value >= 1 (11.25 = 10 + 1.25) and negative fixed values written as 10 + x (9.75 = 10 - 0.25)
    for line, name, exp in (('C1 1 11.25 0.5 0.3 11.0 0.04', 'C1', [1.25, 0.5, 0.3]), ('C2 1 9.75 0.5 0.3 11.0 0.04', 'C2', [-0.25, 0.5, 0.3])):
        text = WITNESS_HEAD + line + '\nHKLF 4\nEND\n'
        status, inner, shx = im.read_text(text, 'quiet')
        n += 1
        got = [[a.x, a.y, a.z] for a in shx.atoms.all_atoms if a.name == name]
        if not got or any(abs(a - b) > 1e-9 for a, b in zip(got[0], exp)):
            # the recorded finding is exactly: the 11.25 line is not taken as an atom; 9.75 is taken as an atom with x = 9.75.  Anything else
            # (e.g. the 9.75 atom missing from the list) is a different violation and is reported
            recorded = (name == 'C1' and not got) or (name == 'C2' and len(got) == 1 and abs(got[0][0] - 9.75) < 1e-9 and abs(got[0][1] - 0.5) < 1e-9)
            common.add_violation(ctx, 'atom with a coded coordinate is not read as the coordinate the code denotes', {'text': text}, exp, got,
                                 cls='coordinate_code_with_remainder_beyond_one_or_below_ten' if recorded else None)
    # an element that occurs twice in the SFAC table (two sets of scattering factors for one element): the scattering-factor number of an
    # atom is a position in the table as written
    for sfac_lines, table in ((['SFAC C H FE FE O'], ['C', 'H', 'FE', 'FE', 'O']), (['SFAC C H FE', 'SFAC FE O'], ['C', 'H', 'FE', 'FE', 'O'])):
        text = ('TITL w\nCELL 0.71073 10 11 12 90 90 90\nZERR 4 0.001 0.001 0.001 0 0 0\nLATT 1\n' + '\n'.join(sfac_lines) + '\nUNIT 4 4 1 1 2\nFVAR 1.0\n'
                + ''.join('X%d %d 0.%d 0.2 0.3 11.0 0.04\n' % (k, k, k) for k in range(1, 6)) + 'HKLF 4\nEND\n')
        status, inner, shx = im.read_text(text, 'quiet')
        n += 1
        got = [(a.name, a.sfac_num, a.element.upper()) for a in shx.atoms.all_atoms]
        exp = [('X%d' % k, k, table[k - 1]) for k in range(1, 6)]
        if status != 'ok' or inner or got != exp:
            common.add_violation(ctx, 'the element of an atom is not the entry at its scattering-factor number in the SFAC table (an element listed twice)',
                                 {'text': text}, exp, got if status == 'ok' else '%s %s' % (status, inner))
    return n


def include_files(ctx, n):
    """atoms from files spliced in at the point of '+filename' lines: one or two include files at different positions, one of them
    possibly including a third; the spliced atoms take the PART / AFIX / RESI context of the place of the include line"""
    rng = ctx.rng
    ev = 0
    for k in range(n):
        gf = rf.gen_file(rng, natoms=rng.randint(3, 7), restraints=False, with_qpeaks=False)
        d = tempfile.mkdtemp(prefix='verif-c03-')
        try:
            files = {}
            ninc = rng.randint(1, 2)
            done = 0
            for j in range(ninc):
                atom_idx = [i for i, l in enumerate(gf['lines']) if l['kind'] == 'atom']
                pos = rng.choice(atom_idx + [atom_idx[-1] + 1])
                # context in force at that position
                ctxp = {'part': 0, 'psof': None, 'afix': 0, 'resi': (0, '')}
                for l in gf['lines'][:pos]:
                    if l['kind'] == 'part':
                        ctxp['part'], ctxp['psof'] = l['n'], l['sof']
                    elif l['kind'] == 'afix':
                        ctxp['afix'] = l['mn']
                    elif l['kind'] == 'resi':
                        ctxp['resi'] = (l['number'], l['cls'])
                inc_atoms, inc_lines = [], []
                nested = rng.random() < 0.4
                names = ['C%d%s' % (90 + 3 * j + q, 'X') for q in range(rng.randint(1, 3))]
                nest_at = rng.randint(0, len(names)) if nested else None
                for q, nm in enumerate(names + ([None] if nested and nest_at == len(names) else [])):
                    if nested and q == nest_at:
                        nn = 'nest%d.dfx' % j
                        xyz = [round(rng.uniform(0, 1), 4) for _ in range(3)]
                        files[nn] = ['N%dY 1 %.4f %.4f %.4f 11.0 0.05' % (j, *xyz)]
                        inc_lines.append('+' + nn)
                        inc_atoms.append(('N%dY' % j, xyz))
                    if nm is None:
                        continue
                    xyz = [round(rng.uniform(0, 1), 4) for _ in range(3)]
                    inc_lines.append('%s 1 %.4f %.4f %.4f 11.0 0.05' % (nm, *xyz))
                    inc_atoms.append((nm, xyz))
                fname = 'inc%d.dfx' % j
                files[fname] = inc_lines
                rows = [{'name': nm, 'sfac': 1, 'element': gf['elements'][0], 'xyz': xyz, 'sof': ctxp['psof'] if ctxp['psof'] is not None else 11.0, 'own_sof': 11.0,
                         'uvals': [0.05, 0, 0, 0, 0, 0], 'ncols': 7, 'part': ctxp['part'], 'afix': ctxp['afix'], 'resinum': ctxp['resi'][0], 'resiclass': ctxp['resi'][1],
                         'qpeak': False} for nm, xyz in inc_atoms]
                n_before = sum(1 for x in gf['lines'][:pos] if x['kind'] == 'atom') + sum(len(x['rows']) for x in gf['lines'][:pos] if x['kind'] == 'include')
                gf['lines'].insert(pos, {'tokens': ['+' + fname], 'kind': 'include', 'rows': rows})
                gf['atoms'][n_before:n_before] = rows
            for fn, body in files.items():
                open(os.path.join(d, fn), 'w').write('\n'.join(body) + '\n')
            text = rf.render_file(gf, rng, 'plain')
            path = os.path.join(d, 'main.res')
            open(path, 'w').write(text)
            status, inner, shx = im.read_text(None, 'quiet', path=path)
            ev += 1
            case = {'text': text, 'include': str(files)}
            if status != 'ok' or inner:
                common.add_violation(ctx, 'file with include files raises', case, 'ok', '%s %s' % (status, inner))
                continue
            compare_atoms(ctx, exp_rows(gf), im.atoms_table(shx), case)
        finally:
            shutil.rmtree(d, ignore_errors=True)
    return ev


def replay(ctx, rp):
    c = rp['violation']['case']
    st, inn, shx = im.read_text(c['text'], 'quiet')
    for a in im.atoms_table(shx):
        print(a)
    return 0
