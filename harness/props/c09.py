"""C09 — occupancies and sum formulae.  Theorems: coq/Props/C09.v.  Tie B: Model/Occ.v is run
(vm_compute) on the occupation codes / files the implementation was run on."""
import contextlib
import io
import re
from fractions import Fraction

import common
from common import cq, cz, clist, cbool

THEOREMS = ['C09_occupancy', 'C09_complement', 'C09_split_nonneg', 'C09_split_neg',
            'C09_sum_formula', 'C09_unit_formula', 'C09_pinned_refuted']

IMPORTS = 'From SX Require Import Base.Prelude Model.Occ Spec.OccSpec Proofs.OccProofs.\nOpen Scope Q_scope.\n'

HEADER = """TITL c09
CELL 0.71073 10.5 11.25 12.75 90 101.5 90
ZERR 4 0.001 0.001 0.001 0 0.01 0
LATT 1
SYMM -X, 0.5+Y, 0.5-Z
SFAC {sfac}
UNIT {unit}
"""
ELEMS = ['C', 'H', 'O', 'N', 'Cl']
TOL = Fraction(3, 10 ** 8)

P_VALUES = ['0', '0.25', '0.3333', '0.5', '0.75', '1', '1.0', '0.16667', '2.5', '4.99', '0.05']


def dec(s):
    return Fraction(s)


def code_text(m, p):
    """text of the occupation code 10m+p with the sign convention of the property (p carries the sign of m)."""
    v = 10 * abs(m) + Fraction(p)
    neg = m < 0
    s = ('%d' % (v.numerator // v.denominator))
    frac = p.split('.')[1] if '.' in p else ''
    ip = int(Fraction(p))
    s = '%d' % (10 * abs(m) + ip)
    if frac:
        s += '.' + frac
    elif '.' in p:
        s += '.0'
    return ('-' if neg else '') + s


def read(text):
    from shelxfile.shelx.shelx import Shelxfile
    shx = Shelxfile()
    with contextlib.redirect_stdout(io.StringIO()):
        shx.read_string(text)
    return shx


Z_VALUES = ['4', '2', '1', '8', '1.5', '4.5', '3', '6', '12', '2.5', '0.5', '0.25']


_LAYOUT = [0]


def build_file(rng, fvs, atoms, z=None):
    if z is None:
        z = rng.choice(Z_VALUES)
    """atoms: list of (elem_idx, sof_text, qpeak)."""
    n_el = len(ELEMS)
    unit = [str(rng.choice([4, 8, 12, 20, 36, 40, 6, 2])) for _ in range(n_el)]
    lines = HEADER.format(sfac=' '.join(ELEMS), unit=' '.join(unit)).replace('ZERR 4', 'ZERR %s' % z)
    fl = []
    # every second file with more than seven free variables holds them in ONE instruction continued with '=' (no random draw: the streams of
    # the other generators stay as they were); otherwise one FVAR instruction per seven values
    _LAYOUT[0] += 1
    if len(fvs) > 7 and _LAYOUT[0] % 2 == 0:
        rows = [' '.join(fvs[i:i + 7]) for i in range(0, len(fvs), 7)]
        fl.append('FVAR ' + ' =\n     '.join(rows))
    else:
        for i in range(0, len(fvs), 7):
            fl.append('FVAR ' + ' '.join(fvs[i:i + 7]))
    body = []
    qp = []
    k = 0
    for (el, sof, q) in atoms:
        k += 1
        x, y, zc = (rng.randint(1, 9999) / 10000 for _ in range(3))
        if q:
            qp.append('Q%d 1 %.4f %.4f %.4f 11.00000 0.05 %.2f' % (k, x, y, zc, rng.randint(10, 300) / 100))
        else:
            body.append('%s%d %d %.4f %.4f %.4f %s 0.04' % (ELEMS[el], k, el + 1, x, y, zc, sof))
    text = lines + '\n'.join(fl) + '\n' + '\n'.join(body) + '\nHKLF 4\nEND\n' + '\n'.join(qp) + '\n'
    return text, [Fraction(u) for u in unit], Fraction(z)


def gen_cases(ctx):
    rng = ctx.rng
    fv_lists = [['1.0'], ['0.5', '0.6', '0.3'], ['1.0', '0.61', '0.25', '0.8', '0.125', '0.4375', '0.9', '0.07', '0.33']]
    # a long one reaching free variable 99
    fv_lists.append(['%.4f' % (rng.randint(1, 9999) / 10000) for _ in range(99)])
    ms = list(range(-99, 100)) if ctx.thorough() else \
        sorted(set(list(range(-12, 13)) + [rng.randint(-99, 99) for _ in range(30)] + [-99, 99, 50, -50]))
    files = []
    for fvs in fv_lists:
        atoms = []
        meta = []
        for m in ms:
            for p in P_VALUES:
                if m == 0 and rng.random() < 0.5:
                    txt = '-' + code_text(0, p) if Fraction(p) != 0 else code_text(0, p)
                    pm = ('-' + p) if Fraction(p) != 0 else p
                else:
                    txt = code_text(m, p)
                    pm = ('-' + p) if (m < 0 and Fraction(p) != 0) else p
                atoms.append((rng.randrange(len(ELEMS)), txt, False))
                meta.append((m, Fraction(pm)))
        files.append((fvs, atoms, meta))
    # random sum-formula files with Q-peaks
    nf = 2000 if ctx.thorough() else 25
    for _ in range(nf):
        fvs = rng.choice(fv_lists[:3])
        atoms, meta = [], []
        for _ in range(rng.randint(1, 25)):
            m = rng.choice([1, 1, 1, 0, 2, 3, -2, -3, rng.randint(-len(fvs), len(fvs))])
            p = rng.choice(P_VALUES)
            q = rng.random() < 0.2
            if q:
                atoms.append((0, '11.0', True)); meta.append((1, Fraction(1)))
            else:
                atoms.append((rng.randrange(len(ELEMS)), code_text(m, p), False))
                meta.append((m, Fraction('-' + p) if (m < 0 and Fraction(p) != 0) else Fraction(p)))
        files.append((fvs, atoms, meta))
    return files


def rule(code, fvs):
    """the SHELXL rule on floats, for the stateful part (the theorems and the Coq evaluation cover the rule itself)"""
    m = int(abs(code) // 10) * (1 if code >= 0 else -1)
    p = abs(code) % 10 * (1 if code >= 0 else -1)
    if abs(m) <= 1:
        return p
    if abs(m) > len(fvs):
        return None
    return p * fvs[m - 1] if m > 0 else p * (fvs[-m - 1] - 1)


def stateful(ctx):
    """the occupancy follows the CURRENT code and the CURRENT free variables, also after it has been read before; atoms added
    behind the Q-peak list count in the exact formula"""
    rng = ctx.rng
    ev = 0
    for k in range(60 if ctx.thorough() else 12):
        fvs = ['1.0', '0.61', '0.25', '0.8']
        atoms = [(rng.randrange(len(ELEMS)), code_text(rng.choice([1, 2, 3, -2, -3, 4, -4]), rng.choice(['1', '0.5', '0.25'])), False) for _ in range(6)]
        atoms += [(0, '11.0', True)] * rng.randint(0, 2)
        text, unit, z = build_file(rng, fvs, atoms)
        shx = read(text)
        fv = [float(x) for x in fvs]
        real = [a for a in shx.atoms if not a.qpeak]
        case = {'text': text}
        first = [a.occupancy for a in real]           # read once, so that anything cached is filled
        before = dict((key.upper(), v) for key, v in shx.sum_formula_exact_as_dict().items())
        for a in real[:4]:
            new = float(code_text(rng.choice([2, 3, -2, -3, 4, 1]), rng.choice(['1', '0.5', '0.25'])))
            a.sof = new
            ev += 1
            exp = rule(new, fv)
            if exp is not None and abs(a.occupancy - exp) > 1e-9:
                common.add_violation(ctx, 'after the occupation code of an atom was changed its occupancy does not follow the new code',
                                     dict(case, atom=a.name, new_code=new), exp, a.occupancy)
                break
        else:
            m = rng.choice([2, 3, 4])
            newv = round(rng.uniform(0.05, 0.95), 3)
            shx.fvars.fvars[m - 1].fvar_value = newv
            fv[m - 1] = newv
            for a in real:
                ev += 1
                exp = rule(a.sof, fv)
                if exp is not None and abs(a.occupancy - exp) > 1e-9:
                    common.add_violation(ctx, 'after a free variable was changed the occupancy does not follow its new value',
                                         dict(case, atom=a.name, free_variable=m, value=newv, code=a.sof), exp, a.occupancy)
                    break
            # free variables added through the API (FVARs.set_free_variables) count like the ones of the file
            nfv0 = len(shx.fvars)
            extra = rng.randint(1, 3)
            dummy = round(rng.uniform(0.2, 0.8), 3)
            shx.fvars.set_free_variables(nfv0 + extra, dummy)
            fv_ext = list(fv) + [dummy] * (nfv0 + extra - len(fv))
            # ... and each of them gets its own value afterwards
            for mm in range(nfv0 + 1, nfv0 + extra + 1):
                v_ = round(rng.uniform(0.05, 0.95), 3)
                shx.fvars.fvars[mm - 1].fvar_value = v_
                fv_ext[mm - 1] = v_
            for mm in range(nfv0 + 1, nfv0 + extra + 1):
                for sign in (1, -1):
                    code = sign * (10 * mm + 0.5)
                    shx.add_atom(name='X%d%s' % (mm, 'p' if sign > 0 else 'n'), coordinates=[0.4, 0.5, 0.6], element=ELEMS[0], sof=code, uvals=[0.04, 0.0, 0.0, 0.0, 0.0, 0.0])
                    a_new = [a_ for a_ in shx.atoms.all_atoms if a_.name == 'X%d%s' % (mm, 'p' if sign > 0 else 'n')][-1]
                    ev += 1
                    exp = rule(code, fv_ext)
                    if exp is not None and abs(a_new.occupancy - exp) > 1e-9:
                        common.add_violation(ctx, 'the occupancy of an atom tied to a free variable that was added with set_free_variables() does not follow the rule',
                                             dict(case, free_variable=mm, value=dummy, code=code), exp, a_new.occupancy)
                        break
            # the exact formula as text states the same sums (two decimals)
            import re as _re
            d_ = dict((key.upper(), v) for key, v in shx.sum_formula_exact_as_dict().items())
            txt = shx.sum_formula_exact
            parsed = dict((e.upper(), float(v.replace(',', '') or 1)) for e, v in _re.findall(r'([A-Za-z]+)([0-9.,eE+-]*)', txt))
            ev += 1
            if set(parsed) != set(d_) or any(abs(parsed[e] - round(d_[e], 2)) > 5.1e-3 for e in d_):
                common.add_violation(ctx, 'the exact sum formula as text differs from the sums of the occupancies', dict(case, text_formula=txt), {e: round(v, 2) for e, v in d_.items()}, parsed)
            # an atom added through the API sits behind the Q-peaks in the atom list
            el = rng.randrange(len(ELEMS))
            now = dict((key.upper(), v) for key, v in shx.sum_formula_exact_as_dict().items())
            shx.add_atom(name='%s99' % ELEMS[el], coordinates=[0.11, 0.22, 0.33], element=ELEMS[el], sof=10.5, uvals=[0.04, 0.0, 0.0, 0.0, 0.0, 0.0])
            after = dict((key.upper(), v) for key, v in shx.sum_formula_exact_as_dict().items())
            ev += 1
            if abs(after[ELEMS[el].upper()] - now[ELEMS[el].upper()] - 0.5) > 1e-9:
                common.add_violation(ctx, 'an atom that is not a Q-peak (added behind the Q-peak list) is left out of the exact sum formula',
                                     dict(case, element=ELEMS[el]), now[ELEMS[el].upper()] + 0.5, after[ELEMS[el].upper()])
    # occupation codes on PART instructions (positive and negative part numbers) and atom lines that end with the occupation code
    for k in range(40 if ctx.thorough() else 8):
        fv2, fv3 = round(rng.uniform(0.1, 0.9), 3), round(rng.uniform(0.1, 0.9), 3)
        fvx = [1.0, fv2, fv3]
        lines, expect = [], []
        n_ = 0

        def at(el, fields, code):
            nonlocal n_
            n_ += 1
            nm = '%s%d' % (ELEMS[el], n_)
            xyz = '%.4f %.4f %.4f' % (rng.random(), rng.random(), rng.random())
            lines.append(' '.join([nm, str(el + 1), xyz] + fields))
            expect.append((nm, el, code))
        for blk in range(rng.randint(2, 5)):
            pn = rng.choice([1, 2, -1, -2, 3])
            pcode = rng.choice([None, 21.0, -21.0, 31.0, -31.0, 10.5, 20.5, -30.25, 11.0])
            lines.append('PART %d' % pn if pcode is None else 'PART %d %s' % (pn, pcode))
            for _ in range(rng.randint(1, 3)):
                own = rng.choice([11.0, 11.0, 21.0, -21.0, 10.25, 30.5])
                form = rng.choice(['full', 'full', 'six', 'five'])
                if form == 'five':
                    at(rng.randrange(4), [], pcode if pcode is not None else 11.0)
                else:
                    eff = own if pcode is None else pcode        # an occupation code on the PART instruction replaces the one of the atom line
                    at(rng.randrange(4), ['%.5f' % own] + (['0.04'] if form == 'full' else []), eff)
        lines.append('PART 0')
        for _ in range(rng.randint(1, 3)):
            own = rng.choice([21.0, -21.0, 10.25, 30.5, -30.5, 11.0])
            at(rng.randrange(4), ['%.5f' % own], own)                             # name sfac x y z sof   (U omitted)
        text = HEADER.format(sfac=' '.join(ELEMS), unit='8 8 8 8 8') + 'FVAR ' + ' '.join(str(v) for v in fvx) + '\n' + '\n'.join(lines) + '\nHKLF 4\nEND\n'
        shx = read(text)
        got = dict((a.name.upper(), a.occupancy) for a in shx.atoms)
        sums = {}
        bad = False
        for nm, el, code in expect:
            ev += 1
            exp = rule(code, fvx)
            sums[ELEMS[el].upper()] = sums.get(ELEMS[el].upper(), 0.0) + (exp or 0.0)
            if nm.upper() not in got:
                common.add_violation(ctx, 'an atom line of the file is not in the atom list', {'text': text, 'atom': nm}, nm, sorted(got)[:8])
                bad = True
                break
            if exp is not None and abs(got[nm.upper()] - exp) > 1e-9:
                common.add_violation(ctx, 'the occupancy of an atom does not follow the occupation code in force (the one on the enclosing PART instruction, else its own)',
                                     {'text': text, 'atom': nm, 'code_in_force': code}, exp, got[nm.upper()])
                bad = True
                break
        if not bad:
            d_ = dict((key.upper(), v) for key, v in shx.sum_formula_exact_as_dict().items())
            if any(abs(d_.get(e, 0.0) - v) > 1e-6 for e, v in sums.items()):
                common.add_violation(ctx, 'the exact sum formula is not the sum of the occupancies', {'text': text}, sums, d_)
    # the text of the exact formula for sums that are whole numbers ending in zero, large sums and small fractions
    import re as _re
    for k in range(12 if ctx.thorough() else 4):
        fvs = ['1.0', '0.6', '0.5']
        counts = [rng.choice([10, 20, 30, 100, 110, 1200 if ctx.thorough() else 200]), rng.choice([10, 40, 7, 101]), rng.choice([1, 2, 10])]
        atoms = []
        for e, n in enumerate(counts[:len(ELEMS)]):
            if e == 1 and n % 2 == 0:
                atoms += [(e, '21.0', False), (e, '-21.0', False)] * n          # pairs that sum to one
            elif e == 2:
                atoms += [(e, '30.5', False)] * (4 * n)                         # 4 * 0.5 * 0.5 = 1
            else:
                atoms += [(e, '11.0', False)] * n
        text, unit, z = build_file(rng, fvs, atoms)
        shx = read(text)
        d_ = dict((key.upper(), v) for key, v in shx.sum_formula_exact_as_dict().items())
        txt = shx.sum_formula_exact
        parsed = dict((e.upper(), float(v.replace(',', '') or 1)) for e, v in _re.findall(r'([A-Za-z]+)([0-9.,eE+-]*)', txt))
        exp = dict((ELEMS[e].upper(), float(n)) for e, n in enumerate(counts[:len(ELEMS)]))
        ev += 1
        if any(abs(d_.get(e, 0) - exp[e]) > 1e-6 for e in exp):
            common.add_violation(ctx, 'the exact sum formula is not the sum of the occupancies', {'text': text}, exp, d_)
        elif set(parsed) != set(d_) or any(abs(parsed[e] - round(d_[e], 2)) > 5.1e-3 for e in d_):
            common.add_violation(ctx, 'the exact sum formula as text differs from the sums of the occupancies', {'text': text, 'text_formula': txt},
                                 {e: round(v, 2) for e, v in d_.items()}, parsed)
    return ev


def run(ctx):
    common.check_obligations(ctx, THEOREMS)
    n_stateful = stateful(ctx)
    files = gen_cases(ctx)
    shards = []
    index = []   # per shard: list of (file_no, kind, atom_no)
    nontriv = set()
    for fno, (fvs, atoms, meta) in enumerate(files):
        text, unit, zgen = build_file(ctx.rng, fvs, atoms)
        shx = read(text)
        impl_atoms = list(shx.atoms)
        if len(impl_atoms) != len(atoms):
            common.add_violation(ctx, 'atom count differs from the file written by the generator', {'text': text},
                                 expected=len(atoms), observed=len(impl_atoms))
            continue
        defs = 'Definition fvs : list Q := %s.\n' % clist([cq(Fraction(f)) for f in fvs])
        occ_cases, idx = [], []
        # q-peaks are appended after HKLF by build_file: order atoms accordingly
        order = [i for i, a in enumerate(atoms) if not a[2]] + [i for i, a in enumerate(atoms) if a[2]]
        for pos, i in enumerate(order):
            a = impl_atoms[pos]
            el, sof, q = atoms[i]
            m, p = meta[i]
            assert bool(a.qpeak) == q, (a.name, a.qpeak, q)
            if q:
                continue
            in_spec = (m != -1) and abs(m) <= len(fvs) and abs(p) < 5
            occ_cases.append('(%s, %s, %s, (%s, %s, %s))' % (cq(Fraction(sof)), cz(a.fvar), cq(a.occupancy), cz(m), cq(p), cbool(in_spec)))
            idx.append((fno, i))
            nontriv.add((tuple(fvs) if len(fvs) < 10 else 'long', sof))
        defs += 'Definition cases : list (Q * Z * Q * (Z * Q * bool)) := %s.\n' % clist(occ_cases)
        tol = cq(TOL)
        defs += ('Definition chk_model (c : Q * Z * Q * (Z * Q * bool)) : bool := let \'(sof, f, o, _) := c in '
                 'Z.eqb (fst (split_fvar sof)) f && Qeqb_tol %s (occupancy sof fvs) o.\n' % tol)
        defs += ('Definition chk_spec (c : Q * Z * Q * (Z * Q * bool)) : bool := let \'(sof, f, o, (m, p, ok)) := c in '
                 'negb ok || (Z.eqb f m && Qeqb_tol %s (occ_spec m p (fv_of fvs)) o).\n' % tol)
        # sum formula
        sd = shx.sum_formula_exact_as_dict()
        sdu = {k.upper(): v for k, v in sd.items()}
        impl_sum = [sdu[e.upper()] for e in ELEMS]
        mod_atoms = clist(['{| ao_elem := %d; ao_sof := %s; ao_qpeak := %s |}' % (atoms[i][0], cq(Fraction(atoms[i][1])), cbool(atoms[i][2])) for i in order])
        spec_ok = all((m != -1 and abs(m) <= len(fvs)) for (m, p), a in zip(meta, atoms) if not a[2])
        spec_atoms = clist(['{| as_elem := %d; as_m := %s; as_p := %s; as_qpeak := %s |}' % (atoms[i][0], cz(meta[i][0]), cq(meta[i][1]), cbool(atoms[i][2])) for i in order])
        stol = cq(TOL * (len(atoms) + 1))
        defs += 'Definition impl_sum : list Q := %s.\n' % clist([cq(v) for v in impl_sum])
        defs += 'Definition sums_model := forallb (fun xy => Qeqb_tol %s (fst xy) (snd xy)) (combine (sum_formula_exact fvs %d %s) impl_sum).\n' % (stol, len(ELEMS), mod_atoms)
        defs += 'Definition sums_spec := %s || forallb (fun xy => Qeqb_tol %s (fst xy) (snd xy)) (combine (map (sum_spec (fv_of fvs) %s) (seq 0 %d)) impl_sum).\n' % (
            cbool(not spec_ok), stol, spec_atoms, len(ELEMS))
        # UNIT formula: "C2.5 H9 ..." -> numbers
        sf = shx.sum_formula
        nums = [Fraction(x.replace(',', '')) for x in re.findall(r'[A-Za-z]+([0-9.,e+-]+)', sf)]
        z = zgen      # the Z written in the file, not the implementation's attribute
        defs += 'Definition unit_ok := forallb (fun xy => Qeqb_tol (Qabs (fst xy) * (1 # 10000)) (fst xy) (snd xy)) (combine (unit_formula %s %s) %s).\n' % (
            clist([cq(u) for u in unit]), cq(z), clist([cq(n) for n in nums]))
        unit_len_ok = len(nums) == len(unit)
        terms = ['bad_indices chk_model cases', 'bad_indices chk_spec cases', 'sums_model', 'sums_spec', 'unit_ok']
        shards.append((defs, terms))
        index.append((fno, idx, text, impl_sum, sf, unit_len_ok))
    results = common.coq_eval_sharded(ctx, 'c09cases', IMPORTS, None, shards)
    nocc = 0
    for (fno, idx, text, impl_sum, sf, unit_len_ok), res in zip(index, results):
        fvs, atoms, meta = files[fno]
        nocc += len(idx)
        bad_model = common.parse_nat_list(res[0])
        bad_spec = common.parse_nat_list(res[1])
        for b in bad_spec:
            f, i = idx[b]
            common.add_violation(ctx, 'occupancy differs from the SHELXL free-variable rule',
                                 {'fvars': fvs, 'sof': atoms[i][1], 'm': meta[i][0], 'p': str(meta[i][1]), 'kind': 'occupancy'},
                                 expected='occ_spec', observed='see replay')
        for b in bad_model:
            if b in bad_spec:
                continue
            f, i = idx[b]
            ctx.broken.append('correspondence Model/Occ.v vs Atom.occupancy/fvar differs on sof=%s fvars=%s' % (atoms[i][1], fvs[:5]))
        if not common.parse_bool(res[3]):
            common.add_violation(ctx, 'exact sum formula differs from the sum of rule occupancies over non-Q-peak atoms',
                                 {'text': text, 'kind': 'sum'}, observed=[str(x) for x in impl_sum])
        elif not common.parse_bool(res[2]):
            ctx.broken.append('correspondence Model/Occ.v sum_formula_exact differs from the implementation (file %d)' % fno)
        if not (common.parse_bool(res[4]) and unit_len_ok):
            common.add_violation(ctx, 'UNIT-based sum formula is not UNIT/Z in SFAC order', {'text': text, 'kind': 'unit'}, observed=sf)
    ctx.cov['evaluations'] = nocc + 2 * len(index) + n_stateful
    ctx.cov['distinct_nontrivial'] = len(nontriv)
    ctx.cov['rule'] = ('occupation codes 10m+p (m grid x p values x 4 free-variable lists, on atom lines of generated files) compared '
                       'model-vs-implementation and spec-vs-implementation inside Coq (vm_compute, exact Q, tolerance 3e-8); '
                       'distinct = distinct (fvar list, code text); plus random files for the two sum formulae')
    ctx.cov['exhaustive'] = False
    common.sample(ctx, {'fvars': files[1][0], 'codes': [a[1] for a in files[1][1][:12]]})
    common.sample(ctx, {'file': index[-1][2][:600]})
    ctx.notes['coverage_extra'] = {'correspondence': {'occupancy_cases': nocc, 'files': len(index), 'tolerance': '3e-8'}}
    ctx.assumptions += ['float rounding and round(value, 8) are not modelled: comparison tolerance 3e-8',
                        'occupation codes are decimal tokens with at most 5 fractional digits',
                        'Python generator + comparison harness (harness/props/c09.py)']


def replay(ctx, rp):
    v = rp['violation']
    case = v['case']
    if case.get('kind') == 'occupancy':
        text, _, _ = build_file(ctx.rng, case['fvars'], [(0, case['sof'], False)])
        shx = read(text)
        a = shx.atoms.all_atoms[0]
        fvs = [Fraction(f) for f in case['fvars']]
        m, p = case['m'], Fraction(case['p'])
        exp = p if m in (0, 1) else (p * fvs[m - 1] if m > 1 else p * (fvs[-m - 1] - 1))
        ok = abs(Fraction(a.occupancy) - exp) <= TOL
        print('replay: sof=%s fvars=%s -> occupancy %r, rule gives %s: %s' % (case['sof'], case['fvars'][:6], a.occupancy, float(exp), 'holds' if ok else 'FAILS'))
        return 0 if ok else 1
    print('replay: re-run ./check C09 (file-level case stored in the replay file)')
    return 0
