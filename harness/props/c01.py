"""C01 — reading a file and writing it back loses nothing.
Theorems: coq/Props/C01.v — what the writer model emits for the stored tokens of an instruction, the reader model reads back
as the same tokens (Proofs/EchoProofs.v over Model/Wrap.v and Model/Lex.v, for every list of instructions); the fixed
precision numerals of atoms denote the stored values to 5e-7 / 5e-6 (Proofs/FmtProofs.v); FVAR / SFAC lines keep every value
in order (C06 lemmas); the short form of WGHT denotes the same six values.
Tie B: Model/Lex.v is run inside Coq on the physical lines the implementation wrote and compared with the tokens of the
implementation's items; Model/Fmt.v is run on the exact doubles of every written atom and compared with the written numerals.
Failing-input search: crystallographic content of the written file against the content of the input (independent reader)."""
import re
from fractions import Fraction

import common
from common import clist, cstr, cq, cz
from gen import resfile as rf
from gen import spacegroups as sg
import impl_model as im
from props import c06

THEOREMS = ['C01_passthrough_roundtrip', 'C01_echo_lex', 'C01_lex_wrap', 'C01_join_tokens', 'C01_coordinate_precision', 'C01_sof_u_precision',
            'C01_denote_scaled_close', 'C01_wght_written_denotes', 'C01_fvar_lines_shape', 'C01_sfac_lines_shape', 'C01_u_lossless', 'C01_u_flat_refuted',
            'C01_old_threshold_refuted', 'C01_u_written_examples', 'C01_roundtrip_example', 'C01_scaled_examples']
HEAD = ['TITL test', 'CELL 0.71073 10.5 11.2 12.3 90 95.5 90', 'ZERR 4 0.001 0.002 0.003 0.01 0.02 0.03', 'LATT 1', 'SYMM -X, 1/2+Y, 1/2-Z',
        'SFAC C H O N', 'UNIT 16 20 4 2', 'FVAR 1.0 0.6 0.3']
ATOMS = ['C1 1 0.1 0.2 0.3 11.0 0.04', 'O1 3 0.2 0.3 0.4 11.0 0.05', 'N1 4 0.3 0.3 0.4 11.0 0.05', 'C2 1 0.4 0.2 0.3 11.0 0.04']
TAIL = ['HKLF 4', 'END']
NOT_ATOM = set(rf.SYNTAX) | set(rf.HEADER_KEYWORDS) | set(rf.UNKNOWN_KEYWORDS) | {'HKLF', 'AFIX', 'PART', 'WGHT', 'MOLE', 'DISP', 'SAME', 'EQIV', 'RESI'}


def isnum(t):
    try:
        float(t)
        return True
    except ValueError:
        return False


def content(text):
    """independent reader: crystallographic content as a list of entries; comments and REM lines are not content"""
    out = []
    part_sof = None
    sfac_at, fvar_at = None, None
    after_end = False
    for l in rf.independent_lex(text):
        toks = l['tokens']
        if not toks:
            continue
        kw = toks[0].upper()
        base = kw.split('_')[0][:4]
        if l['free']:
            if base == 'TITL':
                out.append(('TITL', tuple(toks[1:])))
            continue
        if base == 'END':
            after_end = True
        if base not in NOT_ATOM and len(toks) >= 5 and all(isnum(t) for t in toks[1:5]) and not kw.startswith('+'):
            nums = [float(t) for t in toks[2:]]
            xyz = nums[:3]
            sof = nums[3] if len(nums) > 3 else 11.0
            if part_sof is not None:
                sof = part_sof
            u = nums[4:] if len(nums) > 4 else [0.05]
            qpeak = after_end or bool(re.match(r'^Q\d+$', kw) and len(u) == 2)
            out.append(('atom', kw, int(float(toks[1])), tuple(xyz), sof, tuple(u), qpeak))
            continue
        if base == 'PART':
            part_sof = float(toks[2]) if len(toks) > 2 else None
        if base == 'HKLF' or base == 'END':
            part_sof = None
        if base == 'SFAC' and all(t.isalpha() for t in toks[1:]):
            if sfac_at is not None and out[sfac_at][0] == 'SFAC':
                out[sfac_at] = ('SFAC', out[sfac_at][1] + tuple(t.upper() for t in toks[1:]))
            else:
                sfac_at = len(out)
                out.append(('SFAC', tuple(t.upper() for t in toks[1:])))
            continue
        if base == 'SFAC':
            sfac_at = None
            out.append(('SFACX', toks[1].upper(), tuple(float(t) for t in toks[2:])))
            continue
        if base == 'FVAR':
            if fvar_at is not None:
                out[fvar_at] = ('FVAR', out[fvar_at][1] + tuple(float(t) for t in toks[1:]))
            else:
                fvar_at = len(out)
                out.append(('FVAR', tuple(float(t) for t in toks[1:])))
            continue
        if base == 'SYMM':
            try:
                op = sg.parse_op(' '.join(toks[1:]))
                out.append(('SYMM', tuple(tuple(r) for r in op[0]), tuple(op[1])))
            except Exception:
                out.append(('SYMM?', tuple(t.upper() for t in toks[1:])))
            continue
        nums, words = [], []
        k = 1
        while k < len(toks) and isnum(toks[k]):
            nums.append(float(toks[k]))
            k += 1
        words = [t.upper() for t in toks[k:]]
        key = kw if '_' in kw else base
        if base in rf.SYNTAX and rf.SYNTAX[base][4] and not words or base in ('WGHT', 'STIR', 'HKLF'):
            d = rf.SYNTAX[base][4] if base in rf.SYNTAX else None
            if d and all(x is not None for x in d[len(nums):]):
                nums = nums + list(d[len(nums):])
        out.append(('instr', key, tuple(nums), tuple(words)))
    return out


def close(a, b, tol):
    return abs(a - b) <= tol * max(1.0, abs(a), abs(b)) if tol > 1e-6 else abs(a - b) <= tol + 1e-12


def same_entry(a, b):
    """returns None if equal, else a description; numbers to the precision of a .res file"""
    if a[0] != b[0]:
        return 'kind'
    if a[0] == 'atom':
        _, n1, s1, x1, o1, u1, q1 = a
        _, n2, s2, x2, o2, u2, q2 = b
        if n1 != n2:
            return 'name'
        if s1 != s2:
            return 'scattering type'
        if not all(close(p, q, 1e-6 if not q1 else 5.1e-5) for p, q in zip(x1, x2)):
            return 'coordinates'
        if not close(o1, o2, 1e-5):
            return 'occupation code'
        if q1:
            if len(u1) == 2 and len(u2) == 2 and not close(u1[0], u2[0], 1e-5) and close(u1[1], u2[1], 5.1e-3):
                return 'qpeak-u'
            if len(u1) != len(u2) or not all(close(p, q, 5.1e-3) for p, q in zip(u1, u2)):
                return 'displacement parameters'
            return None
        # the recorded degenerate case: U33, U23, U13, U12 all 0.00000 at the written precision, U22 not: written with U11 only
        if len(u1) == 6 and len(u2) == 1 and close(u1[0], u2[0], 1e-5) and all(abs(v) <= 0.5e-5 for v in u1[2:]) and abs(u1[1]) > 1e-5:
            return 'flat-adp'
        # values that are not written are zero: an atom whose U22..U12 vanish at the written precision may be written with one U value
        if (len(u1) != len(u2) and max(len(u1), len(u2)) > 6) or not all(close(p, q, 1e-5) for p, q in zip((list(u1) + [0.0] * 6)[:6], (list(u2) + [0.0] * 6)[:6])):
            return 'displacement parameters'
        return None
    if a[0] in ('TITL', 'SFAC', 'SYMM?'):
        return None if a == b else 'parameters'
    if a[0] == 'SYMM':
        ok = a[1] == b[1] and all(close(float(p), float(q), 1e-6) for p, q in zip(a[2], b[2]))
        return None if ok else 'operator'
    if a[0] == 'SFACX':
        ok = a[1] == b[1] and len(a[2]) == len(b[2]) and all(close(p, q, 1e-5) for p, q in zip(a[2], b[2]))
        return None if ok else 'scattering factor coefficients'
    if a[0] == 'FVAR':
        ok = len(a[1]) == len(b[1]) and all(close(p, q, 1e-5) for p, q in zip(a[1], b[1]))
        return None if ok else 'free variables'
    _, k1, n1, w1 = a
    _, k2, n2, w2 = b
    if k1 != k2:
        return 'keyword'
    if len(n1) != len(n2) or not all(close(p, q, 1e-5) for p, q in zip(n1, n2)):
        return 'numeric parameters'
    if w1 != w2:
        return 'names'
    return None


def roundtrip(ctx, text, what, stats):
    st, inn, shx = im.read_text(text, 'quiet')
    case = {'text': text}
    if st != 'ok' or inn:
        common.add_violation(ctx, 'a valid file raises', case, 'ok', '%s %s' % (st, inn))
        return None
    out = im.write_text(shx)
    a, b = content(text), content(out)
    stats['entries'] += len(a)
    n = 0
    for x, y in zip(a, b):
        d = same_entry(x, y)
        if d == 'qpeak-u':
            common.add_violation(ctx, 'the U value of a Q-peak is replaced by 0.04 on writing', dict(case, written=out), x, y, cls='qpeak_u_written_as_0.04')
            n += 1
            continue
        if d == 'flat-adp':
            common.add_violation(ctx, 'an anisotropic atom whose U33..U12 are all 0.00000 is written with U11 only (U22 is lost)', dict(case, written=out), x, y,
                                 cls='flat_adp_written_isotropic')
            continue
        if d:
            common.add_violation(ctx, 'written file differs from the input in crystallographic content: %s (%s)' % (d, what), dict(case, written=out), x, y)
            return shx, out
    if len(a) != len(b):
        k = min(len(a), len(b))
        common.add_violation(ctx, 'written file has %s entries than the input (%s)' % ('fewer' if len(b) < len(a) else 'more', what), dict(case, written=out),
                             a[k] if k < len(a) else None, b[k] if k < len(b) else None)
    return shx, out


def covering_files(rng):
    """every keyword x every admissible arity, plus forms that exercise the regenerating printers"""
    names = ['C1', 'O1', 'N1', 'C2']
    for kw, (lo, hi, words, sfx, defaults) in rf.SYNTAX.items():
        for n in rf.ARITIES.get(kw, list(range(lo, hi + 1))):
            toks, nums, ws = rf.instr_tokens(rng, kw, names, arity=n)
            if kw == 'AFIX':
                toks = ['AFIX', '0'] if n == 1 else toks[:1] + ['43', '0.98', '11.0', '-1.2'][:n]
            if kw == 'HKLF':
                yield '\n'.join(HEAD + ATOMS + [' '.join(toks), 'END']) + '\n', kw
            else:
                yield '\n'.join(HEAD + ATOMS[:2] + [' '.join(toks)] + ATOMS[2:] + TAIL) + '\n', kw
    special = [
        ['UNIT 1200 2400 16 2'], ['UNIT 16.5 20 4 2'], ['ACTA NOHKL'], ['ACTA 50 NOHKL'], ['ACTA'], ['SIZE 0.1'], ['SIZE 0.1 0.2'], ['SIZE 0.12 0.23 0.34'],
        ['WGHT 0.05 0 0.1 0 0 0.23333'], ['WGHT 0.05 0.3 0 0 0 0.5'], ['WGHT 0.1'], ['WGHT'], ['STIR 1.5'], ['STIR 1.5 0.02'], ['STIR 0 0.02'], ['STIR 0'], ['DAMP 0 0'], ['ISOR 0 0 C1 O1'], ['SWAT 0 0'], ['SHEL 0 0'], ['C9 1 0.5 0.5 0.5 11.0 0.05 0.000004 0.000003 0.000004 -0.000004 0.000004'], ['C9 1 0.5 0.5 0.5 11.0 0.05 0.000004 0.000004 0.000004 0.000004 0.000004'], ['C9 1 0.5 0.5 0.5 11.0 0.05 0.04 0 0 0 0'], ['C9 1 0.5 0.5 0.5 11.0 0.05 0.00001 0 0.00001 0 0'],
        ['TEMP -173.15'], ['DAMP 0.5 0'], ['HKLF 4 1 0 1 0 1 0 0 0 0 -1 0.5 2'], ['TWIN -1 0 0 0 -1 0 0 0 1 -3'], ['BASF 0.2 0.1'],
        ['EQIV $1 -x+1, -y, -z', 'HTAB C1 O1_$1', 'RTAB Dist C1 O1_$1'], ['FREE C1 O1'], ['MPLA 4 C1 O1 N1 C2'], ['CONN 4 1.8 C1'], ['SUMP 1.0 0.01 1.0 2 1.0 3'],
        ['DISP C 0.0033 0.0016 11.5'], ['MOLE 1'], ['TIME 5'], ['NEUT'], ['ANIS'], ['ANIS 3'], ['ANIS C1 O1'], ['HFIX 43 C1'], ['RESI 1 TOL', 'C9 1 0.5 0.5 0.5 11.0 0.04', 'RESI 0'],
        ['PART 1 21.0', 'C9 1 0.5 0.5 0.5 11.0 0.04', 'PART 2 -21.0', 'C8 1 0.6 0.5 0.5 11.0 0.04', 'PART 0'],
        ['AFIX 137', 'H1 2 0.5 0.5 0.5 11.0 -1.5', 'H2 2 0.6 0.5 0.5 11.0 -1.5', 'AFIX 0'],
        ['C9 1 10.25 0.5 -10.333333 11.0 0.04'], ['C9 1 20.5 0.5 0.25 21.0 0.04'], ['C9 1 0.123456 0.999999 -0.000001 10.25 0.01234 0.02345 0.03456 -0.00123 0.00234 0.00345'],
        ['C9 1 0.5 0.5 0.5 11.0 10.08'], ['C9 1 0.5 0.5 0.5 11.0 0.02 0.03 10.04 0.001 10.0 0.002'], ['C9 1 0.5 0.5 0.5 11.0 21.0'],
        ['FRAG 17', 'C1 1 1.0 2.0 3.0', 'C2 1 2.0 2.0 3.0', 'FEND', 'AFIX 66', 'C9 1 0.5 0.5 0.5 10.5 0.03', 'C8 1 0.6 0.5 0.5 10.5 0.01 0.02 0.03 0.001 0.002 0.003', 'AFIX 0'],
        ['FRAG 17 1 1 1 90 90 90', 'C1 1 1.0 2.0 3.0', 'FEND', 'AFIX 173', 'C9 1 0.5 0.5 0.5 21.0 0.03', 'AFIX 0', 'C8 1 0.6 0.5 0.5 11.0 0.04'],
        ['C9 1 0.5 0.5 0.5'], ['C9 1 0.5 0.5 0.5 10.5'], ['C9 1 0.5 0.5 0.5 -31.0 31.0'], ['C9 1 0.5 0.5 0.5 11.0 -1.2'],
    ]
    for sp in special:
        kw = sp[0].split()[0]
        if kw == 'UNIT':
            yield '\n'.join(HEAD[:6] + sp + HEAD[7:] + ATOMS + TAIL) + '\n', kw
        elif kw == 'NEUT':
            yield '\n'.join(HEAD[:5] + sp + HEAD[5:] + ATOMS + TAIL) + '\n', kw
        elif kw == 'DISP':
            yield '\n'.join(HEAD[:6] + sp + HEAD[6:] + ATOMS + TAIL) + '\n', kw
        else:
            yield '\n'.join(HEAD + ATOMS[:2] + sp + ATOMS[2:] + TAIL) + '\n', kw
    # P-1: no SYMM instruction, NEUT follows LATT
    yield '\n'.join(HEAD[:4] + ['NEUT'] + HEAD[5:] + ATOMS + TAIL) + '\n', 'NEUT'
    for symm in ('SYMM 0.5+X, -Y, 0.25-Z', 'SYMM -x+1/2,y+1/2,-z', 'SYMM Y-X, -X, Z+1/3', 'SYMM -Y, X-Y, 2/3+Z', 'SYMM 1/4-y, 3/4+x, 1/4+z'):
        yield '\n'.join(HEAD[:4] + [symm, 'SYMM -X, -Y, Z'] + HEAD[5:] + ATOMS + TAIL) + '\n', 'SYMM'
    # explicit scattering factors and many free variables
    yield ('\n'.join(HEAD[:5] + ['SFAC C H', 'SFAC ' + ' '.join(c06.EXPL[:8]) + ' =', '   ' + ' '.join(c06.EXPL[8:]), 'SFAC O N', 'UNIT 16 20 1 4 2', 'FVAR 1.0 0.6 0.3 0.25 0.75 0.11 0.22 0.33 0.44']
                     + ['C1 1 0.1 0.2 0.3 11.0 0.04', 'CU1 3 0.2 0.3 0.4 41.0 0.05'] + TAIL) + '\n', 'SFAC explicit')


def run(ctx):
    common.check_obligations(ctx, THEOREMS)
    rng = ctx.rng
    stats = {'entries': 0, 'files': 0}
    written = []
    for text, what in covering_files(rng):
        r = roundtrip(ctx, text, what, stats)
        stats['files'] += 1
        if r:
            written.append(r)
    nrand = 4000 if ctx.thorough() else 80
    for k in range(nrand):
        if k % 3 == 2:
            text, what = c06.long_file(rng), 'long instructions'
        else:
            gf = rf.gen_file(rng)
            text, what = rf.render_file(gf, rng, 'plain' if k % 2 else 'wild'), 'generated file'
        r = roundtrip(ctx, text, what, stats)
        stats['files'] += 1
        if r:
            written.append(r)
        if k < 1 and r:
            common.sample(ctx, {'input': text[:500], 'written': r[1][:500]})
    # ---- correspondence 1: the reader model on the implementation's written lines gives the tokens the items hold
    defs, terms = [], []
    sub = written if ctx.thorough() else written[::3]
    for i, (shx, out) in enumerate(sub):
        phys = [l for l in out.rstrip('\n').split('\n')]
        expect = []
        for j, item in enumerate(shx._reslist):
            if j in shx.delete_on_write or (isinstance(item, str) and item == ''):
                continue
            expect += [p for p in str(item).split('\n')]
        exp_tokens = [l['tokens'] for l in rf.independent_lex('\n'.join(expect)) if not l['free']]
        body = [l for l in phys if not l.upper().startswith(('TITL', 'REM'))]
        if not all(32 <= ord(c) < 127 for l in body for c in l):
            continue
        defs.append('Definition f%d : list str := %s.' % (i, clist(['lit ' + cstr(l) for l in body])))
        defs.append('Definition e%d : list (list str) := %s.' % (i, clist([clist(['lit ' + cstr(t) for t in toks]) for toks in exp_tokens])))
        terms.append('if list_eq_dec (list_eq_dec (list_eq_dec Ascii.ascii_dec)) (lex f%d) e%d then true else false' % (i, i))
    step = 20
    packs = [('\n'.join(defs[2 * k:2 * (k + step)]), ['forallb (fun b : bool => b) %s' % clist(terms[k:k + step])]) for k in range(0, len(terms), step)]
    results = common.coq_eval_sharded(ctx, 'c01lex', 'From SX Require Import Base.Prelude Base.Str Model.Lex.\n', None, packs)
    if any(not common.parse_bool(r[0]) for r in results):
        ctx.broken.append('correspondence: Model/Lex.v on the written lines does not give the tokens of the items (str(item)) for some written file')
    # ---- correspondence 2: fixed-precision numerals of the written atoms
    cases = []
    for shx, out in written:
        for a in shx.atoms.all_atoms:
            if a.qpeak:
                continue
            toks = str(a).replace('=', ' ').split()
            if len(toks) < 7:
                continue
            x, y, z = a._coded_coordinates if hasattr(a, '_coded_coordinates') else (a.x, a.y, a.z)
            if len(a.uvals) != 6 or (a.afix and shx.frag):
                continue
            us = list(a.uvals)          # the model (Model/Fmt.v u_written) decides the kind of line from the six stored values
            exp = [int(Fraction(t) * 10 ** 6) for t in toks[2:5]], int(Fraction(toks[5]) * 10 ** 5), [int(Fraction(t) * 10 ** 5) for t in toks[6:]]
            cases.append(('{| an_xyz := %s; an_sof := %s; an_u := %s |}' % (clist([cq(Fraction(v)) for v in (x, y, z)]), cq(Fraction(a.sof)), clist([cq(Fraction(u)) for u in us])),
                          '(%s, %s, %s)' % (clist([cz(v) for v in exp[0]]), cz(exp[1]), clist([cz(v) for v in exp[2]])), str(a)))
    if not ctx.thorough():
        cases = cases[:1500]
    pre = ('Definition zl_eqb (a b : list Z) : bool := if list_eq_dec Z.eq_dec a b then true else false.\n'
           'Definition chk (c : atom_num * (list Z * Z * list Z)) : bool := let \'(x, s, u) := atom_written (fst c) in let \'(x2, s2, u2) := snd c in zl_eqb x x2 && Z.eqb s s2 && zl_eqb u u2.\n')
    step = 300
    packs = [(pre + 'Definition cs : list (atom_num * (list Z * Z * list Z)) := %s.' % clist(['(%s, %s)' % (c[0], c[1]) for c in cases[k:k + step]]), ['bad_indices chk cs'])
             for k in range(0, len(cases), step)]
    results = common.coq_eval_sharded(ctx, 'c01fmt', 'From SX Require Import Base.Prelude Model.Fmt.\n', None, packs)
    nb = 0
    for si, res in enumerate(results):
        for b in common.parse_nat_list(res[0]):
            nb += 1
            if nb <= 3:
                ctx.broken.append('correspondence: Model/Fmt.v atom_written (kind of line, scaled numerals) differs from the written atom line %r' % cases[si * step + b][2])
    # ---- correspondence 3: the WGHT short form
    import itertools
    wcases = []
    st, inn, shx = im.read_text('\n'.join(HEAD + ['WGHT 0.1'] + ATOMS + TAIL) + '\n', 'quiet')
    for vals in itertools.product([0.1, 0.0543], [0.0, 1.2345], [0.0, 0.1], [0.0, 0.23333], [0.0, 0.7], [0.33333, 0.23333, 0.5]):
        shx.wght.set('WGHT ' + ' '.join(str(v) for v in vals))
        wcases.append((vals, [float(t) for t in str(shx.wght).split()[1:]]))
    q = lambda v: cq(Fraction(repr(v)))
    res = common.coq_eval(ctx, 'c01wght', 'From SX Require Import Base.Prelude Model.Fmt.\n',
                          'Definition ws : list (list Q * list Q) := %s.\nDefinition ql_eqb (a b : list Q) : bool := Nat.eqb (length a) (length b) && forallb (fun p => Qeq_bool (fst p) (snd p)) (combine a b).'
                          % clist(['(%s, %s)' % (clist([q(v) for v in a]), clist([q(v) for v in b])) for a, b in wcases]),
                          ['bad_indices (fun c : list Q * list Q => ql_eqb (wght_written (fst c)) (snd c)) ws'])
    for b in common.parse_nat_list(res[0])[:3]:
        ctx.broken.append('correspondence: wght_written differs from WGHT.__str__ for %s -> %s' % wcases[b])
    ctx.cov['evaluations'] = stats['files'] + len(cases) + len(terms) + len(wcases)
    ctx.cov['distinct_nontrivial'] = stats['files']
    ctx.cov['rule'] = ('covering set: every keyword of the syntax table in every admissible arity, special forms of the regenerating printers (UNIT >= 1000 and '
                       'fractional, ACTA NOHKL, SIZE with 1-3 values, WGHT with non-default c..f, explicit SFAC, coded coordinates 10+x / 10m+x, omitted sof / U, '
                       'negative U, PART with occupation, AFIX, RESI, EQIV / _$n atoms), random generator files in plain and wild layout, long-instruction files; '
                       'compared entry by entry with the input through an independent reader (%d content entries)' % stats['entries'])
    ctx.assumptions += ['REM lines and ! comments are not crystallographic content and are not compared', 'Q-peak coordinates to 5e-5, peak heights to 5e-3 (SHELXL writes 4 / 2 decimals)',
                        'numeric parameters of instructions other than atoms to 1e-5 relative; omitted trailing parameters equal their documented defaults',
                        'Python float formatting is correctly rounded (ties to even) on the exact binary value']


def replay(ctx, rp):
    c = rp['violation']['case']
    st, inn, shx = im.read_text(c['text'], 'quiet')
    out = im.write_text(shx)
    a, b = content(c['text']), content(out)
    d = [(x, y) for x, y in zip(a, b) if same_entry(x, y)]
    print('replay: %d differing entries' % len(d), d[:2])
    return 0
