"""C04 — API edits change exactly what they say.
Theorems: coq/Props/C04.v (Model/Edit.v: position bookkeeping of insertions, deletions and in-place changes, with the set of
positions skipped on writing; Spec/EditSpec.v: position-free list of entries; Proofs/EditProofs.v: every valid history of the
model refines the specification, and an edit of the specification changes one entry and nothing else).
Tie B: every random history is replayed on the Coq model (same positions, same texts) and the model's written lines and
delete_on_write are compared with the implementation's.  Failing-input search: the written file after every step against
the abstract list of entries with just that edit applied (tokens through the independent lexer)."""
import common
from common import clist, cstr
from gen import resfile as rf
import impl_model as im
from props import edit_common as ec

THEOREMS = ['C04_edits_refine', 'C04_abs_step', 'C04_written_abs', 'C04_insert_local', 'C04_remove_local', 'C04_replace_local', 'C04_edit_example']
IMPORTS = 'From SX Require Import Base.Prelude Base.Str Model.Wrap Model.Writer Model.Edit.\n'


def make_file(rng, style='plain'):
    gf = rf.gen_file(rng)
    text = rf.render_file(gf, rng, style)
    lines = text.rstrip('\n').split('\n')
    fv = [i for i, l in enumerate(lines) if l.upper().startswith('FVAR')][0]
    have = set(l.split()[0][:4].upper() for l in lines if l.strip())
    extra = []
    for kw, l in (('PLAN', 'PLAN 20'), ('L.S.', 'L.S. 10'), ('WGHT', 'WGHT 0.05 0.3'), ('ACTA', 'ACTA')):
        if kw not in have and kw != 'CGLS' and rng.random() < 0.7:
            if kw == 'L.S.' and 'CGLS' in have:
                continue
            if kw == 'L.S.':        # either refinement method, in any letter case (keywords are case-insensitive)
                l = rng.choice(['L.S. 10', 'CGLS 10 2', 'cgls 8', 'Cgls 5 0 3', 'l.s. 4', 'L.S. 12 0 2'])
            extra.append(l)
    lines[fv:fv] = extra
    for i, l in enumerate(lines):       # an existing cycles instruction in lower / mixed case now and then
        if l[:4].upper() in ('CGLS', 'L.S.') and rng.random() < 0.3:
            lines[i] = (l[:4].lower() if rng.random() < 0.5 else l[:1] + l[1:4].lower()) + l[4:]
    if rng.random() < 0.4:
        # an atom close to a symmetry element (its own image is bonded to it): grow() has something to add
        at = [i for i, l in enumerate(lines) if l.upper().startswith('HKLF')]
        if at:
            lines.insert(at[0], 'C99 1 %.5f %.5f %.5f 11.00000 0.05' % (rng.uniform(0.03, 0.05), rng.uniform(0.03, 0.05), rng.uniform(0.02, 0.04)))
    if rng.random() < 0.5:
        lines.append('WGHT 0.0432 1.234')
    return '\n'.join(lines) + '\n'


def with_include(text, rng, tmp):
    """moves nothing: adds an include file with atoms (last line an atom) right before the first atom of the main file"""
    import os
    lines = text.rstrip('\n').split('\n')
    fv = [i for i, l in enumerate(lines) if l.upper().startswith('FVAR')][-1] + 1
    body = ['Z%d 1 %.5f %.5f %.5f 11.00000 0.05' % (j, rng.random(), rng.random(), rng.random()) for j in range(rng.randint(1, 3))]
    open(os.path.join(tmp, 'solv.inc'), 'w').write('\n'.join(body) + '\n')
    lines.insert(fv, '+solv.inc')
    main = os.path.join(tmp, 'main.res')
    open(main, 'w').write('\n'.join(lines) + '\n')
    return main, '\n'.join(lines) + '\n'


def ascii_ok(s):
    return all(32 <= ord(c) < 127 for c in s)


def items_literal(shx):
    its = []
    for x in shx._reslist:
        if isinstance(x, str):
            its.append('IRaw (lit %s)' % cstr(x))
        else:
            its.append('IObj %s' % clist(['lit ' + cstr(p) for p in str(x).split('\n')]))
    return clist(its), clist(['%d%%nat' % i for i in sorted(shx.delete_on_write)])


def mop_literal(m):
    if m[0] == 'ins':
        it = 'IRaw (lit %s)' % cstr(m[2][0]) if m[3] else 'IObj %s' % clist(['lit ' + cstr(p) for p in m[2]])
        return 'OIns %d%%nat (%s)' % (m[1], it)
    if m[0] == 'del':
        return 'ODel %d%%nat' % m[1]
    return 'OUpd %d%%nat (IObj %s)' % (m[1], clist(['lit ' + cstr(p) for p in m[2]]))


def run(ctx):
    common.check_obligations(ctx, THEOREMS)
    rng = ctx.rng
    nh = 12000 if ctx.thorough() else 150
    ev = 0
    ophist = {}
    coq_cases = []
    import tempfile, shutil
    tmp = tempfile.mkdtemp(prefix='verif-c04-')
    for k in range(nh):
        text = make_file(rng, 'wild' if k % 4 == 3 else 'plain')
        if k % 7 == 2:
            text = ec.duplicate_file(rng)       # residues whose atoms have identical text lines
        if k % 5 == 1:
            main, text = with_include(make_file(rng, 'plain'), rng, tmp)
            st, inn, shx = im.read_text(None, 'quiet', path=main)
        else:
            st, inn, shx = im.read_text(text, 'quiet')
        if st != 'ok' or inn:
            common.add_violation(ctx, 'a valid file raises', {'text': text}, 'ok', '%s %s' % (st, inn))
            continue
        init_lit = items_literal(shx) if all(ascii_ok(str(x)) for x in shx._reslist) else None
        h = ec.History(shx, rng)
        got, w = ec.written_tokens(shx)
        exp = ec.expected_tokens(h.ents)
        if got != exp:
            continue        # the unedited file is the business of C01 / C06, not of this property
        ok = True
        for s in range(rng.randint(1, 12)):
            try:
                name = h.step()
            except Exception as e:
                common.add_violation(ctx, 'an edit through the public API raises', {'text': text, 'history': h.log}, 'no exception', '%s: %s' % (type(e).__name__, e))
                ok = False
                break
            if not name:
                continue
            ophist[name] = ophist.get(name, 0) + 1
            ev += 1
            file_atoms = [id(e.obj) for e in h.ents if e.kind == 'atom']
            if file_atoms != [id(a) for a in shx.atoms.all_atoms]:
                common.add_violation(ctx, 'after an edit the atom list no longer holds exactly the atoms of the file, in file order (first difference after: %s)' % name,
                                     {'text': text, 'history': h.log}, len(file_atoms), [a.fullname for a in shx.atoms.all_atoms][:12])
                ok = False
                break
            got, w = ec.written_tokens(shx)
            exp = ec.expected_tokens(h.ents)
            if got != exp:
                i = next((i for i, (a, b) in enumerate(zip(got, exp)) if a != b), min(len(got), len(exp)))
                common.add_violation(ctx, 'after an edit the written file is not the original with just that edit applied (first difference after: %s)' % name,
                                     {'text': text, 'history': h.log, 'written': w}, exp[max(0, i - 1):i + 2], got[max(0, i - 1):i + 2])
                ok = False
                break
        if ok and init_lit and h.mops and not any(m[0] == 'skip' for m in h.mops) and len(coq_cases) < (1500 if ctx.thorough() else 60):
            final = im.write_text(shx).rstrip('\n').split('\n')
            if all(ascii_ok(l) for l in final) and all(ascii_ok(p) for m in h.mops if m[0] != 'del' for p in m[2]):
                coq_cases.append((init_lit, [mop_literal(m) for m in h.mops], final, sorted(shx.delete_on_write), h.log))
        if k < 1:
            common.sample(ctx, {'history': [str(x) for x in h.log], 'written_head': w[:300]})
    shutil.rmtree(tmp, ignore_errors=True)
    # correspondence: the same histories on the Coq model
    packs = []
    step = 5
    for k in range(0, len(coq_cases), step):
        defs, terms = [], []
        for i, ((its, dele), mops, final, fdel, log) in enumerate(coq_cases[k:k + step]):
            defs.append('Definition s%d : est := {| e_items := %s; e_del := %s |}.\nDefinition o%d : list op := %s.\nDefinition w%d : list str := %s.' % (
                i, its, dele, i, clist(mops), i, clist(['lit ' + cstr(l) for l in final])))
            terms.append('let r := fold_left apply o%d s%d in (if list_eq_dec (list_eq_dec Ascii.ascii_dec) (written r) w%d then true else false) && '
                         '(if list_eq_dec Nat.eq_dec (e_del r) %s then true else false)' % (i, i, i, clist(['%d%%nat' % d for d in fdel])))
        packs.append(('\n'.join(defs), ['bad_indices (fun b : bool => b) %s' % clist(terms)]))
    results = common.coq_eval_sharded(ctx, 'c04', IMPORTS, None, packs)
    for si, res in enumerate(results):
        bad = common.parse_nat_list(res[0])
        if bad:
            ctx.broken.append('correspondence: Model/Edit.v replay of history %s does not give the written file / delete_on_write of the implementation' % (coq_cases[si * step + bad[0]][4],))
            break
    ctx.cov['evaluations'] = ev + len(coq_cases)
    ctx.cov['distinct_nontrivial'] = ev
    ctx.cov['rule'] = ('generator files (two FVAR / SFAC lines in about half of them, PLAN / L.S. or CGLS / WGHT / ACTA present, suggested WGHT after END, wild layout for '
                       'every fourth file) x random histories of 1-12 operations out of add_line (one instruction or a block of several), insert_frag_fend_entry, insert_anis, delete atom (both forms), rename, element change (known and '
                       'new element), to_isotropic, PLAN set, cycles, WGHT assignment / update_weight, remove / restore ACTA; the written file is checked after every step')
    ctx.notes.setdefault('coverage_extra', {})['operation_histogram'] = ophist
    ctx.assumptions += ['the text an object prints after a setter is taken from the implementation in the model replay (the model is about positions); the failing-input search '
                        'computes the expected text independently from the source tokens', 'hand-written model Model/Edit.v validated by replaying the generated histories']


def replay(ctx, rp):
    c = rp['violation']['case']
    print('replay: history', c.get('history'))
    return 0
