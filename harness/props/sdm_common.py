"""Shared by C13 and C14: runs SDM.calc_sdm / packer on a generated structure and the float instance of
Model/Sdm.v on the same numbers inside Coq (mirrored execution), plus brute-force reference computations."""
import contextlib
import io
import itertools
import math
import re

import common
from common import clist, cz, cbool
from gen import structures as gs
from gen import spacegroups as sg

IMPORTS = ('From Coq Require Import ZArith List Bool PrimFloat.\nFrom SX Require Import Base.Num Base.NumF Model.Sdm.\n'
           'Import ListNotations.\n')

PRE = '''
Definition fclose (a b : float) : bool := PrimFloat.leb (PrimFloat.abs (PrimFloat.sub a b)) 0x1.0p-30%float.
Fixpoint all2b {A B} (f : A -> B -> bool) (l1 : list A) (l2 : list B) : bool :=
  match l1, l2 with x :: r1, y :: r2 => f x y && all2b f r1 r2 | [], [] => true | _, _ => false end.
Definition item_ok (it : sitem (T:=float)) (e : nat * nat * float * nat * bool * bool) : bool :=
  let '(a1, a2, d, n, c, tie) := e in
  Nat.eqb (it_a1 it) a1 && Nat.eqb (it_a2 it) a2 && fclose (it_dist it) d && (tie || Nat.eqb (it_n it) n) && Bool.eqb (it_cov it) c.
Definition need_ok (nd : need (T:=float)) (e : nat * float * float * float * Z) : bool :=
  let '(n, fx, fy, fz, m) := e in
  Nat.eqb (nd_n nd) n && PrimFloat.eqb (nd_fx nd) fx && PrimFloat.eqb (nd_fy nd) fy && PrimFloat.eqb (nd_fz nd) fz && Z.eqb (nd_mol nd) m.
Definition grown_ok (g : grown (T:=float)) (e : nat * nat * float * float * float * Z) : bool :=
  let '(src, n, x, y, z, p) := e in
  Nat.eqb (g_src g) src && Nat.eqb (g_n g) n && fclose (g_x g) x && fclose (g_y g) y && fclose (g_z g) z && Z.eqb (g_part g) p.
'''


def fl(x):
    h = float(x).hex()
    return '(%s)%%float' % h


def observe(st, with_q=False):
    """run the implementation; returns dict with items, molindex, needs, grown, atom data"""
    from shelxfile.shelx.shelx import Shelxfile
    from shelxfile.shelx.sdm import SDM
    text = gs.to_text(st)
    shx = Shelxfile()
    with contextlib.redirect_stdout(io.StringIO()):
        shx.read_string(text)
        atoms = shx.atoms.all_atoms
        sdm = SDM(shx)
        need = sdm.calc_sdm()
        grown = sdm.packer(sdm, need, with_qpeaks=with_q)
    idx = {id(a): i for i, a in enumerate(atoms)}
    items = sorted(((it.a1, it.a2, it.dist, it.symmetry_number, bool(it.covalent)) for it in sdm.sdm_list), key=lambda t: (t[0], t[1]))
    nshow = len([a for a in atoms if with_q or not a.qpeak])
    new = grown[nshow:]
    gl = []
    for g in new:
        m = re.match(r'(.*)>>(\d+)_', g.name)
        gl.append({'name': g.name, 'n': int(m.group(2)), 'xyz': [g.x, g.y, g.z], 'part': g.part.n, 'sfac': g.sfac_num,
                   'sof': g.sof, 'uvals': list(g.uvals), 'prefix': m.group(1)})
    return {'text': text, 'shx': shx, 'sdm': sdm, 'atoms': atoms, 'items': items, 'molindex': [a.molindex for a in atoms],
            'need': [list(b) for b in need], 'grown': gl, 'first': grown[:nshow], 'nshow': nshow,
            'ops': list(shx.symmcards)}


def is_h(a):
    """hydrogen for the bonding rule: H and its isotopes, by element symbol (not through Atom.ishydrogen)"""
    return (a.element or '').upper() in ('H', 'D', 'T')


def metric_constants_ok(ob):
    """the six metric constants of the SDM object against a^2, b^2, c^2, ab cos(gamma), ac cos(beta), bc cos(alpha) of the cell (they are inputs of
    the mirrored model, so they are checked by construction here); returns None or a description of the first difference"""
    sdm, c_ = ob['sdm'], ob['shx'].cell
    ca, cb, cg = (math.cos(math.radians(x)) for x in (c_.alpha, c_.beta, c_.gamma))
    exp = {'asq': c_.a ** 2, 'bsq': c_.b ** 2, 'csq': c_.c ** 2, 'aga': c_.a * c_.b * cg, 'bbe': c_.a * c_.c * cb, 'cal': c_.b * c_.c * ca}
    for nm, v in exp.items():
        got = getattr(sdm, nm)
        if abs(got - v) > 1e-9 * max(1.0, abs(v)):
            return 'SDM.%s = %r, expected %r for the cell %s' % (nm, got, v, [c_.a, c_.b, c_.c, c_.alpha, c_.beta, c_.gamma])
    return None


def coq_defs(ob, k):
    """Coq definitions of the model inputs for observation ob (suffix k)"""
    sdm, atoms, ops = ob['sdm'], ob['atoms'], ob['ops']
    d = []
    d.append('Definition met%d : metric (T:=float) := {| m_asq := %s; m_bsq := %s; m_csq := %s; m_aga := %s; m_bbe := %s; m_cal := %s |}.' % (
        k, fl(sdm.asq), fl(sdm.bsq), fl(sdm.csq), fl(sdm.aga), fl(sdm.bbe), fl(sdm.cal)))
    al = []
    for a in atoms:
        al.append('{| sa_x := %s; sa_y := %s; sa_z := %s; sa_h := %s; sa_part := %s; sa_radius := %s; sa_qpeak := %s; sa_an := %s |}' % (
            fl(a.x), fl(a.y), fl(a.z), cbool(is_h(a) if a.element else a.ishydrogen), cz(a.part.n), fl(gs.radius(a.element) if a.element else a.radius), cbool(a.qpeak), cz(a.an)))      # radius: by element symbol from the table
    d.append('Definition ats%d : list (satom (T:=float)) := %s.' % (k, clist(al)))
    ol = []
    for o in ops:
        l = [[o.matrix[i, j] for j in range(3)] for i in range(3)]
        ol.append('{| l00 := %s; l01 := %s; l02 := %s; l10 := %s; l11 := %s; l12 := %s; l20 := %s; l21 := %s; l22 := %s; t0 := %s; t1 := %s; t2 := %s |}' % tuple(
            fl(v) for v in (l[0] + l[1] + l[2] + [o.trans[0], o.trans[1], o.trans[2]])))
    d.append('Definition ops%d : list (sop (T:=float)) := %s.' % (k, clist(ol)))
    return '\n'.join(d)


def tied_items(ob):
    """pairs for which two operators give the same wrapped distance to within 1e-9 (a rotation and its inverse applied to the
    same atom, atoms on symmetry elements): which of them is reported depends on the last bit of the float evaluation, so the
    operator number of such an item is not compared"""
    atoms = ob['atoms']
    sdm = ob['sdm']
    ops = [([[o.matrix[i, j] for j in range(3)] for i in range(3)], [float(t) for t in o.trans]) for o in ob['ops']]
    tied = set()
    for a1, a2, d, n, c in ob['items']:
        x1 = [atoms[a1].x, atoms[a1].y, atoms[a1].z]
        x2 = [atoms[a2].x, atoms[a2].y, atoms[a2].z]
        ds = []
        for k, (R, t) in enumerate(ops):
            p = [sum(R[i][q] * x1[q] for q in range(3)) + t[i] for i in range(3)]
            D = [p[i] - x2[i] + 0.5 for i in range(3)]
            dp = [v - math.floor(v) - 0.5 for v in D]
            ds.append(sdm.vector_length(*dp) + (0.0001 if k else 0.0))
        far = [v for v in ds if v > 0.01 or a1 != a2]        # the coincidence of an atom with itself is not a contact
        best = min(far) if far else 0.0
        if sum(1 for v in far if abs(v - best) < 1e-9) > 1:
            tied.add((a1, a2))
    return tied


def coq_checks(ob, k, with_q=False):
    """terms evaluating to bool: items, molindex, needs, grown agree between model (floats) and implementation"""
    atoms = ob['atoms']
    tied = tied_items(ob)
    ob['tied'] = tied
    items = clist(['(%d%%nat, %d%%nat, %s, %d%%nat, %s, %s)' % (a1, a2, fl(d), n, cbool(c), cbool((a1, a2) in tied)) for a1, a2, d, n, c in ob['items']])
    mol = clist([cz(m) for m in ob['molindex']])
    needs = clist(['(%d%%nat, %s, %s, %s, %s)' % (b[0] - 1, fl(5 - b[1]), fl(5 - b[2]), fl(5 - b[3]), cz(b[4])) for b in ob['need']])
    # source atom of a grown atom: the implementation does not record it; recover it from the operator and coordinates
    gl = []
    for g in ob['grown']:
        src = find_source(ob, g)
        gl.append('(%d%%nat, %d%%nat, %s, %s, %s, %s)' % (src, g['n'], fl(g['xyz'][0]), fl(g['xyz'][1]), fl(g['xyz'][2]), cz(g['part'])))
    t = []
    t.append('all2b item_ok (sdm_items FOps met%d ops%d ats%d) %s' % (k, k, k, items))
    t.append('(fix eqz (a b : list Z) := match a, b with x :: r, y :: s => Z.eqb x y && eqz r s | [], [] => true | _, _ => false end) '
             '(molindex (sdm_items FOps met%d ops%d ats%d) ats%d) %s' % (k, k, k, k, mol))
    t.append('let its := sdm_list FOps met%d ops%d ats%d in all2b need_ok (needed_symmetry FOps met%d ops%d ats%d its (molindex its ats%d)) %s' % (
        k, k, k, k, k, k, k, needs))
    t.append('all2b grown_ok (grow FOps met%d ops%d ats%d %s) %s' % (k, k, k, cbool(with_q), clist(gl)))
    return t


def find_source(ob, g):
    ops, atoms = ob['ops'], ob['atoms']
    o = ops[g['n']]
    best, bi = 1e9, -1
    for i, a in enumerate(atoms):
        if a.qpeak or a.part.n != g['part'] or a.name[:3] != g['prefix']:
            continue
        p = [sum(o.matrix[r, c] * [a.x, a.y, a.z][c] for c in range(3)) + o.trans[r] for r in range(3)]
        d = [g['xyz'][r] - p[r] for r in range(3)]
        err = sum(abs(v - round(v)) for v in d)
        if err < best:
            best, bi = err, i
    return bi


# ---------------------------------------------------------------- exact / brute-force references

def metric_of(cell):
    a, b, c, al, be, ga = cell
    ca, cb, cg = (math.cos(math.radians(x)) for x in (al, be, ga))
    return [[a * a, a * b * cg, a * c * cb], [a * b * cg, b * b, b * c * ca], [a * c * cb, b * c * ca, c * c]]


def glen(G, v):
    return math.sqrt(max(0.0, sum(G[i][j] * v[i] * v[j] for i in range(3) for j in range(3))))


SHIFTS = list(itertools.product(range(-3, 4), repeat=3))


def true_min(G, ops, x1, x2, same=True):
    """shortest distance between x2 and any symmetry equivalent (operator x lattice translation) of x1; for an atom and itself (same)
    the trivial coincidence (distance below 0.01) is excluded, two different atoms on one site have the distance zero; returns (dist, operator number)"""
    best = (1e9, -1)
    for n, (R, t) in enumerate(ops):
        p = [sum(R[i][k] * x1[k] for k in range(3)) + float(t[i]) for i in range(3)]
        d0 = [p[i] - x2[i] for i in range(3)]
        base = [v - math.floor(v + 0.5) for v in d0]
        for s in SHIFTS:
            d = glen(G, [base[i] + s[i] for i in range(3)])
            if (d > 0.01 or not same) and d < best[0] - 1e-12:
                best = (d, n)
    return best
