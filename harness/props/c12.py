"""C12 — cell geometry and tensor transforms.  Tie A: kernels re-traced from /repo each run and the
theorems of Props/C12.v re-proved over them; Tie B / failing-input search: the implementation's public
API against a reference built on the metric tensor."""
import contextlib
import io
import math
import random

import common
import trace_kernels as TK

THEOREMS = ['C12_ortho_conventional', 'C12_ortho_metric', 'C12_metric_matrix_code', 'C12_det_volume',
            'C12_volumes_agree', 'C12_ortho_inverse', 'C12_inverse_general', 'C12_f2c_agree', 'C12_c2f_f2c',
            'C12_dist_metric', 'C12_vector_length_metric', 'C12_recip_lengths', 'C12_ustar_correct',
            'C12_ucart_correct', 'C12_ucart_symmetric', 'C12_ueq_trace', 'C12_ueq_iso', 'C12_pd_congruence', 'C12_sylvester3', 'C12_k_npd_is_model',
            'C12_npd_aniso_correct', 'C12_npd_iso_correct', 'C12_npd_example_pd', 'C12_npd_example_npd', 'C12_valid_cell_ortho', 'C12_valid_cell_hex']
GEN_FILES = ['K_cell', 'K_adp']


def gen_cell(rng):
    kind = rng.choice(['tri', 'mono', 'ortho', 'tetra', 'hex', 'cubic', 'rhomb', 'tri', 'mono', 'pseudo'])
    a, b, c = (round(rng.uniform(3, 40), rng.choice([2, 3, 4])) for _ in range(3))
    if kind == 'pseudo':
        # metrically almost orthogonal (or hexagonal): angles a few thousandths of a degree off 90 / 120
        al, be, ga = (round(90 + rng.choice([-1, 1]) * rng.uniform(0.001, 0.009), 3) for _ in range(3))
        if rng.random() < 0.3:
            ga = round(120 + rng.choice([-1, 1]) * rng.uniform(0.001, 0.009), 3)
        if rng.random() < 0.4:
            al = 90
    elif kind == 'tri':
        while True:
            al, be, ga = (round(rng.uniform(62, 118), 2) for _ in range(3))
            ca, cb, cg = (math.cos(math.radians(x)) for x in (al, be, ga))
            if 1 + 2 * ca * cb * cg - ca * ca - cb * cb - cg * cg > 0.1:
                break
    elif kind == 'mono':
        al, be, ga = 90, round(rng.uniform(91, 125), 3), 90
    elif kind == 'ortho':
        al = be = ga = 90
    elif kind == 'tetra':
        b = a; al = be = ga = 90
    elif kind == 'hex':
        b = a; al = be = 90; ga = 120
    elif kind == 'cubic':
        b = c = a; al = be = ga = 90
    else:
        b = c = a; al = be = ga = round(rng.uniform(55, 110), 2)
    return kind, [a, b, c, al, be, ga]


def metric(cell):
    a, b, c, al, be, ga = cell
    ca, cb, cg = (math.cos(math.radians(x)) for x in (al, be, ga))
    return [[a * a, a * b * cg, a * c * cb], [a * b * cg, b * b, b * c * ca], [a * c * cb, b * c * ca, c * c]]


def det3(m):
    return (m[0][0] * (m[1][1] * m[2][2] - m[1][2] * m[2][1]) - m[0][1] * (m[1][0] * m[2][2] - m[1][2] * m[2][0])
            + m[0][2] * (m[1][0] * m[2][1] - m[1][1] * m[2][0]))


def inv_diag(m):
    d = det3(m)
    return [(m[1][1] * m[2][2] - m[1][2] * m[2][1]) / d, (m[0][0] * m[2][2] - m[0][2] * m[2][0]) / d,
            (m[0][0] * m[1][1] - m[0][1] * m[1][0]) / d]


def gen_u(rng, cell):
    """symmetric U(cif) with prescribed definiteness: built as B diag(l) B^T in a random basis."""
    while True:
        B = [[rng.gauss(0, 1) for _ in range(3)] for _ in range(3)]
        if abs(det3(B)) > 0.3:
            break
    pd = rng.random() < 0.6
    lam = [rng.uniform(0.005, 0.06) for _ in range(3)]
    if not pd:
        lam[rng.randrange(3)] = -rng.uniform(0.004, 0.03)
        if rng.random() < 0.5:
            # two eigenvalues of the CARTESIAN tensor of nearly the same magnitude and opposite sign: the regime in which an
            # unshifted QR iteration converges slowest.  U(cart) = R diag(l) R^T with orthonormal R, then back to U(cif).
            import math
            # the iteration sorts the eigenvalues by magnitude down the diagonal; start with the two balanced ones in the
            # wrong order and only slightly mixed, so that it has to swap them
            # ... and mixed by the angle that 100 unshifted steps (the library's default) turn into 45 degrees, where both
            # diagonal entries of the block are (s + t) / 2 > 0
            t = rng.uniform(0.02, 0.04)
            r = rng.uniform(0.95, 0.99)
            lam = [rng.uniform(0.06, 0.09), -t * r, t]
            eps = math.atan(r ** rng.choice([100, 100, 99, 101, 50, 200]) * rng.uniform(0.97, 1.03))
            B = [[1.0, 0.0, 0.0], [0.0, math.cos(eps), -math.sin(eps)], [0.0, math.sin(eps), math.cos(eps)]]
            Uc = [[sum(B[p][k] * lam[k] * B[q][k] for k in range(3)) for q in range(3)] for p in range(3)]
            aa, bb, cc = cell[0], cell[1], cell[2]
            al, be, ga = (math.radians(x) for x in cell[3:6])
            vol = aa * bb * cc * math.sqrt(1 - math.cos(al) ** 2 - math.cos(be) ** 2 - math.cos(ga) ** 2 + 2 * math.cos(al) * math.cos(be) * math.cos(ga))
            A = [[aa, bb * math.cos(ga), cc * math.cos(be)], [0, bb * math.sin(ga), cc * (math.cos(al) - math.cos(be) * math.cos(ga)) / math.sin(ga)],
                 [0, 0, vol / (aa * bb * math.sin(ga))]]
            dA = det3(A)
            cof = lambda m, r, c2: (m[(r + 1) % 3][(c2 + 1) % 3] * m[(r + 2) % 3][(c2 + 2) % 3] - m[(r + 1) % 3][(c2 + 2) % 3] * m[(r + 2) % 3][(c2 + 1) % 3])
            Ai = [[cof(A, c2, r) / dA for c2 in range(3)] for r in range(3)]
            Us = [[sum(Ai[p][k] * Uc[k][l] * Ai[q][l] for k in range(3) for l in range(3)) for q in range(3)] for p in range(3)]
            n = [bb * cc * math.sin(al) / vol, aa * cc * math.sin(be) / vol, aa * bb * math.sin(ga) / vol]
            U = [[Us[p][q] / (n[p] * n[q]) for q in range(3)] for p in range(3)]
            sc = 0.08 / max(abs(U[p][q]) for p in range(3) for q in range(3))
            U = [[round(U[p][q] * sc, 5) for q in range(3)] for p in range(3)]
            for p in range(3):
                for q in range(p):
                    U[p][q] = U[q][p]
            return U
    U = [[sum(B[i][k] * lam[k] * B[j][k] for k in range(3)) for j in range(3)] for i in range(3)]
    s = 0.08 / max(abs(U[i][j]) for i in range(3) for j in range(3))
    U = [[round(U[i][j] * s, 5) for j in range(3)] for i in range(3)]
    for i in range(3):
        for j in range(i):
            U[i][j] = U[j][i]
    return U


def sylvester_pd(U):
    m1 = U[0][0]
    m2 = U[0][0] * U[1][1] - U[0][1] * U[1][0]
    m3 = det3(U)
    return m1, m2, m3


def build(rng, cell, natoms):
    lines = ['TITL c12', 'CELL 0.71073 ' + ' '.join('%s' % x for x in cell), 'ZERR 4 0.001 0.001 0.001 0.01 0.01 0.01',
             'LATT 1', 'SFAC C N O', 'UNIT 10 10 10', 'FVAR 1.0']
    atoms = []
    for i in range(natoms):
        xyz = [round(rng.uniform(-0.2, 1.2), 5) for _ in range(3)]
        kind = rng.choice(['aniso', 'aniso', 'aniso', 'iso', 'cancel'])
        if kind == 'cancel':
            # dyadic components (exact in floating point) whose partial sums cancel exactly:
            # U22+U33+U23+U13+U12 = 0, or U33+U23+U13+U12 = 0, with either definiteness
            d = lambda lo, hi: rng.randint(lo, hi) / 256.0
            u11 = d(4, 20)
            u22, u33 = d(4, 20), d(4, 20)
            u23, u13 = -d(1, 12), -d(1, 12)
            if rng.random() < 0.5:
                u12 = -(u22 + u33 + u23 + u13)
            else:
                u12 = -(u33 + u23 + u13)
            uv = [u11, u22, u33, u23, u13, u12]
            kind = 'aniso'
            lines.append('C%d 1 %.5f %.5f %.5f 11.0 %r %r =' % (i, xyz[0], xyz[1], xyz[2], uv[0], uv[1]))
            lines.append('   %r %r %r %r' % (uv[2], uv[3], uv[4], uv[5]))
            atoms.append((xyz, uv, kind))
            continue
        if kind == 'aniso':
            U = gen_u(rng, cell)
            uv = [U[0][0], U[1][1], U[2][2], U[1][2], U[0][2], U[0][1]]
            if rng.random() < 0.2:
                # an ellipsoid aligned with the cell axes: three different diagonal terms, all off-diagonal terms zero
                uv = [round(rng.uniform(0.01, 0.09), 5), round(rng.uniform(0.01, 0.09), 5), round(rng.uniform(0.01, 0.09), 5), 0.0, 0.0, 0.0]
            lines.append('C%d 1 %.5f %.5f %.5f 11.0 %.5f %.5f =' % (i, xyz[0], xyz[1], xyz[2], uv[0], uv[1]))
            lines.append('   %.5f %.5f %.5f %.5f' % (uv[2], uv[3], uv[4], uv[5]))
        else:
            # isotropic: mostly positive; also a negative U (not positive definite) and a U tied to the pivot atom (-1.2, -1.5: positive quantities)
            uv = [rng.choice([round(rng.uniform(0.01, 0.09), 5)] * 4 + [round(rng.uniform(-0.45, -0.001), 5), -1.2, -1.5]), 0, 0, 0, 0, 0]
            if rng.random() < 0.25:
                # an isotropic atom of a structure solution: U followed by the peak height (SHELXT / SHELXS write these in front of HKLF)
                lines.append('C%d 1 %.5f %.5f %.5f 11.0 %.5f %.2f' % (i, xyz[0], xyz[1], xyz[2], uv[0], rng.uniform(1, 300)))
            else:
                lines.append('C%d 1 %.5f %.5f %.5f 11.0 %.5f' % (i, xyz[0], xyz[1], xyz[2], uv[0]))
        atoms.append((xyz, uv, kind))
    lines += ['HKLF 4', 'END']
    # Q-peaks behind END: isotropic with U = 0.05 and a peak height; never "not positive definite"
    for q in range(rng.randint(0, 2)):
        xyz = [round(rng.uniform(0, 1), 4) for _ in range(3)]
        lines.append('Q%d 1 %.4f %.4f %.4f 11.00000 0.05 %.2f' % (q + 1, xyz[0], xyz[1], xyz[2], rng.uniform(0.2, 3)))
        atoms.append((xyz, [0.05, 0, 0, 0, 0, 0], 'iso'))
    return '\n'.join(lines) + '\n', atoms


def close(a, b, rel=1e-8, ab=1e-9):
    return abs(a - b) <= ab + rel * max(abs(a), abs(b))


def oracle(ctx, n_struct):
    """Spec vs implementation on random structures; returns number of evaluations."""
    from shelxfile.shelx.shelx import Shelxfile
    from shelxfile.misc import misc
    from shelxfile.misc.dsrmath import atomic_distance, Array
    rng = ctx.rng
    evals = 0
    kinds = {}
    for _ in range(n_struct):
        kind, cell = gen_cell(rng)
        kinds[kind] = kinds.get(kind, 0) + 1
        text, atoms = build(rng, cell, rng.randint(2, 6))
        shx = Shelxfile()
        with contextlib.redirect_stdout(io.StringIO()):
            shx.read_string(text)
        case = {'cell': cell, 'text': text}
        if len(shx.atoms.all_atoms) != len(atoms):
            common.add_violation(ctx, 'generated file not read completely', case, len(atoms), len(shx.atoms.all_atoms))
            continue
        G = metric(cell)
        V = math.sqrt(det3(G))
        gi = inv_diag(G)

        def bad(what, exp, obs, extra=None):
            c = dict(case)
            if extra:
                c.update(extra)
            common.add_violation(ctx, what, c, exp, obs)

        # volume, determinant
        if not close(shx.cell.volume, V):
            bad('CELL.volume differs from sqrt(det G)', V, shx.cell.volume)
        if not close(shx.cell.o.m.det, V):
            bad('det of the orthogonalisation matrix differs from the cell volume', V, shx.cell.o.m.det)
        # the metric tensor the cell object offers: G_ij = a_i . a_j
        try:
            mm = shx.cell.o.metric_matrix
            rows = mm.values if hasattr(mm, 'values') else mm
            if not all(close(rows[r][c_], G[r][c_], 1e-8, 1e-8) for r in range(3) for c_ in range(3)):
                bad('OrthogonalMatrix.metric_matrix is not the metric tensor a_i . a_j', [list(r) for r in G], [list(r) for r in rows])
        except AttributeError:
            pass
        # the inverse the cell object offers (CELL.o.inversed, Shelxfile.orthogonal_matrix.inversed) maps Cartesian back to fractional coordinates
        for inv_name, inv in (('CELL.o.inversed', shx.cell.o.inversed), ('orthogonal_matrix.inversed', shx.orthogonal_matrix.inversed)):
            for v in ([1, 0, 0], [0, 1, 0], [0, 0, 1], [0.1234, -0.4321, 0.777]):
                c_ = list(shx.frac_to_cart(v))
                rows = inv.values if hasattr(inv, 'values') else inv
                back = [sum(rows[r][k] * c_[k] for k in range(3)) for r in range(3)]
                if not all(close(p_, q_, 1e-7, 1e-8) for p_, q_ in zip(back, v)):
                    bad('%s does not map Cartesian coordinates back to the fractional ones' % inv_name, v, back)
                    break
        # conventional setting
        e = [list(shx.frac_to_cart(v)) for v in ([1, 0, 0], [0, 1, 0], [0, 0, 1])]
        if not (close(e[0][0], cell[0]) and abs(e[0][1]) < 1e-9 and abs(e[0][2]) < 1e-9 and abs(e[1][2]) < 1e-9
                and e[1][1] > 0 and e[2][2] > 0):
            bad('orthogonalisation is not in the conventional setting (a along x, b in xy)', 'a=(a,0,0), b_z=0', e)
        # reciprocal lengths
        for nm, val, ref in (('astar', shx.cell.astar, math.sqrt(gi[0])), ('bstar', shx.cell.bstar, math.sqrt(gi[1])),
                             ('cstar', shx.cell.cstar, math.sqrt(gi[2]))):
            if not close(val, ref):
                bad('reciprocal axis length %s differs from sqrt(G^-1_ii)' % nm, ref, val)
        impl_atoms = shx.atoms.all_atoms
        for (xyz, uv, kd), at in zip(atoms, impl_atoms):
            evals += 1
            cart = list(at.cart_coords)
            c2 = list(shx.frac_to_cart(xyz))
            c3 = misc.frac_to_cart(xyz, cell)
            if not all(close(p, q) and close(p, r) for p, q, r in zip(cart, c2, c3)):
                bad('Atom.cart_coords, Shelxfile.frac_to_cart and misc.frac_to_cart disagree', c3, [cart, c2], {'xyz': xyz})
            back = misc.cart_to_frac(c3, cell)
            if not all(close(p, q, 1e-7, 1e-8) for p, q in zip(back, xyz)):
                bad('cart_to_frac(frac_to_cart(x)) differs from x', xyz, list(back), {'xyz': xyz})
            back2 = list(Array(cart) * shx.cell.o.inversed.T) if False else None
            l2 = sum(G[i][j] * xyz[i] * xyz[j] for i in range(3) for j in range(3))
            if not close(sum(v * v for v in cart), l2, 1e-8, 1e-8):
                bad('Cartesian length differs from metric-tensor length', l2, sum(v * v for v in cart), {'xyz': xyz})
            if kd == 'aniso':
                U = [[uv[0], uv[5], uv[4]], [uv[5], uv[1], uv[3]], [uv[4], uv[3], uv[2]]]
                ns = [math.sqrt(g) for g in gi]
                ueq = sum(U[i][j] * ns[i] * ns[j] * G[i][j] for i in range(3) for j in range(3)) / 3
                if not close(at.ueq, ueq, 1e-7, 1e-9):
                    bad('Ueq differs from one third of the trace of the Cartesian tensor', ueq, at.ueq, {'uvals': uv})
                m1, m2, m3 = sylvester_pd(U)
                margin = min(abs(m1), abs(m2) / 0.05, abs(m3) / 0.0025)
                if margin > 2e-4:
                    pd = m1 > 0 and m2 > 0 and m3 > 0
                    try:
                        npd = at.is_npd()
                    except Exception as ex:
                        npd = 'raised %s' % type(ex).__name__
                    if npd is not (not pd):
                        bad('is_npd() differs from "U is not positive definite" (Sylvester)', not pd, npd, {'uvals': uv})
            else:
                if uv[0] > 0 and not close(at.ueq, uv[0]):
                    bad('Ueq of an isotropic atom differs from Uiso', uv[0], at.ueq, {'uvals': uv})
                try:
                    npd = at.is_npd()
                except Exception as ex:
                    npd = 'raised %s' % type(ex).__name__
                if npd is not (-0.5 < uv[0] <= 0):
                    bad('is_npd() of an isotropic atom differs from "U is not positive" (values below -0.5 tie U to the pivot atom)', -0.5 < uv[0] <= 0, npd, {'uvals': uv})
        # pair distances
        for i in range(len(atoms) - 1):
            p, q = atoms[i][0], atoms[i + 1][0]
            d = [p[k] - q[k] for k in range(3)]
            ref = math.sqrt(sum(G[r][s] * d[r] * d[s] for r in range(3) for s in range(3)))
            got = atomic_distance(p, q, cell)
            got2 = atomic_distance(p, q, shx.cell)
            cp, cq = impl_atoms[i].cart_coords, impl_atoms[i + 1].cart_coords
            got3 = math.sqrt(sum((cp[k] - cq[k]) ** 2 for k in range(3)))
            evals += 1
            if not (close(got, ref, 1e-8, 1e-8) and close(got2, ref, 1e-8, 1e-8) and close(got3, ref, 1e-8, 1e-8)):
                bad('atomic_distance / Cartesian distance differ from the metric-tensor distance', ref, [got, got2, got3], {'p': p, 'q': q})
        if len(ctx.cov['samples']) < 3:
            common.sample(ctx, {'cell': cell, 'atoms': atoms[:2]})
    ctx.notes.setdefault('coverage_extra', {})['cell_systems'] = kinds
    return evals


def run(ctx):
    TK.stage(ctx, GEN_FILES, THEOREMS)
    evals = oracle(ctx, 8000 if ctx.thorough() else 150)
    ctx.cov['evaluations'] = evals
    ctx.cov['distinct_nontrivial'] = evals
    ctx.cov['rule'] = ('random cells of all seven crystal systems (non-degenerate: D > 0.1), atoms with random coordinates, '
                       'isotropic or anisotropic U of prescribed definiteness (margin from singular); each atom / pair is one evaluation '
                       'of the public API against the metric-tensor reference (relative tolerance 1e-8); all random, hence distinct')
    ctx.assumptions += ['is_npd: the decision tree is traced from the source on every run (k_npd, every path incl. the isotropic ranges) and proved to report '
                        'exactly the tensors that are not positive definite (C12_npd_aniso_correct: Sylvester + congruence of U and U(cart)); floating-point '
                        'rounding of the minors near zero is not modelled; misc.eigenvals (QR iteration) is no longer used by is_npd and is not modelled']


def replay(ctx, rp):
    print('replay: the stored case (cell + file text) is re-run through the oracle')
    v = rp['violation']['case']
    from shelxfile.shelx.shelx import Shelxfile
    shx = Shelxfile()
    with contextlib.redirect_stdout(io.StringIO()):
        shx.read_string(v['text'])
    G = metric(v['cell'])
    V = math.sqrt(det3(G))
    print('volume', shx.cell.volume, 'reference', V)
    for at in shx.atoms.all_atoms:
        print(at.name, at.cart_coords, at.ueq)
    return 0
