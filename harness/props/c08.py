"""C08 — the object model stays self-consistent over any history of reads and edits.
Theorems: coq/Props/C08.v (Model/Edit.v index_of_id: the position found for an identity holds that identity, exactly one
position when identities are distinct, none when absent; deleting a position removes that identity and no other; positions of
the remaining entries follow the specification of C04).  Tie B: index_of_id is evaluated inside Coq on the identity lists of
the implementation's line list after every history and compared with obj.index for every reachable object.
Failing-input search: after every step of random histories (files with identical atom lines in two residues included) every
atom and instruction reports the position that holds it, IDs are unique, look-ups return the atom, deleted atoms are gone from
every view; re-reading on a used object gives the model a fresh object gives."""
import common
from common import clist
from gen import resfile as rf
import impl_model as im
from props import edit_common as ec
from props import c04

THEOREMS = ['C08_index_of_id_correct', 'C08_index_of_id_unique', 'C08_index_of_id_absent', 'C08_remove_at_ids', 'C08_abs_step', 'C08_edit_example']
IMPORTS = 'From SX Require Import Base.Prelude Base.Str Model.Edit.\n'


KEYWORDS4 = set(k[:4] for k in rf.SYNTAX) | {'TITL', 'CELL', 'ZERR', 'LATT', 'SYMM', 'SFAC', 'UNIT', 'FVAR', 'HKLF', 'END', 'RESI', 'PART', 'AFIX', 'REM', 'MOLE', 'FRAG', 'FEND', 'DISP', 'L.S.', 'CGLS'}


def reachable(shx):
    objs = list(shx.atoms.all_atoms)
    for nm in ('plan', 'cycles', 'wght', 'unit', 'hklf', 'acta', 'cell', 'zerr', 'latt', 'fvars', 'size', 'temp_card', 'list_card', 'fmap', 'conn', 'omit', 'defs'):
        x = getattr(shx, nm, None)
        if x is not None and hasattr(x, 'index') and not isinstance(x, (int, float, str, list)):
            objs.append(x)
    objs += list(shx.restraints)
    return objs


def check_state(ctx, shx, case, deleted, names_too=True, foreign=None):
    try:
        return check_state_(ctx, shx, case, deleted, names_too, foreign)
    except Exception as e:
        common.add_violation(ctx, 'the atom list holds something that does not behave like an atom of the file (inspecting it raises)', case, 'atoms of the file',
                             '%s: %s; atom list: %s' % (type(e).__name__, e, [getattr(a, 'name', '?') for a in shx.atoms.all_atoms][:12]))
        return False


def check_state_(ctx, shx, case, deleted, names_too=True, foreign=None):
    from shelxfile.atoms.atom import Atom
    ats = shx.atoms.all_atoms
    ids = []
    for a in ats:
        try:
            i = a.index
        except ValueError:
            common.add_violation(ctx, 'an atom of the atom list has no position in the file', dict(case, atom=a.fullname), 'a position', 'ValueError')
            return False
        if shx._reslist[i] is not a:
            common.add_violation(ctx, 'an atom reports a position at which the file holds a different object', dict(case, atom=a.fullname), 'the atom itself', str(shx._reslist[i])[:60])
            return False
        if a.atomid != i:
            common.add_violation(ctx, 'atom ID and position disagree', dict(case, atom=a.fullname), i, a.atomid)
            return False
        ids.append(a.atomid)
        if shx.atoms.get_atom_by_id(a.atomid) is not a:
            common.add_violation(ctx, 'look-up by ID returns a different atom', dict(case, atom=a.fullname), a.fullname, getattr(shx.atoms.get_atom_by_id(a.atomid), 'fullname', None))
            return False
    if len(set(ids)) != len(ids):
        common.add_violation(ctx, 'atom IDs are not unique', case, 'unique', sorted(ids))
        return False
    names = [a.fullname.upper() for a in ats]
    # the look-ups by name build the cached name index; they are left out at random after some steps so that the next edit also meets
    # an index that has just been cleared (after a deletion) or has never been built (a file without restraints)
    if names_too and len(set(names)) == len(names):
        for a in ats:
            if shx.atoms.get_atom_by_name(a.fullname) is not a:
                common.add_violation(ctx, 'look-up by name_residue returns a different atom', dict(case, atom=a.fullname), a.fullname,
                                     getattr(shx.atoms.get_atom_by_name(a.fullname), 'fullname', None))
                return False
    # the context instructions of the file are objects at their lines (atoms refer to them): a PART / AFIX / RESI line that is still text while
    # the atoms behind it carry an object for it has no position
    for i, x in enumerate(shx._reslist):
        if isinstance(x, str) and x.split() and x.split()[0].upper() in ('PART', 'AFIX', 'RESI') and i not in shx.delete_on_write and len(x.split()) > 1:
            later = [a for a in ats if a.index > i]
            if later and not any(obj is o for a in later[:1] for obj in (a.part, a.afix, a.resi) for o in shx._reslist):
                pass
            if later:
                a = later[0]
                kw = x.split()[0].upper()
                obj = {'PART': a.part, 'AFIX': a.afix, 'RESI': a.resi}[kw]
                try:
                    obj.index
                except ValueError:
                    common.add_violation(ctx, 'an instruction object that atoms refer to (%s) has no position: its line is still text' % kw, dict(case, line=x), 'an object at line %d' % i, 'ValueError')
                    return False
                except Exception:
                    pass
    for x in reachable(shx):
        if isinstance(x, Atom):
            continue
        try:
            i = x.index
        except (ValueError, AttributeError):
            continue          # objects that are not part of the line list (e.g. absorbed into a table) have no position
        if shx._reslist[i] is not x and not (shx._reslist[i] == x and type(shx._reslist[i]) is type(x) and str(shx._reslist[i]) == str(x)):
            common.add_violation(ctx, 'an instruction object reports a position at which the file holds something else', dict(case, obj=str(x)[:60]), str(x)[:60], str(shx._reslist[i])[:60])
            return False
    # the written file holds exactly the atoms of the atom list that belong to the file itself (not to an include file), in order
    if names_too:
        written = im.write_text(shx)
        wnames, infrag = [], False
        for l in rf.independent_lex(written):
            t = l['tokens']
            if not t or l['free']:
                continue
            if t[0].upper() == 'FRAG':
                infrag = True
            elif t[0].upper() == 'FEND':
                infrag = False
            elif not infrag and len(t) >= 5 and t[0][:4].upper() not in KEYWORDS4:
                try:
                    int(t[1]); float(t[2]); float(t[3]); float(t[4])
                    wnames.append(t[0].upper())
                except ValueError:
                    pass
        if foreign is not None:
            # the atoms that came from an include file are known by identity from the start of the history: the marks the writer
            # uses (delete_on_write) are the thing under test, not the reference
            own = [a.name.upper() for a in ats if not any(a is f for f in foreign)]
        else:
            own = [a.name.upper() for a in ats if a.index not in shx.delete_on_write]
        if wnames != own:
            common.add_violation(ctx, 'the atoms in the written file are not the atoms of the atom list (those of include files apart), in order', case, own, wnames)
            return False
    for d in deleted:
        views = {'atom list': any(a is d for a in ats), 'line list': any(x is d for x in shx._reslist),
                 'name index': names_too and any(v is d for v in shx.atoms.atomsdict.values()), 'hydrogen list': any(a is d for a in shx.atoms.hydrogen_atoms),
                 'riding list': any(a is d for a in shx.atoms.riding_atoms), 'Q-peak list': any(a is d for a in shx.atoms.q_peaks)}
        left = [k for k, v in views.items() if v]
        if left:
            common.add_violation(ctx, 'a deleted atom is still present in a view', dict(case, atom=d.name), 'gone from every view', left)
            return False
    return True


def summary(shx):
    return {'atoms': im.atoms_table(shx), 'instr': im.instr_tokens(shx), 'del': sorted(shx.delete_on_write), 'fvars': [str(x) for x in shx.fvars.as_stringlist],
            'sfac': list(shx.sfac_table.elements_list), 'symm': [str(s) for s in shx.symmcards], 'restraints': [str(r) for r in shx.restraints],
            'resi': sorted((k, tuple(v)) for k, v in shx.residues.residue_classes.items()), 'errors': list(shx.restraint_errors),
            'hklf': str(shx.hklf), 'end': shx.end, 'nlines': len(shx._reslist), 'frag': str(shx.frag), 'afix': str(getattr(shx, 'afix', None)),
            'part': str(getattr(shx, 'part', None)), 'resi_now': str(getattr(shx, 'resi', None)), 'R1': shx.R1, 'wr2': shx.wr2, 'goof': shx.goof,
            'temp': shx.temp_in_kelvin, 'wavelen': shx.wavelength, 'file': str(shx.resfile) if getattr(shx, 'resfile', None) else None}


duplicate_file = ec.duplicate_file


def run(ctx):
    common.check_obligations(ctx, THEOREMS)
    rng = ctx.rng
    nh = 12000 if ctx.thorough() else 120
    ev = 0
    id_cases = []
    on_disk = None
    for k in range(nh):
        text = duplicate_file(rng) if k % 5 == 4 else c04.make_file(rng, 'wild' if k % 4 == 3 else 'plain')
        if on_disk is not None:
            __import__('shutil').rmtree(on_disk[0], ignore_errors=True)      # left behind by an iteration that ended early
        on_disk = None
        if k % 6 == 1:
            # a file that pulls in an include file (its lines are in the line list, marked as not to be written)
            import tempfile as _tf2
            inc_dir = _tf2.mkdtemp(prefix='verif-c08i-')
            main, text = c04.with_include(c04.make_file(rng, 'plain'), rng, inc_dir)
            st, inn, shx = im.read_text(None, 'quiet', path=main)
            on_disk = (inc_dir, main)
        else:
            st, inn, shx = im.read_text(text, 'quiet')
        if st != 'ok' or inn:
            common.add_violation(ctx, 'a valid file raises', {'text': text}, 'ok', '%s %s' % (st, inn))
            continue
        h = ec.History(shx, rng)
        deleted = []
        foreign = [e.obj for e in h.ents if e.kind == 'atom' and e.absorbed] if k % 6 == 1 else None
        if not check_state(ctx, shx, {'text': text, 'history': []}, deleted, names_too=rng.random() < 0.5, foreign=foreign):
            continue
        ok = True
        for s in range(rng.randint(1, 10)):
            before = list(shx.atoms.all_atoms)
            try:
                if s == 0 and foreign and rng.random() < 0.7:
                    # the scripted case: the atom on the last line of the include file goes first
                    h.force_last_hidden = True
                    name = h.step('delete_atom')
                    scripted = True
                else:
                    name = h.step()
                    scripted = False
            except Exception as e:
                common.add_violation(ctx, 'an edit through the public API raises', {'text': text, 'history': h.log}, 'no exception', '%s: %s' % (type(e).__name__, e))
                ok = False
                break
            if not name:
                continue
            ev += 1
            if name == 'delete_atom':
                gone = [a for a in before if not any(a is b for b in shx.atoms.all_atoms)]
                if len(gone) != 1 or len(shx.atoms.all_atoms) != len(before) - 1:
                    common.add_violation(ctx, 'deleting one atom removes %d atoms' % len(gone), {'text': text, 'history': h.log}, 1, len(gone))
                    ok = False
                    break
                deleted += gone
            if not check_state(ctx, shx, {'text': text, 'history': h.log}, deleted, names_too=scripted or rng.random() < 0.5, foreign=foreign):
                ok = False
                break
        if ok and not check_state(ctx, shx, {'text': text, 'history': h.log}, deleted, foreign=foreign):
            ok = False
        if not ok:
            continue
        # identities of the line list for the Coq side: position -> running number of the object
        ident = {}
        ids = []
        for x in shx._reslist:
            key = id(x) if not isinstance(x, str) else ('s', len(ids))
            ids.append(ident.setdefault(key, len(ident)))
        look = [(ident[id(x)], x.index) for x in reachable(shx) if id(x) in ident]
        id_cases.append((ids, look))
        # reload() reads the (untouched) file again: everything done to the object in memory is gone
        if on_disk is not None:
            try:
                if rng.random() < 0.7:
                    st0, in0, fresh0 = im.read_text(None, 'quiet', path=on_disk[1])
                    with __import__('contextlib').redirect_stdout(__import__('io').StringIO()):
                        shx.reload()
                    ev += 1
                    a0, b0 = summary(fresh0), summary(shx)
                    if a0 != b0:
                        diff = [key for key in a0 if a0[key] != b0[key]]
                        common.add_violation(ctx, 'reload() of the unchanged file on an edited object gives a different model than reading the file with a fresh object',
                                             {'text': text, 'history': h.log}, 'identical',
                                             {'differs_in': diff, 'fresh': str([a0[d] for d in diff])[:200], 'reloaded': str([b0[d] for d in diff])[:200]})
            finally:
                __import__('shutil').rmtree(on_disk[0], ignore_errors=True)
        # re-reading resets all state
        other = c04.make_file(rng, 'plain')
        st1, in1, fresh = im.read_text(other, 'quiet')
        with __import__('contextlib').redirect_stdout(__import__('io').StringIO()):
            shx.read_string(other)
        ev += 1
        a, b = summary(fresh), summary(shx)
        if a != b:
            diff = [key for key in a if a[key] != b[key]]
            common.add_violation(ctx, 're-reading another file on a used object gives a different model than a fresh object', {'text': text, 'history': h.log, 'second_text': other},
                                 'identical', {'differs_in': diff, 'fresh': str([a[d] for d in diff])[:200], 'reused': str([b[d] for d in diff])[:200]})
        # ... also when the second read fails: a file that cannot be decoded (read_file() returns without a model) or does not exist
        if k % 4 == 0:
            import os as _os, tempfile as _tf
            from shelxfile.shelx.shelx import Shelxfile as _S
            d_ = _tf.mkdtemp(prefix='verif-c08-')
            try:
                badp = _os.path.join(d_, 'latin1.res')
                open(badp, 'wb').write(other.replace('TITL', 'TITL \u00e4\u00f6', 1).encode('latin-1'))
                for what, path in (('a file that cannot be decoded', badp), ('a missing file', _os.path.join(d_, 'nothing.res'))):
                    outcomes = []
                    for obj in (_S(), shx):
                        try:
                            with __import__('contextlib').redirect_stdout(__import__('io').StringIO()):
                                obj.read_file(path)
                            res_ = 'returned'
                        except Exception as e_:
                            res_ = type(e_).__name__
                        outcomes.append((res_, len(obj._reslist), len(obj.atoms.all_atoms), sorted(obj.delete_on_write), obj.R1, getattr(obj.cell, 'a', None) if obj.cell else None,
                                         len(list(obj.restraints)), obj.titl if hasattr(obj, 'titl') else None))
                    ev += 1
                    if outcomes[0] != outcomes[1]:
                        common.add_violation(ctx, 'reading %s on a used object leaves another state than on a fresh object' % what, {'text': text, 'history': h.log},
                                             str(outcomes[0]), str(outcomes[1]))
                    with __import__('contextlib').redirect_stdout(__import__('io').StringIO()):
                        shx.read_string(other)      # a model again for the next attempt
            finally:
                __import__('shutil').rmtree(d_, ignore_errors=True)
        if k < 1:
            common.sample(ctx, {'history': [str(x) for x in h.log], 'positions': look[:8]})
    # class-level shared data: the model of a file does not depend on what was read before in the same process
    t1 = c04.make_file(rng, 'plain')
    m1 = summary(im.read_text(t1, 'quiet')[2])
    for _ in range(10):
        sh = im.read_text(c04.make_file(rng, 'plain'), 'quiet')[2]
        try:
            with __import__('contextlib').redirect_stdout(__import__('io').StringIO()):
                sh.grow()
        except Exception:
            pass
    m2 = summary(im.read_text(t1, 'quiet')[2])
    ev += 1
    if m1 != m2:
        common.add_violation(ctx, 'the model of a file depends on files read earlier in the same process', {'text': t1}, 'identical', [key for key in m1 if m1[key] != m2[key]])
    # correspondence: index_of_id on the identity lists
    terms = []
    for ids, look in id_cases:
        terms.append('forallb (fun p : nat * nat => match index_of_id (fst p) %s with Some k => Nat.eqb k (snd p) | None => false end) %s' % (
            clist(['%d%%nat' % i for i in ids]), clist(['(%d%%nat, %d%%nat)' % p for p in look])))
    step = 40
    packs = [('', ['bad_indices (fun b : bool => b) %s' % clist(terms[k:k + step])]) for k in range(0, len(terms), step)]
    results = common.coq_eval_sharded(ctx, 'c08', IMPORTS, None, packs)
    for si, res in enumerate(results):
        if common.parse_nat_list(res[0]):
            ctx.broken.append('correspondence: index_of_id on the identities of the line list differs from obj.index of the implementation')
            break
    ctx.cov['evaluations'] = ev + len(id_cases)
    ctx.cov['distinct_nontrivial'] = ev
    ctx.cov['rule'] = ('random histories of 1-10 API edits on generator files and on files with three residues holding atoms with identical text lines; after every step: '
                       'position / identity of every atom and reachable instruction object, unique IDs, look-ups by ID and name_residue, deleted atoms absent from six views; '
                       'after every history a second file is read on the used object and compared with a fresh object (21 state components); one in-process independence run')
    ctx.assumptions += ['the reset of state by re-reading is checked by differential runs only (it is a statement about Python object initialisation, not modelled in Coq)',
                        'object identity is modelled as a number per stored object']


def replay(ctx, rp):
    c = rp['violation']['case']
    print('replay: history', c.get('history'))
    return 0
