"""C02 — valid input is parsed to the end, identically in all modes; quiet mode never raises.
Theorems: coq/Props/C02.v over Model/Cards.v (which tokens are numbers, when a constructor raises) and the syntax
table Spec/Syntax.v (generated from the same Python table the generators use, compared with the library's own
syntax summary on every run).  Tie B: the model's accept/raise decision is evaluated in Coq on a grid
keyword x number of numeric parameters x number of names and compared with the implementation in all three modes."""
import random

import common
from common import clist, cstr, cbool
from gen import resfile as rf
import impl_model as im
import gen_syntax_v

THEOREMS = ['C02_handle_valid', 'C02_parse_reaches_end', 'C02_accepts_table', 'C02_cmd_params_valid', 'C02_rst_params_valid',
            'C02_name_is_word', 'C02_sadi_valid', 'C02_parse_modes_agree', 'C02_quiet_never_raises']
IMPORTS = 'From SX Require Import Base.Prelude Base.Str Model.Symm Model.Cards Spec.Syntax Proofs.CardsProofs.\n'
HEAD = ['TITL test', 'CELL 0.71073 10.5 11.2 12.3 90 95.5 90', 'ZERR 4 0.001 0.001 0.001 0 0.01 0', 'LATT 1', 'SYMM -X, 1/2+Y, 1/2-Z',
        'SFAC C H O N', 'UNIT 16 20 4 2', 'FVAR 1.0 0.6']
ATOMS = ['C1 1 0.1 0.2 0.3 11.0 0.04', 'O1 3 0.2 0.3 0.4 11.0 0.05', 'N1 4 0.3 0.3 0.4 11.0 0.05', 'C2 1 0.4 0.2 0.3 11.0 0.04']
TAIL = ['HKLF 4', 'END']
MODES = ('quiet', 'verbose', 'debug')


def grid_tokens(kw, n, w):
    if kw in ('AFIX', 'MPLA', 'L.S.', 'CGLS', 'LIST', 'MORE', 'HKLF', 'PART'):
        nums = [str(2 + i) for i in range(n)]
    elif kw == 'DANG':
        nums = [str(2.5 - 0.25 * i) for i in range(n)]
    else:
        nums = [str(1.5 + 0.25 * i) for i in range(n)]
    return nums + rf.ATOM_NAMES[:w]


def impl_accepts(kw, params):
    """accepted = no mode raises and the four atoms after the instruction are read in every mode"""
    res = []
    for mode in MODES:
        status, inner, shx = im.read_text('\n'.join(HEAD + [' '.join([kw] + params)] + ATOMS + TAIL) + '\n', mode)
        res.append((status, inner, len(shx.atoms.all_atoms)))
    ok = all(r == ('ok', None, 4) for r in res)
    rejected = res[2][0] != 'ok' and res[0][2] < 4       # raises in debug, stops silently in quiet
    return ok, rejected, res


def run_grid(ctx):
    kws = list(rf.SYNTAX) + ['RTAB', 'PART']
    skip = {'ANSC', 'ANSR', 'EXTI', 'LIST', 'TEMP', 'SADI', 'DFIX', 'DANG', 'SAME', 'HKLF', 'RTAB'}
    cases = []
    for kw in kws:
        for n in range(0, 15 if ctx.thorough() else 12):
            for w in range(0, 6 if ctx.thorough() else 4):
                if kw in ('ANSC', 'ANSR', 'EXTI', 'LIST', 'TEMP') and w:
                    continue          # these read raw tokens with float()/int(): names are outside the model
                if kw in ('SADI', 'DFIX', 'DANG') and w % 2:
                    continue          # odd number of atoms: _paircheck raises in debug mode only (invalid input)
                if kw == 'HKLF' and n > 13:
                    continue
                params = grid_tokens(kw, n, w)
                ok, rej, res = impl_accepts(kw, params)
                cases.append((kw, params, ok, rej, res))
    defs = 'Definition cases : list (string * list str * bool) := %s.\n' % clist(
        ['("%s"%%string, %s, %s)' % (kw, clist(['lit ' + cstr(p) for p in params]), cbool(ok)) for kw, params, ok, rej, res in cases])
    defs += 'Definition chk (c : string * list str * bool) : bool := let \'(kw, ps, r) := c in Bool.eqb (handle kw ps) r.\n'
    res = common.coq_eval(ctx, 'c02grid', IMPORTS, defs, ['bad_indices chk cases'])
    for b in common.parse_nat_list(res[0])[:10]:
        kw, params, ok, rej, r = cases[b]
        ctx.broken.append('correspondence Model/Cards.v differs from the implementation: %s %s -> implementation %s' % (kw, ' '.join(params), r))
    mixed = [c for c in cases if not c[2] and not c[3]]
    for kw, params, ok, rej, r in mixed[:5]:
        ctx.broken.append('implementation neither accepts nor rejects consistently in the three modes: %s %s -> %s' % (kw, ' '.join(params), r))
    return len(cases), sum(1 for c in cases if c[2])


def covering(ctx):
    """every keyword x every admissible arity x position x mode, against the expected atom list"""
    rng = ctx.rng
    ev = 0
    for kw, (lo, hi, words, sfx, defaults) in rf.SYNTAX.items():
        ar = rf.ARITIES.get(kw, list(range(lo, hi + 1)))
        for n in ar:
            wl = [None] if not words else sorted({words[0], words[1]})
            for w in wl:
                toks, nums, ws = rf.instr_tokens(rng, kw, ['C1', 'O1', 'N1', 'C2'], arity=n, nwords=w)
                if kw == 'AFIX':
                    toks = ['AFIX', '0'] if n == 1 else toks[:1] + ['43', '0.98', '11.0', '-1.2'][:n]
                for pos, lower in ((0, False), (2, False), (4, False), (2, True)):
                    if kw == 'HKLF' and pos != 4:
                        continue
                    line = ' '.join([toks[0].lower() if lower else toks[0]] + toks[1:])
                    body = ATOMS[:pos] + [line] + ATOMS[pos:]
                    tail = TAIL if kw != 'HKLF' else ['END']
                    lines = HEAD + body + tail
                    text = '\n'.join(lines) + '\n'
                    models = []
                    for mode in MODES:
                        status, inner, shx = im.read_text(text, mode)
                        ev += 1
                        case = {'instruction': line, 'position': pos, 'mode': mode, 'text': text}
                        names = [a.name for a in shx.atoms.all_atoms]
                        if status != 'ok' or inner:
                            common.add_violation(ctx, 'a valid instruction raises', case, 'no exception', status + ' / ' + str(inner))
                            continue
                        if names != ['C1', 'O1', 'N1', 'C2']:
                            common.add_violation(ctx, 'atoms after a valid instruction are not recognised', case, ['C1', 'O1', 'N1', 'C2'], names)
                            continue
                        if shx.error_line_num != len(lines) - 1:
                            common.add_violation(ctx, 'parsing did not reach the last line', case, len(lines) - 1, shx.error_line_num)
                        if kw != 'HKLF' and shx.hklf is None:
                            common.add_violation(ctx, 'HKLF after a valid instruction is not recognised', case, 'HKLF object', None)
                        models.append((im.atoms_table(shx), im.instr_tokens(shx)))
                    if len(models) == 3 and not (models[0] == models[1] == models[2]):
                        common.add_violation(ctx, 'the model differs between quiet, verbose and debug mode', {'instruction': line, 'text': text}, 'identical', 'different')
    return ev


FOOTERS = [
    ['REM  test in P2(1)/c', 'REM wR2 = 0.1005, GooF = S = 1.016, Restrained GooF = 1.016 for all data',
     'REM R1 = 0.0400 for 1234 Fo > 4sig(Fo) and 0.0500 for all 2000 data', 'REM 100 parameters refined using 10 restraints'],
    ['REM R1 = 0.0400 for 0 Fo > 4sig(Fo) and 0.0500 for all 0 data', 'REM 0 parameters refined using 0 restraints'],
    ['REM R1 = 0.0400 for 1234 Fo > 4sig(Fo) and 0.0500 for all 2000 data', 'REM 0 parameters refined using 0 restraints'],
    ['REM 12 parameters refined using 0 restraints', 'REM R1 = 0.0400 for 1234 Fo > 4sig(Fo) and 0.0500 for all 2000 data'],
    ['REM wR2 = 0.1, GooF = S = 1.0, Restrained GooF = 1.0 for all data', 'REM R1 = for and'], ['REM Highest difference peak 0.5, deepest hole -0.3, 1-sigma level 0.05'],
    ['REM R1 =', 'REM parameters refined', 'REM 5 parameters refined'], ['rem 0 parameters refined using 0 restraints', 'Rem R1 = 0.1 for 1 Fo > 4sig(Fo) and 0.2 for all 2 data'],
]


CONTEXT_FORMS = ['RESI 3HB 12', 'RESI 12 3HB', 'RESI TOL 1', 'RESI 1 TOL', 'RESI 5', 'RESI -1 TOL', 'RESI A:100 TOL', 'RESI 2 TOL 7', 'resi tol 3', 'RESI 0',
                 'PART 1', 'PART -1', 'PART 2 21.0', 'PART 1 -21', 'part 2', 'PART 0', 'AFIX 137', 'AFIX 43 0.95', 'AFIX 66 1.39 11.0 0.05', 'afix 23', 'AFIX 0',
                 'MOLE 2', 'EQIV $1 -x, 1-y, -z', 'EQIV $2 x+1/2, y, z', 'BASF 0.3 0.2', 'SUMP 1.0 0.01 1.0 2 1.0 3', 'SAME C1 > C2',
                 'FLAT C1 > C2 O1 N1', 'SADI_3HB C1 O1 O1 N1', 'DFIX_* 1.5 C1 O1', 'SIMU $C', 'RIGU C1 > N1', 'HFIX 43 C1', 'ANIS $C', 'ANIS', 'CONF', 'BOND $H', 'HTAB', 'ACTA NOHKL',
                 'LIST 4 ! comment', 'TEMP -173(2)', '+missing_include_file.txt']


def context_forms(ctx):
    """RESI / PART / AFIX and other instructions in the spellings of the manual, followed by atoms, in all three modes"""
    ev = 0
    for form in CONTEXT_FORMS:
        for pos in (0, 2):
            lines = HEAD + ATOMS[:pos] + [form] + ATOMS[pos:] + ['AFIX 0', 'PART 0', 'RESI 0'] + TAIL
            text = '\n'.join(lines) + '\n'
            models = []
            for mode in MODES:
                status, inner, shx = im.read_text(text, mode)
                ev += 1
                case = {'instruction': form, 'mode': mode, 'text': text}
                if status != 'ok' or inner:
                    common.add_violation(ctx, 'a valid instruction raises', case, 'no exception', status + ' / ' + str(inner))
                    continue
                names = [a.name for a in shx.atoms.all_atoms]
                if names != ['C1', 'O1', 'N1', 'C2'] or shx.error_line_num != len(lines) - 1 or not shx.end:
                    common.add_violation(ctx, 'atoms or END after a valid instruction are not reached', case, ['C1', 'O1', 'N1', 'C2'], names)
                    continue
                models.append((im.atoms_table(shx), im.instr_tokens(shx)))
            if len(models) == 3 and not (models[0] == models[1] == models[2]):
                common.add_violation(ctx, 'the model differs between quiet, verbose and debug mode', {'instruction': form, 'text': text}, 'identical', 'different')
    return ev


def footers(ctx):
    """remarks in the form SHELXL writes behind the atoms (the library reads numbers out of them), with degenerate counts"""
    ev = 0
    for ft in FOOTERS:
        for tail in (['HKLF 4'] + ft + ['END', 'WGHT 0.05 0.3', 'REM Highest difference peak 0.5, deepest hole -0.3, 1-sigma level 0.05', 'Q1 1 0.1 0.2 0.3 11.0 0.05 1.2'],
                     ft + ['HKLF 4', 'END']):
            lines = HEAD + ATOMS + tail
            text = '\n'.join(lines) + '\n'
            models = []
            for mode in MODES:
                status, inner, shx = im.read_text(text, mode)
                ev += 1
                case = {'mode': mode, 'text': text}
                if status != 'ok' or inner:
                    common.add_violation(ctx, 'a file with the remarks SHELXL writes behind the atoms raises', case, 'no exception', status + ' / ' + str(inner))
                    continue
                if shx.error_line_num != len(lines) - 1 or not shx.end:
                    common.add_violation(ctx, 'parsing did not reach the last line (remarks behind the atoms)', case, len(lines) - 1, shx.error_line_num)
                    continue
                models.append((im.atoms_table(shx), im.instr_tokens(shx)))
            if len(models) == 3 and not (models[0] == models[1] == models[2]):
                common.add_violation(ctx, 'the model differs between quiet, verbose and debug mode', {'text': text}, 'identical', 'different')
    return ev


LONG_FORMS = [
    ('atom', 'C3 1 0.5 0.5 0.5 11.0 0.02 0.03 0.04 0.001 0.002 0.003'),
    ('body', 'SADI 0.02 C1 O1 O1 N1 N1 C2 C1 C2'),
    ('body', 'SIMU 0.04 0.08 1.7 C1 O1 N1 C2'),
    ('body', 'FLAT 0.1 C1 O1 N1 C2'),
    ('body', 'WGHT 0.1 0.2 0.0 0.0 0.0 0.3333'),
    ('body', 'OMIT C1 O1 N1 C2'),
    ('body', 'EQIV $1 -x+1, -y+1, -z+1'),
    ('fvar', 'FVAR 1.0 0.6 0.5 0.4 0.3 0.2'),
    ('sfac', 'SFAC CU 0.1 0.2 0.3 0.4 0.5 0.6 0.7 0.8 0.9 1.0 1.1 1.2 1.3 63.5'),
    ('hklf', 'HKLF 4 1 1 0 0 0 1 0 0 0 1 1 0'),
]


def split_lines(tokens, k):
    """the instruction over k physical lines (k - 1 continuation marks)"""
    k = min(k, len(tokens))
    cuts = [round(i * len(tokens) / k) for i in range(k + 1)]
    parts = [' '.join(tokens[cuts[i]:cuts[i + 1]]) for i in range(k)]
    return [parts[0] + ' ='] + ['   ' + q + ' =' for q in parts[1:-1]] + ['   ' + parts[-1]]


def continuations(ctx):
    """instructions that become objects, spread over three, four and five physical lines: the model must be the one of the one-line form, in all modes"""
    ev = 0
    for where, form in LONG_FORMS:
        toks = form.split()
        ref = None
        for k in (1, 2, 3, 4, 5):
            phys = [form] if k == 1 else split_lines(toks, k)
            head, body, tail = list(HEAD), list(ATOMS), list(TAIL)
            if where == 'fvar':
                head = HEAD[:-1] + phys
            elif where == 'sfac':
                head = HEAD[:6] + phys + ['UNIT 16 20 4 2 1'] + HEAD[7:]
            elif where == 'hklf':
                tail = phys + ['END']
            else:
                body = ATOMS[:2] + phys + ATOMS[2:]
            lines = head + body + tail
            text = '\n'.join(lines) + '\n'
            for mode in MODES:
                status, inner, shx = im.read_text(text, mode)
                ev += 1
                case = {'instruction': form, 'physical_lines': k, 'mode': mode, 'text': text}
                if status != 'ok' or inner:
                    common.add_violation(ctx, 'a valid instruction spread over several lines raises', case, 'no exception', status + ' / ' + str(inner))
                    continue
                if shx.error_line_num != len(lines) - 1 or not shx.end:
                    common.add_violation(ctx, 'parsing did not reach the last line (instruction spread over several lines)', case, len(lines) - 1, shx.error_line_num)
                    continue
                stream = []
                for kind, val in im.instr_tokens(shx):
                    if kind == 'raw':       # instructions kept as text keep their physical lines: compare the tokens
                        t = val.split()
                        stream += t[:-1] if t and t[-1] == '=' else t
                    else:
                        stream += [kind] + (val if isinstance(val, list) else [val])
                model = (im.atoms_table(shx), stream, [list(r.atoms) for r in shx.restraints],
                         [float(f.fvar_value) for f in shx.fvars.fvars], len(shx.sfac_table.elements_list))
                if ref is None:
                    ref = model
                elif model != ref:
                    common.add_violation(ctx, 'the model of an instruction spread over several lines differs from the model of its one-line form', case, 'identical', 'different')
    return ev


HEADER_FORMS = [
    # (lines inserted between SFAC and UNIT, what)
    ['DISP C 0.0033 0.0016 11.5'], ['DISP C 0.0033 0.0016 11.5', 'DISP H 0 0 0.6'], ['DISP C 0.0033 0.0016 11.5', 'DISP H 0 0 0.6', 'DISP O 0.0106 0.006 32.5'],
    ['DISP $C 0.0033 0.0016', 'DISP N 0.0061 0.0033 19.6'], ['disp c 0.0033 0.0016 11.5', 'Disp H 0 0'],
]


ATOM_FORMS = ['C9 1 10.25 0.5 0.3 11.0 0.04', 'C9 1 -10.25 0.5 0.3 11.0 0.04', 'C9 1 0.2 9.75 0.3 11.0 0.04', 'C9 1 0.2 0.5 19.75 11.0 0.04', 'C9 1 20.5 0.5 -20.25 21.0 0.04',
              'C9 1 9.5 10.5 0.25 10.5 0.04', 'C9 1 0.2 0.5 0.3', 'C9 1 0.2 0.5 0.3 11.0', 'C9 1 0.2 0.5 0.3 -21.0 -1.2', 'C9 1 -0.99999 1.99999 0.00001 11.0 10.05',
              'C9 1 0.2 0.5 0.3 11.0 0.02 0.03 0.04 0.001 -0.002 0.003', 'c9 1 0.2 0.5 0.3 11.0 0.04',
              'C9 1 0.2 0.5 0.3 0.00001 0.04', 'C9 1 0.2 0.5 0.3 11.0 0.00002', 'C9 1 0.00001 -0.00002 0.3 10.00001 0.04', 'C9 1 0.2 0.5 0.3 -0.00005 0.04']


def atom_forms(ctx):
    """atom lines in the forms of the manual (fixed and free-variable coordinate codes, also below a multiple of ten; 5 to 12 columns): recognised in every mode"""
    ev = 0
    for form in ATOM_FORMS:
        lines = HEAD + ATOMS[:2] + [form] + ATOMS[2:] + TAIL
        text = '\n'.join(lines) + '\n'
        models = []
        for mode in MODES:
            status, inner, shx = im.read_text(text, mode)
            ev += 1
            case = {'instruction': form, 'mode': mode, 'text': text}
            if status != 'ok' or inner:
                common.add_violation(ctx, 'a valid atom line raises', case, 'no exception', status + ' / ' + str(inner))
                continue
            names = [a.name.upper() for a in shx.atoms.all_atoms]
            if names != ['C1', 'O1', 'C9', 'N1', 'C2'] or shx.error_line_num != len(lines) - 1 or not shx.end:
                common.add_violation(ctx, 'a valid atom line is not recognised as an atom (or the parse does not go on behind it)', case, ['C1', 'O1', 'C9', 'N1', 'C2'], names)
                continue
            models.append((im.atoms_table(shx), im.instr_tokens(shx)))
        if len(models) == 3 and not (models[0] == models[1] == models[2]):
            common.add_violation(ctx, 'the model differs between quiet, verbose and debug mode', {'instruction': form, 'text': text}, 'identical', 'different')
    return ev


def header_forms(ctx):
    """instructions that belong between SFAC and UNIT (one to three DISP lines), in all three modes"""
    ev = 0
    for ins in HEADER_FORMS:
        lines = HEAD[:6] + ins + HEAD[6:] + ATOMS + TAIL
        text = '\n'.join(lines) + '\n'
        models = []
        for mode in MODES:
            status, inner, shx = im.read_text(text, mode)
            ev += 1
            case = {'instruction': ' / '.join(ins), 'mode': mode, 'text': text}
            if status != 'ok' or inner:
                common.add_violation(ctx, 'a valid instruction raises', case, 'no exception', status + ' / ' + str(inner))
                continue
            names = [a.name for a in shx.atoms.all_atoms]
            if names != ['C1', 'O1', 'N1', 'C2'] or shx.error_line_num != len(lines) - 1 or not shx.end or shx.unit is None:
                common.add_violation(ctx, 'UNIT, atoms or END after valid DISP instructions are not reached', case, ['C1', 'O1', 'N1', 'C2'], names)
                continue
            models.append((im.atoms_table(shx), im.instr_tokens(shx)))
        if len(models) == 3 and not (models[0] == models[1] == models[2]):
            common.add_violation(ctx, 'the model differs between quiet, verbose and debug mode', {'instruction': ' / '.join(ins), 'text': text}, 'identical', 'different')
    return ev


SYMMETRY_FORMS = [
    # (LATT line, SYMM lines, SFAC line, UNIT line): the spellings of operators SHELXL accepts, one scattering factor type
    ('LATT -1', ['SYMM -X+1/2, -Y, Z+1/2', 'SYMM -X, Y+1/2, -Z+1/2', 'SYMM X+1/2, -Y+1/2, -Z'], None, None),
    ('LATT 1', ['SYMM -x, y+1/2, -z+1/2'], None, None), ('LATT 1', ['SYMM 0.5-X, Y, .5+Z'], None, None), ('LATT 1', ['SYMM -X+0.5,+Y,-Z+0.5'], None, None),
    ('LATT -1', ['SYMM -Y, X-Y, Z+1/3', 'SYMM -X+Y, -X, Z+2/3'], None, None), ('LATT -1', ['SYMM -Y,X-Y,+1/3+Z', 'SYMM Y-X,-X,2/3+Z'], None, None),
    ('LATT 1', ['SYMM -X-1/2, Y, -Z-1/2'], None, None), ('LATT 1', [], None, None), ('LATT -1', [], None, None),
    ('LATT 1', ['SYMM -X, 1/2+Y, 1/2-Z'], 'SFAC S', 'UNIT 32'), ('LATT 1', ['SYMM -X, 1/2+Y, 1/2-Z'], 'SFAC c', 'UNIT 32'),
    ('LATT 1', ['SYMM -X, 1/2+Y, 1/2-Z'], 'SFAC C H', 'UNIT 32 8'), ('LATT 7', ['SYMM -X, Y, 1/2-Z'], 'SFAC Cl', 'UNIT 4'),
]


def symmetry_forms(ctx):
    """operator spellings (translation in front of or behind the axis term, with explicit sign, decimal or fraction), files without SYMM, one-element SFAC"""
    ev = 0
    for latt, symms, sfac, unit in SYMMETRY_FORMS:
        atoms = ATOMS if sfac is None else ['X1 1 0.1 0.2 0.3 11.0 0.04', 'X2 1 0.2 0.3 0.4 11.0 0.05', 'X3 1 0.3 0.3 0.4 11.0 0.05']
        lines = HEAD[:3] + [latt] + symms + [sfac or HEAD[5], unit or HEAD[6]] + HEAD[7:] + atoms + TAIL
        text = '\n'.join(lines) + '\n'
        want = [a.split()[0] for a in atoms]
        models = []
        for mode in MODES:
            status, inner, shx = im.read_text(text, mode)
            ev += 1
            case = {'instruction': ' / '.join([latt] + symms + [sfac or '']), 'mode': mode, 'text': text}
            if status != 'ok' or inner:
                common.add_violation(ctx, 'a valid instruction raises', case, 'no exception', status + ' / ' + str(inner))
                continue
            names = [a.name for a in shx.atoms.all_atoms]
            if names != want or shx.error_line_num != len(lines) - 1 or not shx.end or shx.unit is None:
                common.add_violation(ctx, 'SFAC, UNIT, atoms or END after valid LATT / SYMM / SFAC instructions are not reached', case, want, names)
                continue
            models.append((im.atoms_table(shx), im.instr_tokens(shx), len(shx.symmcards)))
        if len(models) == 3 and not (models[0] == models[1] == models[2]):
            common.add_violation(ctx, 'the model differs between quiet, verbose and debug mode', {'instruction': ' / '.join([latt] + symms), 'text': text}, 'identical', 'different')
    return ev


INSTRUCTION_FORMS = [
    # valid forms with values that generators drawing 'ordinary positive numbers' do not reach (each was needed by a seeded change once)
    'DFIX -2.5 C1 O1', 'DFIX -2.5 0.03 C1 O1', 'DFIX 1.5 C1 O1 C1 N1', 'DANG 2.4 C1 N1', 'SADI 0 C1 O1 C1 N1', 'FLAT 0 C1 O1 N1 C2', 'ISOR 0 0 C1', 'DAMP 0 0',
    'SHEL 999 0', 'OMIT -3 55', 'OMIT 0 0 2', 'TEMP -273.15', 'TEMP 0', 'SIZE 0 0 0', 'WGHT 0 0', 'EXTI 0', 'SWAT 0 0', 'BASF 0', 'PLAN 0', 'PLAN -20', 'L.S. 0', 'CGLS 0 0 0',
    'FMAP -2', 'LIST 0', 'MERG 0', 'BOND 0', 'CONF 0', 'HTAB 0', 'ACTA 0', 'STIR 0', 'XNPD 0', 'XNPD -0.001', 'BUMP 0', 'SPEC 0',
]


def instruction_forms(ctx):
    """instructions with negative and zero values between the atoms: read to the end in every mode, the same model in all three"""
    ev = 0
    for form in INSTRUCTION_FORMS:
        lines = HEAD + ATOMS[:2] + [form] + ATOMS[2:] + TAIL
        text = '\n'.join(lines) + '\n'
        models = []
        for mode in MODES:
            status, inner, shx = im.read_text(text, mode)
            ev += 1
            case = {'instruction': form, 'mode': mode, 'text': text}
            if status != 'ok' or inner:
                common.add_violation(ctx, 'a valid instruction raises', case, 'no exception', status + ' / ' + str(inner))
                continue
            names = [a.name for a in shx.atoms.all_atoms]
            if names != ['C1', 'O1', 'N1', 'C2'] or shx.error_line_num != len(lines) - 1 or not shx.end:
                common.add_violation(ctx, 'atoms or END after a valid instruction are not reached', case, ['C1', 'O1', 'N1', 'C2'], names)
                continue
            models.append((im.atoms_table(shx), im.instr_tokens(shx)))
        if len(models) == 3 and not (models[0] == models[1] == models[2]):
            common.add_violation(ctx, 'the model differs between quiet, verbose and debug mode', {'instruction': form, 'text': text}, 'identical', 'different')
    return ev


NASTY = ['', '_', '__', 'C1__2', 'C1_1_2', 'C1_', '_2', '_*', 'C1_*_2', 'C1_$', '$', '$$', '_$1', '=', '==', '!', '.', '-', '+', '-.', '1e999', 'nan', 'inf', '-inf',
         '1.2.3', '--1', '0x10', '>', '<', '> <', '1,5', '1/0', '1/', '/2', '(1)', '0.5(', 'X+', '+X+', 'x,y', ',', ':', 'A:', ':1', 'A:B', '\t', '\x0c',
         '99999999999999999999', '1e-999', '+filename', '+', '++x', 'END', 'HKLF', 'FEND', 'FRAG']


def malformed_tokens(ctx, n):
    """quiet mode never raises: valid files in which one token of one line is replaced by (or extended with) a token from a list of awkward spellings"""
    rng = ctx.rng
    ev = 0
    for k in range(n):
        gf = rf.gen_file(rng, natoms=rng.randint(1, 5))
        lines = rf.render_file(gf, rng, 'plain').rstrip('\n').split('\n')
        for _ in range(rng.randint(1, 2)):
            i = rng.randrange(len(lines))
            rl = [q for q, l in enumerate(lines) if l[:4].upper() in ('SADI', 'DFIX', 'DANG', 'SIMU', 'DELU', 'RIGU', 'FLAT', 'EADP', 'EXYZ', 'ISOR', 'SAME', 'CHIV')]
            if rl and rng.random() < 0.5:
                i = rng.choice(rl)      # half of the time a restraint: its atoms are looked at again after the card loop
            toks = lines[i].split(' ')
            j = rng.randrange(len(toks))
            op = rng.random()
            bad = rng.choice(NASTY)
            if op < 0.5:
                toks[j] = bad
            elif op < 0.8:
                toks[j] = toks[j] + bad
            else:
                toks.insert(j, bad)
            lines[i] = ' '.join(toks)
        t = '\n'.join(lines) + '\n'
        status, inner, shx = im.read_text(t, 'quiet')
        ev += 1
        if status != 'ok':
            common.add_violation(ctx, 'quiet mode raises on malformed text', {'text': t}, 'no exception', status)
    return ev


def random_files(ctx, n):
    rng = ctx.rng
    ev = 0
    for k in range(n):
        gf = rf.gen_file(rng)
        text = rf.render_file(gf, rng, 'plain')
        nl = len(text.rstrip('\n').split('\n'))
        models = []
        for mode in MODES:
            status, inner, shx = im.read_text(text, mode)
            ev += 1
            case = {'mode': mode, 'text': text}
            if status != 'ok' or inner:
                common.add_violation(ctx, 'a valid file raises', case, 'no exception', status + ' / ' + str(inner))
                continue
            names = [a.name for a in shx.atoms.all_atoms]
            exp = [a['name'] for a in gf['atoms']]
            if names != exp:
                common.add_violation(ctx, 'atom list of a valid file is truncated or reordered', case, exp, names)
                continue
            if shx.error_line_num != nl - 1:
                common.add_violation(ctx, 'parsing did not reach the last line', case, nl - 1, shx.error_line_num)
            models.append((im.atoms_table(shx), im.instr_tokens(shx)))
        if len(models) == 3 and not (models[0] == models[1] == models[2]):
            common.add_violation(ctx, 'the model differs between quiet, verbose and debug mode', {'text': text}, 'identical', 'different')
        if k < 1:
            common.sample(ctx, {'file': text[:700]})
    return ev


def malformed(ctx, n):
    """quiet mode never raises, whatever the text"""
    rng = ctx.rng
    ev = 0
    alphabet = [chr(c) for c in range(32, 127)] + ['\n', '\n', ' ', '=', '!', '_', '.', '-', '+', '$', '\t']
    for k in range(n):
        gf = rf.gen_file(rng, natoms=rng.randint(1, 5))
        text = list(rf.render_file(gf, rng, 'wild'))
        for _ in range(rng.randint(1, 8)):
            op = rng.random()
            i = rng.randrange(len(text))
            if op < 0.4:
                text[i] = rng.choice(alphabet)
            elif op < 0.7:
                del text[i]
            elif op < 0.9:
                text.insert(i, rng.choice(alphabet))
            else:
                j = rng.randrange(len(text))
                del text[min(i, j):max(i, j)]
            if not text:
                text = ['\n']
        t = ''.join(text)
        status, inner, shx = im.read_text(t, 'quiet')
        ev += 1
        if status != 'ok':
            common.add_violation(ctx, 'quiet mode raises on malformed text', {'text': t}, 'no exception', status)
    return ev


def run(ctx):
    common.check_obligations(ctx, THEOREMS)
    bad = rf.check_syntax_table()
    ctx.obligations += 2
    if bad:
        ctx.broken.append('syntax table differs from the summary documented in shelxfile/shelx/cards.py: %s' % bad[:3])
    else:
        ctx.discharged += 1
    if gen_syntax_v.render() != open(common.VERIF + '/coq/Spec/Syntax.v').read():
        ctx.broken.append('coq/Spec/Syntax.v is not the rendering of the generator table (run harness/gen_syntax_v.py)')
    else:
        ctx.discharged += 1
    ng, nacc = run_grid(ctx)
    n1 = covering(ctx) + footers(ctx) + context_forms(ctx) + continuations(ctx) + header_forms(ctx) + atom_forms(ctx) + symmetry_forms(ctx) + instruction_forms(ctx)
    n2 = random_files(ctx, 3000 if ctx.thorough() else 40)
    n3 = malformed(ctx, 150000 if ctx.thorough() else 1500) + malformed_tokens(ctx, 60000 if ctx.thorough() else 1500)
    ctx.cov['evaluations'] = ng + n1 + n2 + n3
    ctx.cov['distinct_nontrivial'] = ng + n1 // 3
    ctx.cov['rule'] = ('grid keyword x 0..11 (thorough 0..14) numeric parameters x 0..3 (0..5) names in three modes for the model correspondence '
                       '(%d grid points, %d accepted); covering set every keyword x every admissible arity x word count x position (first / middle / '
                       'before HKLF) x mode against the expected atom list; long instructions over 1-5 physical lines; random valid files; byte-mutated files and files with one awkward token (double underscores, bare signs, nan, fractions, ...) in quiet mode' % (ng, nacc))
    ctx.assumptions += ['float()/int() on the modelled numeral grammar; tokens are printable ASCII',
                        'hand-written acceptance model Model/Cards.v validated on the grid in all three modes',
                        'quiet-mode totality on malformed text is a test (mutation fuzzing), not a theorem']


def replay(ctx, rp):
    c = rp['violation']['case']
    status, inner, shx = im.read_text(c['text'], c.get('mode', 'quiet'))
    print('replay:', status, inner, [a.name for a in shx.atoms.all_atoms])
    return 0 if status == 'ok' and not inner else 1
