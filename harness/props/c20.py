"""C20 — quaternion fit.  Tie A: kernels re-traced from shelxfile/fit/quatfit.py, theorems of Props/C20.v
re-proved.  Tie B / failing-input search: qtrfit, jacobi (eigen certificate assumed by C20_eigen_max),
the n-pair form against the sum of one-pair forms, fit_fragment against rigidly transformed input."""
import copy
import math

import common
import trace_kernels as TK
from props.c15 import rand_rot, apply, sub, dot, cross, norm

THEOREMS = ['C20_rot_code_is_mv', 'C20_q2mat_proper', 'C20_form1_identity', 'C20_rot_norm', 'C20_form2_additive',
            'C20_form3_additive', 'C20_residual_identity', 'C20_optimal_given_max', 'C20_exact_copy_zero',
            'C20_code_place_is_fit_place', 'C20_fit_fragment_places', 'C20_rmsd2_is_rms', 'C20_centroid3_is_mean',
            'C20_unit_quaternion_example', 'C20_euler_rodrigues', 'C20_optimal_all_rotations', 'C20_exact_copy_zero_all',
            'C20_half_turn_example', 'C20_eigen_max']
GEN_FILES = ['K_quat']


def horn_form(src, tgt):
    """Horn's 4x4 matrix N (upper triangle n00 n01 n02 n03 n11 n12 n13 n22 n23 n33) such that
    sum t.(R(q) s) = q^T N q for the rotation convention y = Q(q) x checked by C20_form1_identity."""
    S = [[sum(s[i] * t[j] for s, t in zip(src, tgt)) for j in range(3)] for i in range(3)]
    xx, xy, xz = S[0]
    yx, yy, yz = S[1]
    zx, zy, zz = S[2]
    return [xx + yy + zz, zy - yz, xz - zx, yx - xy, xx - yy - zz, xy + yx, zx + xz, yy - zz - xx, yz + zy, zz - xx - yy]


def rmsd(a, b):
    return math.sqrt(sum(sum((p[k] - q[k]) ** 2 for k in range(3)) for p, q in zip(a, b)) / len(a))


def centre(pts):
    c = [sum(p[k] for p in pts) / len(pts) for k in range(3)]
    return [[p[k] - c[k] for k in range(3)] for p in pts], c


def matvec(U, p):
    return [sum(U[i][k] * p[k] for k in range(3)) for i in range(3)]


def det3(m):
    return (m[0][0] * (m[1][1] * m[2][2] - m[1][2] * m[2][1]) - m[0][1] * (m[1][0] * m[2][2] - m[1][2] * m[2][0])
            + m[0][2] * (m[1][0] * m[2][1] - m[1][1] * m[2][0]))


def gen_set(rng, n, spread=4.0):
    """random point set, not (nearly) collinear; for n > 3 also not (nearly) planar"""
    while True:
        pts = [[rng.gauss(0, spread) for _ in range(3)] for _ in range(n)]
        c, _ = centre(pts)
        m = [[sum(p[i] * p[j] for p in c) for j in range(3)] for i in range(3)]
        tr = m[0][0] + m[1][1] + m[2][2]
        minor = (m[0][0] * m[1][1] - m[0][1] ** 2) + (m[0][0] * m[2][2] - m[0][2] ** 2) + (m[1][1] * m[2][2] - m[1][2] ** 2)
        if minor < 1e-2 * tr * tr:
            continue
        if n > 3 and abs(det3(m)) < 1e-4 * tr ** 3:
            continue
        return pts


def oracle(ctx, n_cases):
    import shelxfile.fit.quatfit as qf
    rng = ctx.rng
    ev = 0
    hist = {}
    for case_no in range(n_cases):
        n = rng.choice([3, 3, 4, 5, 6, 8, 12, 20, 30])
        hist[n] = hist.get(n, 0) + 1
        # the fit is scale-invariant: coordinates in A, but also tiny / large units
        sc = rng.choice([1e-6, 1e-4, 1e-2, 1.0, 1.0, 1.0, 1.0, 100.0])
        hist['scale %g' % sc] = hist.get('scale %g' % sc, 0) + 1
        mode = rng.choice(['random', 'random', 'random', 'origin', 'halfturn', 'tiny', 'mirror', 'exactsym'])
        hist['mode ' + mode] = hist.get('mode ' + mode, 0) + 1
        fixed_R = None
        if mode == 'halfturn':
            # a molecule with 222 symmetry whose target is its own image under one of the two-fold axes: the cross-correlation
            # matrix of source and target is symmetric (its antisymmetric part, three entries of the 4x4 form, vanishes) although
            # the best rotation is a half turn, not the identity
            n = 4 * rng.randint(1, 5)
            gen0 = [[rng.uniform(0.5, 5.0) * rng.choice([-1, 1]) for _ in range(3)] for _ in range(n // 4)]
            src = [[sx * p[0], sy * p[1], sx * sy * p[2]] for p in gen0 for sx, sy in ((1, 1), (1, -1), (-1, 1), (-1, -1))]
            ax = rng.randint(0, 2)
            half = [[(1.0 if i == j else 0.0) * (1 if i == ax else -1) for j in range(3)] for i in range(3)]
            G = rand_rot(rng) if rng.random() < 0.5 else [[1.0, 0, 0], [0, 1.0, 0], [0, 0, 1.0]]
            src = [[v * sc for v in apply(G, [0, 0, 0], p)] for p in src]
            GT = [[G[j][i] for j in range(3)] for i in range(3)]
            GH = [[sum(G[i][m] * half[m][j] for m in range(3)) for j in range(3)] for i in range(3)]
            fixed_R = [[sum(GH[i][m] * GT[m][j] for m in range(3)) for j in range(3)] for i in range(3)]
        elif mode == 'exactsym':
            # symmetric fragments in standard orientation (tetrahedron, octahedron with one to three different bond lengths, with or without the
            # central atom and off-axis atoms) turned by a rotation of the cube group, in exactly representable numbers: equal or vanishing
            # diagonal elements of the 4x4 form, the regime in which a Jacobi sweep needs 45 degree rotations
            kind = rng.choice(['tetra', 'octa', 'octa3'])
            if kind == 'tetra':
                src = [[1.0, 1.0, 1.0], [1.0, -1.0, -1.0], [-1.0, 1.0, -1.0], [-1.0, -1.0, 1.0]]
            else:
                l1, l2, l3 = (2.0, 2.0, 2.0) if kind == 'octa' else (2.0, 2.25, 2.5)
                src = [[l1, 0.0, 0.0], [-l1, 0.0, 0.0], [0.0, l2, 0.0], [0.0, -l2, 0.0], [0.0, 0.0, l3], [0.0, 0.0, -l3]]
            if rng.random() < 0.5:
                src.append([0.0, 0.0, 0.0])
            if rng.random() < 0.4:
                src += [[1.0, 1.0, 0.5], [-1.0, -1.0, -0.5]]
            sh = [float(rng.randint(-3, 3)) for _ in range(3)]
            src = [[(p[k] + sh[k]) * sc for k in range(3)] for p in src]
            n = len(src)
            from gen import spacegroups as _sg
            fixed_R = [list(map(float, row)) for row in rng.choice([m for m in _sg.SIGNED_PERMS if abs(det3([list(r) for r in m]) - 1) < 1e-9])]
        elif mode == 'tiny':
            # the fragment has almost the orientation of the target: rotation angles of 1e-5 .. 3e-3 rad
            src = [[v * sc for v in p] for p in gen_set(rng, n)]
            axv = [rng.gauss(0, 1) for _ in range(3)]
            an = norm(axv); axv = [x / an for x in axv]
            th = 10 ** rng.uniform(-5, -2.5)
            c, s_ = math.cos(th), math.sin(th)
            K = [[0, -axv[2], axv[1]], [axv[2], 0, -axv[0]], [-axv[1], axv[0], 0]]
            fixed_R = [[(1 if i == j else 0) * c + s_ * K[i][j] + (1 - c) * axv[i] * axv[j] for j in range(3)] for i in range(3)]
        elif mode == 'origin':
            # integer coordinates whose centroid is exactly the origin (exact in floating point)
            while True:
                src = [[float(rng.randint(-6, 6)) for _ in range(3)] for _ in range(n - 1)]
                src.append([-sum(p[k] for p in src) for k in range(3)])
                cc = [[sum(p[i] * p[j] for p in src) for j in range(3)] for i in range(3)]
                trc = cc[0][0] + cc[1][1] + cc[2][2]
                mn = (cc[0][0] * cc[1][1] - cc[0][1] ** 2) + (cc[0][0] * cc[2][2] - cc[0][2] ** 2) + (cc[1][1] * cc[2][2] - cc[1][2] ** 2)
                if trc > 0 and mn > 1e-2 * trc * trc and (n <= 3 or abs(det3(cc)) > 1e-4 * trc ** 3):
                    break
            src = [[v * sc for v in p] for p in src]
        else:
            src = [[v * sc for v in p] for p in gen_set(rng, n)]
        if mode == 'random' and rng.random() < 0.3:
            # a fragment defined with its first atom exactly at the origin (as library fragments often are)
            o = list(src[0])
            src = [[p[k] - o[k] for k in range(3)] for p in src]
            hist['first atom at the origin'] = hist.get('first atom at the origin', 0) + 1
        R, t = rand_rot(rng), [rng.uniform(-10, 10) * sc for _ in range(3)]
        noise = rng.choice([0.0, 0.0, 0.05, 0.3]) * sc
        if fixed_R is not None:
            R, noise = fixed_R, 0.0
        if mode == 'mirror':
            # the target is (close to) the mirror image of the source: the correlation matrix has a negative determinant and the most negative
            # eigenvalue of the 4x4 form is the one of largest magnitude; the best PROPER rotation is still the eigenvector of the largest one
            src = [[v * sc for v in p] for p in gen_set(rng, max(n, 4))]
            n = len(src)
            noise = rng.choice([0.0, 0.05, 0.3]) * sc
        tgt = [[v + rng.gauss(0, noise) if noise else v for v in apply(R, t, ([-p[0], p[1], p[2]] if mode == 'mirror' else p))] for p in src]
        if mode == 'mirror':
            noise = max(noise, 1e-9 * sc)        # not an exactly rotated copy: the zero-deviation clauses do not apply
        cs, pc = centre(src)
        ct, qc = centre(tgt)
        case = {'source': src, 'target': tgt, 'noise': noise}
        # intercept jacobi to obtain the form the code built and the eigen certificate
        got = {}
        orig = qf.jacobi

        def spy(matrix, maxsweeps):
            got['N'] = [list(r) for r in matrix]
            res = orig(matrix, maxsweeps)
            got['V'], got['d'] = [list(r) for r in res[0]], list(res[1])
            return res
        qf.jacobi = spy
        try:
            q, U, _ = qf.qtrfit(copy.deepcopy(cs), copy.deepcopy(ct), 30)
        except Exception as ex:
            common.add_violation(ctx, 'qtrfit raises on valid centred point sets', dict(case, mode=mode), 'a rotation', '%s: %s' % (type(ex).__name__, ex))
            qf.jacobi = orig
            continue
        finally:
            qf.jacobi = orig
        ev += 1

        def bad(what, exp, obs):
            common.add_violation(ctx, what, dict(case), exp, obs)
        if 'N' not in got:
            if not any('without calling jacobi' in x for x in ctx.broken):
                ctx.broken.append('correspondence: qtrfit returned without calling jacobi (the eigen certificate of C20_eigen_max cannot be observed)')
        else:
            # (a) the form for n pairs = sum of one-pair forms (Horn)
            N = got['N']
            mine = horn_form(cs, ct)
            code = [N[0][0], N[0][1], N[0][2], N[0][3], N[1][1], N[1][2], N[1][3], N[2][2], N[2][3], N[3][3]]
            scale = max(abs(x) for x in mine) or 1.0
            if max(abs(a - b) for a, b in zip(mine, code)) > 1e-9 * scale:
                ctx.broken.append('correspondence: qtrfit form for n=%d pairs differs from the sum of traced one-pair forms' % n)
                bad('4x4 quadratic form differs from Horn\'s matrix', mine, code)
            # (b) eigen certificate assumed by C20_eigen_max
            V, d = got['V'], got['d']
            Nf = [[0.0] * 4 for _ in range(4)]
            idx = 0
            for i in range(4):
                for j in range(i, 4):
                    Nf[i][j] = Nf[j][i] = mine[idx]; idx += 1
            err = 0.0
            for i in range(4):
                for j in range(4):
                    err = max(err, abs(sum(V[k][i] * V[k][j] for k in range(4)) - (1.0 if i == j else 0.0)))
                    err = max(err, abs(sum(V[i][k] * V[j][k] for k in range(4)) - (1.0 if i == j else 0.0)))
                    err = max(err, abs(sum(V[i][k] * d[k] * V[j][k] for k in range(4)) - Nf[i][j]) / scale)
            if err > 1e-8 or not (d[0] <= d[3] and d[1] <= d[3] and d[2] <= d[3]):
                bad('jacobi did not return an orthogonal eigen-decomposition with the largest eigenvalue last', '< 1e-8', err)
            if max(abs(q[i] - V[i][3]) for i in range(4)) > 0:
                bad('qtrfit does not extract the eigenvector of the largest eigenvalue', [V[i][3] for i in range(4)], q)
        # (c) proper rotation
        Um = [list(r) for r in U]
        orth = max(abs(sum(Um[k][i] * Um[k][j] for k in range(3)) - (1.0 if i == j else 0.0)) for i in range(3) for j in range(3))
        if orth > 1e-9 or abs(det3(Um) - 1.0) > 1e-9:
            bad('returned matrix is not a proper rotation', 'orthonormal, det +1', {'orth_err': orth, 'det': det3(Um)})
        # (d) optimality against alternative rotations
        fitted = qf.rotmol(copy.deepcopy(cs), U)
        r0 = rmsd(fitted, ct)
        # the rotation as a matrix acting on column vectors: rotmol uses U[j][i]
        Ut = [[Um[j][i] for j in range(3)] for i in range(3)]
        for k in range(40):
            if k < 20:
                A = rand_rot(rng)
            else:   # small perturbation of the returned rotation
                ax = [rng.gauss(0, 1) for _ in range(3)]
                an = norm(ax); ax = [x / an for x in ax]
                th = rng.uniform(-0.05, 0.05)
                c, s = math.cos(th), math.sin(th)
                K = [[0, -ax[2], ax[1]], [ax[2], 0, -ax[0]], [-ax[1], ax[0], 0]]
                P = [[(1 if i == j else 0) * c + s * K[i][j] + (1 - c) * ax[i] * ax[j] for j in range(3)] for i in range(3)]
                A = [[sum(P[i][m] * Ut[m][j] for m in range(3)) for j in range(3)] for i in range(3)]
            r1 = rmsd([matvec(A, p) for p in cs], ct)
            if r1 < r0 - 1e-9 * sc:
                bad('another rotation gives a smaller RMSD than the fitted one', r0, {'rmsd': r1, 'rotation': A})
                break
        if noise == 0.0 and r0 > 1e-7 * sc:
            bad('target is an exactly rotated copy but the RMSD after the fit is not zero', 0.0, r0)
        # (e) fit_fragment: rigid copy anywhere in space
        nsub = rng.randint(3, min(n, 6))
        sel = rng.sample(range(n), nsub)
        frag = copy.deepcopy(src)
        alias = rng.random() < 0.5
        # the idiom of the library's own example: the source atoms are rows of the fragment list
        sub_src = [frag[i] for i in sel] if alias else [list(src[i]) for i in sel]
        sub_tgt = [list(tgt[i]) for i in sel]
        if mode == 'origin' and alias:
            # make the centroid of the fitted subset exactly the origin as well: use all atoms
            sel = list(range(n))
            sub_src = [frag[i] for i in sel]
            sub_tgt = [list(tgt[i]) for i in sel]
        # exclude (nearly) collinear subsets: the fit is then not unique
        cc, _ = centre([list(p) for p in sub_src])
        m = [[sum(p[i] * p[j] for p in cc) for j in range(3)] for i in range(3)]
        tr = m[0][0] + m[1][1] + m[2][2]
        minor = (m[0][0] * m[1][1] - m[0][1] ** 2) + (m[0][0] * m[2][2] - m[0][2] ** 2) + (m[1][1] * m[2][2] - m[1][2] ** 2)
        if minor > 1e-3 * tr * tr:
            ev += 1
            case['fit_fragment'] = {'subset': sel, 'source_rows_shared_with_fragment': alias, 'mode': mode}
            try:
                rf, rms = qf.fit_fragment(frag, sub_src, copy.deepcopy(sub_tgt))
            except Exception as ex:
                bad('fit_fragment raises on a valid fragment', 'a placed fragment', '%s: %s' % (type(ex).__name__, ex))
                continue
            rf = [list(p) for p in rf]
            after = rmsd([rf[i] for i in sel], [tgt[i] for i in sel])
            if abs(after - rms) > 1e-8 * sc:
                bad('fit_fragment: reported RMSD is not the deviation after the fit', after, rms)
            if noise == 0.0:
                dev = max(abs(rf[i][k] - tgt[i][k]) for i in range(n) for k in range(3))
                if dev > 1e-6 * sc:
                    bad('fit_fragment: exact rigid copy is not superimposed on its targets', 0.0, dev)
                if rng.random() < 0.3 and sc >= 0.01:
                    # "for any position of the fragment": fragment and target both far from the origin (and from each other)
                    T1 = [rng.uniform(-1, 1) * rng.choice([1e4, 1e5, 4e6]) for _ in range(3)]
                    T2 = [rng.uniform(-1, 1) * rng.choice([1e4, 1e5, 4e6]) for _ in range(3)]
                    tmag = max(abs(v) for v in T1 + T2)
                    frag_far = [[p[k] + T1[k] for k in range(3)] for p in src]
                    tgt_far = [[p[k] + T2[k] for k in range(3)] for p in tgt]
                    try:
                        rf3, rms3 = qf.fit_fragment(frag_far, [frag_far[i] for i in sel], [list(tgt_far[i]) for i in sel])
                        rf3 = [list(p) for p in rf3]
                        dev3 = max(abs(rf3[i][k] - tgt_far[i][k]) for i in range(n) for k in range(3))
                    except Exception as ex:
                        dev3 = '%s: %s' % (type(ex).__name__, ex)
                    ev += 1
                    if not isinstance(dev3, float) or dev3 > 1e-6 * sc + 1e-11 * tmag:
                        case['far'] = {'fragment_shift': T1, 'target_shift': T2}
                        bad('fit_fragment: a fragment far from the origin is not superimposed on its (far) targets', 0.0, dev3)
                if rng.random() < 0.4:
                    # the same fragment placed on a second site (e.g. two disorder positions): the first call must not have changed the caller's lists
                    R2, t2 = rand_rot(rng), [rng.uniform(-10, 10) * sc for _ in range(3)]
                    tgt2 = [apply(R2, t2, p) for p in src]
                    rf2, rms2 = qf.fit_fragment(frag, sub_src, [list(tgt2[i]) for i in sel])
                    rf2 = [list(p) for p in rf2]
                    dev2 = max(abs(rf2[i][k] - tgt2[i][k]) for i in range(n) for k in range(3))
                    ev += 1
                    if dev2 > 1e-6 * sc:
                        bad('fit_fragment: a second fit of the same fragment list onto another exact copy is not superimposed on its targets', 0.0, dev2)
        if case_no < 2:
            common.sample(ctx, {'n': n, 'noise': noise, 'source': [[round(x, 3) for x in p] for p in src[:3]], 'rmsd_after_fit': r0})
    ctx.notes.setdefault('coverage_extra', {})['points_histogram'] = hist
    return ev


def run(ctx):
    TK.stage(ctx, GEN_FILES, THEOREMS)
    ev = oracle(ctx, 15000 if ctx.thorough() else 250)
    ctx.cov['evaluations'] = ev
    ctx.cov['distinct_nontrivial'] = ev
    ctx.cov['rule'] = ('random non-planar point sets of 3..30 points (also: integer sets centred exactly at the origin; 222-symmetric sets whose target is '
                       'their image under a two-fold axis; targets rotated by 1e-5..3e-3 rad only), random rotation + translation, noise 0 / 0.05 / 0.3 A; per set: '
                       'form vs Horn matrix, eigen certificate of jacobi, proper rotation, RMSD vs 40 alternative rotations '
                       '(random and perturbations), fit_fragment on a random non-collinear subset; all random, hence distinct')
    ctx.assumptions += ['Jacobi convergence within 30 sweeps is not proved: the eigen certificate (V orthogonal, N = V D V^T, d3 largest) '
                        'assumed by C20_eigen_max is checked numerically (1e-8) on every sample',
                        'optimality is proved against all proper rotations (C20_euler_rodrigues: every orthogonal matrix of determinant 1 is Q(p) for a unit p)',
                        'the accumulation loop of qtrfit for n pairs is modelled as the fold of the traced one-pair form '
                        '(proved equal to the traced forms for n = 2, 3; compared numerically for n up to 30)']


def replay(ctx, rp):
    import shelxfile.fit.quatfit as qf
    c = rp['violation']['case']
    cs, _ = centre(c['source'])
    ct, _ = centre(c['target'])
    q, U, _ = qf.qtrfit(copy.deepcopy(cs), copy.deepcopy(ct), 30)
    fitted = qf.rotmol(copy.deepcopy(cs), U)
    print('replay: rmsd after fit', rmsd(fitted, ct), 'quaternion', q)
    return 0
