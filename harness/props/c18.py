"""C18 — the CIF export states the same structure as the model.
Theorems: coq/Props/C18.v (Model/Cif.v: an xyz component is the lower-cased SHELXL component with a fractional translation and
is parsed back - by the character-level parser proved correct in C10 - to exactly the coefficients and translation it was
printed from; the atom loop has exactly the non-Q-peak atoms in order, the ADP loop exactly the anisotropic ones).
Tie B: every xyz string of every written CIF is parsed inside Coq with Model/Symm.v parse_component and compared with the
exact operator of the space-group table; the loop selection model is compared with the rows of the CIF.
Failing-input search: the CIF parsed by an independent minimal reader against the by-construction model (cell, Z, wavelength,
temperature, sum formula, operators, per atom label / element / coordinates / occupancy / disorder group / Uij)."""
import contextlib
import io
import os
import re
import shutil
import tempfile
from fractions import Fraction

import common
from common import clist, cstr, cq, cz
from gen import spacegroups as sg
import impl_model as im

THEOREMS = ['C18_cif_comp_denotes', 'C18_atom_loop_complete', 'C18_atom_loop_sound', 'C18_atom_loop_count', 'C18_aniso_loop_complete', 'C18_aniso_loop_sound',
            'C18_cif_comp_example']
IMPORTS = 'From SX Require Import Base.Prelude Base.Str Model.Symm Model.Cif.\n'
ELEMS = ['C', 'H', 'O', 'N', 'Cl', 'D', 'Tc']


def gen_model(rng):
    name = rng.choice(list(sg.TABLE))
    latt, symms = sg.TABLE[name]
    z = rng.choice([1, 2, 3, 4, 6, 8, 12, 1.5, 0.5])       # Z is a real number in SHELXL (ZERR 1.5 for a formula unit on a special position)
    cell = [round(rng.uniform(6, 20), 4) for _ in range(3)] + [round(rng.uniform(70, 110), 3) for _ in range(3)]
    wavelength = rng.choice([0.71073, 1.54178, 0.56086])
    unit = [rng.choice([4, 8, 12, 18, 24, 36, 5, 4800, 12000]) for _ in ELEMS]
    nfv = rng.randint(3, 5)
    fv = [1.0] + [round(rng.uniform(0.1, 0.9), 3) for _ in range(nfv - 1)]
    opt = {'temp': rng.choice([None, -173.15, 20, -100.5]), 'size': rng.choice([None, [0.31, 0.22, 0.13], [0.1, 0.2], [0.2]]), 'acta': rng.random() < 0.5}
    atoms = []
    part = 0
    resi = (0, '')
    body = []
    for i in range(rng.randint(1, 8)):
        r = rng.random()
        if r < 0.2:
            part = rng.choice([1, 2, -1, 0])
            body.append('PART %d' % part)
        elif r < 0.35:
            resi = (rng.choice([1, 2, 3, 4, -1, -12]), rng.choice(['TOL', 'THF']))
            body.append('RESI %d %s' % resi)
        el = rng.choice(ELEMS)
        nm = '%s%d' % (el, i + 1)
        xyz = [round(rng.uniform(-0.3, 1.3), 6) for _ in range(3)]
        m = rng.choice([1, 1, 1, 2, -2, 3])
        p = rng.choice([1.0, 1.0, 0.5, 0.25, 0.3333])
        sof = (10 * abs(m) + p) * (1 if m > 0 else -1)
        occ = p if abs(m) == 1 else (fv[abs(m) - 1] * p if m > 0 else (1 - fv[abs(m) - 1]) * p)
        ru = rng.random()
        if ru < 0.12:       # strongly prolate, positive definite tensors whose U22 + U33 + U23 + U13 + U12 is zero or negative
            u = rng.choice([[0.2, 0.01, 0.01, 0.0, -0.01, -0.01], [0.2, 0.01, 0.01, 0.005, -0.03, -0.03], [0.25, 0.02, 0.01, -0.005, -0.02, -0.02],
                            [0.3, 0.015, 0.015, 0.0, -0.015, -0.015]])
        elif ru < 0.5:
            u = [round(rng.uniform(0.01, 0.08), 5) for _ in range(3)] + [round(rng.uniform(-0.02, 0.02), 5) or 0.001 for _ in range(3)]
        else:
            u = [round(rng.uniform(0.01, 0.08), 5)]
        height = ' %.2f' % rng.uniform(1, 300) if len(u) == 1 and rng.random() < 0.2 else ''     # isotropic atom of a structure solution: U, then the peak height
        atoms.append({'label': nm if resi[0] == 0 else '%s_%d' % (nm, resi[0]), 'element': el, 'xyz': xyz, 'occ': occ, 'part': part, 'u': u})
        body.append('%s %d %s %s %s' % (nm, ELEMS.index(el) + 1, ' '.join('%.6f' % v for v in xyz), '%.5f' % sof, ' '.join('%.5f' % v for v in u) + height))
    lines = [('TITL %s in %s' % (rng.choice(['test', 'compound1', 'x']), name)) if rng.random() < 0.9 else 'TITL', 'CELL %s %s' % (wavelength, ' '.join(str(c) for c in cell)),
             'ZERR %s 0.001 0.002 0.003 0.01 0.02 0.03' % z, 'LATT %d' % latt] + ['SYMM ' + s for s in symms] + ['SFAC ' + ' '.join(ELEMS), 'UNIT ' + ' '.join(str(u) for u in unit)]
    if opt['temp'] is not None:
        lines.append('TEMP %s' % opt['temp'])
    if opt['size'] is not None:
        lines.append('SIZE ' + ' '.join(str(s) for s in opt['size']))
    if opt['acta']:
        lines.append('ACTA')
    lines += ['L.S. 10', 'FVAR ' + ' '.join(str(v) for v in fv)] + body
    if part:
        lines.append('PART 0')
    if resi[0]:
        lines.append('RESI 0')
    lines += ['HKLF 4', 'END'] + ['Q%d 1 %.4f %.4f %.4f 11.00000 0.05 %.2f' % (q + 1, rng.random(), rng.random(), rng.random(), rng.uniform(0.2, 2)) for q in range(rng.randint(0, 2))]
    ops = sg.expected(latt, [sg.parse_op(s) for s in symms])
    return {'text': '\n'.join(lines) + '\n', 'cell': cell, 'z': z, 'wavelength': wavelength, 'unit': unit, 'atoms': atoms, 'ops': ops, 'opt': opt, 'group': name}


def read_cif(text):
    """independent minimal CIF reader: tags and loops"""
    tags, loops = {}, []
    lines = text.split('\n')
    i = 0
    while i < len(lines):
        l = lines[i].strip()
        if l == 'loop_':
            i += 1
            heads = []
            while i < len(lines) and lines[i].strip().startswith('_'):
                heads.append(lines[i].strip())
                i += 1
            rows = []
            while i < len(lines) and lines[i].strip() and not lines[i].strip().startswith('_') and lines[i].strip() != 'loop_':
                row = re.findall(r"'[^']*'|\S+", lines[i].strip())
                rows.append([x.strip("'") for x in row])
                i += 1
            loops.append((heads, rows))
            continue
        if l.startswith('_'):
            m = re.match(r"(\S+)\s+(.*)$", l)
            if m:
                tags[m.group(1)] = m.group(2).strip().strip("'")
        i += 1
    return tags, loops


def close(a, b, tol=1e-9):
    return abs(float(a) - float(b)) <= tol * max(1.0, abs(float(b)))


def run(ctx):
    common.check_obligations(ctx, THEOREMS)
    rng = ctx.rng
    n = 4000 if ctx.thorough() else 60
    ev = 0
    tmp = tempfile.mkdtemp(prefix='verif-c18-')
    comp_cases, loop_cases = [], []
    try:
        for k in range(n):
            m = gen_model(rng)
            st, inn, shx = im.read_text(m['text'], 'quiet')
            case = {'text': m['text'], 'space_group': m['group']}
            if st != 'ok' or inn:
                common.add_violation(ctx, 'a valid file raises', case, 'ok', '%s %s' % (st, inn))
                continue
            if rng.random() < 0.5:
                # a CIF written before the edit below must not be what a later to_cif() writes again
                try:
                    with contextlib.redirect_stdout(io.StringIO()):
                        shx.to_cif(os.path.join(tmp, 'before.cif'))
                except Exception:
                    pass
            if rng.random() < 0.3:
                # an atom added through the API is appended behind everything the file held (also behind the Q-peaks)
                xyz = [round(rng.uniform(0, 1), 5) for _ in range(3)]
                u = [0.0512] if rng.random() < 0.5 else [0.031, 0.042, 0.053, 0.004, -0.005, 0.006]
                with contextlib.redirect_stdout(io.StringIO()):
                    shx.add_atom(name='C99', coordinates=xyz, element='C', uvals=list(u), part=0, sof=11.0)
                m['atoms'].append({'label': 'C99', 'element': 'C', 'xyz': xyz, 'occ': 1.0, 'part': 0, 'u': u})
                case['edited'] = 'add_atom(C99) after reading'
            p = os.path.join(tmp, 'x.cif')
            try:
                shx.to_cif(p)
                cif = open(p).read()
            except Exception as e:
                common.add_violation(ctx, 'no CIF is produced for a valid model', dict(case, optional=str(m['opt'])), 'a CIF', '%s: %s' % (type(e).__name__, e))
                continue
            ev += 1
            tags, loops = read_cif(cif)
            case['cif'] = cif

            def bad(what, exp, got):
                common.add_violation(ctx, 'the CIF differs from the model: ' + what, case, exp, got)
            ok = True
            for tag, val in zip(('_cell_length_a', '_cell_length_b', '_cell_length_c', '_cell_angle_alpha', '_cell_angle_beta', '_cell_angle_gamma'), m['cell']):
                if tag not in tags or not close(tags[tag], val):
                    bad(tag, val, tags.get(tag))
                    ok = False
            if not ok:
                continue
            if not close(tags.get('_cell_formula_units_Z', 'nan'), m['z']):
                bad('Z', m['z'], tags.get('_cell_formula_units_Z'))
                continue
            if not close(tags.get('_diffrn_radiation_wavelength', 'nan'), m['wavelength']):
                bad('wavelength', m['wavelength'], tags.get('_diffrn_radiation_wavelength'))
                continue
            t = tags.get('_cell_measurement_temperature')
            if m['opt']['temp'] is not None:
                if t in (None, '?') or not close(t, m['opt']['temp'] + 273.15, 1e-5):
                    bad('temperature', m['opt']['temp'] + 273.15, t)
                    continue
            if ',' in tags.get('_chemical_formula_sum', ''):
                bad('sum formula (a number with a thousands separator is not a CIF number)', expf if 'expf' in dir() else 'plain numbers', tags.get('_chemical_formula_sum'))
            form = dict((e.upper(), float(v or 1)) for e, v in re.findall(r'([A-Za-z]+)([0-9.eE+-]*)', tags.get('_chemical_formula_sum', '')))
            expf = dict((e.upper(), u / m['z']) for e, u in zip(ELEMS, m['unit']))
            if set(form) != set(expf) or not all(close(form[e], expf[e], 1e-4) for e in expf):
                bad('sum formula', expf, tags.get('_chemical_formula_sum'))
                continue
            symloop = [l for l in loops if l[0] == ['_space_group_symop_operation_xyz']]
            atomloop = [l for l in loops if '_atom_site_label' in l[0]]
            anisoloop = [l for l in loops if '_atom_site_aniso_label' in l[0]]
            if len(symloop) != 1 or len(atomloop) != 1 or len(anisoloop) != 1:
                bad('loops', 'symmetry, atom and ADP loop', [l[0][:1] for l in loops])
                continue
            xyz = [r[0] for r in symloop[0][1]]
            try:
                got_ops = [sg.parse_op(s.upper()) for s in xyz]
            except Exception as e:
                bad('an operator string cannot be parsed', 'x,y,z strings', xyz)
                continue
            exp_ops = m['ops']
            key = lambda o: (tuple(map(tuple, o[0])), tuple(sg.mod1(o)[1]))
            if sorted(key(o) for o in got_ops) != sorted(key(o) for o in exp_ops):
                missing = [o for o in exp_ops if key(o) not in set(key(g) for g in got_ops)]
                extra = [x for x, g in zip(xyz, got_ops) if key(g) not in set(key(o) for o in exp_ops)]
                bad('symmetry operators (as a set, modulo lattice translations)', str(missing[:2]), extra[:2] or xyz[:3])
                continue
            # exactness: the strings must denote the operator itself, not an approximation
            if any(Fraction(t).limit_denominator(1000) != t for o in got_ops for t in o[1]):
                bad('an operator string holds a decimal approximation', 'fractions', xyz)
                continue
            for o, s in zip(got_ops, xyz):
                comp_cases.append((o, s))
            heads = atomloop[0][0]
            col = {h: heads.index(h) for h in heads}
            rows = atomloop[0][1]
            if len(rows) != len(m['atoms']):
                bad('number of atom rows (Q-peaks excluded)', len(m['atoms']), len(rows))
                continue
            okr = True
            for a, r in zip(m['atoms'], rows):
                chk = [('label', a['label'].upper(), r[col['_atom_site_label']].upper()), ('element', a['element'].upper(), r[col['_atom_site_type_symbol']].upper()),
                       ('disorder group', a['part'], int(float(r[col['_atom_site_disorder_group']]))),
                       ('adp type', 'Uani' if len(a['u']) == 6 else 'Uiso', r[col['_atom_site_adp_type']])]
                for what, e, g in chk:
                    if e != g:
                        bad('atom %s: %s' % (a['label'], what), e, g)
                        okr = False
                        break
                if not okr:
                    break
                if not all(close(r[col[h]], v, 1e-9) for h, v in zip(('_atom_site_fract_x', '_atom_site_fract_y', '_atom_site_fract_z'), a['xyz'])):
                    bad('atom %s: coordinates' % a['label'], a['xyz'], r[2:5])
                    okr = False
                    break
                if not close(r[col['_atom_site_occupancy']], a['occ'], 1e-6):
                    bad('atom %s: occupancy' % a['label'], a['occ'], r[col['_atom_site_occupancy']])
                    okr = False
                    break
            if not okr:
                continue
            an = [a for a in m['atoms'] if len(a['u']) == 6]
            arows = anisoloop[0][1]
            if [a['label'].upper() for a in an] != [r[0].upper() for r in arows]:
                bad('labels of the ADP loop', [a['label'] for a in an], [r[0] for r in arows])
                continue
            for a, r in zip(an, arows):
                if not all(close(x, y, 1e-9) for x, y in zip(r[1:7], a['u'])):
                    bad('atom %s: Uij' % a['label'], a['u'], r[1:7])
                    break
            ats_lit = ['{| ca_label := lit %s; ca_element := lit %s; ca_xyz := []; ca_occ := 0; ca_part := %s; ca_u := []; ca_qpeak := %s; ca_iso := %s |}' % (
                cstr(a.fullname_short.upper()), cstr(a.element.upper()), cz(a.part.n), 'true' if a.qpeak else 'false', 'true' if a.is_isotropic else 'false') for a in shx.atoms.all_atoms]
            loop_cases.append((ats_lit, [r[0] for r in rows], [r[0] for r in arows]))
            if k < 1:
                common.sample(ctx, {'cif_head': cif[:700]})
    finally:
        shutil.rmtree(tmp, ignore_errors=True)
    # correspondence 1: the xyz strings parsed inside Coq by the C10 parser denote the exact operators
    comp_cases = comp_cases if ctx.thorough() else comp_cases[:1500]
    terms = []
    for (rows, trans), s in comp_cases:
        comps = [c.strip() for c in s.split(',')]
        if len(comps) != 3:
            ctx.broken.append('operator string without three components: %r' % s)
            break
        for c, row, t in zip(comps, rows, trans):
            tq = Fraction(t)
            terms.append('match parse_component (lit %s) with Some (a, b, c, t) => Z.eqb a %s && Z.eqb b %s && Z.eqb c %s && Qeq_bool t %s | None => false end' % (
                cstr(c), cz(row[0]), cz(row[1]), cz(row[2]), cq(tq)))
    step = 400
    packs = [('', ['bad_indices (fun b : bool => b) %s' % clist(terms[k:k + step])]) for k in range(0, len(terms), step)]
    results = common.coq_eval_sharded(ctx, 'c18sym', IMPORTS, None, packs)
    nb = 0
    for si, res in enumerate(results):
        for b in common.parse_nat_list(res[0]):
            nb += 1
            if nb <= 3:
                ctx.broken.append('correspondence: Model/Symm.v parse_component on a CIF operator component does not give the exact operator (component %d)' % (si * step + b))
    # correspondence 2: loop selection
    defs, terms = [], []
    for i, (ats, labels, alabels) in enumerate(loop_cases[:200]):
        defs.append('Definition a%d : list catom := %s.' % (i, clist(ats)))
        terms.append('(if list_eq_dec (list_eq_dec Ascii.ascii_dec) (map (fun r => fst (fst (fst (fst (fst r))))) (atom_loop a%d)) %s then true else false) && '
                     '(if list_eq_dec (list_eq_dec Ascii.ascii_dec) (map fst (aniso_loop a%d)) %s then true else false)' % (
                         i, clist(['lit ' + cstr(l.upper()) for l in labels]), i, clist(['lit ' + cstr(l.upper()) for l in alabels])))
    step = 50
    packs = [('\n'.join(defs[k:k + step]), ['bad_indices (fun b : bool => b) %s' % clist(terms[k:k + step])]) for k in range(0, len(terms), step)]
    results = common.coq_eval_sharded(ctx, 'c18loop', IMPORTS, None, packs)
    for res in results:
        if common.parse_nat_list(res[0]):
            ctx.broken.append('correspondence: Model/Cif.v atom_loop / aniso_loop select other atoms than the written CIF')
            break
    ctx.cov['evaluations'] = ev + len(comp_cases) + len(loop_cases)
    ctx.cov['distinct_nontrivial'] = ev
    ctx.cov['rule'] = ('random models in the 31 tabulated space groups (translations 1/2, 1/3, 2/3, 1/4, 3/4, 1/6, 5/6), random cell, Z, three wavelengths, TEMP / SIZE (complete, '
                       'partial) / ACTA present or absent, 1-8 atoms with PART, RESI, free-variable occupancies (m = 1, 2, -2, 3), isotropic and anisotropic U, 0-2 Q-peaks')
    ctx.assumptions += ['R values, formula weight, space-group name and creation date are not part of the property and not compared',
                        'the conversion of the float translation to a fraction (limit_denominator) is observed through the exactness test, not modelled digit by digit']


def replay(ctx, rp):
    c = rp['violation']['case']
    st, inn, shx = im.read_text(c['text'], 'quiet')
    tmp = tempfile.mkdtemp(prefix='verif-c18-')
    try:
        p = os.path.join(tmp, 'x.cif')
        shx.to_cif(p)
        print('replay:', [l for l in open(p).read().split('\n') if l.startswith(" '")][:6])
    except Exception as e:
        print('replay: raises', type(e).__name__, e)
    finally:
        shutil.rmtree(tmp, ignore_errors=True)
    return 0
