"""C14 — grow().  Theorems: coq/Props/C14.v (real instance of Model/Sdm.v).  Tie B: the float instance of the
model (needed symmetry, packer) is executed inside Coq on the implementation's own numbers.  Failing-input search:
Shelxfile.grow() against exact images and a brute-force neighbour search."""
import contextlib
import io
import itertools
import math

import common
import impl_model as im
from gen import structures as gs
from props import sdm_common as sc

THEOREMS = ['C14_needed_symmetry_good', 'C14_packer_good', 'C14_grow_images_exact', 'C14_packer_no_coincide', 'C14_needed_symmetry_complete', 'C14_packer_complete', 'C14_packer_compares_with_atoms_only']
SH2 = list(itertools.product(range(-2, 3), repeat=3))


def bonded(a1, a2, d, margin=0.0):
    """margin: the library adds 0.0001 A to every distance taken through an operator other than the identity (SHELX prefers the identity
    at equal length), so a contact within 2.5e-4 A of the limit may be decided either way"""
    p1, p2 = a1.part.n, a2.part.n
    allowed = (p1 == p2) or ((p1 == 0 or p2 == 0) and not (sc.is_h(a1) or sc.is_h(a2)))       # hydrogen = H, D or T by element symbol
    # covalent radii by element symbol from the library's table, not through the atom object
    return allowed and d < 1.2 * (gs.radius(a1.element) + gs.radius(a2.element)) + margin


def oracle(ctx, st, ob, with_q):
    from shelxfile.shelx.shelx import Shelxfile
    atoms = ob['atoms']
    G = sc.metric_of(st['cell'])
    case = {'name': st['name'], 'text': ob['text'], 'with_qpeaks': with_q}
    shx = ob['shx']
    with contextlib.redirect_stdout(io.StringIO()):
        grown = shx.grow(with_qpeaks=with_q)
    orig = [a for a in atoms if with_q or not a.qpeak]
    ev = 1
    # (1) the original atoms first and unchanged
    if len(grown) < len(orig) or any(g is not o for g, o in zip(grown, orig)):
        common.add_violation(ctx, 'grow() does not start with the original atoms', case, [a.name for a in orig], [g.name for g in grown[:len(orig)]])
        return ev
    ops = [([[o.matrix[i, j] for j in range(3)] for i in range(3)], [float(t) for t in o.trans]) for o in ob['ops']]
    new = grown[len(orig):]
    from props.c13 import exact_ops
    exact = [([[float(v) for v in row] for row in o[0]], [float(t) for t in o[1]]) for o in exact_ops(st)]
    placed = [(a.part.n, [a.x, a.y, a.z]) for a in orig if not a.qpeak]      # a Q-peak is not an atom: an image atom may lie on one
    images = set()
    for g in new:
        ev += 1
        # (2) exact image of an original atom with the same element, PART, occupation code, U values
        found = None
        import re
        mname = re.match(r'(.*)>>(\d+)_', g.name)
        nn = int(mname.group(2)) if mname else None
        for i, a in enumerate(atoms):
            if a.qpeak or a.sfac_num != g.sfac_num or a.part.n != g.part.n or a.sof != g.sof or list(a.uvals) != list(g.uvals):
                continue
            if mname and a.name[:3] != mname.group(1):
                continue
            for n, (R, t) in enumerate(ops):
                if nn is not None and n != nn:
                    continue
                p = [sum(R[r][k] * [a.x, a.y, a.z][k] for k in range(3)) + t[r] for r in range(3)]
                d = [[g.x, g.y, g.z][r] - p[r] for r in range(3)]
                if all(abs(v - round(v)) < 1e-7 for v in d):
                    found = (i, n, tuple(int(round(v)) for v in d))
                    break
            if found:
                break
        if not found:
            common.add_violation(ctx, 'an added atom is not the exact image of an original atom (operator + integer translation, same element/PART/sof/U)',
                                 dict(case, atom=g.name, xyz=[g.x, g.y, g.z]), 'S a + k', None)
            continue
        i, n, k = found
        # ... and an image under an operator of the space group as constructed (exact table), not only under the library's own list
        src = [atoms[i].x, atoms[i].y, atoms[i].z]
        ok_exact = False
        for (R_, t_) in exact:
            p_ = [sum(R_[r][q] * src[q] for q in range(3)) + t_[r] for r in range(3)]
            d_ = [[g.x, g.y, g.z][r] - p_[r] for r in range(3)]
            if all(abs(v - round(v)) < 1e-7 for v in d_):
                ok_exact = True
                break
        if not ok_exact:
            common.add_violation(ctx, 'an added atom is not the exact image of its original atom under any operator of the space group (operators as constructed, exact fractions)',
                                 dict(case, atom=g.name, xyz=[g.x, g.y, g.z], original=src), 'S a + k with S from the exact table', None)
            continue
        images.add((atoms[i].molindex, n, k))
        # (3) no coincidence with an earlier atom of the same PART
        for (pp, q) in placed:
            if pp == g.part.n and g.part.n >= 0:
                d = sc.glen(G, [g.x - q[0], g.y - q[1], g.z - q[2]])
                if d < 0.2 - 1e-9:
                    common.add_violation(ctx, 'two atoms of the same PART coincide in the grown structure', dict(case, atom=g.name), '>= 0.2', d)
        placed.append((g.part.n, [g.x, g.y, g.z]))
    # (4) every added fragment image is bonded to the asymmetric unit; (5) every directly bonded image is present
    mols = {}
    # Q-peaks take part in the library's bond graph and molecule numbering (they are in the atom list); only the
    # output omits their images
    for i, a in enumerate(atoms):
        mols.setdefault(a.molindex, []).append(i)
    # a Q-peak is not an atom: an image atom is only 'already there' when an atom (original or image) lies within 0.2 A of its place
    present_xyz = [(a.part.n, [a.x, a.y, a.z]) for a in grown if not a.qpeak]

    def image_atoms(mi, n, k):
        R, t = ops[n]
        out = []
        for i in mols[mi]:
            a = atoms[i]
            out.append((i, [sum(R[r][c] * [a.x, a.y, a.z][c] for c in range(3)) + t[r] + k[r] for r in range(3)]))
        return out

    only_hh = {}
    kinds_of = {}
    from props.c12 import inv_diag as _inv_diag
    _spacing = min(1.0 / math.sqrt(g_) for g_ in _inv_diag(G))

    def is_bonded_image(mi, n, k, margin=0.0, real_only=False):
        best = None
        hh = True
        kinds = set()
        for i, p in image_atoms(mi, n, k):
            for b in atoms:
                if real_only and (atoms[i].qpeak or b.qpeak):
                    continue        # completeness is demanded for images bonded through atoms; a contact with a Q-peak (not an atom) does not make an image a bonded one
                d = sc.glen(G, [p[0] - b.x, p[1] - b.y, p[2] - b.z])
                if d > 0.001 and bonded(atoms[i], b, d, margin):      # an atom next to (not on) a symmetry element is bonded to its own image
                    if best is None or d < best:
                        best = d
                    if not (sc.is_h(atoms[i]) and sc.is_h(b) and atoms[i].an == b.an):
                        hh = False
                        # every contact that makes the image a bonded one is classified: a plain one, or one the component-wise wrap cannot see
                        kinds.add('long' if (d >= _spacing / 2 - 1e-3 or d >= 5.3 - 1e-3) else 'plain')
                    else:
                        kinds.add('hh')
        only_hh[(mi, n, k)] = best is not None and hh
        kinds_of[(mi, n, k)] = kinds
        return best is not None, best
    for (mi, n, k) in images:
        ev += 1
        ok, _ = is_bonded_image(mi, n, k, 2.5e-4)
        if not ok:
            common.add_violation(ctx, 'an added fragment image is not bonded to the asymmetric unit', dict(case, molecule=mi, operator=n, shift=list(k)), 'bonded', 'no bond')
    for mi in mols:
        for n in range(len(ops)):
            for k in SH2:
                if n == 0 and k == (0, 0, 0):
                    continue
                ok, d = is_bonded_image(mi, n, k, -2.5e-4, real_only=True)
                if not ok:
                    continue
                ev += 1
                # present, or every atom of it coincides (0.2 A) with an atom of the same PART already there
                missing = []
                for i, p in image_atoms(mi, n, k):
                    if atoms[i].part.n < 0 or atoms[i].qpeak:
                        continue
                    if not any(pp == atoms[i].part.n and sc.glen(G, [p[0] - q[0], p[1] - q[1], p[2] - q[2]]) < 0.2 + 1e-6 for pp, q in present_xyz):
                        missing.append(atoms[i].name)
                if missing:
                    common.add_violation(ctx, 'a fragment image directly bonded to the asymmetric unit is missing from the grown structure',
                                         dict(case, molecule=mi, operator=n, shift=list(k), bond_length=d), 'present', {'missing_atoms': missing[:4]},
                                         cls=('image_bonded_only_through_hydrogen_hydrogen_contacts' if only_hh.get((mi, n, k))
                                              else 'long_contact_beyond_half_interplanar_spacing' if 'plain' not in kinds_of.get((mi, n, k), {'plain'})
                                              else classify_missing(ctx, ob, G, atoms, ops, mi, n, k, d)))
    return ev


def classify_missing(ctx, ob, G, atoms, ops, mi, n, k, d):
    """known finding shared with C13: a contact at or beyond half the smallest interplanar spacing (or beyond the
    5.3 A cut-off of the SDM) is outside what the component-wise wrap can see"""
    from props.c12 import inv_diag
    spacing = min(1.0 / math.sqrt(g) for g in inv_diag(G))
    if d is not None and (d >= spacing / 2 - 1e-3 or d >= 5.3 - 1e-3):
        return 'long_contact_beyond_half_interplanar_spacing'
    return None


def regrow(ctx, st):
    """grow() after an edit on the same object gives what a fresh object gives for the edited file (no state of an earlier grow() survives)"""
    import contextlib, io
    from shelxfile.shelx.shelx import Shelxfile
    text = gs.to_text(st)
    shx = Shelxfile()
    key = lambda atoms: sorted((a.name.split('>>')[0], round(a.x, 5), round(a.y, 5), round(a.z, 5), a.part.n) for a in atoms)
    with contextlib.redirect_stdout(io.StringIO()):
        shx.read_string(text)
        first = shx.grow()
        again = shx.grow()
    if key(first) != key(again):
        common.add_violation(ctx, 'a second grow() on the same object gives a different result', {'text': text}, len(first), len(again))
        return 1
    real = [a for a in shx.atoms.all_atoms if not a.qpeak]
    if len(real) < 2:
        return 1
    victim = ctx.rng.choice(real)
    vname = victim.name
    with contextlib.redirect_stdout(io.StringIO()):
        victim.delete()
        edited = shx.grow()
        fresh = Shelxfile()
        fresh.read_string(im.write_text(shx))
        ref = fresh.grow()
    if key(edited) != key(ref):
        extra = [x for x in key(edited) if x not in key(ref)]
        common.add_violation(ctx, 'grow() after deleting an atom differs from grow() of a fresh object reading the edited file',
                             {'text': text, 'deleted': vname}, {'atoms': len(ref)}, {'atoms': len(edited), 'not_in_reference': extra[:4]})
    return 2


def targeted_search(ctx, tries=300):
    """contacts close to the bonding limit (a short run on every check, the full search when something has broken): failing-input search used when an obligation or the correspondence has broken: molecules on an inversion centre of strongly oblique
    triclinic cells with very unequal axes, whose bond across the centre is close to the bonding limit (where an error in the metric decides)"""
    rng = ctx.rng
    ev = 0
    for k in range(tries):
        while True:
            cell = [round(rng.uniform(5.5, 7.5), 3), round(rng.uniform(15, 19), 3), round(rng.uniform(10, 13), 3),
                    round(rng.choice([rng.uniform(108, 121), rng.uniform(59, 72)]), 2), round(rng.uniform(80, 100), 2), round(rng.uniform(80, 100), 2)]
            rng.shuffle(cell[:3])
            ca, cb, cg = (math.cos(math.radians(x)) for x in cell[3:])
            if 1 + 2 * ca * cb * cg - ca * ca - cb * cb - cg * cg > 0.3:
                break
        M = gs.ortho(cell)
        Mi = gs.inv3(M)
        el = rng.choice(['C', 'N', 'O', 'O'])
        lim = 1.2 * 2 * gs.radius(el)
        r = rng.uniform(0.9, 0.999) * lim if k % 2 else rng.uniform(0.97, 0.9995) * lim
        v = [rng.gauss(0, 0.3), rng.gauss(0, 1), rng.gauss(0, 1)]
        ln = math.sqrt(sum(x * x for x in v))
        half = gs.mv(Mi, [x / ln * r / 2 for x in v])
        c1 = [0.5 + half[i] for i in range(3)]
        w = [rng.gauss(0, 1) for _ in range(3)]
        lw = math.sqrt(sum(x * x for x in w))
        o = gs.mv(Mi, [x / lw * 1.35 for x in w])
        atoms = [{'el': el, 'xyz': [round(x, 5) for x in c1], 'part': 0, 'name': el + '1'},
                 {'el': 'O', 'xyz': [round(c1[i] + o[i], 5) for i in range(3)], 'part': 0, 'name': 'O2'}]
        st = {'name': 'P-1', 'latt': 1, 'symm': [], 'cell': cell, 'atoms': atoms, 'qpeaks': []}
        try:
            ob = sc.observe(st, False)
        except Exception as ex:
            common.add_violation(ctx, 'calc_sdm / packer raised on a valid structure', {'name': 'P-1', 'text': gs.to_text(st)}, 'no exception', repr(ex))
            return ev
        ev += oracle(ctx, st, ob, False)
        if any(v['class'] is None for v in ctx.violations):
            break
    return ev


def grow_after_add(ctx, st):
    """grow() after add_atom() gives what a fresh object gives for the file that holds this atom as its last atom line"""
    import contextlib, io
    from shelxfile.shelx.shelx import Shelxfile
    text = gs.to_text(st)
    rng = ctx.rng
    base = rng.choice(st['atoms'])
    el = rng.choice(['C', 'O', 'N'])
    M = gs.ortho(st['cell'])
    Mi = gs.inv3(M)
    v = [rng.gauss(0, 1) for _ in range(3)]
    ln = math.sqrt(sum(x * x for x in v)) or 1.0
    d = gs.mv(Mi, [x / ln * 1.4 for x in v])
    xyz = [round(base['xyz'][k] + d[k], 5) for k in range(3)]
    key = lambda atoms: sorted((a.name.split('>>')[0], round(a.x, 4), round(a.y, 4), round(a.z, 4), a.part.n) for a in atoms)
    shx = Shelxfile()
    with contextlib.redirect_stdout(io.StringIO()):
        shx.read_string(text)
        shx.add_atom(name='X99', coordinates=list(xyz), element=el, uvals=[0.04, 0.0, 0.0, 0.0, 0.0, 0.0], part=0, sof=11.0)
        edited = shx.grow()
    lines = text.rstrip('\n').split('\n')
    k = [i for i, l in enumerate(lines) if l.startswith('HKLF')][0]
    if any(l.startswith('PART') for l in lines[:k]) and not lines[k - 1].startswith('PART 0'):
        return 0
    sf = gs.ELEMENTS.index(el) + 1
    lines.insert(k, 'X99 %d %.5f %.5f %.5f 11.0 0.04' % (sf, xyz[0], xyz[1], xyz[2]))
    fresh = Shelxfile()
    with contextlib.redirect_stdout(io.StringIO()):
        fresh.read_string('\n'.join(lines) + '\n')
        ref = fresh.grow()
    if key(edited) != key(ref):
        common.add_violation(ctx, 'grow() after add_atom() differs from grow() of a fresh object reading the file that holds the added atom',
                             {'text': text, 'added': ['X99', el, xyz]}, {'atoms': len(ref)}, {'atoms': len(edited), 'missing': [x for x in key(ref) if x not in key(edited)][:4]})
    return 1


def run(ctx):
    common.check_obligations(ctx, THEOREMS)
    rng = ctx.rng
    nstruct = 1000 if ctx.thorough() else 100
    shards, meta = [], []
    defs, terms, chunk = [], [], []
    ev = 0
    for k in range(nstruct):
        # one structure in six is triclinic (P-1 / P1): the only system in which every term of the metric matters
        # every eighth structure: several fragments along one twofold axis / mirror plane of a monoclinic or orthorhombic group, so that they
        # need the same operator and the same lattice translation
        if k % 8 == 3:
            st = gs.gen_structure(rng, name=rng.choice([g for g in ('P2', 'C2', 'P2/m', 'C2/c', 'Pnma', 'P21/m') if g in gs.sg.TABLE] or [None]), force_shared=True)
        else:
            st = gs.gen_structure(rng, name=rng.choice(['P-1', 'P-1', 'P1']) if k % 6 == 5 else None)
        if k % 10 == 3:
            st = gs.gen_chain(rng)      # a chain bonded to its own lattice translates
        with_q = rng.random() < 0.2
        try:
            ob = sc.observe(st, with_q)
        except Exception as ex:
            common.add_violation(ctx, 'calc_sdm / packer raised on a valid structure', {'name': st['name'], 'text': gs.to_text(st)}, 'no exception', repr(ex))
            continue
        ev += oracle(ctx, st, ob, with_q)
        if k % 3 == 0:
            ev += regrow(ctx, st)
        if k % 3 == 1:
            ev += grow_after_add(ctx, st)
        mc = sc.metric_constants_ok(ob)
        if mc and not any('metric constants' in x for x in ctx.broken):
            ctx.broken.append('correspondence: metric constants of the SDM object differ from the cell: ' + mc)
        todo = [(st, ob, k, with_q)]
        # every fourth structure once more with Q-peaks put onto the places of (up to three) image atoms and with_qpeaks set: a Q-peak is not
        # an atom, it must not hide the image atom it sits on (oracle and model tie, both)
        if k % 4 == 2 and ob['grown']:
            st2 = dict(st)
            pick = [g for g in ob['grown'] if g['part'] == 0][:3] or ob['grown'][:1]
            st2['qpeaks'] = list(st['qpeaks']) + [{'name': 'Q%d' % (len(st['qpeaks']) + 1 + i), 'xyz': [round(v, 4) for v in g['xyz']]} for i, g in enumerate(pick)]
            try:
                ob2 = sc.observe(st2, True)
                ev += oracle(ctx, st2, ob2, True)
                todo.append((st2, ob2, k + 100000, True))
                ctx.notes.setdefault('coverage_extra', {})['qpeaks_on_image_places'] = ctx.notes.get('coverage_extra', {}).get('qpeaks_on_image_places', 0) + 1
            except Exception as ex:
                common.add_violation(ctx, 'calc_sdm / packer raised on a valid structure', {'name': st2['name'], 'text': gs.to_text(st2)}, 'no exception', repr(ex))
        for (st_, ob_, k_, wq_) in todo:
            defs.append(sc.coq_defs(ob_, k_))
            t = sc.coq_checks(ob_, k_, wq_)
            terms += t[2:]
            st_['_tied_covalent'] = any((a1, a2) in ob_['tied'] and c for a1, a2, d, n, c in ob_['items'])
            chunk.append(st_)
        if k < 2:
            common.sample(ctx, {'space_group': st['name'], 'atoms': len(st['atoms']), 'needed_symmetry': ob['need'][:3], 'added_atoms': len(ob['grown'])})
        if len(chunk) >= 10:
            shards.append((sc.PRE + '\n'.join(defs), terms)); meta.append(chunk)
            defs, terms, chunk = [], [], []
    if chunk:
        shards.append((sc.PRE + '\n'.join(defs), terms)); meta.append(chunk)
    results = common.coq_eval_sharded(ctx, 'c14', sc.IMPORTS, None, shards)
    nbad = 0
    for ch, res in zip(meta, results):
        for i, st in enumerate(ch):
            for j, what in enumerate(('needed symmetry list', 'atoms appended by the packer')):
                if not common.parse_bool(res[2 * i + j]):
                    if st.get('_tied_covalent'):
                        # two operators give the same bonded distance to the last bit: which image is grown first is decided by float
                        # rounding that the mirror does not reproduce (Python's sum / ** against the model's fold); not compared
                        ctx.notes.setdefault('coverage_extra', {})['tie_not_compared'] = ctx.notes.get('coverage_extra', {}).get('tie_not_compared', 0) + 1
                        continue
                    nbad += 1
                    if nbad <= 5:
                        ctx.broken.append('correspondence Model/Sdm.v (float instance) differs from SDM: %s, structure %s' % (what, st['name']))
    if ctx.broken and not any(v['class'] is None for v in ctx.violations):
        ev += targeted_search(ctx)
    elif not any(v['class'] is None for v in ctx.violations):
        ev += targeted_search(ctx, 60)
    ctx.cov['evaluations'] = ev
    ctx.cov['distinct_nontrivial'] = ev
    ctx.cov['rule'] = ('random structures as in C13 (clusters on / near inversion centres and axes, PARTs, hydrogens, Q-peaks, with_qpeaks on 20%); '
                       'one evaluation per added atom, per added fragment image, and per directly bonded image found by brute force over '
                       'operators x translations in [-2,2]^3; all random, hence distinct')
    ctx.notes.setdefault('coverage_extra', {})['structures'] = nstruct
    ctx.assumptions += ['operator list from the implementation (C11), SDM items as in C13',
                        'completeness of grow() is proved for the model relative to its own contact search (C14_needed_symmetry_complete, C14_packer_complete); that this search sees every bonded image is the minimum-image question of C13 (known finding) and is checked per sample by brute force',
                        'float instance of the model mirrored on the same doubles (tolerance 2^-30)']


def replay(ctx, rp):
    print('replay: structure text is stored in the replay file; re-run ./check C14 with the same seed')
    return 0
