"""C06 — written files are well-formed SHELXL.  Theorems: coq/Props/C06.v (Model/Wrap.v against Spec/WrapSpec.v, for every
text).  Tie B: the model's physical lines are evaluated inside Coq for synthetic texts and for the text of every item of
generated files and compared character by character with misc.wrap_line; FVARs.__str__ and SFACTable.__repr__ are compared
with fvar_lines / sfac_lines.  Failing-input search: written files against an independent well-formedness oracle."""
import contextlib
import io

import common
from common import clist, cstr
from gen import resfile as rf
import impl_model as im

THEOREMS = ['C06_wrap_wellformed', 'C06_wrap_length', 'C06_wrap_cont', 'C06_wrap_tokens', 'C06_wrap_breaks_between_runs', 'C06_write_length',
            'C06_fvar_lines_shape', 'C06_sfac_lines_shape', 'C06_wrap_example']
IMPORTS = 'From SX Require Import Base.Prelude Base.Str Model.Wrap.\n'
NEED_PARAMS = {'SFAC', 'FVAR', 'UNIT', 'CELL', 'ZERR', 'SYMM', 'LATT'}
ELEMS = ['C', 'H', 'O', 'N', 'Cu']
EXPL = 'CU 13.338 3.5828 7.1676 0.247 5.6158 11.3966 1.6735 64.8126 1.191 0.32 1.265 5.0 1.28 63.546'.split()


def wrap_input(tokens, rng, width=76):
    """a valid physical layout of a logical line (input side): continuation lines of at most `width` columns"""
    lines, cur = [], ''
    for t in tokens:
        add = (' ' if cur else '') + t
        if len(cur) + len(add) > width - 2 and cur:
            lines.append(cur + ' =')
            cur = '   ' + t
        else:
            cur += add
    lines.append(cur)
    return lines


def long_file(rng):
    """a file with long instructions: many atoms in restraints, many free variables, explicit scattering factors, long free text"""
    natoms = rng.randint(8, 70)
    names = ['C%d' % (i + 1) for i in range(natoms)]
    nfv = rng.randint(2, 30) if rng.random() < 0.85 else rng.choice([8, 9])      # eight or nine fit on one line
    lines = ['TITL ' + ' '.join(rng.choice(['long', 'well-known', 'title', 'x-ray', 'of', 'compound', 'P-1', 'a' * rng.randint(1, 30)]) for _ in range(rng.randint(1, 14)))[:rng.choice([40, 70, 74, 75])],
             'CELL 0.71073 10.5 11.2 12.3 90 95.5 90', 'ZERR 4 0.001 0.002 0.003 0.01 0.02 0.03', 'LATT 1', 'SYMM -X, 1/2+Y, 1/2-Z']
    expl = rng.random() < 0.5
    mode = rng.choice(['after', 'after', 'first', 'twice', 'between']) if expl else None
    expl2 = ['ZN'] + EXPL[1:]
    if mode == 'first':
        lines += wrap_input(['SFAC'] + EXPL, rng)
        lines.append('SFAC C H O N')
        sfac_of_c = 2
        nun = 5
    elif mode == 'twice':
        lines.append('SFAC C H O N')
        lines += wrap_input(['SFAC'] + EXPL, rng)
        lines += wrap_input(['SFAC'] + expl2, rng)
        sfac_of_c, nun = 1, 6
    elif mode == 'between':
        lines.append('SFAC C H')
        lines += wrap_input(['SFAC'] + EXPL, rng)
        lines.append('SFAC O N')
        sfac_of_c, nun = 1, 5
    else:
        lines.append('SFAC C H O N')
        if expl:
            lines += wrap_input(['SFAC'] + EXPL, rng)
        sfac_of_c, nun = 1, (5 if expl else 4)
    lines.append('UNIT ' + ' '.join(['16', '20', '4', '2', '1', '1'][:nun]))
    for _ in range(rng.randint(0, 2)):
        lines.append(('REM ' + ' '.join(rng.choice(['remark', 'well-known', 'x', 'semi-empirical', 'b' * rng.randint(1, 25)]) for _ in range(20)))[:rng.choice([30, 72, 78, 79, 80])].rstrip())
    if rng.random() < 0.25:
        # a DSR command in a remark is continued like an instruction (the library reads it as one)
        dsr = ['REM', 'DSR', rng.choice(['PUT', 'REPLACE']), 'TOLUENE', 'WITH'] + rng.sample(names, 3) + ['ON'] + rng.sample(names, 3) + ['PART', '1', 'OCC', '-21', 'RESI', 'TOL', 'DFIX']
        cut = rng.randint(6, 12)
        lines += [' '.join(dsr[:cut]) + ' =', '   ' + ' '.join(dsr[cut:])]
    body = []
    kinds = ['SADI', 'FLAT', 'SIMU', 'EADP', 'RIGU', 'DELU', 'DFIX', 'SAME', 'CHIV', 'ISOR', 'EXYZ', 'OMIT', 'CONF', 'MPLA', 'BIND', 'FREE', 'HTAB', 'BOND']
    for _ in range(rng.randint(2, 8)):
        kw = rng.choice(kinds)
        n = rng.randint(2, natoms)
        ats = [x + rng.choice(['', '', '', '_$1', '_12']) for x in rng.sample(names, n)]
        if kw in ('SADI', 'DFIX') and len(ats) % 2:
            ats = ats[:-1] if len(ats) > 2 else ats + [names[0]]
        toks = [kw] + {'DFIX': ['1.54', '0.02'], 'MPLA': [str(min(n, 9))], 'ISOR': ['0.1', '0.2'], 'OMIT': []}.get(kw, []) + ats
        if kw in ('BIND', 'FREE', 'HTAB'):
            toks = [kw] + ats[:2]
        if kw == 'OMIT' and rng.random() < 0.4:
            toks = ['OMIT', '-3', '55.5']       # else: OMIT with a (long) list of atom names, an instruction the library keeps as text
        body.append(toks)
    osf = rng.choice([1.0, 1.0, rng.uniform(0.11111, 1.99999)])        # the overall scale factor is seldom exactly one: lines of full width
    # forms that earlier seeded changes needed (kept in every second file): explicit zeros, a text-kept instruction over three and more lines
    if rng.random() < 0.5:
        body.append(['DAMP', rng.choice(['0', '0.5', '0.7']), '0'])
    if rng.random() < 0.5 and natoms >= 30:
        body.append(['OMIT'] + rng.sample(names, rng.randint(30, natoms)))
    fv = ['%.5f' % (osf if i == 0 else rng.uniform(0.05, 0.95)) for i in range(nfv)]
    one_line = nfv <= 9 and (rng.random() < 0.6 or nfv >= 8)
    if one_line:
        lines.append('FVAR ' + ' '.join(fv))        # up to nine free variables fit on one line of 80 columns
        if rng.random() < 0.6:
            # ... directly followed by a wrapped instruction the library keeps as text
            n_ = rng.randint(16, min(natoms, 40)) if natoms >= 16 else natoms
            lines += wrap_input(['OMIT'] + rng.sample(names, n_), rng, width=rng.choice([60, 76, 79]))
    elif rng.random() < 0.5:
        lines += wrap_input(['FVAR'] + fv, rng)
    else:
        for i in range(0, nfv, 7):
            lines.append('FVAR ' + ' '.join(fv[i:i + 7]))
    rng.shuffle(body)
    k = len(body) // 2
    for toks in body[:k]:
        lines += wrap_input(toks, rng, width=rng.choice([60, 76, 79]))
    for i, nm in enumerate(names):
        if rng.random() < 0.03:
            # displacement parameters below the written precision of five decimals
            u = ['0.05000', rng.choice(['0.000004', '0.000002'])] + [rng.choice(['0.000004', '-0.000004', '0.000003', '0.000002', '0.000006', '0.0', '0.000012'])
                                                                      for _ in range(4)]
            if rng.random() < 0.3:
                u[2:] = ['0.000004'] * 4
        elif rng.random() < 0.4:
            u = ['%.5f' % rng.uniform(0.01, 0.09) for _ in range(3)] + ['%.5f' % rng.uniform(-0.01, 0.01) for _ in range(3)]
        else:
            u = ['%.5f' % rng.uniform(0.01, 0.09)]
        lines += wrap_input([nm, str(sfac_of_c), '%.6f' % rng.uniform(-1, 1), '%.6f' % rng.uniform(-1, 1), '%.6f' % rng.uniform(-1, 1), '11.00000'] + u, rng)
    for toks in body[k:]:
        lines += wrap_input(toks, rng, width=rng.choice([60, 76, 79]))
    lines += ['HKLF 4', 'END']
    return '\n'.join(lines) + '\n'


def check_written(ctx, shx, out, case):
    """the independent well-formedness oracle"""
    phys = out.split('\n')
    if phys and phys[-1] == '':
        phys = phys[:-1]
    # indented lines that an item holds itself as a comment line (e.g. the ' The following is from DSR:' line of insert_frag_fend_entry)
    own_comments = set()
    for i, item in enumerate(shx._reslist):
        if i in shx.delete_on_write:
            continue
        parts = str(item).split('\n')
        for j, part in enumerate(parts):
            if part.startswith(' ') and part.strip() and (j == 0 or '=' not in parts[j - 1].split('!')[0]) and isinstance(item, str) and len(parts) > 1:
                own_comments.add(part)
    prev_cont = False
    for n, l in enumerate(phys):
        if len(l) > 80:
            common.add_violation(ctx, 'a written line is longer than 80 columns', dict(case, line=l, line_number=n + 1), '<= 80', len(l))
            return
        body = l.split('!')[0]
        if prev_cont and not l.startswith(' '):
            common.add_violation(ctx, 'the line after a continuation mark does not begin with a blank', dict(case, line=l, line_number=n + 1), 'blank first', l[:10])
            return
        if not prev_cont and l.startswith(' ') and l.strip() and l not in own_comments:
            common.add_violation(ctx, 'a written line is neither instruction, comment nor continuation (indented text without preceding =)',
                                 dict(case, line=l, line_number=n + 1), 'no such line', l[:40])
            return
        free = l[:3].upper() == 'REM' or l[:4].upper() == 'TITL'
        # free text is not continued by SHELXL; the writer breaks it only when it is too long, and then the break is ' =' at the end
        cont = ('=' in body) if not free else (len(l) >= 70 and l.rstrip().endswith(' ='))
        if cont and not body.rstrip().endswith(' ='):
            common.add_violation(ctx, "a broken line does not end in ' ='", dict(case, line=l, line_number=n + 1), "' =' at the end", body[-10:])
            return
        prev_cont = cont
    if prev_cont:
        common.add_violation(ctx, 'the last written line announces a continuation', case, 'no =', phys[-1])
        return
    # token sequences: the written logical lines against the items' own text
    expected = []
    for i, item in enumerate(shx._reslist):
        if i in shx.delete_on_write or (isinstance(item, str) and item == ''):
            continue
        for part in str(item).split('\n'):
            expected.append(part)
    # join the expected parts the same way (an item's text may itself contain continuation marks, e.g. anisotropic atoms)
    def lex_all(lines):
        res, cur, cont = [], [], False
        for l in lines:
            if not cont and (not l.strip() or l[0] == ' '):
                continue
            free = (l[:3].upper() == 'REM' or l[:4].upper() == 'TITL') and not cont
            body = l.split('!')[0] if not free else l
            c = ('=' in body) if not free else (len(l) >= 70 and l.rstrip().endswith(' ='))
            if free and not c:
                res.append(l.split())
                continue
            cur += body.split('=')[0].split() if c else body.split()
            if not c:
                res.append(cur)
                cur = []
            cont = c
        if cur:
            res.append(cur)
        return res
    got, exp = lex_all(phys), lex_all(expected)
    if got != exp:
        k = next((i for i, (a, b) in enumerate(zip(got, exp)) if a != b), min(len(got), len(exp)))
        common.add_violation(ctx, 'joining the continuation lines of the written file does not restore the token sequence of the instruction',
                             dict(case, index=k), exp[k] if k < len(exp) else None, got[k] if k < len(got) else None)
        return
    def isnum(t):
        try:
            float(t)
            return True
        except ValueError:
            return False
    known = set(k[:4] for k in rf.SYNTAX) | {'TITL', 'REM', 'END', 'HKLF', 'MOLE', 'HOPE', 'REST', 'CHAN', 'FLAP', 'RNUM', 'SOCC', 'RANG', 'TANG', 'ADDA', 'STAG', 'NOTR',
                                               'BEDE', 'LONE', 'TIME', 'FRAG', 'FEND', 'L.S.', 'CGLS', 'RESI', 'PART', 'AFIX', 'SFAC', 'UNIT', 'FVAR', 'CELL', 'ZERR', 'LATT',
                                               'SYMM', 'NEUT', 'DISP', 'LAUE', 'ANSC'}
    source_lines = set(case.get('text', '').split('\n'))
    for l in phys:
        if not l.strip() or l[0] == ' ':
            continue
        t = l.split()
        kw = t[0].split('_')[0].upper()[:4]
        atomlike = len(t) >= 5 and all(isnum(x) for x in t[1:5]) and not isnum(t[0])
        if kw not in known and not t[0].startswith('+') and not atomlike and l not in source_lines and not kw.startswith('REM'):
            common.add_violation(ctx, 'a written line starting in column 1 is neither an instruction nor an atom (and was not in the input): text that was inserted as an indented comment?',
                                 dict(case, line=l), 'instruction, atom, comment or continuation', l[:60])
            return
    for toks in got:
        if not toks:
            continue
        if toks[0].upper() == 'SFAC' and len(toks) > 1 and any(isnum(x) for x in toks[1:]):
            # the explicit form is one instruction: element + 14 numbers
            if isnum(toks[1]) or len(toks) != 16:
                common.add_violation(ctx, 'an explicit SFAC instruction is not written as one instruction of an element and 14 numbers', case, 'SFAC E a1 b1 ... wt (16 tokens)', toks)
                return
        t0 = toks[0]
        try:
            float(t0)
            common.add_violation(ctx, 'a written logical line starts with a bare number', case, 'keyword or atom name', toks[:6])
            return
        except ValueError:
            pass
        if len(toks) == 1 and t0.upper()[:4] in NEED_PARAMS:
            common.add_violation(ctx, 'a written line consists of a keyword without its parameters', case, 'parameters', toks)
            return


def synthetic(rng):
    """texts around the wrap limits: token and blank-run lengths chosen so that every offset is hit"""
    alphabet = 'ABCXYZabcxyz0123456789.-+$_,()/*'
    toks = []
    total = rng.choice([rng.randint(60, 100), rng.randint(76, 84), rng.randint(100, 400)])
    s = ' ' * rng.choice([0, 0, 0, 1, 3])
    while len(s) < total:
        r = rng.random()
        if r < 0.04:
            ln = rng.randint(70, 95)
        elif r < 0.3:
            ln = rng.randint(8, 40)
        else:
            ln = rng.randint(1, 8)
        if rng.random() < 0.1:
            t = rng.choice(['well-known', 'semi-empirical', 'a-b-c', 'x--y', 'C1-C2', 'e.g.', 'a=b', '!rem', '='])
        else:
            t = ''.join(rng.choice(alphabet) for _ in range(ln))
        r = rng.random()
        sep = ' ' * (1 if r < 0.7 else rng.randint(2, 6) if r < 0.97 else rng.randint(70, 90))
        s += t + sep
    if rng.random() < 0.7:
        s = s.rstrip()
    return s


def run(ctx):
    from shelxfile.misc.misc import wrap_line
    common.check_obligations(ctx, THEOREMS)
    rng = ctx.rng
    nfiles = 2500 if ctx.thorough() else 40
    nsyn = 80000 if ctx.thorough() else 1500
    texts = []
    ev = 0
    hist = {'lines_gt_78': 0, 'items': 0}
    fv_cases, sf_cases = [], []
    for k in range(nfiles):
        text = long_file(rng) if k % 4 else rf.render_file(rf.gen_file(rng), rng, 'plain')
        st, inn, shx = im.read_text(text, 'quiet')
        case = {'text': text}
        if st != 'ok' or inn:
            common.add_violation(ctx, 'a valid file with long instructions raises', case, 'ok', '%s %s' % (st, inn))
            continue
        fvl_ = [l for l in text.split('\n') if l.upper().startswith('FVAR')]
        if k % 4 and (rng.random() < 0.5 or (len(fvl_) == 1 and len(fvl_[0].split()) > 8)):
            # long text put into the file through the editing API has to be wrapped like everything else
            names = [a.name for a in shx.atoms.all_atoms if not a.qpeak]
            with contextlib.redirect_stdout(io.StringIO()):
                r_ = rng.random()
                fvl = [l for l in text.split('\n') if l.upper().startswith('FVAR')]
                if len(fvl) == 1 and len(fvl[0].split()) > 8:
                    r_ = 0.0       # eight and more free variables on one physical line: the block has to go behind that ONE line
                if r_ < 0.25:
                    # a block of several lines right behind the first FVAR line (in front of a second FVAR line, if the file has one)
                    shx.insert_frag_fend_entry([['O1', 3, 0.1, 0.2, 0.3], ['C1', 1, 0.25, 0.35, 0.45]], [1, 1, 1, 90, 90, 90])
                elif r_ < 0.4:
                    shx.add_line(shx.fvars.position, 'REM remark behind the free variables')
                elif r_ < 0.7 and names:
                    shx.insert_anis(' '.join(rng.choice(names) for _ in range(rng.randint(25, 60))))
                else:
                    shx.add_line(shx.unit.position, 'SIMU 0.04 0.08 1.7 ' + ' '.join(rng.choice(names or ['C1']) for _ in range(rng.randint(25, 60))))
            case = dict(case, edited='text was inserted through add_line / insert_anis / insert_frag_fend_entry')
        out = im.write_text(shx)
        ev += 1
        check_written(ctx, shx, out, case)
        for i, item in enumerate(shx._reslist):
            if i in shx.delete_on_write or (isinstance(item, str) and item == ''):
                continue
            for part in str(item).split('\n'):
                hist['items'] += 1
                if len(part) > 80:
                    hist['lines_gt_78'] += 1
                    texts.append(part)
                elif rng.random() < 0.05:
                    texts.append(part)
        fv_cases.append(([str(x) for x in shx.fvars.as_stringlist], str(shx.fvars)))
        sf = []
        for e in shx.sfac_table.sfac_table:
            if 'a1' in e:
                sf.append(('exp', [str(e[x]) for x in ('element', 'a1', 'b1', 'a2', 'b2', 'a3', 'b3', 'a4', 'b4', 'c', 'fprime', 'fdprime', 'mu', 'r', 'wt')]))
            else:
                sf.append(('plain', e['element'].capitalize()))
        sf_cases.append((sf, repr(shx.sfac_table)))
        if k < 2:
            common.sample(ctx, {'written_head': out[:600]})
    for _ in range(nsyn):
        texts.append(synthetic(rng))
    texts = [t for t in texts if all(32 <= ord(c) < 127 for c in t)]
    # correspondence: wrap_line against Model/Wrap.v, character by character
    defs, terms = [], []
    for i, t in enumerate(texts):
        got = wrap_line(t).split('\n')
        defs.append('Definition t%d := (lit %s, %s).' % (i, cstr(t), clist(['lit ' + cstr(g) for g in got])))
        terms.append('chk t%d' % i)
    pre = ('Definition chk (c : str * list str) : bool := if list_eq_dec (list_eq_dec Ascii.ascii_dec) (wrap_lines (fst c)) (snd c) then true else false.\n')
    step = 250
    packs = [(pre + '\n'.join(defs[k:k + step]), ['bad_indices (fun b : bool => b) %s' % clist(terms[k:k + step])]) for k in range(0, len(terms), step)]
    results = common.coq_eval_sharded(ctx, 'c06wrap', IMPORTS, None, packs)
    nbad = 0
    for si, res in enumerate(results):
        for b in common.parse_nat_list(res[0]):
            nbad += 1
            if nbad <= 3:
                t = texts[si * step + b]
                ctx.broken.append('correspondence: Model/Wrap.v wrap_lines differs from misc.wrap_line on %r -> %r' % (t, wrap_line(t)))
    # a broken correspondence is searched for a failing input: the spec on the implementation's own output
    for t in texts:
        w = wrap_line(t).split('\n')
        runs_short = all(len(x) <= 75 for x in t.split()) and all(len(x) <= 75 for x in __import__('re').findall(r' +', t))
        if '=' in t or '!' in t:
            continue
        ev += 1
        joined = []
        for l in w:
            joined += l.split('=')[0].split()
        if joined != t.split():
            common.add_violation(ctx, 'wrap_line changes the token sequence of a line', {'line': t}, t.split()[:40], joined[:40])
            break
        if runs_short and any(len(l) > 80 for l in w):
            common.add_violation(ctx, 'wrap_line produces a line of more than 80 columns', {'line': t}, '<= 80', [len(l) for l in w])
            break
        if any(not l.endswith(' =') for l in w[:-1]) or any(not l.startswith(' ') for l in w[1:]):
            common.add_violation(ctx, "wrap_line: a broken line does not end in ' =' or its continuation does not begin with a blank", {'line': t}, 'sound continuation', w)
            break
    # FVAR / SFAC printers against the models
    defs = ['Definition fv : list (list str * list str) := %s.' % clist(
        ['(%s, %s)' % (clist(['lit ' + cstr(v) for v in vals]), clist(['lit ' + cstr(l) for l in (txt.split('\n') if txt else [])])) for vals, txt in fv_cases]),
            'Definition sf : list (list sfac_entry * list str) := %s.' % clist(
        ['(%s, %s)' % (clist(['SPlain (lit %s)' % cstr(e[1]) if e[0] == 'plain' else 'SExp %s' % clist(['lit ' + cstr(v) for v in e[1]]) for e in ents]),
                       clist(['lit ' + cstr(l) for l in (txt.split('\n') if txt else [])])) for ents, txt in sf_cases]),
            'Definition leq (a b : list str) : bool := if list_eq_dec (list_eq_dec Ascii.ascii_dec) a b then true else false.']
    res = common.coq_eval(ctx, 'c06fv', IMPORTS, '\n'.join(defs), ['bad_indices (fun c : list str * list str => leq (fvar_lines (fst c)) (snd c)) fv',
                                                                    'bad_indices (fun c : list sfac_entry * list str => leq (sfac_lines (fst c)) (snd c)) sf'])
    for b in common.parse_nat_list(res[0])[:3]:
        ctx.broken.append('correspondence: fvar_lines differs from FVARs.__str__ for %s -> %r' % fv_cases[b])
    for b in common.parse_nat_list(res[1])[:3]:
        ctx.broken.append('correspondence: sfac_lines differs from SFACTable.__repr__ for %s -> %r' % sf_cases[b])
    ctx.cov['evaluations'] = ev + len(texts) + len(fv_cases) + len(sf_cases)
    ctx.cov['distinct_nontrivial'] = len(set(texts))
    ctx.cov['rule'] = ('files with long instructions (restraints over 2-70 atoms with residue and symmetry suffixes, 2-30 free variables on one wrapped or several '
                       'lines, explicit scattering factors, TITL/REM text of 30-80 columns with hyphenated words, anisotropic atoms) and generator files; '
                       'synthetic texts of 60-400 characters with token lengths 1-95, blank runs 1-90, hyphens, leading and trailing blanks around every wrap offset')
    ctx.notes.setdefault('coverage_extra', {})['histogram'] = dict(hist, synthetic=nsyn, wrapped_texts=sum(1 for t in texts if len(t) > 80))
    ctx.assumptions += ['printable ASCII without tabs (textwrap treats other white space like blanks)',
                        'tokens and blank runs of at most 75 characters for the 80-column bound (a longer token cannot be placed on any SHELXL line)',
                        'textwrap.wrap in the one configuration used is modelled by hand (Model/Wrap.v) and validated character by character on the generated texts']


def replay(ctx, rp):
    from shelxfile.misc.misc import wrap_line
    c = rp['violation']['case']
    if 'line' in c and 'text' not in c:
        print('replay:', [len(l) for l in wrap_line(c['line']).split('\n')])
        return 0
    st, inn, shx = im.read_text(c['text'], 'quiet')
    out = im.write_text(shx)
    print('replay: longest written line', max(len(l) for l in out.split('\n')))
    return 0
