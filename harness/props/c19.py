"""C19 — a refinement run never loses the user's model, whatever SHELXL does.
Theorems: coq/Props/C19.v (Model/Refine.v: the protocol over a file system of byte strings with SHELXL as an arbitrary
function that only leaves the backup copy alone).  Tie B: Shelxfile.refine() is driven against a scripted stand-in for the
shelxl executable (first on PATH, in a scratch directory) for every scripted behaviour; the outcome and the bytes of the files
afterwards are compared with the model evaluated inside Coq on the same bytes and the same behaviour.
Failing-input search: .res restored byte-identically on every failure mode, .ins = model without ACTA and with the requested
cycles, reload and ACTA position on success."""
import contextlib
import io
import os
import shutil
import stat
import tempfile

import common
from common import clist, cstr, cz
from gen import resfile as rf
import impl_model as im
from props import c04

THEOREMS = ['C19_refine_failure_restores', 'C19_refine_failed_iff', 'C19_refine_ins_is_model', 'C19_refine_success_reloads', 'C19_refine_example',
            'C19_refine_crash_safe', 'C19_refine_trace_ends', 'C19_crash_example', 'C19_refine_b_backup_is_refine',
            'C19_refine_nobackup_failure_restores_nothing', 'C19_refine_failure_keeps_model', 'C19_nobackup_example']
IMPORTS = 'From SX Require Import Base.Prelude Base.Str Model.Refine.\n'

FAKE = r'''#!/bin/sh
# stand-in for SHELXL used by the verification harness.  Version 2018/3
# usage: shelxl -bN name ; behaviour from $FAKE_MODE
name="$2"
cp "$name.ins" "$name.seen_ins" 2>/dev/null
if [ -f "$name.lstsrc" ]; then cp "$name.lstsrc" "$name.lst"; fi
if [ -n "$FAKE_SAY" ]; then printf '%s\n' "$FAKE_SAY"; fi
case "$FAKE_MODE" in
  ok)         cp "$name.new" "$name.res"; echo " finished at" ; exit 0 ;;
  ok_lst)     cp "$name.new" "$name.res"; echo " R1 = 0.05" > "$name.lst"; exit 0 ;;
  fail_code)  cp "$name.new" "$name.res"; exit 3 ;;
  fail_keep)  exit 1 ;;
  empty)      : > "$name.res"; exit 0 ;;
  short)      printf 'TITL' > "$name.res"; exit 0 ;;
  missing)    rm -f "$name.res"; exit 0 ;;
  missing_code) rm -f "$name.res"; exit 2 ;;
  garbage_fail) printf 'garbage garbage garbage' > "$name.res"; exit 1 ;;
  signal)     cp "$name.new" "$name.res"; kill -9 $$ ;;
  crash_del)   rm -f "$name.res"; kill -9 $PPID; exit 0 ;;
  crash_trunc) : > "$name.res"; kill -9 $PPID; exit 0 ;;
  crash_new)   cp "$name.new" "$name.res"; kill -9 $PPID; exit 0 ;;
esac
exit 0
'''
MODES = ['ok', 'ok_lst', 'fail_code', 'fail_keep', 'empty', 'short', 'missing', 'missing_code', 'garbage_fail', 'signal']
FAILS = {'fail_code', 'fail_keep', 'empty', 'short', 'missing', 'missing_code', 'garbage_fail', 'signal'}


def make_res(rng):
    """a model with UNIT, optional ACTA (anywhere among the instructions), L.S. or CGLS"""
    text = c04.make_file(rng, 'plain')
    lines = text.rstrip('\n').split('\n')
    if not any(l.upper().startswith(('L.S.', 'CGLS')) for l in lines):      # a refinement job has a cycles instruction
        fv = [i for i, l in enumerate(lines) if l.upper().startswith('FVAR')][0]
        lines.insert(fv, rng.choice(['L.S. 10', 'CGLS 5', 'L.S. 4 0 2', 'L.S. 10 0 12', 'CGLS 8 0 3', 'L.S. 6 2']))
    elif rng.random() < 0.35:
        # the last cycles instruction of the job with nrf = 0 and a number of extra parameters (a squeezed structure)
        last = [i for i, l in enumerate(lines) if l.upper().startswith(('L.S.', 'CGLS'))][-1]
        lines[last] = '%s %d 0 %d' % (lines[last].split()[0], rng.randint(1, 20), rng.randint(1, 30))
    return '\n'.join(lines) + '\n'


def new_res(text, rng):
    """what a successful SHELXL would write: the .ins content with changed numbers (here: a changed free variable and an extra REM)"""
    lines = [l for l in text.rstrip('\n').split('\n') if not l.upper().startswith('ACTA')]
    lines.insert(1, 'REM refined by the stand-in')
    return '\n'.join(lines) + '\n'


LST = {
    'good': [' LATT  1', ' something', ' Final Structure Factor Calculation for  m  in P2(1)/c', '', ' Total number of l.s. parameters =   100', '',
             ' wR2 =  0.1005 before cycle   5 for    2000 data and    100 /    100 parameters', ' GooF = S =     1.016;     Restrained GooF =      1.016 for      10 restraints', ' end of listing'],
    # SHELXL stopped before anything was refined: the listing reports no data and no parameters
    'zero': [' LATT  1', ' Final Structure Factor Calculation for  m  in P2(1)/c', '', '', '',
             ' wR2 =  0.0000 before cycle   1 for       0 data and      0 /      0 parameters', ' GooF = S =     0.000;     Restrained GooF =      0.000 for       0 restraints', ' end'],
    # a listing without the echo of the LATT instruction whose last line is a single word
    'nolatt': [' Final Structure Factor Calculation for  m  in P2(1)/c', '', '', '',
               ' wR2 =  0.1005 before cycle   5 for    2000 data and    100 /    100 parameters', ' GooF = S =     1.016;     Restrained GooF =      1.016 for      10 restraints', ' +++'],
    'truncated': [' LATT  1', ' Final Structure Factor Calculation for  m  in P2(1)/c'],
    'none': None,
}
STEMS = ['m', 'm', 'comp.v2']       # a structure name with a dot in it is a legal file stem


SAYS = ['', '', ' TITL M\udcfcller in P-1   (a byte that is not UTF-8, as SHELXL echoes a latin-1 title)', ' ** CANNOT OPEN FILE m.fab **', ' ** Cannot open file M.FAB **', ' ** CANNOT OPEN FILE m.hkl **', ' ** CANNOT RESOLVE SAME **', ' ** Extinction (EXTI) or solvent water (SWAT) correction may be required **',
        ' R1 =  0.0500 for   1234 Fo > 4sig(Fo)  and  0.0600 for all   2000 data', ' +  Copyright(C) George M. Sheldrick 1993-2018     Version 2018/3  +',
        ' ** MERG code changed to 0 **', ' ** Bond(s) to C1 ignored **', ' wR2 = 0.1 before cycle 1 for 2000 data', ' +  m   finished at 12:00:00   Total elapsed time: 1.0 secs  +']


def common_ascii(s):
    return all(32 <= ord(c) < 127 or c == '\n' for c in s)


def run_refine(tmp, text, newtext, mode, cycles, keep=False, stem='m', lst='none', block_saves=False, say='', from_ins=False, backup=True, debug=False, then=None):
    if not keep:
        for f in os.listdir(tmp):
            p = os.path.join(tmp, f)
            if f not in ('bin',):
                shutil.rmtree(p) if os.path.isdir(p) else os.remove(p)
        open(os.path.join(tmp, stem + '.res'), 'wb').write(text.encode('utf-8'))
        if from_ins:
            # the model is read from the instruction file of the last run (same content), the result file is there as well
            open(os.path.join(tmp, stem + '.ins'), 'wb').write(text.encode('utf-8'))
    else:
        for f in (stem + '.seen_ins', stem + '.ins'):
            if os.path.exists(os.path.join(tmp, f)):
                os.remove(os.path.join(tmp, f))
    open(os.path.join(tmp, stem + '.hkl'), 'w').write('   0   0   0    0.00    0.00\n')
    open(os.path.join(tmp, stem + '.new'), 'wb').write(newtext.encode('utf-8'))
    if block_saves and not os.path.exists(os.path.join(tmp, 'shxsaves')):
        open(os.path.join(tmp, 'shxsaves'), 'w').write('a regular file where the history directory would be\n')
    if os.path.exists(os.path.join(tmp, stem + '.lstsrc')):
        os.remove(os.path.join(tmp, stem + '.lstsrc'))
    if LST[lst] is not None:
        open(os.path.join(tmp, stem + '.lstsrc'), 'w').write('\n'.join(LST[lst]) + '\n')
    from shelxfile.shelx.shelx import Shelxfile
    cwd = os.getcwd()
    os.chdir(tmp)
    old_path = os.environ.get('PATH', '')
    os.environ['PATH'] = os.path.join(tmp, 'bin') + os.pathsep + old_path
    os.environ['FAKE_MODE'] = mode
    os.environ['FAKE_SAY'] = say
    res = {'raised': None}
    shx = Shelxfile(debug=debug)
    try:
        with contextlib.redirect_stdout(io.StringIO()):
            shx.read_file(stem + ('.ins' if from_ins and not keep else '.res'))
            pre_lines = [str(x) for i, x in enumerate(shx._reslist) if i not in shx.delete_on_write and str(x) != '']
            had_acta = shx.acta is not None
            try:
                res['returned'] = shx.refine(cycles) if backup else shx.refine(cycles, backup_before=False)
            except SystemExit:
                res['raised'] = 'SystemExit'
            except BaseException as e:
                res['raised'] = type(e).__name__ + ': ' + str(e)
            # the object after the run, before anything else happens to it
            res['acta_in_object'] = shx.acta is not None
            res['pre_lines'] = pre_lines
            try:
                res['object_text'] = im.write_text(shx) if res['raised'] == 'SystemExit' else None
            except Exception as e:
                res['object_text'] = 'write raised %s' % type(e).__name__
            res['object_lines'] = [str(x) for i, x in enumerate(shx._reslist) if i not in shx.delete_on_write and str(x) != '']
            if then is not None:
                # a second run with the same object (the first one may have failed)
                os.environ['FAKE_MODE'] = then
                try:
                    res['then_returned'] = shx.refine(cycles)
                    res['then_raised'] = None
                except SystemExit:
                    res['then_raised'] = 'SystemExit'
                except BaseException as e:
                    res['then_raised'] = type(e).__name__ + ': ' + str(e)
                res['then_acta_in_object'] = shx.acta is not None
                res['then_object_lines'] = [str(x) for i, x in enumerate(shx._reslist) if i not in shx.delete_on_write and str(x) != '']
    finally:
        os.chdir(cwd)
        os.environ['PATH'] = old_path
    # bytes, not text: universal-newline reading would hide a changed line end
    rd = lambda n: open(os.path.join(tmp, n), 'rb').read().decode('utf-8', 'surrogateescape') if os.path.exists(os.path.join(tmp, n)) else None
    stray = sorted(f for f in os.listdir(tmp) if f.endswith('.ins') and f != stem + '.ins')
    res.update({'res': rd(stem + '.res'), 'ins': rd(stem + '.ins'), 'seen_ins': rd(stem + '.seen_ins'), 'bak': rd(stem + '.shx-bak'), 'had_acta': had_acta, 'stray_ins': stray,
                'saves': [open(os.path.join(tmp, 'shxsaves', f), 'rb').read().decode('utf-8', 'surrogateescape') for f in os.listdir(os.path.join(tmp, 'shxsaves'))] if os.path.isdir(os.path.join(tmp, 'shxsaves')) else [],
                'shx': shx})
    return res


def two_files(ctx, tmp, text, newtext, rng):
    from shelxfile.shelx.shelx import Shelxfile
    for f in os.listdir(tmp):
        p = os.path.join(tmp, f)
        if f not in ('bin',):
            shutil.rmtree(p) if os.path.isdir(p) else os.remove(p)
    text_b = text.replace('TITL', 'TITL second', 1)
    new_b = newtext.replace('REM refined by the stand-in', 'REM second refined by the stand-in')
    for stem, t, nw in (('first', text, newtext), ('second', text_b, new_b)):
        open(os.path.join(tmp, stem + '.res'), 'wb').write(t.encode('utf-8'))
        open(os.path.join(tmp, stem + '.hkl'), 'w').write('   0   0   0    0.00    0.00\n')
        open(os.path.join(tmp, stem + '.new'), 'wb').write(nw.encode('utf-8'))
    mode2 = rng.choice(['ok', 'fail_code', 'empty', 'missing'])
    cwd = os.getcwd()
    os.chdir(tmp)
    old_path = os.environ.get('PATH', '')
    os.environ['PATH'] = os.path.join(tmp, 'bin') + os.pathsep + old_path
    os.environ['FAKE_SAY'] = ''
    shx = Shelxfile()
    raised = None
    try:
        with contextlib.redirect_stdout(io.StringIO()):
            os.environ['FAKE_MODE'] = 'ok'
            shx.read_file('first.res')
            try:
                shx.refine(2)
            except BaseException as e:
                raised = 'first: ' + type(e).__name__
            os.environ['FAKE_MODE'] = mode2
            shx.read_file('second.res')
            try:
                shx.refine(3)
            except SystemExit:
                pass
            except BaseException as e:
                raised = 'second: %s: %s' % (type(e).__name__, e)
    finally:
        os.chdir(cwd)
        os.environ['PATH'] = old_path
    rd = lambda n: open(os.path.join(tmp, n), 'rb').read().decode('utf-8', 'surrogateescape') if os.path.exists(os.path.join(tmp, n)) else None
    case = {'text': text, 'mode': 'first.res ok, then second.res ' + mode2 + ' on the same object'}
    if raised and not (mode2 != 'ok' and raised.startswith('second: SystemExit')):
        common.add_violation(ctx, 'refining a second structure on the same object raises', case, 'no exception', raised)
        return 1
    if rd('second.seen_ins') is None:
        common.add_violation(ctx, 'SHELXL was not started for the structure that was read last (no .ins was handed over for it)', case, 'second.ins handed to SHELXL',
                             sorted(f for f in os.listdir(tmp) if f.endswith(('.ins', '.seen_ins'))))
        return 1
    exp_b = new_b if mode2 == 'ok' else text_b
    if rd('second.res') != exp_b:
        common.add_violation(ctx, 'after refining the second structure its .res is not the %s' % ('result SHELXL wrote' if mode2 == 'ok' else 'previous file, byte for byte'), case,
                             exp_b[:80], (rd('second.res') or 'missing')[:80])
        return 1
    if rd('first.res') != newtext:
        common.add_violation(ctx, 'refining the second structure changed the .res of the first one', case, newtext[:80], (rd('first.res') or 'missing')[:80])
    return 1


def crash_run(tmp, text, newtext, variant, stem='m'):
    """refine() in a child process that is killed (SIGKILL, by the stand-in for SHELXL) while SHELXL runs, after the stand-in has deleted,
    truncated or replaced the result file: a crash point of C19_refine_crash_safe observed on the real code.  Returns the bytes on disk."""
    import subprocess
    import sys
    for f in os.listdir(tmp):
        p = os.path.join(tmp, f)
        if f not in ('bin',):
            shutil.rmtree(p) if os.path.isdir(p) else os.remove(p)
    open(os.path.join(tmp, stem + '.res'), 'wb').write(text.encode('utf-8'))
    open(os.path.join(tmp, stem + '.hkl'), 'w').write('   0   0   0    0.00    0.00\n')
    open(os.path.join(tmp, stem + '.new'), 'wb').write(newtext.encode('utf-8'))
    env = dict(os.environ, PATH=os.path.join(tmp, 'bin') + os.pathsep + os.environ.get('PATH', ''), FAKE_MODE='crash_' + variant)
    code = ('from shelxfile.shelx.shelx import Shelxfile\ns = Shelxfile()\ns.read_file(%r)\ns.refine(4)\n' % (stem + '.res'))
    pr = subprocess.run([sys.executable, '-c', code], cwd=tmp, env=env, stdout=subprocess.DEVNULL, stderr=subprocess.DEVNULL, timeout=60)
    rd = lambda n: open(os.path.join(tmp, n), 'rb').read().decode('utf-8', 'surrogateescape') if os.path.exists(os.path.join(tmp, n)) else None
    return {'returncode': pr.returncode, 'res': rd(stem + '.res'), 'bak': rd(stem + '.shx-bak')}


def run(ctx):
    common.check_obligations(ctx, THEOREMS)
    rng = ctx.rng
    n = 200 if ctx.thorough() else 6
    ev = 0
    tmp = tempfile.mkdtemp(prefix='verif-c19-')
    coq_cases = []
    nb_cases, mem_cases = [], []
    hist = {}
    try:
        os.mkdir(os.path.join(tmp, 'bin'))
        fake = os.path.join(tmp, 'bin', 'shelxl')
        open(fake, 'w').write(FAKE)
        os.chmod(fake, os.stat(fake).st_mode | stat.S_IXUSR | stat.S_IXGRP | stat.S_IXOTH)
        for k in range(n * 3):
            # every model in three byte-level renditions: LF line ends, CR LF line ends (a file edited on Windows), non-ASCII text in a remark
            if k % 3 == 0:
                base = make_res(rng)
            text = base
            if k % 3 == 1:
                text = base.replace('\n', '\r\n')
            elif k % 3 == 2:
                bl = base.split('\n')
                bl.insert(1, 'REM d(C-C) = 1.54 \u00c5, \u00b5 = 0.1 mm-1')
                text = '\n'.join(bl)
            hist['line ends ' + ('LF', 'CRLF', 'LF+non-ASCII')[k % 3]] = hist.get('line ends ' + ('LF', 'CRLF', 'LF+non-ASCII')[k % 3], 0) + 1
            newtext = new_res(base, rng)
            for mode in MODES:
                cycles = rng.choice([None, 0, 4, 12])
                stem = STEMS[(k + MODES.index(mode)) % len(STEMS)]
                lst = rng.choice(sorted(LST))
                if mode == 'ok':
                    lst = sorted(LST)[k % len(LST)]      # every shape of listing meets a successful run
                if mode == 'ok_lst':
                    lst = 'none'        # this behaviour writes its own listing
                blocked = rng.random() < 0.2       # the history directory shxsaves cannot be created (a file of that name exists)
                say = rng.choice(SAYS)
                from_ins = rng.random() < 0.15
                r = run_refine(tmp, text, newtext, mode, cycles, stem=stem, lst=lst, block_saves=blocked, say=say, from_ins=from_ins)
                if from_ins:
                    hist['model read from .ins'] = hist.get('model read from .ins', 0) + 1
                if say:
                    hist['shelxl output line'] = hist.get('shelxl output line', 0) + 1
                if blocked:
                    hist['shxsaves blocked'] = hist.get('shxsaves blocked', 0) + 1
                ev += 1
                hist[mode] = hist.get(mode, 0) + 1
                hist['listing ' + lst] = hist.get('listing ' + lst, 0) + 1
                hist['stem ' + stem] = hist.get('stem ' + stem, 0) + 1
                case = {'text': text, 'mode': mode, 'cycles': cycles, 'stem': stem, 'listing': LST[lst], 'shxsaves_blocked': blocked, 'shelxl_says': say, 'read_from_ins': from_ins}
                failed = mode in FAILS
                if failed:
                    if r['res'] != text:
                        common.add_violation(ctx, 'after a failed SHELXL run (%s) the .res file is not the previous one, byte for byte' % mode, case, 'identical to the file before the run',
                                             'missing' if r['res'] is None else r['res'][:120])
                        continue
                    if r['raised'] is None and r.get('returned'):
                        common.add_violation(ctx, 'a failed SHELXL run (%s) is reported as a successful refinement' % mode, case, 'failure signalled', 'refine() returned True')
                        continue
                else:
                    if r['raised']:
                        common.add_violation(ctx, 'a successful SHELXL run raises', case, 'True', r['raised'])
                        continue
                    shx = r['shx']
                    if r['res'] != newtext:
                        common.add_violation(ctx, 'after a successful run the .res file is not the one SHELXL wrote', case, newtext[:100], (r['res'] or '')[:100])
                        continue
                    if 'REM refined by the stand-in' not in [str(x) for x in shx._reslist]:
                        common.add_violation(ctx, 'after a successful run the object is not reloaded from the new result', case, 'model of the new .res', [str(x) for x in shx._reslist][:4])
                        continue
                    if r['had_acta']:
                        ui = shx.unit.index
                        if shx.acta is None or shx.acta.index != ui + 1 or not str(shx._reslist[ui + 1]).upper().startswith('ACTA'):
                            common.add_violation(ctx, 'after a successful run ACTA is not back at its place after UNIT', case, 'ACTA at UNIT+1',
                                                 [str(x) for x in shx._reslist[ui:ui + 3]])
                            continue
                # the .ins handed to SHELXL
                if r['stray_ins']:
                    common.add_violation(ctx, 'the model was written to an .ins file with a different name than the one handed to SHELXL', case, stem + '.ins', r['stray_ins'])
                    continue
                ins = r['seen_ins'] if r['seen_ins'] is not None else r['ins']
                if ins is None:
                    common.add_violation(ctx, 'no .ins file was handed to SHELXL', case, 'an .ins file', None)
                    continue
                toks = [l['tokens'] for l in rf.independent_lex(ins) if l['tokens']]
                if any(t[0].upper().startswith('ACTA') for t in toks):
                    common.add_violation(ctx, 'the .ins file handed to SHELXL contains ACTA', case, 'no ACTA', [t for t in toks if t[0].upper().startswith('ACTA')])
                    continue
                cyc = [t for t in toks if t[0].upper() in ('L.S.', 'CGLS')]
                # with several cycles instructions in a file the last one counts
                if cycles is not None and cyc and (len(cyc[-1]) < 2 or int(float(cyc[-1][1])) != cycles):
                    common.add_violation(ctx, 'the .ins file does not carry the requested number of cycles', case, cycles, cyc[-1])
                    continue
                exp = [t for t in (l['tokens'] for l in rf.independent_lex(text) if l['tokens']) if not t[0].upper().startswith('ACTA')]
                # the other parameters of the cycles instruction (nrf, nextra) are those of the model
                exp_cyc = [t for t in exp if t[0].upper() in ('L.S.', 'CGLS')]
                if cyc and exp_cyc:
                    pad = lambda t: ([float(x) for x in t[2:4]] + [0.0, 0.0])[:2]
                    try:
                        same_rest = pad(cyc[-1]) == pad(exp_cyc[-1])
                    except ValueError:
                        same_rest = False
                    if not same_rest:
                        common.add_violation(ctx, 'the cycles instruction of the .ins file differs from the model in nrf / nextra', case, exp_cyc[-1], cyc[-1])
                        continue
                if [t[0].upper() for t in keys_coalesced(toks)] != [t[0].upper() for t in keys_coalesced(exp)]:
                    common.add_violation(ctx, 'the .ins file is not the current model (instruction sequence differs)', case, [t[0] for t in keys_coalesced(exp)][:30], [t[0] for t in toks][:30])
                    continue
                # for the model replay
                coq_cases.append((text, newtext, mode, r))
                if k < 1 and mode in ('ok', 'missing'):
                    common.sample(ctx, {'mode': mode, 'raised': r['raised'], 'res_restored': r['res'] == text, 'ins_head': (ins or '')[:200]})
            # one object used for two structures: the second refinement is about the second file
            if k % 3 == 1:
                ev += two_files(ctx, tmp, text, newtext, rng)
            # crash points: the Python process dies while SHELXL runs
            if k % 3 == 0:
                for variant in ('del', 'trunc', 'new'):
                    cr = crash_run(tmp, text, newtext, variant, stem=STEMS[k % len(STEMS)])
                    ev += 1
                    hist['crash ' + variant] = hist.get('crash ' + variant, 0) + 1
                    if cr['returncode'] != -9:
                        ctx.notes.setdefault('coverage_extra', {})['crash_runs_not_killed'] = ctx.notes.get('coverage_extra', {}).get('crash_runs_not_killed', 0) + 1
                    if text not in (cr['res'], cr['bak']):
                        common.add_violation(ctx, 'after a crash of the process during the SHELXL run the previous model is neither in the .res file nor in the backup file',
                                             {'text': text, 'mode': 'crash_' + variant}, 'previous .res bytes in .res or .shx-bak',
                                             {'res': None if cr['res'] is None else cr['res'][:80], 'backup': None if cr['bak'] is None else cr['bak'][:80]})
            # backup off: a failed run must not bring back the backup of an EARLIER run (an older model than the one SHELXL started from)
            if k % 2 == 0:
                for mode in ('fail_code', 'empty', 'missing'):
                    r1 = run_refine(tmp, text, newtext, 'ok', 4)
                    after_first = r1['res']
                    if r1['raised'] or after_first != newtext or text == newtext:
                        continue
                    newer = newtext.replace('REM refined by the stand-in', 'REM refined twice')
                    r2 = run_refine(tmp, after_first, newer, mode, 2, keep=True, backup=False)
                    ev += 1
                    hist['backup off'] = hist.get('backup off', 0) + 1
                    nb_cases.append((mode, 'new' if r2['res'] == newer else 'empty' if r2['res'] == '' else 'none' if r2['res'] is None else 'first' if r2['res'] == after_first
                                     else 'older' if r2['res'] == text else 'other'))
                    if r2['res'] == text:
                        common.add_violation(ctx, 'a failed run without backup (%s) put the backup of an earlier run over the .res file: the result of the run in between is lost' % mode,
                                             {'text': text, 'mode': 'ok, then %s with backup_before=False' % mode}, 'the .res as SHELXL left it, or the result of the first run',
                                             'the model from before the first run')
                        break
            # a failed run followed by a successful one with the same object: ACTA stays part of the model
            if k % 2 == 1 and any(l.upper().startswith('ACTA') for l in text.split('\n')):
                for mode in ('fail_code', 'empty'):
                    r = run_refine(tmp, text, newtext, mode, 4, then='ok')
                    ev += 1
                    hist['failed then ok'] = hist.get('failed then ok', 0) + 1
                    case_ = {'text': text, 'mode': mode + ', then ok (same object)'}
                    if r['raised'] != 'SystemExit':
                        continue
                    if isinstance(r.get('object_text'), str) and r.get('seen_ins') is not None and common_ascii(r['object_text']) and common_ascii(r['seen_ins']):
                        acta_line = next((l for l in r['pre_lines'] if l.upper().startswith('ACTA')), None)
                        if acta_line is not None and '\n' not in acta_line:
                            mem_cases.append((acta_line, [l for l in r['seen_ins'].split('\n') if l.strip()], [l for l in r['object_text'].split('\n') if l.strip()]))
                    if not r['acta_in_object'] or not any(l.upper().startswith('ACTA') for l in r['object_lines']):
                        common.add_violation(ctx, 'after a failed run the model in memory has lost its ACTA instruction', case_, 'ACTA in the object', r['object_lines'][:12])
                        break
                    if r.get('then_raised') is None and not any(l.upper().startswith('ACTA') for l in r.get('then_object_lines', [])):
                        common.add_violation(ctx, 'after a failed and then a successful run ACTA is not back in the model', case_, 'ACTA after UNIT', r['then_object_lines'][:12])
                        break
            # debug mode: a failed run with the listing SHELXL leaves behind then (a few lines) still restores the .res
            if k % 3 == 2:
                for mode in ('fail_code', 'empty'):
                    r = run_refine(tmp, text, newtext, mode, 4, lst='truncated', debug=True)
                    ev += 1
                    hist['debug mode failure'] = hist.get('debug mode failure', 0) + 1
                    if r['res'] != text:
                        common.add_violation(ctx, 'in debug mode a failed run (%s) with an incomplete listing file does not restore the previous .res' % mode,
                                             {'text': text, 'mode': mode + ' (debug=True, truncated .lst)'}, 'previous .res', {'raised': r['raised'], 'res': None if r['res'] is None else r['res'][:80]})
                        break
            # histories: a successful run followed by a failing one in the same directory (the backup must be the one of the last run)
            for mode in sorted(FAILS):
                r1 = run_refine(tmp, text, newtext, 'ok', 4)
                after_first = r1['res']
                newer = newtext.replace('REM refined by the stand-in', 'REM refined twice')
                r2 = run_refine(tmp, after_first, newer, mode, 2, keep=True)
                ev += 1
                if r1['raised'] or after_first != newtext:
                    continue
                if r2['res'] != after_first:
                    common.add_violation(ctx, 'after a successful and then a failed run (%s) the .res file is not the result of the successful run' % mode,
                                         {'text': text, 'mode': 'ok then ' + mode}, 'the .res written by the successful run', 'missing' if r2['res'] is None else r2['res'][:150])
                    break
    finally:
        shutil.rmtree(tmp, ignore_errors=True)
    # correspondence: the protocol model on the same bytes and the same scripted behaviour.  Files are abstracted to short tags:
    # the model is polymorphic in the bytes, so the tie is on outcome, restored .res, backup removal and .ins identity
    terms = []
    beh = {'ok': ('0', 'Some new'), 'ok_lst': ('0', 'Some new'), 'fail_code': ('3', 'Some new'), 'fail_keep': ('1', 'g FRes'), 'empty': ('0', 'Some []'),
           'short': ('0', 'Some (lit "TITL")'), 'missing': ('0', 'None'), 'missing_code': ('2', 'None'), 'garbage_fail': ('1', 'Some (lit "garbage garbage garbage")'),
           'signal': ('(-9)', 'Some new')}
    for text, newtext, mode, r in coq_cases:
        code, resx = beh[mode]
        got_failed = 'true' if (r['raised'] is not None or not r.get('returned')) else 'false'
        res_same = 'true' if r['res'] == text else 'false'
        res_new = 'true' if r['res'] == newtext else 'false'
        bak_gone = 'true' if r['bak'] is None else 'false'
        terms.append('let old := lit "OLD-RES-CONTENT" in let new := lit "NEW-RES-CONTENT" in '
                     'let shelxl := fun g : fs => ((%s)%%Z, upd_fs g FRes (%s)) in '
                     'let f0 : fs := fun n => match n with FRes => Some old | _ => None end in '
                     'let r := refine shelxl (fun s => [s]) (fun l => concat l) (fun _ => false) (fun _ => false) (fun _ l => l) None [lit "M"] f0 in '
                     'let failed := match fst (fst r) with Failed => true | _ => false end in '
                     'Bool.eqb failed %s && Bool.eqb (match snd (fst r) FRes with Some s => if list_eq_dec Ascii.ascii_dec s old then true else false | None => false end) %s '
                     '&& Bool.eqb (match snd (fst r) FRes with Some s => if list_eq_dec Ascii.ascii_dec s new then true else false | None => false end) %s '
                     '&& (negb failed || Bool.eqb (match snd (fst r) FBak with None => true | _ => false end) %s)' % (code, resx, got_failed, res_same, res_new, bak_gone))
    if terms:
        res = common.coq_eval(ctx, 'c19', IMPORTS, '', ['bad_indices (fun b : bool => b) %s' % clist(terms)])
        bad = common.parse_nat_list(res[0])
        if bad:
            c = coq_cases[bad[0]]
            ctx.broken.append('correspondence: Model/Refine.v and Shelxfile.refine() disagree for the scripted behaviour %r (raised=%r, res restored=%r, backup left=%r)' % (
                c[2], c[3]['raised'], c[3]['res'] == c[0], c[3]['bak'] is not None))
    # backup off: the model (refine_b false) leaves the files as SHELXL left them, whatever backup file lies around
    if nb_cases:
        left = {'fail_code': 'Some new2', 'empty': 'Some []', 'missing': 'None'}
        t2 = []
        for mode, tag in nb_cases:
            t2.append('let first := lit "RESULT-OF-THE-FIRST-RUN" in let new2 := lit "RESULT-OF-THE-SECOND-RUN" in '
                      'let shelxl := fun g : fs => (3%%Z, upd_fs g FRes (%s)) in '
                      'let f0 : fs := fun n => match n with FRes => Some first | FBak => Some (lit "OLDER-MODEL") | _ => None end in '
                      'let r := refine_b shelxl (fun s => [s]) (fun l => concat l) (fun _ => false) (fun _ => false) (fun _ l => l) false None [lit "M"] f0 in '
                      'let tag := match snd (fst (fst r)) FRes with None => 0%%nat | Some s => if list_eq_dec Ascii.ascii_dec s new2 then 1%%nat else if list_eq_dec Ascii.ascii_dec s [] then 2%%nat '
                      'else if list_eq_dec Ascii.ascii_dec s first then 3%%nat else 4%%nat end in Nat.eqb tag %d%%nat'
                      % (left[mode], {'none': 0, 'new': 1, 'empty': 2, 'first': 3, 'older': 4, 'other': 5}[tag]))
        res2 = common.coq_eval(ctx, 'c19nb', IMPORTS, '', ['bad_indices (fun b : bool => b) %s' % clist(t2)])
        for b_ in common.parse_nat_list(res2[0])[:2]:
            ctx.broken.append('correspondence: Model/Refine.v refine_b (backup off) and Shelxfile.refine(backup_before=False) disagree on the .res after a failed run: %r' % (nb_cases[b_],))
    # the model in memory after a failed run: the lines handed to SHELXL with the ACTA line back behind UNIT
    if mem_cases:
        defs3, t3 = [], []
        for i_, (acta_line, ins_lines, obj_lines) in enumerate(mem_cases[:12]):
            defs3.append('Definition a%d : str := lit %s.\nDefinition i%d : list str := %s.\nDefinition o%d : list str := %s.' % (
                i_, cstr(acta_line), i_, clist(['lit ' + cstr(l) for l in ins_lines]), i_, clist(['lit ' + cstr(l) for l in obj_lines])))
            t3.append('if list_eq_dec (list_eq_dec Ascii.ascii_dec) (insert_after_unit is_unit_s a%d i%d) o%d then true else false' % (i_, i_, i_))
        pre3 = 'Definition is_unit_s (x : str) : bool := if list_eq_dec Ascii.ascii_dec (upper (firstn 4 x)) (lit "UNIT") then true else false.\n'
        res3 = common.coq_eval(ctx, 'c19mem', IMPORTS, pre3 + '\n'.join(defs3), ['bad_indices (fun b : bool => b) %s' % clist(t3)])
        for b_ in common.parse_nat_list(res3[0])[:2]:
            ctx.broken.append('correspondence: the model in memory after a failed run is not the instruction file with ACTA behind UNIT (Model/Refine.v memory_after_failure): ACTA line %r' % mem_cases[b_][0])
    ctx.cov['evaluations'] = ev + len(terms) + len(nb_cases) + len(mem_cases[:12])
    ctx.cov['distinct_nontrivial'] = ev
    ctx.cov['rule'] = ('generator files with UNIT, optional ACTA, L.S. or CGLS x 10 scripted behaviours of the shelxl stand-in (success with / without .lst, non-zero exit with or '
                       'without a new result, empty, 4-byte and missing result file with exit 0 or 2, garbage with exit 1, killed by a signal) x requested cycles none / 0 / 4 / 12')
    ctx.notes.setdefault('coverage_extra', {})['mode_histogram'] = hist
    ctx.assumptions += ['SHELXL does not touch the .shx-bak file (hypothesis of the theorem; the stand-in never does)', 'the process runs in the directory of the .res file, as refine() requires',
                        'crash points: proved for the model over every state of the protocol (C19_refine_crash_safe, a file copy taken as atomic); on the real code one crash point is observed - the process is killed while SHELXL runs, after the result file was deleted / truncated / replaced']


def keys_coalesced(toks):
    out, seen = [], set()
    for t in toks:
        k = t[0].upper()[:4]
        if k in ('SFAC', 'FVAR'):
            plain = k == 'FVAR' or all(x.isalpha() for x in t[1:])
            if plain and k in seen:
                continue
            if plain:
                seen.add(k)
        out.append(t)
    return out


def replay(ctx, rp):
    c = rp['violation']['case']
    print('replay: mode', c.get('mode'), 'cycles', c.get('cycles'))
    return 0
