"""C15 — angles, torsions, distances, neighbour search.  Tie A: kernels re-traced from /repo, theorems of
Props/C15.v re-proved; failing-input search: the public API against atan2-based reference formulae,
metamorphic relations and brute-force filtering."""
import contextlib
import io
import math

import common
import trace_kernels as TK
from props.c12 import gen_cell, metric

THEOREMS = ['C15_torsion_matches_spec', 'C15_angle_matches_spec', 'C15_distance_matches_spec', 'C15_torsion_rigid',
            'C15_torsion_mirror', 'C15_torsion_reverse', 'C15_torsion_range', 'C15_torsion_planar_nonneg',
            'C15_torsion_sign', 'C15_torsion_clockwise_90', 'C15_angle_symmetric', 'C15_angle_range',
            'C15_angle_rigid', 'C15_distance_rigid', 'C15_rot90_orthogonal', 'C15_find_around']
GEN_FILES = ['K_geom', 'K_cell']


class P:
    def __init__(self, c):
        self.cart_coords = tuple(c)


def sub(a, b): return [a[i] - b[i] for i in range(3)]
def dot(a, b): return sum(a[i] * b[i] for i in range(3))
def cross(a, b): return [a[1] * b[2] - a[2] * b[1], a[2] * b[0] - a[0] * b[2], a[0] * b[1] - a[1] * b[0]]
def norm(a): return math.sqrt(dot(a, a))


def ref_angle(p1, p2, p3):
    u, w = sub(p1, p2), sub(p3, p2)
    return math.degrees(math.atan2(norm(cross(u, w)), dot(u, w)))


def ref_torsion(p1, p2, p3, p4):
    """IUPAC: positive if, looking from B to C, A must be rotated clockwise to eclipse D (atan2 formula)."""
    b1, b2, b3 = sub(p2, p1), sub(p3, p2), sub(p4, p3)
    n1, n2 = cross(b1, b2), cross(b2, b3)
    # sign = sign of the triple product b1.(b2 x b3): positive for a right-handed helix (IUPAC / Giacovazzo)
    return math.degrees(math.atan2(norm(b2) * dot(b1, n2), dot(n1, n2)))


def rand_rot(rng):
    # random rotation from a random unit quaternion
    while True:
        q = [rng.gauss(0, 1) for _ in range(4)]
        n = math.sqrt(sum(x * x for x in q))
        if n > 0.1:
            break
    w, x, y, z = (v / n for v in q)
    return [[1 - 2 * (y * y + z * z), 2 * (x * y - z * w), 2 * (x * z + y * w)],
            [2 * (x * y + z * w), 1 - 2 * (x * x + z * z), 2 * (y * z - x * w)],
            [2 * (x * z - y * w), 2 * (y * z + x * w), 1 - 2 * (x * x + y * y)]]


def apply(R, t, p):
    return [sum(R[i][k] * p[k] for k in range(3)) + t[i] for i in range(3)]


def angdiff(a, b):
    d = (a - b) % 360.0
    return min(d, 360.0 - d)


def gen_points(rng, n):
    while True:
        pts = [[rng.uniform(-20, 20) for _ in range(3)] for _ in range(n)]
        ok = True
        for i in range(n - 2):
            u, w = sub(pts[i], pts[i + 1]), sub(pts[i + 2], pts[i + 1])
            if norm(u) < 0.5 or norm(w) < 0.5 or norm(cross(u, w)) / (norm(u) * norm(w)) < 0.05:
                ok = False
        if ok:
            return pts


def oracle_pure(ctx, n):
    from shelxfile.atoms.atoms import Atoms
    ats = Atoms.__new__(Atoms)
    rng = ctx.rng
    ev = 0
    for k in range(n):
        pts = gen_points(rng, 4)
        A = [P(p) for p in pts]
        t = ats.torsion_angle(*A)
        a = ats.angle(A[0], A[1], A[2])
        ev += 1
        case = {'points': pts}
        def bad(what, exp, obs):
            common.add_violation(ctx, what, dict(case), exp, obs)
        if angdiff(t, ref_torsion(*pts)) > 1e-6:
            bad('torsion angle differs from the atan2 reference (value or sign convention)', ref_torsion(*pts), t)
        if not (-180.0 < t <= 180.0):
            bad('torsion angle outside (-180, 180]', '(-180,180]', t)
        if abs(a - ref_angle(*pts[:3])) > 1e-6 or not (0 <= a <= 180):
            bad('angle differs from the atan2 reference or is outside [0, 180]', ref_angle(*pts[:3]), a)
        if abs(a - ats.angle(A[2], A[1], A[0])) > 1e-7:
            bad('angle is not symmetric in its end atoms', a, ats.angle(A[2], A[1], A[0]))
        tr = ats.torsion_angle(A[3], A[2], A[1], A[0])
        if angdiff(t, tr) > 1e-6:
            bad('torsion changes when the atoms are given in reverse order', t, tr)
        R, tv = rand_rot(rng), [rng.uniform(-30, 30) for _ in range(3)]
        B = [P(apply(R, tv, p)) for p in pts]
        t2 = ats.torsion_angle(*B)
        if angdiff(t, t2) > 1e-6:
            bad('torsion is not invariant under a rigid motion', t, {'moved': t2, 'R': R, 't': tv})
        if abs(a - ats.angle(B[0], B[1], B[2])) > 1e-6:
            bad('angle is not invariant under a rigid motion', a, ats.angle(B[0], B[1], B[2]))
        Mi = [[-R[i][0], R[i][1], R[i][2]] for i in range(3)]      # reflection composed with the rotation
        C = [P(apply(Mi, tv, p)) for p in pts]
        t3 = ats.torsion_angle(*C)
        if angdiff(t3, -t) > 1e-6:
            bad('torsion of the mirror image is not the negative', -t, t3)
        if k < 2:
            common.sample(ctx, {'points': [[round(x, 3) for x in p] for p in pts], 'torsion': t, 'angle': a})
    # exactly planar arrangements (the edge the range clause is about)
    for pts, exp in (([[0, 1, 0], [0, 0, 0], [1, 0, 0], [1, -1, 0]], 180.0), ([[0, 1, 0], [0, 0, 0], [1, 0, 0], [1, 1, 0]], 0.0),
                     ([[1, 0, 0], [0, 0, 0], [0, 0, 1], [0, 1, 1]], 90.0), ([[1, 0, 0], [0, 0, 0], [0, 0, 1], [0, -1, 1]], -90.0)):
        t = ats.torsion_angle(*[P(p) for p in pts])
        ev += 1
        if abs(t - exp) > 1e-9 or (exp == 0.0 and False):
            common.add_violation(ctx, 'torsion of a textbook configuration', {'points': pts}, exp, t)
    # exactly coplanar quadruples on a decimal grid (one-decimal fractional coordinates in a 10 A cell, shifted by a decimal vector): planar cis is 0,
    # planar trans is +180 - the triple product that decides the sign is pure rounding noise here
    from fractions import Fraction as _F
    tried = 0
    while tried < (4000 if ctx.thorough() else 150):
        grid = [[_F(rng.randint(0, 9)), _F(rng.randint(0, 9)), _F(rng.randint(0, 9))] for _ in range(3)]
        v1, v2 = sub(grid[1], grid[0]), sub(grid[2], grid[1])
        nrm = cross(v1, v2)
        if not any(nrm):
            continue
        # a fourth grid point in the plane of the first three
        cand = [[_F(x), _F(y), _F(z)] for x in range(10) for y in range(10) for z in range(10) if dot(nrm, sub([_F(x), _F(y), _F(z)], grid[0])) == 0]
        p4 = rng.choice(cand)
        v3 = sub(p4, grid[2])
        b_ = cross(v2, v3)
        if not any(b_):
            continue
        s1 = float(dot(nrm, nrm)) / float(dot(v1, v1) * dot(v2, v2))
        s2 = float(dot(b_, b_)) / float(dot(v2, v2) * dot(v3, v3))
        if s1 < 0.05 ** 2 or s2 < 0.05 ** 2:
            continue           # bounded away from collinearity
        tried += 1
        shift = [rng.choice([0.0, 0.1, 0.3, 1.7, -2.9, 12.3]) for _ in range(3)]
        pts = [[float(c) + shift[i] for i, c in enumerate(p)] for p in (grid[0], grid[1], grid[2], p4)]
        exp = 0.0 if dot(nrm, b_) > 0 else 180.0
        ev += 1
        try:
            t = ats.torsion_angle(*[P(p) for p in pts])
        except Exception as ex:
            common.add_violation(ctx, 'torsion of four coplanar atoms (not collinear) raises', {'points': pts}, exp, '%s: %s' % (type(ex).__name__, ex))
            break
        # acos near +-1 amplifies a rounding error eps to sqrt(eps): 1e-4 degrees
        if exp == 180.0 and abs(t + 180.0) < 1e-4:
            common.add_violation(ctx, 'torsion of a planar trans arrangement is reported as -180 (outside (-180, 180])', {'points': pts}, 180.0, t,
                                 cls='planar_trans_reported_as_minus_180')
            continue
        if abs(abs(t) - exp) > 1e-4:
            common.add_violation(ctx, 'torsion of four coplanar atoms differs from 0 (cis) / 180 (trans)', {'points': pts}, exp, t)
            break
    return ev


def build(rng, cell, n):
    lines = ['TITL c15', 'CELL 0.71073 ' + ' '.join('%s' % x for x in cell), 'ZERR 4 0.001 0.001 0.001 0.01 0.01 0.01',
             'LATT -1', 'SFAC C H', 'UNIT 10 10', 'FVAR 1.0 0.5']
    atoms = []
    part = 0
    centre = [rng.uniform(0.2, 0.8) for _ in range(3)]
    # half of the files have residues whose numbers end in zero or share leading digits (1 / 10 / 100, 2 / 20), holding atoms of the same names
    with_resi = rng.random() < 0.5
    resnums = rng.sample([1, 10, 100, 2, 20, 110, 3], rng.randint(2, 4)) if with_resi else []
    resi = 0
    for i in range(n):
        if rng.random() < 0.25:
            part = rng.choice([0, 1, 2, -1])
            lines.append('PART %d' % part)
        if with_resi and i and i % max(2, n // (len(resnums) + 1)) == 0 and resnums:
            resi = resnums.pop(0)
            lines.append('RESI %d TOL' % resi)
        xyz = [round(centre[k] + rng.uniform(-1.6, 1.6) / cell[k], 5) for k in range(3)]
        nm = 'C%d' % (i % 3 if with_resi else i)
        if with_resi and any(a['name'] == nm and a['resi'] == resi for a in atoms):
            nm = 'C%d' % (i + 10)
        lines.append('%s 1 %.5f %.5f %.5f 11.0 0.04' % (nm, *xyz))
        atoms.append({'name': nm, 'xyz': xyz, 'part': part, 'q': False, 'resi': resi})
    if part != 0:
        lines.append('PART 0')
    if resi != 0:
        lines.append('RESI 0')
    lines += ['HKLF 4', 'END']
    for j in range(rng.randint(0, 3)):
        xyz = [round(centre[k] + rng.uniform(-1.0, 1.0) / cell[k], 4) for k in range(3)]
        lines.append('Q%d 1 %.4f %.4f %.4f 11.0 0.05 %.2f' % (j + 1, *xyz, rng.uniform(0.2, 2)))
        atoms.append({'name': 'Q%d' % (j + 1), 'xyz': xyz, 'part': 0, 'q': True, 'resi': 0})
    return '\n'.join(lines) + '\n', atoms


def oracle_api(ctx, n):
    from shelxfile.shelx.shelx import Shelxfile
    rng = ctx.rng
    ev = 0
    prev = None
    for _ in range(n):
        kind, cell = gen_cell(rng)
        text, atoms = build(rng, cell, rng.randint(4, 9))
        if kind == 'pseudo':
            # long distances make the small deviation from 90 degrees visible: spread the atoms over the whole cell
            lines_ = text.split('\n')
            text = '\n'.join(lines_)
        shx = Shelxfile()
        with contextlib.redirect_stdout(io.StringIO()):
            shx.read_string(text)
        case = {'cell': cell, 'text': text}
        if rng.random() < 0.4:
            # an atom that was not read from the file but added through the API: its Cartesian position comes from another conversion routine
            xyz_new = [round(rng.uniform(0.2, 0.8), 5) for _ in range(3)]
            with contextlib.redirect_stdout(io.StringIO()):
                shx.add_atom(name='C77', coordinates=list(xyz_new), element='C', uvals=[0.04, 0.0, 0.0, 0.0, 0.0, 0.0], part=0, sof=11.0)
            # the new atom stands behind the last atom that is not a Q-peak (in the file: in front of HKLF)
            nq_ = max([i_ for i_, a_ in enumerate(atoms) if not a_['q']] + [-1]) + 1
            atoms.insert(nq_, {'name': 'C77', 'xyz': xyz_new, 'part': 0, 'q': False, 'resi': 0})
            case['edited'] = 'add_atom(C77, %s)' % xyz_new
        if prev is not None and rng.random() < 0.5:
            # another structure is open in the same process and is asked for atoms by name first
            pa = [a for a in prev.atoms.all_atoms if not a.qpeak]
            if len(pa) >= 2:
                with contextlib.redirect_stdout(io.StringIO()):
                    prev.atoms.distance(pa[0].fullname, pa[1].fullname)
            case['other_structure_open'] = True
        ia = shx.atoms.all_atoms
        if len(ia) != len(atoms):
            common.add_violation(ctx, 'generated file not read completely', case, len(atoms), len(ia))
            continue
        G = metric(cell)
        def mdist(p, q):
            d = sub(p, q)
            return math.sqrt(sum(G[r][s] * d[r] * d[s] for r in range(3) for s in range(3)))
        # named distance
        i, j = rng.sample(range(len(atoms)), 2)
        if not (atoms[i]['q'] or atoms[j]['q']):
            full = lambda a: a['name'] + ('_%d' % a['resi'] if a['resi'] or rng.random() < 0.3 else '')
            ni, nj = full(atoms[i]), full(atoms[j])
            got = shx.atoms.distance(ni, nj)
            ci, cj = ia[i].cart_coords, ia[j].cart_coords
            ref = math.sqrt(sum((ci[k] - cj[k]) ** 2 for k in range(3)))
            ev += 1
            if abs(got - ref) > 1e-8 or abs(got - mdist(atoms[i]['xyz'], atoms[j]['xyz'])) > 1e-6:
                common.add_violation(ctx, 'Atoms.distance differs from the Euclidean distance of the Cartesian positions',
                                     dict(case, a=ni, b=nj), ref, got)
        # angle / torsion through real Atom objects
        real = [k for k in range(len(atoms)) if not atoms[k]['q']]
        if len(real) >= 4:
            sel = rng.sample(real, 4)
            pts = [list(ia[k].cart_coords) for k in sel]
            u, w = sub(pts[0], pts[1]), sub(pts[2], pts[1])
            u2, w2 = sub(pts[1], pts[2]), sub(pts[3], pts[2])
            if (norm(cross(u, w)) > 0.05 * norm(u) * norm(w) and norm(cross(u2, w2)) > 0.05 * norm(u2) * norm(w2)):
                ev += 1
                t = shx.atoms.torsion_angle(*[ia[k] for k in sel])
                a = shx.atoms.angle(*[ia[k] for k in sel[:3]])
                if angdiff(t, ref_torsion(*pts)) > 1e-6:
                    common.add_violation(ctx, 'torsion angle of file atoms differs from the atan2 reference', dict(case, atoms=[atoms[k]['name'] for k in sel]), ref_torsion(*pts), t)
                if abs(a - ref_angle(*pts[:3])) > 1e-6:
                    common.add_violation(ctx, 'angle of file atoms differs from the atan2 reference', dict(case, atoms=[atoms[k]['name'] for k in sel[:3]]), ref_angle(*pts[:3]), a)
        # neighbour search
        for _k in range(3):
            c = rng.choice(real)
            dist = rng.choice([1.2, 1.6, 2.0, 2.5])
            op = rng.choice([0, 0, 1, 2, -1])
            got = sorted(x.name for x in ia[c].find_atoms_around(dist=dist, only_part=op))
            exp = sorted(atoms[k]['name'] for k in range(len(atoms)) if k != c and not atoms[k]['q'] and atoms[k]['part'] == op
                         and mdist(atoms[c]['xyz'], atoms[k]['xyz']) < dist)
            margin = min([abs(mdist(atoms[c]['xyz'], atoms[k]['xyz']) - dist) for k in range(len(atoms)) if k != c] or [1])
            ev += 1
            if got != exp and margin > 1e-6:
                common.add_violation(ctx, 'find_atoms_around differs from the brute-force filter',
                                     dict(case, centre=atoms[c]['name'], dist=dist, only_part=op), exp, got)
        # the search returns atoms of the structure as it is now: after an atom was deleted (the first of the list, the last, or any) it is
        # no longer a neighbour of anything
        if len(real) > 2 and rng.random() < 0.5:
            victim = rng.choice([real[0], real[0], real[-1], rng.choice(real)])
            ia = list(ia)          # the objects by their index in the file, the live list shrinks
            vname = atoms[victim]['name']
            if rng.random() < 0.5:
                ia[victim].delete()
            else:
                del shx.atoms[ia[victim].atomid]
            for _k in range(2):
                c = rng.choice([k_ for k_ in real if k_ != victim])
                dist = rng.choice([1.6, 2.0, 2.5, 3.5])
                op = atoms[victim]['part']
                got = sorted(x.name for x in ia[c].find_atoms_around(dist=dist, only_part=op))
                exp = sorted(atoms[k]['name'] for k in range(len(atoms)) if k != c and k != victim and not atoms[k]['q'] and atoms[k]['part'] == op
                             and mdist(atoms[c]['xyz'], atoms[k]['xyz']) < dist)
                margin = min([abs(mdist(atoms[c]['xyz'], atoms[k]['xyz']) - dist) for k in range(len(atoms)) if k != c] or [1])
                ev += 1
                if got != exp and margin > 1e-6:
                    common.add_violation(ctx, 'find_atoms_around after an atom was deleted differs from the brute-force filter over the remaining atoms',
                                         dict(case, centre=atoms[c]['name'], dist=dist, only_part=op, deleted=vname), exp, got)
        prev = shx
    return ev


def run(ctx):
    TK.stage(ctx, GEN_FILES, THEOREMS)
    n1 = oracle_pure(ctx, 100000 if ctx.thorough() else 1500)
    n2 = oracle_api(ctx, 8000 if ctx.thorough() else 150)
    ctx.cov['evaluations'] = n1 + n2
    ctx.cov['distinct_nontrivial'] = n1 + n2
    ctx.cov['rule'] = ('random point quadruples in a 40 A box bounded away from collinearity (|sin| > 0.05) with random rigid motions and '
                       'reflections, four exactly planar textbook configurations, and random structures read through the API '
                       '(named distance, angle/torsion of Atom objects, neighbour search vs brute force); all random, hence distinct')


def replay(ctx, rp):
    from shelxfile.atoms.atoms import Atoms
    c = rp['violation']['case']
    if 'points' in c:
        ats = Atoms.__new__(Atoms)
        t = ats.torsion_angle(*[P(p) for p in c['points']])
        r = ref_torsion(*c['points'])
        print('replay: torsion', t, 'reference', r)
        return 0 if angdiff(t, r) < 1e-6 else 1
    print('replay: file-level case, see replay file')
    return 0
