"""C11 — LATT + SYMM expand to the complete group.  Theorems: coq/Props/C11.v.  Tie B: Model/Latt.v symmcards is
evaluated in Coq on the same LATT/SYMM data and compared, operator by operator and in order, with
Shelxfile.symmcards; the spec (exact-rational list comprehension) is compared as a set modulo 1."""
import contextlib
import io
from fractions import Fraction as F

import common
from common import cq, cz, clist, cbool
from gen import spacegroups as sg

THEOREMS = ['C11_symmcards_sound', 'C11_symmcards_complete', 'C11_symmcards_nodup', 'C11_expected_length',
            'C11_symmcards_count', 'C11_op_eqb_refl', 'C11_p21c_list']
IMPORTS = ('From SX Require Import Base.Prelude Base.Str Model.Symm Model.Latt Spec.LattSpec.\n'
           'From Coq Require Import QArith Qabs.\nOpen Scope Q_scope.\n')
HEAD = 'TITL c11\nCELL 0.71073 10.1 11.2 12.3 90 90 90\nZERR 4 0.001 0.001 0.001 0 0 0\n'
TAIL = 'SFAC C H\nUNIT 8 8\nFVAR 1.0\nC1 1 0.1 0.2 0.3 11.0 0.04\nHKLF 4\nEND\n'


def read_ops(n, symm_texts, latt_line=None):
    from shelxfile.shelx.shelx import Shelxfile
    text = HEAD + (latt_line if latt_line is not None else 'LATT %d' % n) + '\n' + ''.join('SYMM %s\n' % s for s in symm_texts) + TAIL
    shx = Shelxfile()
    with contextlib.redirect_stdout(io.StringIO()):
        shx.read_string(text)
    ops = []
    for o in shx.symmcards:
        rows = tuple(tuple(int(o.matrix[i, j]) for j in range(3)) for i in range(3))
        ops.append((rows, tuple(F(float(t)).limit_denominator(10 ** 9) for t in o.trans)))
    return text, ops, len(shx.atoms.all_atoms)


def coq_op(op):
    return '{| so_rows := %s; so_trans := %s |}' % (
        clist(['(%s, %s, %s)' % tuple(cz(v) for v in r) for r in op[0]]), clist([cq(t) for t in op[1]]))


def gen_random_generators(rng):
    """random distinct operators (not necessarily a group): the expected list is still defined"""
    n = rng.choice([1, -1, 2, -2, 3, -3, 4, -4, 5, -5, 6, -6, 7, -7])
    k = rng.randint(0, 4)
    for _ in range(50):
        ops = []
        for _ in range(k):
            R = rng.choice(sg.SIGNED_PERMS)
            t = tuple(F(rng.randrange(12), 12) for _ in range(3))
            ops.append((R, t))
        ex = sg.expected(n, ops)
        if len({sg.mod1(o) for o in ex}) == len(ex):
            return n, ops
    return n, []


def run(ctx):
    common.check_obligations(ctx, THEOREMS)
    bad = sg.validate_table()
    if bad:
        ctx.broken.append('space-group table entries not closed/complete in exact arithmetic: %s' % bad)
    rng = ctx.rng
    cases = []
    for name, (n, symms) in sg.TABLE.items():
        ops = [sg.parse_op(s) for s in symms]
        for style in (0, 1, 2, 3, 4, 5):
            texts = [sg.op_text(o, style=style) for o in ops]
            # the operators as they are written (styles 3, 4 write the negative representative of a translation)
            cases.append((name, n, [sg.parse_op(t) for t in texts], texts, True))
        cases.append((name + ' (as tabulated)', n, ops, list(symms), True))
        # the LATT instruction in other spellings: N has the default 1, comments, case, blanks
        spell = ['latt %d' % n, 'LATT   %d   ! lattice type' % n] + (['LATT', 'LATT ! N[1]', 'latt  '] if n == 1 else [])
        cases.append((name + ' (LATT spelled differently)', n, ops, list(symms), True, rng.choice(spell)))
        if n == 1:
            cases.append((name + ' (LATT without number)', n, ops, list(symms), True, 'LATT'))
    for k in range(4000 if ctx.thorough() else 60):
        n, ops = gen_random_generators(rng)
        cases.append(('random generators', n, ops, [sg.op_text(o, style=rng.randrange(3)) for o in ops], False))
    terms, defs, meta = [], [], []
    hist = {}
    for ci, c in enumerate(cases):
        name, n, ops, texts, is_group = c[:5]
        text, impl, natoms = read_ops(n, texts, c[5] if len(c) > 5 else None)
        hist[abs(n)] = hist.get(abs(n), 0) + 1
        case = {'name': name, 'latt': c[5] if len(c) > 5 else n, 'symm': texts}
        exp = sg.expected(n, ops)
        impl_m = [sg.mod1(o) for o in impl]
        exp_m = [sg.mod1(o) for o in exp]

        def close(a, b):
            return a[0] == b[0] and all(abs(((x - y + F(1, 2)) % 1) - F(1, 2)) < F(1, 10 ** 8) for x, y in zip(a[1], b[1]))
        if natoms != 1:
            common.add_violation(ctx, 'file with these LATT/SYMM lines is not read to the end', case, 1, natoms)
            continue
        missing = [e for e in exp_m if not any(close(e, o) for o in impl_m)]
        extra = [o for o in impl_m if not any(close(e, o) for e in exp_m)]
        dups = [o for i, o in enumerate(impl_m) if any(close(o, p) for p in impl_m[:i])]
        want = (1 + len(ops)) * (1 + len(sg.CENTRING[abs(n)])) * (2 if n > 0 else 1)
        if missing or extra or dups or len(impl) != want:
            common.add_violation(ctx, 'operator list is not the complete set of space-group operators, each once', case,
                                 {'count': want, 'missing': str(missing[:3]), 'extra': str(extra[:3]), 'duplicates': str(dups[:3])}, len(impl))
        if is_group and not sg.closed(impl_m if not (missing or extra) else exp_m):
            common.add_violation(ctx, 'operator list of a space group is not closed under composition', case, 'closed', 'not closed')
        defs.append('Definition impl%d : list symop := %s.' % (ci, clist([coq_op(o) for o in impl])))
        defs.append('Definition symm%d : list symop := %s.' % (ci, clist([coq_op(o) for o in ops])))
        terms.append('same_list (symmcards (%d) symm%d) impl%d && Nat.eqb (length (symmcards (%d) symm%d)) (expected_count (%d) symm%d)' % (n, ci, ci, n, ci, n, ci))
        meta.append(case)
        if ci < 2:
            common.sample(ctx, dict(case, operators=len(impl)))
    pre = ('Definition same_op (a b : symop) : bool := all2 row_eqb (so_rows a) (so_rows b) && '
           'all2 (fun x y => Qeqb_tol (1 # 100000000) x y) (so_trans a) (so_trans b) && Nat.eqb (length (so_rows a)) (length (so_rows b)).\n'
           'Definition same_list (l1 l2 : list symop) : bool := Nat.eqb (length l1) (length l2) && all2 same_op l1 l2.\n')
    shards = []
    idx = []
    step = 25
    for k in range(0, len(terms), step):
        shards.append((pre + '\n'.join(defs[2 * k:2 * (k + step)]), terms[k:k + step]))
        idx.append(meta[k:k + step])
    results = common.coq_eval_sharded(ctx, 'c11', IMPORTS, None, shards)
    for chunk, res in zip(idx, results):
        for case, r in zip(chunk, res):
            if not common.parse_bool(r):
                ctx.broken.append('correspondence Model/Latt.v symmcards differs from Shelxfile.symmcards for LATT %s SYMM %s' % (case['latt'], case['symm'][:2]))
    ctx.cov['evaluations'] = len(cases)
    ctx.cov['distinct_nontrivial'] = len({(c[1], tuple(c[3])) for c in cases})
    ctx.cov['rule'] = ('31 tabulated space-group settings (all seven lattice types, centric and acentric, validated closed in exact arithmetic) '
                       'in six spellings each (translation first / last, fractions / decimals, terms in either order, negative translations), plus random distinct generator sets from the 48 signed permutation matrices with translations in '
                       'twelfths for every LATT code; distinct = distinct (LATT, SYMM texts)')
    ctx.notes.setdefault('coverage_extra', {})['latt_histogram'] = {str(k): v for k, v in sorted(hist.items())}
    ctx.assumptions += ['closure under composition is checked per sample in exact rationals, not proved (it is a property of the SYMM lines given)',
                        'translations are compared modulo 1 with tolerance 1e-8 (the implementation stores floats)',
                        'hand-written model Model/Latt.v validated by ordered comparison with Shelxfile.symmcards']


def replay(ctx, rp):
    c = rp['violation']['case']
    text, impl, natoms = read_ops(c['latt'], c['symm'])
    print('replay: LATT %s SYMM %s -> %d operators' % (c['latt'], c['symm'], len(impl)))
    return 0
