"""C17 — restraint diagnostics.  Theorems: coq/Props/C17.v (Model/Restr.v against Spec/RestrSpec.v).  Tie B: the model's
list of reported names is evaluated inside Coq for every generated restraint and compared with Shelxfile.restraint_errors.
Failing-input search: the implementation against the set of unresolved names computed from the by-construction model."""
import re

import common
from common import clist, cstr, cz
from gen import resfile as rf
import impl_model as im

THEOREMS = ['C17_never_reports_wildcards', 'C17_complete_restraint_silent', 'C17_missing_atom_reported', 'C17_reported_are_absent',
            'C17_reported_bare_absent', 'C17_reported_exactly', 'C17_restr_example', 'C17_star_example', 'C17_keyword_star_example']
IMPORTS = 'From SX Require Import Base.Prelude Base.Str Model.Restr.\n'
HEAD = ['TITL test', 'CELL 0.71073 10.5 11.2 12.3 90 95.5 90', 'ZERR 4 0.001 0.002 0.003 0.01 0.02 0.03', 'LATT 1', 'SYMM -X, 1/2+Y, 1/2-Z',
        'SFAC C H O N', 'UNIT 16 20 4 2', 'FVAR 1.0 0.6']
# keyword, obligatory numerical parameters, optional ones (a random prefix of them is written, in any legal spelling: '.02', '+0.02', ...)
KWS = [('SADI', [], ['0.02']), ('DFIX', ['1.5'], ['0.03']), ('DANG', ['2.5'], ['0.05']), ('SIMU', [], ['0.04', '0.08', '1.7']), ('DELU', [], ['0.01', '0.02']),
       ('RIGU', [], ['0.004', '0.005']), ('ISOR', [], ['0.1', '0.2']), ('FLAT', [], ['0.1']), ('SAME', [], ['0.02', '0.04']), ('CHIV', [], ['0.5', '0.1']),
       ('EADP', [], []), ('EXYZ', [], []), ('NCSY', ['1'], ['0.1', '0.05'])]
NAMES = ['C1', 'C2', 'C3', 'O1', 'N1']


def gen_case(rng):
    """residues with classes, atoms per residue, one restraint"""
    nres = rng.randint(0, 4)
    classes = ['TOL', 'THF', 'ccf3', '3HB']
    residues = []
    atoms = {0: rng.sample(NAMES, rng.randint(2, 5))}
    for k in range(nres):
        num = rng.choice([n for n in (1, 2, 3, 4, 5, 6, 10, 20, 100, 110) if n not in [r[0] for r in residues]])     # 1 / 10 / 100: numbers that differ by trailing zeros only
        cls = rng.choice(classes + [''])
        residues.append((num, cls))
        atoms[num] = rng.sample(NAMES, rng.randint(1, 5))
    lines = []
    k = 0
    for nm in atoms[0]:
        k += 1
        # fixed coordinates (10 + x) and fixed negative ones (10 - 0.25 = 9.75) are atoms like the others; no random draw
        lines.append('%s 1 %.3f %s %.3f 11.0 0.04' % (nm, 0.1 * k, ('0.200', '9.750', '10.200')[k % 3], 0.3))
    for num, cls in residues:
        form = rng.random()
        if cls and form < 0.25:
            lines.append('RESI %s %d %d' % (cls, num, rng.choice([7, 8, 9, 30, 1000])))      # class number alias: the alias is not the residue number
        elif cls and form < 0.4:
            lines.append('RESI %s:%d %s' % (rng.choice('AB'), num, cls))       # chain ID in front of the number (RESI A:12 ALA)
        elif cls and form < 0.6:
            lines.append('RESI %d %s' % (num, cls))
        else:
            lines.append('RESI %s %d' % (cls, num) if cls else 'RESI %d' % num)
        copied = rng.random() < 0.25      # a residue that was copied and not moved yet: the same text line for an atom of the same name
        for nm in atoms[num]:
            k += 1
            if copied:
                lines.append('%s 1 %.3f %.3f %.3f 11.0 0.04' % (nm, 0.011 * (NAMES.index(nm) + 1), 0.5, 0.3))
                continue
            lines.append('%s 1 %.3f %.3f %.3f 11.0 0.04' % (nm if rng.random() < 0.8 else nm.lower(), 0.01 * k, 0.5, 0.3))
    lines.append('RESI 0')
    kw, obl, opt = rng.choice(KWS)
    num = obl + opt[:rng.randint(0, len(opt))]
    if rng.random() < 0.5:
        num = [rf.respell(t, rng.randint(0, 5)) for t in num]
    mode = rng.choice(['none', 'none', 'num', 'class', 'star', 'missingclass'])
    if mode == 'num' and residues:
        sfx = ('num', rng.choice(residues)[0])
    elif mode == 'class' and any(c for _, c in residues):
        sfx = ('class', rng.choice([c for _, c in residues if c]))
    elif mode == 'star':
        sfx = ('star', None)
    elif mode == 'missingclass':
        sfx = ('class', 'XYZ')
    else:
        sfx = ('none', None)
    items = []
    for _ in range(rng.randint(2, 4)):
        r = rng.random()
        nm = rng.choice(NAMES + ['C9'])
        if r < 0.1:
            items.append(('range', rng.choice('<>')))
        elif r < 0.18:
            items.append(('elem', '$' + rng.choice(['C', 'H', 'N'])))
        elif r < 0.35 and residues:
            items.append(('name', nm, rng.choice(residues)[0], False))
        elif r < 0.45:
            items.append(('name', nm, None, True))
        elif r < 0.57 and residues:
            items.append(('star', nm))
        else:
            items.append(('name', nm, None, False))
    if kw in ('SADI', 'DFIX', 'DANG') and len([i for i in items if i[0] == 'name']) % 2:
        items.append(('name', rng.choice(atoms[0]), None, False))
    head = kw + {'none': '', 'num': '_%s' % sfx[1], 'class': '_%s' % (sfx[1] if rng.random() < 0.7 else str(sfx[1]).lower()), 'star': '_*'}[sfx[0]]
    toks = [head] + num
    for it in items:
        if it[0] in ('range', 'elem'):
            toks.append(it[1])
        elif it[0] == 'star':
            toks.append(it[1] + '_*')
        else:
            t = it[1] + ('_%d' % it[2] if it[2] is not None else '') + ('_$1' if it[3] else '')
            toks.append(t)
    LAST['restraint'] = ' '.join(toks)
    resi_lines = [q for q, l in enumerate(lines) if l.startswith('RESI') and l != 'RESI 0']
    if resi_lines and rng.random() < 0.3:
        # the restraint stands next to the atoms of a residue, not in the header: a name without suffix still means residue 0
        lines.insert(rng.choice(resi_lines) + 1, ' '.join(toks))
    else:
        lines.append(' '.join(toks))
    return lines, residues, atoms, sfx, items


LAST = {}


def impl_reported(text):
    status, inner, shx = im.read_text(text, 'quiet')
    out = []
    for w in shx.restraint_errors:
        m = re.search(r'Atom list has no --> (.*) \*\*\*', w)
        if m:
            out += [x.strip().upper() for x in m.group(1).split(',')]
    return status, inner, sorted(set(out)), shx


def addressed(residues, sfx, own):
    if own is not None:
        return [own]
    if sfx[0] == 'num':
        return [sfx[1]]
    if sfx[0] == 'class':
        return [n for n, c in residues if c.upper() == str(sfx[1]).upper()]
    if sfx[0] == 'star':
        return [n for n, c in residues]        # _* on the keyword: every residue of the file
    return [0]


def run(ctx):
    common.check_obligations(ctx, THEOREMS)
    rng = ctx.rng
    n = 40000 if ctx.thorough() else 800
    terms, defs = [], []
    ev = 0
    hist = {}
    exact_diffs = []
    for k in range(n):
        lines, residues, atoms, sfx, items = gen_case(rng)
        text = '\n'.join(HEAD + lines + ['HKLF 4', 'END']) + '\n'
        status, inner, rep, shx = impl_reported(text)
        ev += 1
        hist[sfx[0]] = hist.get(sfx[0], 0) + 1
        case = {'restraint': LAST.get('restraint'), 'text': text}
        if status != 'ok' or inner:
            common.add_violation(ctx, 'file with a valid restraint raises', case, 'ok', '%s %s' % (status, inner))
            continue
        must, mustnot = set(), set()
        exact = set()       # per-residue reading: (name, residue) pairs that are asked for and absent
        for it in items:
            if it[0] not in ('name', 'star'):
                continue
            nm, own = it[1], (it[2] if it[0] == 'name' else None)
            adr = [r for r, _ in residues] if it[0] == 'star' else addressed(residues, sfx, own)
            exact |= set((nm, r) for r in (adr or ([0] if it[0] == 'name' else [])) if nm not in atoms.get(r, []))
            present = [r for r in adr if nm in atoms.get(r, [])]
            if adr and not present:
                must.add(nm)
            if adr and len(present) == len(adr):
                mustnot.add(nm)
        rep_names = set(x.split('_')[0] for x in rep)
        wild = [x for x in rep if x.startswith('$') or x in ('<', '>') or '_$' in x]
        for x in wild:
            common.add_violation(ctx, 'an element wildcard, range operator or symmetry suffix is reported as unknown atom', case, 'never reported', x)
        if wild:
            continue
        item_names = set(it[1] for it in items if it[0] in ('name', 'star'))
        foreign = sorted(rep_names - item_names)
        if foreign:
            common.add_violation(ctx, 'something that is not an atom of the restraint (a numerical parameter?) is reported as unknown atom', case, 'only atoms of the restraint', foreign)
            continue
        try:
            got_pairs = set((x.split('_')[0], int(x.split('_')[1]) if '_' in x else 0) for x in rep)
        except ValueError:
            got_pairs = None
        if got_pairs != exact:
            exact_diffs.append((dict(case, reading='per residue: NAME_n is reported exactly when an item asks for NAME in residue n and no such atom exists'),
                                sorted(exact), rep))
        for nm in must - mustnot:
            if nm not in rep_names:
                common.add_violation(ctx, 'an atom that exists in none of the addressed residues is not reported', dict(case, atom=nm), 'reported', rep)
        for nm in mustnot - must:
            # the same name may legitimately be reported through another item of the same restraint
            others = [it for it in items if it[0] in ('name', 'star') and it[1] == nm]
            adr_of = lambda it: [r for r, _ in residues] if it[0] == 'star' else addressed(residues, sfx, it[2])
            if nm in rep_names and all(adr_of(it) and all(nm in atoms.get(r, []) for r in adr_of(it)) for it in others):
                common.add_violation(ctx, 'an atom that exists in every addressed residue is reported as unknown', dict(case, atom=nm), 'no message', rep)
        # correspondence with the Coq model: exact list of reported names (as name or name_n)
        fi = '{| fi_atoms := %s; fi_residues := %s |}' % (
            clist(['(lit %s, %s)' % (cstr(a.upper()), cz(r)) for r, l in atoms.items() for a in l]),
            clist(['(%s, lit %s)' % (cz(nn), cstr(c.upper())) for nn, c in residues]))
        sf = ('SNone' if sfx[0] == 'none' else 'SStar' if sfx[0] == 'star' else 'SNum %s' % cz(sfx[1]) if sfx[0] == 'num'
              else 'SClass (lit %s)' % cstr(str(sfx[1]).upper()))
        ra = []
        for it in items:
            if it[0] == 'range':
                ra.append('ARange')
            elif it[0] == 'elem':
                ra.append('AElem (lit %s)' % cstr(it[1][1:]))
            elif it[0] == 'star':
                ra.append('AStar (lit %s)' % cstr(it[1].upper()))
            else:
                ra.append('AName (lit %s) %s' % (cstr(it[1].upper()), 'None' if it[2] is None else '(Some %s)' % cz(it[2])))
        got = clist(['(lit %s, %s)' % (cstr(x.split('_')[0]), 'None' if '_' not in x else '(Some %s)' % cz(int(x.split('_')[1]))) for x in rep])
        defs.append('Definition c%d : file_index * suffix * list ratom * list (str * option Z) := (%s, %s, %s, %s).' % (k, fi, sf, clist(ra), got))
        terms.append('chk c%d' % k)
        if k < 2:
            common.sample(ctx, {'restraint': LAST.get('restraint'), 'residues': residues, 'reported': rep})
    pre = ('Definition pair_eqb (a b : str * option Z) : bool := str_eqb (fst a) (fst b) && match snd a, snd b with Some x, Some y => Z.eqb x y | None, None => true | _, _ => false end.\n'
           'Definition subset (a b : list (str * option Z)) : bool := forallb (fun x => existsb (pair_eqb x) b) a.\n'
           'Definition chk (c : file_index * suffix * list ratom * list (str * option Z)) : bool := let \'(fi, s, at, got) := c in\n'
           '  let m := reported fi s at in subset m got && subset got m.\n').replace(' at,', ' ats,').replace(' s at ', ' s ats ')
    step = 100
    packs = [(IMPORTS + pre + '\n'.join(defs[k:k + step]), ['forallb (fun b => b) %s' % clist(terms[k:k + step])]) for k in range(0, len(terms), step)]
    results = common.coq_eval_sharded(ctx, 'c17', '', None, packs)
    nbad = sum(1 for res in results if not common.parse_bool(res[0]))
    if nbad:
        ctx.broken.append('correspondence Model/Restr.v reported differs from Shelxfile.restraint_errors in %d shards' % nbad)
    if ctx.broken:
        # failing-input search in the reading the theorems prove for the model (C17_reported_exactly); consulted only when an
        # obligation or the correspondence no longer checks, so that an implementation with the same messages is never alarmed
        for c, e, g in exact_diffs[:20]:
            common.add_violation(ctx, 'messages differ from the (name, residue) pairs that are asked for and absent', c, e, g)
    ctx.cov['evaluations'] = ev
    ctx.cov['distinct_nontrivial'] = ev
    ctx.cov['rule'] = ('random files with 0-4 residues (three classes, classless residues), 1-5 atom names per residue, one restraint of every keyword in '
                       'every addressing mode (none / _number / _class in either case / _* / a class without residues), numerical parameters in several spellings, whose 2-5 items are '
                       'names, name_n, name_*, name_$1, $element, < or >, with the absent name C9 mixed in; all random, hence distinct')
    ctx.notes.setdefault('coverage_extra', {})['addressing_histogram'] = hist
    ctx.assumptions += ['a keyword suffix _* addresses every residue number of the file (not residue 0); without residues it falls back to residue 0',
                        'hand-written model Model/Restr.v validated on the generated restraints']


def replay(ctx, rp):
    c = rp['violation']['case']
    print('replay:', c['restraint'], '->', impl_reported(c['text'])[2])
    return 0
