"""C05 — parsing is independent of layout, comments and case.  Theorems: coq/Props/C05.v (Model/Lex.v against
Spec/LexSpec.v, universally over files and layouts).  Tie B: Model/Lex.v is evaluated inside Coq on the physical
lines of generated files in wild layouts and compared with the token lists the implementation's instruction
objects hold.  Failing-input search: the implementation's model of a plain rendering against that of wild
renderings of the same abstract file, and against the by-construction atom list."""
import common
from common import clist, cstr
from gen import resfile as rf
import impl_model as im

THEOREMS = ['C05_lex_render', 'C05_lex_layout_independent', 'C05_dispatch_case_insensitive', 'C05_split_pieces',
            'C05_glue_chunks', 'C05_lex_example']
IMPORTS = 'From SX Require Import Base.Prelude Base.Str Model.Lex.\n'
# classes whose str() is the token list they were built from
REGEN = {'SFACTable', 'FVARs', 'FVAR', 'UNIT', 'SYMM', 'SIZE', 'ACTA', 'STIR', 'WGHT', 'Atom'}


def canon_tokens(toks):
    out = []
    for t in toks:
        try:
            out.append(('n', round(float(t), 9)))
        except ValueError:
            out.append(('w', t.upper()))
    return out


def model_summary(shx):
    atoms = []
    for a in im.atoms_table(shx):
        atoms.append((a['name'].upper(), a['sfac'], tuple(round(x, 9) for x in a['xyz']), round(a['sof'], 9), tuple(round(u, 9) for u in a['uvals']),
                      a['part'], a['afix'], a['resinum'], a['resiclass'].upper(), a['qpeak']))
    instr = []
    rawbuf = []

    def flush():
        # instructions kept as text: their physical lines (first line and continuation lines) are joined by the independent lexer
        if rawbuf:
            for l in rf.independent_lex('\n'.join(rawbuf)):
                if l['tokens']:
                    instr.append(('raw', 'FREE' if l['free'] else ' '.join(t.upper() for t in l['tokens'])))
            del rawbuf[:]
    for cls, toks in im.instr_tokens(shx):
        if cls == 'raw':
            rawbuf.append(toks)
            continue
        flush()
        if cls == 'atom':
            instr.append(('atom', toks.upper()))
        else:
            instr.append((cls, tuple(canon_tokens(toks))))
    flush()
    rest = []
    for r in shx.restraints:
        rest.append((r.name, tuple(x.upper() for x in r.atoms), r.residue_class.upper() if r.residue_class else '', tuple(r.residue_number)))
    # named attributes of the instruction objects (not only their text): the refinement method and cycle number, and every slot of the C16 table
    from props.c16 import ATTRS
    attrs = []
    if shx.cycles is not None:
        attrs.append(('cycles', bool(shx.cycles.cgls), shx.cycles.number))
    for x in shx._reslist:
        names = ATTRS.get(type(x).__name__.upper()) if not isinstance(x, str) else None
        if names:
            vals = []
            for nm in names:
                v = getattr(x, nm, None)
                vals.append(round(float(v), 9) if isinstance(v, (int, float)) and not isinstance(v, bool) else (None if v in (None, '', []) else str(v).upper()))
            attrs.append((type(x).__name__.upper(), tuple(vals)))
    views = {'attributes': attrs, 'has_element': [shx.sfac_table.has_element(e) for e in shx.sfac_table.elements_list], 'sum_formula': shx.sum_formula.upper(),
             'sum_formula_exact': shx.sum_formula_exact.upper(), 'elements_of_atoms': [a.element.upper() for a in shx.atoms.all_atoms],
             # the residuals SHELXL leaves in REM lines are part of the model the library builds
             'dsr_commands': [' '.join(str(l_).upper().split()) for l_ in getattr(shx, 'dsrlines', [])],
             'residuals': [getattr(shx, k_, None) for k_ in ('R1', 'wr2', 'goof', 'rgoof', 'highest_peak', 'deepest_hole', 'data', 'parameters', 'num_restraints')]}
    # the diagnostics of the restraint check are part of the model as well (names compared case-insensitively)
    import re as _re
    errs = []
    for w in shx.restraint_errors:
        m_ = _re.search(r'Atom list has no --> (.*) \*\*\*', w)
        if m_:
            errs.append(tuple(sorted(x.strip().upper() for x in m_.group(1).split(','))))
    views['restraint_errors'] = sorted(errs)
    return {'atoms': atoms, 'instr': instr, 'restraints': rest, 'hklf': shx.hklf is not None, 'end': shx.end, 'views': views,
            'fvars': [round(float(x.fvar_value), 9) for x in shx.fvars.fvars], 'sfac': [e.upper() for e in shx.sfac_table.elements_list]}


def expected_restraint_residues(gf, shx):
    """residue numbers every restraint with a residue suffix addresses, by construction"""
    names = set(r.name.upper() for r in shx.restraints)
    residues = [(l['number'], l['cls'].upper()) for l in gf['lines'] if l['kind'] == 'resi' and l['number'] > 0]
    out = []
    for l in gf['lines']:
        if l['kind'] != 'instr' or l['kw'] not in names:
            continue
        sfx = l.get('suffix')
        if not sfx:
            out.append((l['kw'], [0]))
        elif sfx.isdigit():
            out.append((l['kw'], [int(sfx)]))
        else:
            out.append((l['kw'], sorted(set(n for n, c in residues if c == sfx.upper())) or [0]))
    return out


def expected_atoms(gf):
    return [(a['name'].upper(), a['sfac'], tuple(round(x, 9) for x in a['xyz']), a['qpeak']) for a in gf['atoms']]


SMALL = ['TITL small', 'CELL 0.71073 10.5 11.2 12.3 90 95.5 90', 'ZERR 4 0.001 0.002 0.003 0 0.02 0', 'LATT 1', 'SYMM -X, 1/2+Y, 1/2-Z', 'SFAC C O', 'UNIT 8 4',
         'L.S. 4', 'FVAR 1.0', 'C1 1 0.1 0.2 0.3 11.0 0.04', 'O1 2 0.2 0.3 0.4 11.0 0.05', 'HKLF 4', 'END']


def small_files_from_disk(ctx):
    """the layout transformations on files of a few lines, read with read_file(): the number of physical lines is no content"""
    import os, shutil, tempfile
    rng = ctx.rng
    ev = 0
    d = tempfile.mkdtemp(prefix='verif-c05-')
    try:
        for k in range(6):
            body = list(SMALL)
            for _ in range(rng.randint(0, 4)):
                body.insert(9, '%s%d 1 %.4f %.4f %.4f 11.0 0.04' % ('C', 2 + _, rng.random(), rng.random(), rng.random()))
            p0 = os.path.join(d, 'plain.res')
            open(p0, 'w').write('\n'.join(body) + '\n')
            st0, in0, shx0 = im.read_text(None, 'quiet', path=p0)
            base = model_summary(shx0)
            for v in range(3):
                lines = []
                for l in body:
                    if rng.random() < 0.5:
                        lines += rng.choice([[''], ['   an indented comment line'], ['', ''], ['REM a remark']][:3])
                    lines.append(l if rng.random() < 0.5 else l.replace(' ', '   '))
                lines += [''] * rng.randint(0, 12)
                p1 = os.path.join(d, 'wild.res')
                open(p1, 'w').write('\n'.join(lines) + '\n')
                st, inn, shx = im.read_text(None, 'quiet', path=p1)
                ev += 1
                m = model_summary(shx)
                natoms = len(body) - len(SMALL) + 2
                if st0 != 'ok' or in0 or len(base['atoms']) != natoms:
                    common.add_violation(ctx, 'a valid file of a few lines, read with read_file(), does not give its atoms', {'text': '\n'.join(body) + '\n'}, natoms, len(base['atoms']))
                    break
                if st != 'ok' or inn or m != base:
                    diff = [key for key in base if m.get(key) != base[key]]
                    common.add_violation(ctx, 'a different layout (blank lines, comment lines, white space) of a small file read with read_file() gives a different model',
                                         {'plain': '\n'.join(body) + '\n', 'text': '\n'.join(lines) + '\n'}, 'same model', {'status': st, 'inner': inn, 'differs_in': diff})
                    break
    finally:
        shutil.rmtree(d, ignore_errors=True)
    return ev


def run(ctx):
    common.check_obligations(ctx, THEOREMS)
    rng = ctx.rng
    nfiles = 3000 if ctx.thorough() else 60
    nvar = 12 if ctx.thorough() else 5
    ev = small_files_from_disk(ctx)
    shards = []
    meta = []
    for k in range(nfiles):
        gf = rf.gen_file(rng)
        plain = rf.render_file(gf, rng, 'plain')
        st0, in0, shx0 = im.read_text(plain, 'quiet')
        base = model_summary(shx0)
        exp = expected_atoms(gf)
        got = [(a[0], a[1], a[2], a[9]) for a in base['atoms']]
        if st0 != 'ok' or in0 or got != exp:
            common.add_violation(ctx, 'plain rendering of a valid file is not read as constructed', {'text': plain}, str(exp)[:300], str(got)[:300])
            continue
        present = set(a['element'].upper() for a in gf['atoms'] if not a['qpeak'])
        exact = dict((k.upper(), v) for k, v in shx0.sum_formula_exact_as_dict().items())
        els_up = [e.upper() for e in gf['elements']]
        if not all(base['views']['has_element']) or sorted(exact) != sorted(els_up) or any((abs(exact[e]) > 1e-9) != (e in present) for e in els_up if e in exact):
            common.add_violation(ctx, 'the element table of a valid file (symbols in any case, explicit scattering factors) does not know its own elements',
                                 {'text': plain}, {'elements': els_up, 'with_atoms': sorted(present)}, {'has_element': base['views']['has_element'], 'exact': exact})
            continue
        exp_r = expected_restraint_residues(gf, shx0)
        got_r = [(r[0].upper(), sorted(set(r[3]))) for r in base['restraints']]
        if got_r != exp_r:
            common.add_violation(ctx, 'residues addressed by the restraints of a valid file differ from the residues with that number / class (in any case)',
                                 {'text': plain}, str(exp_r)[:300], str(got_r)[:300])
            continue
        for v in range(nvar):
            wild = rf.render_file(gf, rng, 'wild')
            st, inn, shx = im.read_text(wild, 'quiet')
            ev += 1
            m = model_summary(shx)
            if st != 'ok' or inn or m != base:
                diff = [key for key in base if m.get(key) != base[key]]
                if 'instr' in diff:
                    diff.append(next(((x, y) for x, y in zip(base['instr'], m['instr']) if x != y), (len(base['instr']), len(m['instr']))))
                common.add_violation(ctx, 'a different layout (continuation lines, blanks, comments, case) of the same instructions gives a different model',
                                     {'plain': plain, 'text': wild}, 'same model', {'status': st, 'inner': inn, 'differs_in': diff})
                continue
            if v == 0:
                # correspondence of the lexer model: token lists per logical line
                starts = []
                wild2 = rf.render_file(gf, rng, 'wild', starts=starts)
                st2, in2, shx2 = im.read_text(wild2, 'quiet')
                shards.append((wild2.rstrip('\n').split('\n'), [l['tokens'] for l in gf['lines'] if l['kind'] not in ('titl',)], gf, shx2, starts))
        if k < 2:
            common.sample(ctx, {'wild_layout': rf.render_file(gf, rng, 'wild')[:500]})
    # Coq evaluation: lex(lines) must equal the token lists by construction (without the TITL line, which is free text)
    terms, defs = [], []
    for i, (lines, expect, gf, shx2, starts) in enumerate(shards):
        body = [l for l in lines if not l.upper().startswith('TITL')]
        defs.append('Definition f%d : list str := %s.' % (i, clist(['lit ' + cstr(l) for l in body])))
        defs.append('Definition e%d : list (list str) := %s.' % (i, clist([clist(['lit ' + cstr(t) for t in toks]) for toks in expect])))
        terms.append('if list_eq_dec (list_eq_dec (list_eq_dec Ascii.ascii_dec)) (map (map upper) (lex f%d)) (map (map upper) e%d) then true else false' % (i, i))
    step = 20
    packs = [(IMPORTS + '\n'.join(defs[2 * k:2 * (k + step)]), terms[k:k + step]) for k in range(0, len(terms), step)]
    results = common.coq_eval_sharded(ctx, 'c05lex', '', None, packs)
    idx = 0
    nbad = 0
    for res in results:
        for r in res:
            if not common.parse_bool(r):
                nbad += 1
                if nbad <= 3:
                    ctx.broken.append('Model/Lex.v does not recover the constructed token lists for a generated layout (case %d)' % idx)
            idx += 1
    # implementation side of the correspondence: the pass-through object stored at the first physical line of a
    # logical line holds exactly the constructed tokens
    from shelxfile.shelx.cards import Command, Restraint
    nb = 0
    for (lines, expect, gf, shx2, starts) in shards:
        for l, st in zip(gf['lines'], starts):
            obj = shx2._reslist[st] if st < len(shx2._reslist) else None
            if isinstance(obj, (Command, Restraint)) and type(obj).__name__ not in REGEN:
                toks = str(obj).split()
                if [t.upper() for t in toks] != [t.upper() for t in l['tokens']]:
                    nb += 1
                    if nb <= 3:
                        ctx.broken.append('correspondence: %s object holds %s, constructed tokens %s' % (type(obj).__name__, toks, l['tokens']))
    ctx.cov['evaluations'] = ev + len(terms)
    ctx.cov['distinct_nontrivial'] = ev
    ctx.cov['rule'] = ('generated valid files (header, global instructions, FVAR over one or two lines, atoms in RESI/PART/AFIX context, restraints, '
                       'HKLF, END, Q-peaks); per file one plain rendering and several wild ones: every token boundary may carry a continuation, runs of '
                       'blanks, comments containing = and !, blank / indented lines, lower-case keywords or whole lines; all random, hence distinct')
    ctx.assumptions += ['characters are printable ASCII and blank (no tabs)', 'TITL and REM lines are free text and excluded from the token comparison',
                        'hand-written model Model/Lex.v validated on the generated layouts']


def replay(ctx, rp):
    c = rp['violation']['case']
    st, inn, shx = im.read_text(c['text'], 'quiet')
    print('replay:', st, inn, len(shx.atoms.all_atoms), 'atoms')
    return 0
