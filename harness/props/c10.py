"""C10 — symmetry-operator strings.  Theorems: coq/Props/C10.v.  Tie B: Model/Symm.v is evaluated inside Coq
(vm_compute) on the same strings the implementation parsed / printed / compared; the spec (Spec/SymmSpec.v denote)
is evaluated on the abstract component the string was rendered from."""
import itertools
import re
from fractions import Fraction

import common
from common import cq, cz, clist, cstr, cbool

THEOREMS = ['C10_parse_component_correct', 'C10_parse_op_correct', 'C10_print_parse_component',
            'C10_trans_close_sound', 'C10_trans_close_complete', 'C10_trans_close_grid',
            'C10_eq_two_thirds', 'C10_parse_example']
IMPORTS = ('From SX Require Import Base.Prelude Base.Str Model.Symm Spec.SymmSpec Proofs.SymmProofs.\n'
           'From Coq Require Import QArith Qabs.\nOpen Scope Q_scope.\n')
NUMERALS = ['1/2', '1/3', '2/3', '1/4', '3/4', '1/6', '5/6', '1/8', '1/12', '5/12', '0.5', '0.25', '0.75', '0.3333',
            '0.125', '.5', '1.', '2/4', '10/12', '0.6667', '1', '0.33333333']
AXES = 'XYZ'
TOLQ = Fraction(1, 10 ** 12)


def numeral_term(t):
    if '/' in t:
        a, b = t.split('/')
        return 'NFrac (lit %s) (lit %s)' % (cstr(a), cstr(b)), Fraction(int(a), int(b))
    if '.' in t:
        a, b = t.split('.')
        return 'NDec (lit %s) (lit %s)' % (cstr(a), cstr(b)), Fraction(t if a else '0' + t)
    return 'NInt (lit %s)' % cstr(t), Fraction(t)


def sgn_term(s):
    return {'': 'None', '+': '(Some Plus)', '-': '(Some Minus)'}[s]


def gen_components(rng, limit=None):
    """yields (items, text) with items = list of ('T', sign, axis) / ('N', sign, numeral-text)"""
    out = []
    for pattern in itertools.product(['', '+', '-'], repeat=3):        # absent / + / -
        terms = [(('+' if p == '+' else '-'), AXES[i]) for i, p in enumerate(pattern) if p]
        for order in itertools.permutations(terms):
            order = list(order)
            transl = [None]
            for num in NUMERALS:
                for pos in range(len(order) + 1):
                    for sg in ('+', '-'):
                        transl.append((num, pos, sg))
            for tr in transl:
                items = [('T', s, a) for s, a in order]
                if tr:
                    num, pos, sg = tr
                    items.insert(pos, ('N', sg, num))
                if not items:
                    continue
                variants = [items]
                # the first item may drop an explicit '+'
                if items[0][1] == '+':
                    variants.append([(items[0][0], '', items[0][2])] + items[1:])
                out.extend(variants)
    rng.shuffle(out)
    return out[:limit] if limit else out


def render(items):
    return ''.join(s + x for _, s, x in items)


def decorate(rng, text):
    mode = rng.randrange(4)
    if mode == 0:
        return text
    if mode == 1:
        return text.lower()
    out = []
    for ch in text:
        if rng.random() < 0.3:
            out.append(' ' * rng.randint(1, 2))
        out.append(ch.lower() if rng.random() < 0.5 else ch)
    if rng.random() < 0.5:
        out.append(' ')
    return ''.join(out)


def items_term(items):
    ts = []
    for kind, s, x in items:
        if kind == 'T':
            ts.append('ITerm %s A%s' % (sgn_term(s), x))
        else:
            ts.append('ITrans %s (%s)' % (sgn_term(s), numeral_term(x)[0]))
    return clist(ts)


def impl_parse(text):
    from shelxfile.misc.dsrmath import SymmetryElement
    try:
        el = SymmetryElement([text, 'Y', 'Z'])
        t = el.trans[0]
        if t is None:
            return None
        return (el.matrix[0, 0], el.matrix[0, 1], el.matrix[0, 2], t)
    except Exception:
        return None


def res_term(r):
    if r is None:
        return 'None'
    return '(Some (%s, %s, %s, %s))' % (cz(int(r[0])), cz(int(r[1])), cz(int(r[2])), cq(r[3]))


DEFS = '''
Definition same (a b : option (Z * Z * Z * Q)) : bool :=
  match a, b with
  | None, None => true
  | Some (x, y, z, t), Some (x', y', z', t') => Z.eqb x x' && Z.eqb y y' && Z.eqb z z' && Qeqb_tol (%s) t t'
  | _, _ => false
  end.
Definition chk_model (c : str * list item * option (Z * Z * Z * Q)) : bool := let '(s, _, r) := c in same (parse_component s) r.
Definition chk_spec (c : str * list item * option (Z * Z * Z * Q)) : bool := let '(_, l, r) := c in negb (comp_wf l) || same (Some (denote l)) r.
Definition chk_wf (c : str * list item * option (Z * Z * Z * Q)) : bool := let '(_, l, _) := c in comp_wf l.
''' % cq(TOLQ)


def run_parse(ctx):
    rng = ctx.rng
    comps = gen_components(rng, None if ctx.thorough() else 6000)
    cases = []
    for items in comps:
        text = decorate(rng, render(items))
        cases.append((text, items, impl_parse(text)))
    # strings outside the grammar: the model must agree on whether (and what) is parsed when it claims to know
    extra = ['2X', 'X+1/2/3', 'X+', '-', 'X-Y+Z+1/2', 'x+y', '1/2+1/2+X', 'X+1e-3', 'X+1/0']
    shards, idx = [], []
    for k in range(0, len(cases), 400):
        chunk = cases[k:k + 400]
        defs = DEFS + 'Definition cases : list (str * list item * option (Z * Z * Z * Q)) := %s.\n' % clist(
            ['(lit %s, %s, %s)' % (cstr(t), items_term(it), res_term(r)) for t, it, r in chunk])
        shards.append((defs, ['bad_indices chk_model cases', 'bad_indices chk_spec cases', 'length (filter chk_wf cases)']))
        idx.append(chunk)
    results = common.coq_eval_sharded(ctx, 'c10parse', IMPORTS, None, shards)
    nwf = 0
    for chunk, res in zip(idx, results):
        bm, bs = common.parse_nat_list(res[0]), common.parse_nat_list(res[1])
        nwf += common.parse_nat_list(res[2])[0]
        for b in bs:
            t, it, r = chunk[b]
            common.add_violation(ctx, 'operator component is not parsed to the rotation row and translation it denotes',
                                 {'kind': 'parse', 'text': t, 'items': it}, 'denote (Spec/SymmSpec.v)', str(r))
        for b in bm:
            if b not in bs:
                t, it, r = chunk[b]
                ctx.broken.append('correspondence Model/Symm.v parse_component differs from SymmetryElement on %r (impl %s)' % (t, r))
    # out-of-grammar strings: model vs implementation only where the model yields a value
    defs = DEFS + 'Definition xs : list (str * option (Z * Z * Z * Q)) := %s.\n' % clist(
        ['(lit %s, %s)' % (cstr(t), res_term(impl_parse(t))) for t in extra])
    defs += 'Definition chk_x (c : str * option (Z * Z * Z * Q)) : bool := match parse_component (fst c) with None => true | r => same r (snd c) end.\n'
    res = common.coq_eval(ctx, 'c10extra', IMPORTS, defs, ['bad_indices chk_x xs'])
    for b in common.parse_nat_list(res[0]):
        ctx.broken.append('correspondence Model/Symm.v differs from SymmetryElement on out-of-grammar text %r' % extra[b])
    common.sample(ctx, {'component': cases[0][0], 'items': cases[0][1], 'impl': str(cases[0][2])})
    common.sample(ctx, {'component': cases[1][0], 'items': cases[1][1], 'impl': str(cases[1][2])})
    return len(cases) + len(extra), nwf


def py_float_numeral(x):
    """(sign, ip, fp) of str(float) when it is plain decimal notation"""
    m = re.fullmatch(r'(-?)(\d+)\.(\d+)', str(x))
    return m.groups() if m else None


def run_print_eq(ctx):
    """print -> parse round trip, and equality modulo lattice translations"""
    from shelxfile.misc.dsrmath import SymmetryElement
    rng = ctx.rng
    comps = gen_components(rng, 3000 if ctx.thorough() else 600)
    ops = []
    for k in range(0, len(comps) - 2, 3):
        texts = [render(c) for c in comps[k:k + 3]]
        try:
            ops.append((texts, SymmetryElement(texts, centric=rng.random() < 0.2)))
        except Exception:
            continue
    n = 0
    cases = []
    # the inverted operator (centric=True, inverted()): exactly -R and -t of what the text denotes
    for texts, _ in ops:
        try:
            plain, cen = SymmetryElement(texts), SymmetryElement(texts, centric=True)
            inv = plain.inverted()
        except Exception as ex:
            common.add_violation(ctx, 'building the inverted operator raises', {'kind': 'centric', 'components': texts}, 'operator', repr(ex))
            continue
        n += 1
        # a copy shifted by a lattice translation (apply_latt_symm) keeps the rotation part and adds the translation - for plain and inverted operators
        try:
            shift = SymmetryElement(['1/2', '1/2', '0'])
            for what_, o_ in (('operator', plain), ('inverted operator', inv)):
                c_ = o_.apply_latt_symm(shift)
                ok_ = all(c_.matrix[i, j] == o_.matrix[i, j] for i in range(3) for j in range(3)) and \
                    all(abs(float(a) - float(b) - d) < 1e-12 for a, b, d in zip(c_.trans, o_.trans, (0.5, 0.5, 0.0)))
                if not ok_:
                    common.add_violation(ctx, 'the copy of an %s shifted by a lattice translation is not the same rotation with the translation added' % what_,
                                         {'kind': 'centric', 'components': texts}, 'rows %s' % [[o_.matrix[i, j] for j in range(3)] for i in range(3)],
                                         'rows %s trans %s' % ([[c_.matrix[i, j] for j in range(3)] for i in range(3)], list(c_.trans)))
                    break
        except Exception as ex:
            common.add_violation(ctx, 'apply_latt_symm raises', {'kind': 'centric', 'components': texts}, 'operator', repr(ex))
        for what, o in (('centric=True', cen), ('inverted()', inv)):
            ok = all(o.matrix[i, j] == -plain.matrix[i, j] for i in range(3) for j in range(3)) and \
                all(abs(float(a) + float(b)) < 1e-12 for a, b in zip(o.trans, plain.trans))
            if not ok:
                common.add_violation(ctx, 'the inverted operator (%s) is not -R, -t of the operator the text denotes' % what, {'kind': 'centric', 'components': texts},
                                     'rows %s' % [[-plain.matrix[i, j] for j in range(3)] for i in range(3)], 'rows %s' % [[o.matrix[i, j] for j in range(3)] for i in range(3)])
                break
    for texts, op in ops:
        n += 1
        printed = op.to_shelxl()
        try:
            back = SymmetryElement(printed.split(','))
        except Exception as ex:
            common.add_violation(ctx, 'printing an operator and parsing the result raises', {'kind': 'print', 'components': texts}, 'same operator', repr(ex))
            continue
        same = all(op.matrix[i, j] == back.matrix[i, j] for i in range(3) for j in range(3)) and \
            all(float(a) == float(b) for a, b in zip(op.trans, back.trans))
        if not same or not (back == op):
            common.add_violation(ctx, 'printing an operator and parsing the result gives a different operator',
                                 {'kind': 'print', 'components': texts, 'printed': printed}, str([list(op.trans)]), str([list(back.trans)]))
        # model of to_shelxl for each component
        for i, comp in enumerate(printed.split(', ')):
            t = op.trans[i]
            num = py_float_numeral(float(t)) if t else None
            if t and num is None:
                continue
            tr = 'None' if not t else '(Some (%s, NDec (lit %s) (lit %s)))' % ('Some Minus' if num[0] else 'None', cstr(num[1]), cstr(num[2]))
            coefs = '(%s, %s, %s)' % tuple(cz(int(op.matrix[i, j])) for j in range(3))
            cases.append(('(lit %s, %s, %s)' % (cstr(comp), coefs, tr), comp))
    defs = 'Definition pc : list (str * (Z * Z * Z) * option (option sgn * numeral)) := %s.\n' % clist([c for c, _ in cases])
    defs += ('Definition chk_p (c : str * (Z * Z * Z) * option (option sgn * numeral)) : bool := let \'(s, co, t) := c in '
             'if list_eq_dec Ascii.ascii_dec (to_shelxl_comp co t) s then true else false.\n')
    res = common.coq_eval(ctx, 'c10print', IMPORTS, defs, ['bad_indices chk_p pc'])
    for b in common.parse_nat_list(res[0]):
        ctx.broken.append('correspondence Model/Symm.v to_shelxl differs from SymmetryElement.to_shelxl on %r' % cases[b][1])
    # equality
    grid = [Fraction(k, 24) for k in range(-30, 31)] + [Fraction('0.3333'), Fraction('0.6667'), Fraction('0.25'), Fraction(5, 2)]
    ecases = []
    from shelxfile.misc.dsrmath import Array
    base = [o for _, o in ops[:40]]
    for _ in range(3000 if ctx.thorough() else 600):
        a = rng.choice(base)
        b = SymmetryElement(a.to_shelxl().split(','))
        if rng.random() < 0.25:
            b = rng.choice(base)
        ta = [rng.choice(grid) for _ in range(3)]
        if rng.random() < 0.6:
            tb = [x + rng.randint(-2, 2) for x in ta]
            if rng.random() < 0.3:
                k = rng.randrange(3)
                tb[k] = tb[k] + rng.choice([Fraction(1, 2), Fraction(1, 3), Fraction(1, 24), Fraction(1, 100000)])
        else:
            tb = [rng.choice(grid) for _ in range(3)]
        a2 = SymmetryElement(a.to_shelxl().split(','))
        a2.trans = Array([float(x) for x in ta])
        b.trans = Array([float(x) for x in tb])
        impl = bool(a2 == b)
        if bool(a2 != b) == impl:
            common.add_violation(ctx, 'two operators are equal and unequal at the same time (== and != disagree)',
                                 {'kind': 'eq', 'a': a2.to_shelxl(), 'b': b.to_shelxl(), 'ta': [str(x) for x in ta], 'tb': [str(x) for x in tb]}, not impl, bool(a2 != b))
        mat_same = all(a2.matrix[i, j] == b.matrix[i, j] for i in range(3) for j in range(3))
        exact = mat_same and all((x - y).denominator == 1 for x, y in zip(ta, tb))
        n += 1
        rows = lambda o: clist(['(%s, %s, %s)' % tuple(cz(int(o.matrix[i, j])) for j in range(3)) for i in range(3)])
        ecases.append(('({| so_rows := %s; so_trans := %s |}, {| so_rows := %s; so_trans := %s |}, %s)' % (
            rows(a2), clist([cq(x) for x in ta]), rows(b), clist([cq(x) for x in tb]), cbool(impl)), (str(a2), ta, str(b), tb, impl, exact)))
        if impl != exact:
            common.add_violation(ctx, 'operators compare equal although they do not agree modulo lattice translations (or vice versa)',
                                 {'kind': 'eq', 'a': a2.to_shelxl(), 'b': b.to_shelxl(), 'ta': [str(x) for x in ta], 'tb': [str(x) for x in tb]}, exact, impl)
    defs = 'Definition ec : list (symop * symop * bool) := %s.\n' % clist([c for c, _ in ecases])
    defs += 'Definition chk_e (c : symop * symop * bool) : bool := let \'(a, b, r) := c in Bool.eqb (op_eqb a b) r.\n'
    res = common.coq_eval(ctx, 'c10eq', IMPORTS, defs, ['bad_indices chk_e ec'])
    for b in common.parse_nat_list(res[0]):
        ctx.broken.append('correspondence Model/Symm.v op_eqb differs from SymmetryElement.__eq__ on %s' % (ecases[b][1],))
    return n + len(cases)


def run_symm_card(ctx):
    """SYMM instruction: components split on commas, blanks anywhere"""
    import contextlib, io
    from shelxfile.shelx.shelx import Shelxfile
    rng = ctx.rng
    n = 0
    for _ in range(200 if ctx.thorough() else 40):
        comps = gen_components(rng, 3)
        texts = [decorate(rng, render(c)) for c in comps]
        line = 'SYMM ' + rng.choice([',', ', ', ' , ']).join(texts)
        text = 'TITL s\nCELL 0.71073 10 11 12 90 90 90\nZERR 4 0.001 0.001 0.001 0 0 0\nLATT -1\n%s\nSFAC C\nUNIT 4\nHKLF 4\nEND\n' % line
        shx = Shelxfile()
        with contextlib.redirect_stdout(io.StringIO()):
            shx.read_string(text)
        n += 1
        exp = []
        for c in comps:
            row = [0, 0, 0]
            tr = Fraction(0)
            for kind, s, x in c:
                if kind == 'T':
                    row['XYZ'.index(x)] = -1 if s == '-' else 1
                else:
                    tr = numeral_term(x)[1] * (-1 if s == '-' else 1)
            exp.append((row, tr))
        ops = list(shx.symmcards)
        ok = len(ops) == 2
        if ok:
            op = ops[1]
            ok = all(op.matrix[i, j] == exp[i][0][j] for i in range(3) for j in range(3)) and \
                all(abs(Fraction(float(op.trans[i])) - exp[i][1]) < TOLQ for i in range(3))
        if not ok:
            common.add_violation(ctx, 'SYMM instruction is not parsed to the operator it denotes', {'kind': 'symm', 'line': line},
                                 str(exp), str(ops))
    return n


def run(ctx):
    common.check_obligations(ctx, THEOREMS)
    n1, nwf = run_parse(ctx)
    n2 = run_print_eq(ctx)
    n3 = run_symm_card(ctx)
    ctx.cov['evaluations'] = n1 + n2 + n3
    ctx.cov['distinct_nontrivial'] = nwf
    ctx.cov['exhaustive'] = bool(ctx.thorough())
    ctx.cov['rule'] = ('components of the bounded grammar: 27 sign patterns x all term orders x (no translation | %d numerals x every position x sign) '
                       'x optional leading plus, randomly decorated with blanks / lower case (thorough: all of them, quick: 6000 sampled); '
                       'distinct_nontrivial = cases whose abstract component satisfies comp_wf, counted inside Coq; plus print->parse of operators, '
                       'equality on the 1/24 grid with integer shifts and near misses, SYMM lines read through Shelxfile' % len(NUMERALS))
    ctx.assumptions += ['float() / eval() on the modelled numeral grammar ([sign]digits[.digits], [sign]digits/digits); float rounding not modelled (tolerance 1e-12)',
                        'str(float) prints plain decimal notation for the translations that occur (exponent notation is skipped in the print correspondence)',
                        'hand-written model Model/Symm.v validated by correspondence on the enumerated grammar']


def replay(ctx, rp):
    c = rp['violation']['case']
    if c.get('kind') == 'parse':
        print('replay: %r -> %s' % (c['text'], impl_parse(c['text'])))
    else:
        print('replay: see replay file', c)
    return 0
