"""C07 — writing preserves order, keeps unknown lines verbatim and is a fixed point (also with include files).
Theorems: coq/Props/C07.v (Model/Writer.v: the item loop of the writer, include expansion; Proofs/WriterProofs.v,
Proofs/EchoProofs.v).  Tie B: the writer model is evaluated inside Coq on the items the implementation holds and compared
line by line with the written file; the include expansion model is compared with Shelxfile._find_included_files.
Failing-input search: keyword order, verbatim unknown lines, bytes of repeated read/write cycles, atom counts with
include files."""
import contextlib
import io
import os
import shutil
import tempfile

import common
from common import clist, cstr
from gen import resfile as rf
import impl_model as im
from props import c06

THEOREMS = ['C07_write_order', 'C07_raw_verbatim', 'C07_deleted_not_written', 'C07_includes_not_written', 'C07_include_cycles', 'C07_include_inserted', 'C07_until_end_spec', 'C07_until_end_example', 'C07_include_name_example',
            'C07_passthrough_fixpoint', 'C07_scaled_denote', 'C07_u_fixed_point', 'C07_fvars_written_shape', 'C07_fvars_written_ignores_included',
            'C07_fvars_written_example', 'C07_expand_example']
IMPORTS = 'From SX Require Import Base.Prelude Base.Str Model.Wrap Model.Writer.\n'
UNKNOWN = ['REM caf\u00e9ine at 100\u00b0 d = 1.54 \u00c5', 'TIME 5 ! \u00c5ngstr\u00f6m', 'TIME 5', 'MOLE 1', 'HOPE 1 2 3', 'LONE 1 2 C1', 'BEDE x y', 'TIME   5    ! odd   spacing', 'mole 2']


def ascii_ok(s):
    return all(32 <= ord(c) < 127 for c in s)


def read_path(path):
    st, inn, shx = im.read_text(None, 'quiet', path=path)
    return st, inn, shx


def write_to(shx, path):
    with contextlib.redirect_stdout(io.StringIO()):
        shx.write_shelx_file(path)
    return open(path).read()


def add_unknown(text, rng):
    lines = text.rstrip('\n').split('\n')
    ins = []
    # behind the last FVAR line: SFAC and FVAR lines coalesce at the position of the first, which would move a line placed between them
    lo = max([q for q, l in enumerate(lines) if l.upper().startswith(('FVAR', 'SFAC', 'UNIT'))] + [7]) + 1
    while lo < len(lines) and lines[lo].startswith(' '):
        lo += 1
    for _ in range(rng.randint(0, 3)):
        i = rng.randint(lo, max(lo, len(lines) - 2))
        if lines[i - 1].split('!')[0].rstrip().endswith('=') or lines[i].startswith(' '):
            continue
        if rng.random() < 0.35:
            # an uninterpreted instruction wrapped over two or three lines, with its own indentation
            toks = ['C%d' % q for q in range(1, rng.randint(25, 60))]
            kw = rng.choice(['LONE 1 2', 'BEDE', 'HOPE 3'])
            cut = sorted(rng.sample(range(5, len(toks) - 2), rng.randint(1, 2)))
            parts = [toks[:cut[0]]] + [toks[a:b] for a, b in zip(cut, cut[1:] + [len(toks)])]
            block = [kw + ' ' + ' '.join(parts[0]) + ' ='] + [' ' * rng.randint(1, 7) + ' '.join(pp) + (' =' if q < len(parts) - 2 else '') for q, pp in enumerate(parts[1:])]
            if all(len(b) <= 80 for b in block):
                lines[i:i] = block
                ins.append(block)
            continue
        u = rng.choice(UNKNOWN)
        lines.insert(i, u)
        ins.append(u)
    return '\n'.join(lines) + '\n', ins


def keys(text):
    """(keyword, first parameter) sequence through the independent lexer; later plain SFAC and FVAR lines coalesce at the first"""
    out, seen = [], set()
    for l in rf.independent_lex(text):
        if not l['tokens']:
            continue
        kw = l['tokens'][0].upper()
        k4 = kw[:4]
        if k4 in ('SFAC', 'FVAR'):
            plain = k4 == 'FVAR' or all(t.isalpha() for t in l['tokens'][1:])
            if plain and k4 in seen:
                continue
            if plain:
                seen.add(k4)
        first = l['tokens'][1].upper() if len(l['tokens']) > 1 else ''
        try:
            first = '%.5g' % float(first)
        except ValueError:
            pass
        out.append((kw, first) if k4 not in ('TITL', 'REM') else (kw, ''))
    return out


def items_literal(shx):
    its = []
    for x in shx._reslist:
        if isinstance(x, str):
            its.append('IRaw (lit %s)' % cstr(x))
        else:
            its.append('IObj %s' % clist(['lit ' + cstr(p) for p in str(x).split('\n')]))
    return clist(its), clist(['%d%%nat' % i for i in sorted(shx.delete_on_write)])


def run(ctx):
    common.check_obligations(ctx, THEOREMS)
    rng = ctx.rng
    nfiles = 4000 if ctx.thorough() else 60
    ev = 0
    coq_files = []
    tmp = tempfile.mkdtemp(prefix='verif-c07-')
    try:
        main = os.path.join(tmp, 'main.res')
        for k in range(nfiles):
            if k % 3 == 0:
                text = c06.long_file(rng)
            else:
                text = rf.render_file(rf.gen_file(rng), rng, 'wild' if k % 2 else 'plain')
            text, unknown = add_unknown(text, rng)
            open(main, 'w').write(text)
            st, inn, shx = read_path(main)
            case = {'text': text}
            if st != 'ok' or inn:
                common.add_violation(ctx, 'a valid file with unknown instructions raises', case, 'ok', '%s %s' % (st, inn))
                continue
            w1 = write_to(shx, main)
            ev += 1
            # order of the instructions
            k_in, k_out = keys(text), keys(w1)
            same = lambda a, b: a[0] == b[0] and (a[1] == b[1] or not a[1] or not b[1])      # a default may be written out
            if len(k_in) != len(k_out) or not all(same(a, b) for a, b in zip(k_in, k_out)):
                i = next((i for i, (a, b) in enumerate(zip(k_in, k_out)) if not same(a, b)), min(len(k_in), len(k_out)))
                common.add_violation(ctx, 'the order of instructions and atoms in the written file differs from the input', dict(case, written=w1),
                                     k_in[max(0, i - 2):i + 3], k_out[max(0, i - 2):i + 3])
                continue
            # unknown lines verbatim and in place (between the same neighbours)
            wl = w1.split('\n')
            for u in unknown:
                if isinstance(u, list):
                    hit = [q for q in range(len(wl)) if wl[q:q + len(u)] == u]
                    if not hit:
                        common.add_violation(ctx, 'a wrapped instruction the parser does not interpret is not kept verbatim', dict(case, written=w1), u,
                                             [l for l in wl if l.upper().startswith(u[0][:4].upper())][:3])
                        break
                    continue
                if u not in wl:
                    common.add_violation(ctx, 'a line the parser does not interpret is not kept verbatim', dict(case, written=w1), u,
                                         [l for l in wl if l.upper().startswith(u[:4].upper())][:3])
                    break
            # fixed point
            st2, inn2, shx2 = read_path(main)
            w2 = write_to(shx2, main)
            st3, inn3, shx3 = read_path(main)
            w3 = write_to(shx3, main)
            ev += 2
            if not (w1 == w2 == w3):
                a, b = (w1, w2) if w1 != w2 else (w2, w3)
                al, bl = a.split('\n'), b.split('\n')
                i = next((i for i, (x, y) in enumerate(zip(al, bl)) if x != y), min(len(al), len(bl)))
                common.add_violation(ctx, 'reading a written file and writing it again does not reproduce it byte for byte', dict(case, written=a),
                                     al[max(0, i - 1):i + 2], bl[max(0, i - 1):i + 2])
                continue
            if len(shx.atoms.all_atoms) != len(shx3.atoms.all_atoms):
                common.add_violation(ctx, 'the number of atoms changes over read/write cycles', case, len(shx.atoms.all_atoms), len(shx3.atoms.all_atoms))
            if k % 2 == 0 and ascii_ok(w1) and all(ascii_ok(str(x)) for x in shx._reslist):
                coq_files.append((items_literal(shx), w1.rstrip('\n').split('\n') if w1.strip() else [], text))
            if k < 1:
                common.sample(ctx, {'input': text[:400], 'written': w1[:400]})
        # ---- include files
        ninc = 2500 if ctx.thorough() else 40
        inc_cases = []
        fv_cases = []
        for k in range(ninc):
            for f in os.listdir(tmp):
                os.remove(os.path.join(tmp, f))
            gf = rf.gen_file(rng, natoms=rng.randint(2, 5), with_qpeaks=False)
            text = rf.render_file(gf, rng, 'plain')
            lines = text.rstrip('\n').split('\n')
            files = {}
            natoms_inc = 0
            nrest_inc = 0
            sandwich = False
            twice = False
            ended = []
            inc_lines = {}
            pos = [i for i, l in enumerate(lines) if l.startswith('FVAR')][-1] + 1
            for j in range(rng.randint(1, 2)):
                name = 'inc%d.txt' % j
                body = []
                for a in range(rng.randint(1, 3)):
                    body.append('X%d%d 1 %.5f %.5f %.5f 11.00000 0.05' % (j, a, rng.random(), rng.random(), rng.random()))
                    natoms_inc += 1
                if rng.random() < 0.5:
                    body.append('SADI X%d0 %s' % (j, gf['names'][0]))
                    nrest_inc += 1
                if j == 0 and rng.random() < 0.3:
                    # further free variables defined in the include file (they belong to the model, not to the written res file)
                    body.insert(0, 'FVAR ' + ' '.join('0.3%d' % q for q in range(1, rng.randint(2, 5))))
                    sandwich = rng.random() < 0.6
                if rng.random() < 0.4:       # nested include
                    nn = 'nest%d.txt' % j
                    files[nn] = ['Y%d 1 %.5f %.5f %.5f 11.00000 0.05' % (j, rng.random(), rng.random(), rng.random())]
                    natoms_inc += 1
                    body.insert(rng.randint(0, len(body)), '+' + nn)
                if rng.random() < 0.3:
                    # an END instruction ends the include file (and only that); what follows it in the include file is not read
                    body.append(rng.choice(['END', 'end', 'END ']))
                    if rng.random() < 0.5:
                        body.append('W%d 1 0.5 0.5 0.5 11.00000 0.05' % j)
                    ended.append(name)
                files[name] = body
                # the include line as SHELXL accepts it: blanks behind the name, '++' (the variant that also copies the file into the .res)
                inc_line = rng.choice(['+' + name, '+' + name, '+' + name + '  ', '++' + name, '+' + name + ' '])
                inc_lines[name] = inc_line
                lines.insert(pos, inc_line)
                pos += 1
                if sandwich and j == 0:
                    # the free variables of the main file continue behind the include line (they coalesce at the first FVAR line on
                    # writing, those of the include file stay where they are)
                    lines.insert(pos, 'FVAR ' + ' '.join('0.7%d' % q for q in range(1, rng.randint(3, 9))))
                    pos += 1
            if rng.random() < 0.25 and 'inc0.txt' in files:
                # the same include file a second time further down (restraints kept in one file, pulled in once per residue): not a recursion
                later = [i for i in range(pos + 1, len(lines)) if not lines[i].startswith((' ', '+')) and not lines[i].upper().startswith(('HKLF', 'END'))
                         and not lines[i - 1].rstrip().endswith('=')]
                if later:
                    lines.insert(rng.choice(later), inc_lines['inc0.txt'].rstrip())
                    body0 = files['inc0.txt']
                    upto = next((q for q, l in enumerate(body0) if l.strip().upper() == 'END'), len(body0))
                    natoms_inc += sum(1 for l in body0[:upto] if l[:1] in 'XW') + sum(1 for l in body0[:upto] if l.startswith('+nest'))
                    twice = True
            if rng.random() < 0.3:
                lines.insert(pos, '+missing.txt')
            for n, body in files.items():
                open(os.path.join(tmp, n), 'w').write('\n'.join(body) + '\n')
            text = '\n'.join(lines) + '\n'
            open(main, 'w').write(text)
            case = {'text': text, 'include_files': files}
            # raw expansion, observed without parsing
            from shelxfile.shelx.shelx import Shelxfile
            from pathlib import Path
            raw = Shelxfile()
            raw.resfile = Path(main)
            raw._reslist = text.splitlines(keepends=False)
            try:
                with contextlib.redirect_stdout(io.StringIO()):
                    raw._find_included_files()
            except Exception as ex_:
                common.add_violation(ctx, 'reading the include files of a valid file raises', case, 'no exception', '%s: %s' % (type(ex_).__name__, ex_))
                continue
            inc_cases.append((lines, files, list(raw._reslist), sorted(raw.delete_on_write)))
            st, inn, shx = read_path(main)
            ev += 1
            if st != 'ok' or inn:
                common.add_violation(ctx, 'a valid file with include files raises', case, 'ok', '%s %s' % (st, inn))
                continue
            # the FVAR block as written, for the model of FVARs.__str__ (which free variables came from an include file is known from the files)
            fv_cases.append(([(str(f.fvar_value), bool(f.included)) for f in shx.fvars.fvars], str(shx.fvars)))
            n0 = len(shx.atoms.all_atoms)
            exp_atoms = len(gf['atoms']) + natoms_inc
            if ended and (any(a.qpeak for a in shx.atoms.all_atoms)):
                common.add_violation(ctx, 'an END instruction in an include file ends the res file: atoms behind the include line are taken for Q-peaks', case,
                                     'no Q-peaks (the file has none)', [a.name for a in shx.atoms.all_atoms if a.qpeak][:6])
                continue
            if n0 != exp_atoms:
                common.add_violation(ctx, 'atoms of include files are not in the atom list exactly once', case, exp_atoms, n0)
                continue
            incl_before = {n: open(os.path.join(tmp, n)).read() for n in files}
            texts = []
            counts = []
            for c in range(3):
                w = write_to(shx, main)
                texts.append(w)
                st, inn, shx = read_path(main)
                counts.append((len(shx.atoms.all_atoms), len(list(shx.restraints))))
                ev += 1
            if len(set(texts)) != 1:
                common.add_violation(ctx, 'a file with include files is not reproduced byte for byte by read/write cycles', dict(case, written=texts[0]),
                                     len(texts[0]), [len(t) for t in texts])
            elif len(set(counts)) != 1 or counts[0][0] != n0:
                common.add_violation(ctx, 'content of include files accumulates over read/write cycles', dict(case, written=texts[0]), (n0,), counts)
            elif any(inc_lines[n].rstrip() not in [l_.rstrip() for l_ in texts[0].split('\n')] for n in files if not n.startswith('nest')):
                common.add_violation(ctx, "the '+filename' line is not kept in the written file", dict(case, written=texts[0]), sorted(files), texts[0][:300])
            elif incl_before != {n: open(os.path.join(tmp, n)).read() for n in files}:
                common.add_violation(ctx, 'an include file was modified by writing the main file', case, 'unchanged', 'changed')
    finally:
        shutil.rmtree(tmp, ignore_errors=True)
    # ---- correspondence 1: writer loop
    packs = []
    step = 5
    for k in range(0, len(coq_files), step):
        defs, terms = [], []
        for i, ((its, dele), wl, text) in enumerate(coq_files[k:k + step]):
            defs.append('Definition it%d : list item := %s.\nDefinition w%d : list str := %s.' % (i, its, i, clist(['lit ' + cstr(l) for l in wl])))
            terms.append('if list_eq_dec (list_eq_dec Ascii.ascii_dec) (write_file %s it%d) w%d then true else false' % (dele, i, i))
        packs.append(('\n'.join(defs), ['forallb (fun b : bool => b) %s' % clist(terms)]))
    results = common.coq_eval_sharded(ctx, 'c07w', IMPORTS, None, packs)
    for si, res in enumerate(results):
        if not common.parse_bool(res[0]):
            ctx.broken.append('correspondence: Model/Writer.v write_file differs from the written file for a generated file (shard %d)' % si)
            break
    # ---- correspondence 2: include expansion
    defs, terms = [], []
    for i, (lines, files, got, dele) in enumerate(inc_cases):
        fs = 'fun n => ' + ''.join('if name_eqb n (lit %s) then Some %s else ' % (cstr(n), clist(['lit ' + cstr(l) for l in body])) for n, body in files.items()) + 'None'
        defs.append('Definition m%d : list str := %s.\nDefinition g%d : list str := %s.' % (i, clist(['lit ' + cstr(l) for l in lines]), i, clist(['lit ' + cstr(l) for l in got])))
        terms.append('let r := read_with_includes 200 (%s) m%d in (if list_eq_dec (list_eq_dec Ascii.ascii_dec) (map fst r) g%d then true else false) '
                     '&& (if list_eq_dec Nat.eq_dec (marked_positions r) %s then true else false)' % (fs, i, i, clist(['%d%%nat' % d for d in dele])))
    step = 20
    packs = [('\n'.join(defs[k:k + step]), ['bad_indices (fun b : bool => b) %s' % clist(terms[k:k + step])]) for k in range(0, len(terms), step)]
    results = common.coq_eval_sharded(ctx, 'c07i', IMPORTS, None, packs)
    for si, res in enumerate(results):
        bad = common.parse_nat_list(res[0])
        if bad:
            c = inc_cases[si * step + bad[0]]
            ctx.broken.append('correspondence: Model/Writer.v expand differs from _find_included_files: main %s files %s -> %s marked %s' % (c[0][-8:], c[1], c[2][-10:], c[3]))
            break
    # ---- correspondence 3: the FVAR block with free variables from include files
    if fv_cases:
        defs = ['Definition fv : list (list (str * bool) * list str) := %s.' % clist(
            ['(%s, %s)' % (clist(['(lit %s, %s)' % (cstr(v), 'true' if inc else 'false') for v, inc in vals]), clist(['lit ' + cstr(l) for l in (txt.split('\n') if txt else [])]))
             for vals, txt in fv_cases]),
                'Definition leq (a b : list str) : bool := if list_eq_dec (list_eq_dec Ascii.ascii_dec) a b then true else false.']
        res = common.coq_eval(ctx, 'c07fv', IMPORTS, '\n'.join(defs), ['bad_indices (fun c : list (str * bool) * list str => leq (fvars_written (fst c)) (snd c)) fv'])
        for b in common.parse_nat_list(res[0])[:3]:
            ctx.broken.append('correspondence: Model/Wrap.v fvars_written differs from FVARs.__str__ for %s -> %r' % fv_cases[b])
    ctx.cov['evaluations'] = ev + len(coq_files) + len(inc_cases) + len(fv_cases)
    ctx.cov['distinct_nontrivial'] = nfiles + len(inc_cases)
    ctx.cov['rule'] = ('generator files (plain / wild layout) and long-instruction files with 0-3 unknown instructions (TIME, MOLE, HOPE, LONE, BEDE, odd spacing, '
                       'lower case) inserted between instructions: keyword order, verbatim lines, three read/write cycles compared byte for byte; files with 1-2 '
                       'include files (atoms, a restraint, nested include, missing file): atom count, three cycles, include line kept, include files untouched')
    ctx.assumptions += ['blank lines are dropped by the writer (as the property allows) and are not compared', 'recursive include files are outside the model (the library raises)',
                        'hand-written models Model/Writer.v validated on the generated files']


def replay(ctx, rp):
    c = rp['violation']['case']
    tmp = tempfile.mkdtemp(prefix='verif-c07-')
    try:
        for n, body in (c.get('include_files') or {}).items():
            open(os.path.join(tmp, n), 'w').write('\n'.join(body) + '\n')
        main = os.path.join(tmp, 'main.res')
        open(main, 'w').write(c['text'])
        st, inn, shx = read_path(main)
        w1 = write_to(shx, main)
        st, inn, shx = read_path(main)
        w2 = write_to(shx, main)
        print('replay: fixed point', w1 == w2, 'atoms', len(shx.atoms.all_atoms))
    finally:
        shutil.rmtree(tmp, ignore_errors=True)
    return 0
