"""Shared by C04 and C08: random edit histories applied to the implementation and to an abstract list-of-items model.

The abstract model (the specification, mirrored in coq/Spec/EditSpec.v) is a list of entries.  An entry has an identity,
the token lists of the logical lines it contributes to a written file (computed from the tokens of the source, never from
str(obj)) and a flag "absorbed" (second SFAC / FVAR line: never written).  An operation changes exactly one entry, inserts
one or removes one.  The written file must lex (independent lexer) to the concatenation of the entries' token lists."""
import contextlib
import io

from gen import resfile as rf
import impl_model as im


def fnum(x):
    return float(x)


class LookupMismatch(Exception):
    pass


class Entry(object):
    __slots__ = ('obj', 'lines', 'absorbed', 'kind', 'raw')

    def __init__(self, obj, lines, absorbed=False, kind='other', raw=False):
        self.obj, self.lines, self.absorbed, self.kind, self.raw = obj, lines, absorbed, kind, raw


def lex_text(text):
    return [l['tokens'] for l in rf.independent_lex(text) if l['tokens']]


def initial_entries(shx):
    """one entry per stored item; the token lists come from writing the unedited file (the 'originally written file')"""
    from shelxfile.atoms.atom import Atom
    ents = []
    for i, x in enumerate(shx._reslist):
        absorbed = i in shx.delete_on_write
        if isinstance(x, str):
            if x == '' or absorbed:
                ents.append(Entry(x, [], absorbed, 'blank' if x == '' else 'absorbed', True))
            else:
                ents.append(Entry(x, None, absorbed, 'raw', True))      # filled below (raw lines may be continuation pieces)
        else:
            kind = 'atom' if isinstance(x, Atom) else type(x).__name__
            ents.append(Entry(x, lex_text(str(x)) if not absorbed else [], absorbed, kind))
    return ents


def canon(tokens):
    out = []
    for t in tokens:
        try:
            out.append(round(float(t), 5))
        except ValueError:
            out.append(t.upper())
    return out


def written_tokens(shx):
    text = im.write_text(shx)
    return [canon(t) for t in lex_text(text)], text


def expected_tokens(ents):
    """what the written file must lex to: raw entries are joined as text first (continuation pieces of one instruction
    are separate raw lines), all others contribute their own token lists"""
    out = []
    buf = []

    def flush():
        if buf:
            out.extend(canon(t) for t in lex_text('\n'.join(buf)))
            del buf[:]
    for e in ents:
        if e.absorbed:
            continue
        if e.lines is None:
            buf.append(e.obj if isinstance(e.obj, str) else str(e.obj))
        else:
            flush()
            out.extend(canon(t) for t in e.lines)
    flush()
    return out


def find_entry(ents, obj):
    for i, e in enumerate(ents):
        if e.obj is obj:
            return i
    return None


class History(object):
    """applies operations to the implementation and to the entry list"""

    def __init__(self, shx, rng):
        self.shx, self.rng = shx, rng
        self.ents = initial_entries(shx)
        self.log = []
        self.mops = []          # the same history as operations of coq/Model/Edit.v: ('ins', k, parts, raw) / ('del', k) / ('upd', k, parts)
        self.acta_store = None
        self.refine = None

    # each op returns False if not applicable
    def op_add_line(self):
        shx = self.shx
        cands = [i for i, e in enumerate(self.ents) if not e.raw and e.kind not in ('absorbed',)]
        if not cands:
            return False
        i = self.rng.choice(cands)
        line = self.rng.choice(['REM inserted remark', 'BOND $H', 'CONF', 'HTAB', 'OMIT 1 2 3', 'SIMU 0.04 0.08 1.7',
                                # several instructions in one call (as insert_frag_fend_entry does): they must stay in the order given
                                'REM first of a block\nDFIX 1.5 C1 C2\nREM third of a block\nDANG 2.5 C1 C3', 'EQIV $7 -x, -y, -z\nHTAB C1 O1_$7'])
        obj = self.ents[i].obj
        idx = shx.index_of(obj) if not isinstance(obj, str) else i
        shx.add_line(idx, line)
        if '\n' in line:
            self.mops.append(('ins', idx + 1, line.split('\n'), False))
        else:
            self.mops.append(('ins', idx + 1, [line], True))
        self.ents.insert(i + 1, Entry(line, [l.split() for l in line.split('\n')], False, 'inserted', False))
        self.log.append(('add_line', idx, line))
        return True

    def op_frag(self):
        """insert_frag_fend_entry: a FRAG ... FEND block right behind the (first) FVAR line"""
        shx = self.shx
        i = find_entry(self.ents, shx.fvars)
        if i is None or getattr(self, 'frag_done', False):
            return False
        self.frag_done = True
        dbatoms = [['O1', 3, 0.1, 0.2, 0.3], ['C1', 1, 0.25, 0.35, 0.45], ['C2', 1, -0.1, 0.55, 0.65]]
        cell = [1, 1, 1, 90, 90, 90]
        shx.insert_frag_fend_entry(dbatoms, cell)
        lines = [['FRAG', '17'] + [str(c) for c in cell]] + [[str(v) for v in a] for a in dbatoms] + [['FEND']]
        self.mops.append(('skip',))
        self.ents.insert(i + 1, Entry('frag block', lines, False, 'inserted', False))
        self.log.append(('insert_frag_fend_entry',))
        return True

    def op_grow(self):
        """a query, not an edit: grow() returns a list and must leave the object as it was"""
        with contextlib.redirect_stdout(io.StringIO()):
            self.shx.grow(with_qpeaks=self.rng.random() < 0.5)
        self.mops.append(('skip',))
        self.log.append(('grow',))
        return True

    def op_insert_anis(self):
        shx = self.shx
        i = find_entry(self.ents, shx.unit)
        if i is None:
            return False
        names = [a.name for a in shx.atoms.all_atoms if not a.qpeak][:2]
        arg = self.rng.choice(['', ' '.join(names)])
        upos = shx.unit.index
        resi = self.rng.choice(['', '', 'TOL', '*', '2'])
        if resi:
            # the documented second parameter: ANIS_TOL, ANIS_* or ANIS_2, with or without atom names
            shx.insert_anis(arg, residue=resi) if arg else shx.insert_anis(residue=resi)
        else:
            shx.insert_anis(arg) if arg else shx.insert_anis()
        toks = ['ANIS' + ('_' + resi if resi else '')] + arg.split()
        self.mops.append(('ins', upos + 1, [shx._reslist[upos + 1]], True))
        self.ents.insert(i + 1, Entry(' '.join(toks), [toks], False, 'inserted', False))
        self.log.append(('insert_anis', arg, resi))
        return True

    def _atom(self, absorbed_ok=False):
        """an atom the file holds (an entry of the abstract list), reached the way a user reaches it: through the atom list"""
        ats = [e.obj for e in self.ents if e.kind == 'atom' and (absorbed_ok or not e.absorbed)]
        if not ats:
            return None
        a = self.rng.choice(ats)
        names = [x.fullname.upper() for x in ats]
        # reached by name half of the time, else by iteration over the atom list (which does not touch the cached name index)
        if self.rng.random() < 0.5 and names.count(a.fullname.upper()) == 1 and len([e for e in self.ents if e.kind == 'atom' and e.obj.fullname.upper() == a.fullname.upper()]) == 1:
            found = self.shx.atoms.get_atom_by_name(a.fullname)
            if found is not a:
                raise LookupMismatch('atom %s of the file is not what the atom list returns for that name (%s)' % (a.fullname, getattr(found, 'fullname', None)))
        elif not any(x is a for x in self.shx.atoms.all_atoms):
            raise LookupMismatch('atom %s of the file is not in the atom list' % a.fullname)
        return a

    def op_delete_atom(self):
        a = self._atom(absorbed_ok=True)
        hidden = [x for x in self.shx.atoms.all_atoms if find_entry(self.ents, x) is not None and self.ents[find_entry(self.ents, x)].absorbed]
        if hidden and getattr(self, 'force_last_hidden', False):
            a = hidden[-1]
            self.force_last_hidden = False
        elif hidden and self.rng.random() < 0.8:
            a = hidden[-1] if self.rng.random() < 0.7 else self.rng.choice(hidden)     # the last line of an include file is the critical one
        if a is None or len(self.shx.atoms.all_atoms) < 2:
            return False
        i = find_entry(self.ents, a)
        self.log.append(('delete', a.name, a.resinum))
        self.mops.append(('del', a.index))
        if self.rng.random() < 0.5:
            a.delete()
        else:
            del self.shx.atoms[a.atomid]
        del self.ents[i]
        return True

    def op_rename(self):
        a = self._atom()
        if a is None:
            return False
        i = find_entry(self.ents, a)
        new = 'X%d' % self.rng.randint(1, 99)
        a.name = new
        self.mops.append(('upd', a.index, str(a).split('\n')))
        for l in self.ents[i].lines[:1]:
            l[0] = new
        self.log.append(('rename', new))
        return True

    def op_element(self):
        a = self._atom()
        if a is None or a.qpeak:
            return False
        shx = self.shx
        i = find_entry(self.ents, a)
        el = self.rng.choice([e.capitalize() for e in shx.sfac_table.elements_list] + ['Br', 'Si'])
        known = [e.upper() for e in shx.sfac_table.elements_list]
        a.element = el
        self.mops.append(('upd', a.index, str(a).split('\n')))
        if el.upper() not in known:
            self.mops.append(('upd', shx.index_of(shx.sfac_table), str(shx.sfac_table).split('\n')))
            self.mops.append(('upd', shx.unit.index, str(shx.unit).split('\n')))
        if el.upper() in known:
            num = known.index(el.upper()) + 1
        else:
            num = len(known) + 1
            si = find_entry(self.ents, shx.sfac_table)
            ui = find_entry(self.ents, shx.unit)
            if si is None or ui is None:
                return True
            # the new element is appended to the last SFAC line of plain elements / gets a line of its own, UNIT gets one more number
            self.ents[si].lines = None if False else self.ents[si].lines
            self.ents[si].kind = 'sfac+'
            self.ents[si].lines = sfac_after_add(self.ents[si].lines, el)
            self.ents[ui].lines = [self.ents[ui].lines[0] + ['1']]
        self.ents[i].lines[0][1] = str(num)
        self.log.append(('element', a.name, el))
        return True

    def op_isotropic(self):
        a = self._atom()
        if a is None or a.qpeak:
            return False
        i = find_entry(self.ents, a)
        a.to_isotropic()
        self.mops.append(('upd', a.index, str(a).split('\n')))
        l = self.ents[i].lines[0]
        self.ents[i].lines = [l[:6] + ['0.04']]
        self.log.append(('to_isotropic', a.name))
        return True

    def op_plan(self):
        shx = self.shx
        if shx.plan is None:
            return False
        i = find_entry(self.ents, shx.plan)
        if i is None:
            return False
        n = self.rng.choice([self.rng.randint(1, 60), self.rng.randint(1, 60), -self.rng.randint(1, 60), 1200, 2000])
        extra = self.rng.choice([[], [], ['1.5'], ['0', '1.5'], ['-1', '0'], ['0', '0'], ['1.34', '1.1']])       # PLAN npeaks d1 d2, zeros included
        shx.plan.set(' '.join(['PLAN', str(n)] + extra))
        self.mops.append(('upd', shx.plan.index, str(shx.plan).split('\n')))
        self.ents[i].lines = [['PLAN', str(n)] + extra]
        self.log.append(('plan', n, extra))
        return True

    def op_cycles(self):
        shx = self.shx
        c = shx.cycles
        if c is None:
            return False
        i = find_entry(self.ents, c)
        if i is None:
            return False
        n = self.rng.randint(0, 30)
        old = self.ents[i].lines[0]
        c.number = n
        self.mops.append(('upd', c.index, str(c).split('\n')))
        rest = old[2:]
        while rest and float(rest[-1]) == 0:       # trailing zeros are the defaults nrf[0] nextra[0]
            rest = rest[:-1]
        self.ents[i].lines = [[old[0], str(n)] + rest]
        self.log.append(('cycles', n))
        return True

    def op_wght(self):
        shx = self.shx
        if shx.wght is None:
            return False
        i = find_entry(self.ents, shx.wght)
        if i is None:
            return False
        if self.rng.random() < 0.3:
            # set() with fewer parameters than the instruction had: the omitted ones take their defaults
            new = [round(self.rng.uniform(0.01, 0.2), 4), round(self.rng.uniform(0.1, 3), 4)][:self.rng.randint(1, 2)]
            shx.wght.set('WGHT ' + ' '.join(repr(v) for v in new))
            vals = new + [0.1, 0.0, 0.0, 0.0, 0.0, 0.33333][len(new):]
            self.log.append(('wght.set', new))
        elif shx.wght_suggested is not None and self.rng.random() < 0.5:
            shx.update_weight()
            s = shx.wght_suggested
            vals = [s.a, s.b, s.c, s.d, s.e, s.f]
            self.log.append(('update_weight',))
        else:
            vals = [round(self.rng.uniform(0.01, 0.2), 4), round(self.rng.uniform(0, 3), 4), 0.0, 0.0, 0.0, 0.33333]
            shx.wght.a, shx.wght.b = vals[0], vals[1]
            old = [fnum(x) for x in self.ents[i].lines[0][1:]] + [0.1, 0, 0, 0, 0, 0.33333][len(self.ents[i].lines[0]) - 1:]
            vals = vals[:2] + old[2:6]
            self.log.append(('wght', vals[0], vals[1]))
        self.mops.append(('upd', shx.wght.index, str(shx.wght).split('\n')))
        short = vals[2:] == [0.0, 0.0, 0.0, 0.33333]
        self.ents[i].lines = [['WGHT'] + [repr(v) for v in (vals[:2] if short else vals)]]
        return True

    def op_acta(self):
        from shelxfile.refine.refine import ShelxlRefine
        shx = self.shx
        if self.refine is None:
            try:
                with contextlib.redirect_stdout(io.StringIO()):
                    self.refine = ShelxlRefine.__new__(ShelxlRefine)
                    self.refine.shx = shx
                    self.refine._acta_card = None
            except Exception:
                return False
        if self.acta_store is None and shx.acta is not None and self.rng.random() < 0.4:
            # a complete remove / restore cycle on the same helper object (ACTA is at its place again afterwards), possibly followed by the ordinary step
            i0 = find_entry(self.ents, shx.acta)
            ui0 = find_entry(self.ents, shx.unit)
            if i0 is not None and ui0 is not None:
                store = self.ents[i0].lines
                self.mops.append(('del', shx.acta.index))
                self.refine.remove_acta_card(shx.acta)
                del self.ents[i0]
                ui0 = find_entry(self.ents, shx.unit)
                self.refine.restore_acta_card()
                self.mops.append(('ins', shx.acta.index, str(shx.acta).split('\n'), False))
                self.ents.insert(ui0 + 1, Entry(shx.acta, store, False, 'ACTA'))
                self.log.append(('remove_acta + restore_acta',))
        if self.acta_store is None:
            if shx.acta is None:
                return False
            i = find_entry(self.ents, shx.acta)
            if i is None:
                return False
            self.acta_store = self.ents[i].lines
            self.mops.append(('del', shx.acta.index))
            self.refine.remove_acta_card(shx.acta)
            del self.ents[i]
            self.log.append(('remove_acta',))
        else:
            ui = find_entry(self.ents, shx.unit)
            self.refine.restore_acta_card()
            self.mops.append(('ins', shx.acta.index, str(shx.acta).split('\n'), False))
            self.ents.insert(ui + 1, Entry(shx.acta, self.acta_store, False, 'ACTA'))
            self.acta_store = None
            self.log.append(('restore_acta',))
        return True

    def op_add_atom(self):
        """Shelxfile.add_atom(): one new atom line in front of HKLF, nothing else changes; the atom is in the atom list with an ID of its own"""
        shx = self.shx
        if shx.hklf is None:
            return False
        hi = find_entry(self.ents, shx.hklf)
        if hi is None:
            return False
        n_ = getattr(self, 'added', 0) + 1
        self.added = n_
        name = 'X%d' % (100 + n_)
        el = shx.sfac_table.elements_list[0]
        xyz = [round(self.rng.uniform(0.05, 0.95), 4) for _ in range(3)]
        pos = shx.hklf.index
        shx.add_atom(name=name, coordinates=list(xyz), element=el)
        new = [a for a in shx.atoms.all_atoms if a.name == name]
        if len(new) != 1:
            raise LookupMismatch('add_atom(%s): %d atoms of that name in the atom list' % (name, len(new)))
        a = new[0]
        if not any(x is a for x in shx._reslist):
            raise LookupMismatch('add_atom(%s): the new atom is in the atom list, but the file does not hold it' % name)
        self.mops.append(('ins', pos, str(a).split('\n'), False))
        self.ents.insert(hi, Entry(a, lex_text(str(a)), False, 'atom'))
        self.log.append(('add_atom', name, xyz))
        return True

    def op_resi(self):
        """a residue is renumbered through the setter of its RESI instruction: the atoms in it are found under their new names"""
        cands = [i for i, e in enumerate(self.ents) if e.kind == 'RESI' and not e.absorbed and getattr(e.obj, 'residue_number', 0) > 0 and getattr(e.obj, 'residue_class', '')]
        if not cands:
            return False
        i = self.rng.choice(cands)
        r = self.ents[i].obj
        used = set(getattr(e.obj, 'residue_number', None) for e in self.ents if e.kind == 'RESI')
        new = next(n for n in (self.rng.randint(20, 900) for _ in range(50)) if n not in used)
        cls = r.residue_class
        r.set('RESI %d %s' % (new, cls))
        self.mops.append(('upd', r.index, str(r).split('\n')))
        self.ents[i].lines = [['RESI', str(new), cls]]
        self.log.append(('resi', new, cls))
        return True

    OPS = ['add_line', 'insert_anis', 'delete_atom', 'rename', 'element', 'isotropic', 'plan', 'cycles', 'wght', 'acta', 'frag', 'grow', 'resi', 'add_atom']

    def step(self, name=None):
        name = name or self.rng.choice(self.OPS)
        return name if getattr(self, 'op_' + name)() else None


def sfac_after_add(lines, el):
    """SFACTable.__repr__ after add_element: plain elements share a line, so the new element joins the last line if that is a
    plain line, else it gets its own"""
    lines = [list(l) for l in lines]
    last = lines[-1]
    if all(t.isalpha() for t in last[1:]):
        last.append(el)
    else:
        lines.append(['SFAC', el])
    return lines


def duplicate_file(rng):
    """two residues that hold atoms with identical text lines (a copied residue that has not been moved yet)"""
    lines = ['TITL duplicates', 'CELL 0.71073 10.5 11.2 12.3 90 95.5 90', 'ZERR 4 0.001 0.002 0.003 0.01 0.02 0.03', 'LATT 1', 'SFAC C H O N', 'UNIT 16 20 4 2',
             'L.S. 10', 'PLAN 20', 'WGHT 0.05 0.3', 'FVAR 1.0 0.6', 'FVAR 0.3']
    body = ['%s %d %.5f %.5f %.5f 11.00000 0.04' % (n, s, rng.random(), rng.random(), rng.random()) for n, s in (('C1', 1), ('C2', 1), ('O1', 3), ('H1', 2))]
    lines += ['O9 3 0.5 0.5 0.5 11.0 0.05']
    for r in (1, 2, 3):
        lines += ['RESI %d TOL' % r] + body
    lines += ['RESI 0', 'HKLF 4', 'END']
    return '\n'.join(lines) + '\n'
