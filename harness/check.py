"""./check <ID> [--tier quick|thorough] [--replay file]"""
import argparse
import importlib
import io
import json
import os
import sys
import traceback
import contextlib

import common


def main():
    ap = argparse.ArgumentParser()
    ap.add_argument('pid')
    ap.add_argument('--tier', default=os.environ.get('VERIF_TIER', 'quick'))
    ap.add_argument('--replay', default=None)
    a = ap.parse_args()
    if a.pid == 'setup':
        import trace_kernels
        rep = trace_kernels.regenerate(validate=False)
        for f, r in rep.items():
            if not r['ok']:
                print('trace translator failed on %s: %s' % (f, r['errors']))
        ok, log = common.coq_build()
        print(log[-2000:])
        sys.exit(0 if ok else 1)
    tier = a.tier if a.tier in ('quick', 'thorough') else 'quick'
    seed = int(os.environ.get('VERIF_SEED', '20261001') or 20261001)
    pid = a.pid.upper()
    ctx = common.Ctx(pid, tier, seed)
    mod = importlib.import_module('props.' + pid.lower())
    # watchdog: a check that hangs (e.g. a generator loop) is reported as broken instead of blocking the caller
    import signal
    limit = int(os.environ.get('VERIF_WATCHDOG', '1500' if tier == 'quick' else '10800'))

    def on_alarm(signum, frame):
        raise TimeoutError('check exceeded the watchdog limit of %d s' % limit)
    signal.signal(signal.SIGALRM, on_alarm)
    signal.alarm(limit)
    try:
        if a.replay:
            rp = json.load(open(a.replay))
            rc = mod.replay(ctx, rp)
            ctx.cleanup()
            sys.exit(rc)
        mod.run(ctx)
    except Exception:
        tb = traceback.format_exc()
        sys.stderr.write(tb)
        ctx.broken.append('check machinery raised: ' + tb.strip().split('\n')[-1])
        ctx.notes['traceback'] = tb[-3000:]
    rc = common.finish(ctx)
    print('%s %s tier=%s seed=%d obligations=%d discharged=%d evaluations=%d violations=%d known=%d wall=%.1fs' % (
        'OK' if rc == 0 else 'FAIL', pid, tier, seed, ctx.obligations, ctx.discharged,
        ctx.cov.get('evaluations', 0), len(ctx.violations) - len(ctx.known_hits), len(set(ctx.known_hits)),
        __import__('time').time() - ctx.t0))
    sys.exit(rc)


if __name__ == '__main__':
    main()
